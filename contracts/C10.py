"""C10 - object and probe constraints always yield physically admissible models.

Functions under contract (VCs generated from their real source):
  diffractive_imaging.object_models : ObjectConstraints.apply_hard_constraints, ObjectPixelated.obj
  tomography.object_models          : ObjectConstraints.apply_hard_constraints
  diffractive_imaging.constraints   : BaseConstraints.__init__, constraints (getter, setter), add_constraint  - every model owns its dict
  diffractive_imaging.ptychography  : Ptychography.reconstruct (prologue: the constraints passed to THIS call are in force, also after its reset)
  diffractive_imaging.probe_models  : ProbeBase.set_initial_probe (history pre-state), ProbeConstraints._probe_orthogonalization_constraint,
                                      ProbePixelated._apply_weights, ProbePixelated.initial_probe_weights (setter)
                                      ProbeConstraints.apply_hard_constraints (dispatcher), ProbePixelated.probe, ProbeDIP.probe
                                      (stack mode count and declared num_probes are independent symbols)

Object constraints are verified pointwise over ONE GENERIC PIXEL of a tensor of symbolic shape (complex entries as (re, im);
the global mean phase is the Sigma-term the code computes, i.e. a free real).  The probe functions are verified in an abstract
complex inner-product space (pyvc/lib/c10_models.py): pixel sums are the only observations of an image.
"""
from __future__ import annotations

import z3

from pyvc import values as V
from pyvc import reals
from pyvc.values import Sym, SymArr, Obj, S, lift
from pyvc.interp import NS, LoopSpec
from pyvc.registry import Contract, resolve
from pyvc.runner import Lemma, Bounded
from pyvc.lib import torch_ as tm
from pyvc.lib import c10_models as cm
from pyvc.lib.c10_models import CT, AT, AList, rterm, ip
from .common import registry, forall, implies, AND, OR, NOT

LEVEL = "other"  # open known findings: some obligations are refuted on the current tree, so "every obligation discharged" does not hold (see known_findings.jsonl)
# the runner stores a printed sample of every goal; z3's Python pretty-printer is slow on the large real-arithmetic terms of this
# property, so printing (only printing - terms, SMT-LIB text and hashes are unaffected) is abbreviated
z3.set_option(max_depth=7, max_args=10, max_lines=14, max_width=160)
OM = "quantem.diffractive_imaging.object_models"
PM = "quantem.diffractive_imaging.probe_models"
TM = "quantem.tomography.object_models"
CN = "quantem.diffractive_imaging.constraints"
I, Rl = z3.Int, z3.Real

OP = resolve(f"{OM}:ObjectPixelated")
TOC = resolve(f"{TM}:ObjectConstraints")
PP = resolve(f"{PM}:ProbePixelated")


def make_registry():
    reg = registry()
    tm.install(reg)
    cm.install(reg)
    _install_grad_mode_model(reg)
    for c in CONTRACTS:
        reg.add_contract(c)
    for q in (f"{OM}:ObjectBase.obj_type", f"{CN}:BaseConstraints.constraints", f"{OM}:ObjectPixelated.num_slices",
              f"{OM}:ObjectBase.mask", f"{TM}:ObjectConstraints.hard_constraints",
              f"{PM}:ProbeBase.mean_diffraction_intensity", f"{PM}:ProbeBase.device", f"{PM}:ProbeBase.num_probes",
              f"{PM}:ProbePixelated.initial_probe_weights", f"{PM}:ProbeBase._to_torch"):
        reg.inline.add(q)
    import quantem.core.utils.validators as val

    def m_validate_tensor(interp, value, name=None, dtype=None, ndim=None, shape=None, expand_dims=False):
        """TRUSTED (quantem helper, not under contract): validate_tensor returns the same numbers as a torch tensor."""
        if isinstance(value, SymArr):
            r = value.copy()
            r.pylist = False
            import torch

            r.as_type = torch.Tensor
            return r
        if V.contains_sym(value):
            raise V.OutOfSubset("validate_tensor on this symbolic value")
        return interp.native(val.validate_tensor, value, name, dtype, ndim, shape, expand_dims)

    reg.models[val.validate_tensor] = m_validate_tensor

    from pyvc.lib import super_ as _super

    _super.install(reg)
    # `super().__init__` inside BaseConstraints.__init__ resolves along the real MRO to ObjectBase / ProbeBase.__init__: collaborators
    # outside this contract (ASSUMED FRAME: they run BEFORE `_constraints` is assigned and never touch DEFAULT_CONSTRAINTS)
    reg.opaque_calls = set(getattr(reg, "opaque_calls", ())) | {f"{OM}:ObjectBase.__init__", f"{PM}:ProbeBase.__init__"}
    import torch as _torch
    from pyvc.interp import RaiseSig as _RaiseSig

    def m_module_getattr(interp, obj, name):
        """nn.Module.__getattr__ (only reached when normal lookup failed): parameters / buffers / sub-modules live in the abstract
        object's fields as well, so a miss is an AttributeError."""
        if isinstance(obj, Obj):
            for reg_name in ("_parameters", "_buffers", "_modules"):
                d = obj.fields.get(reg_name)
                if isinstance(d, dict) and name in d:
                    return d[name]
            raise _RaiseSig(AttributeError(name))
        return NotImplemented

    reg.models[_torch.nn.Module.__getattr__] = m_module_getattr
    reg.ctor_models[dict] = lambda interp, *a, **k: dict(*a, **k)  # python dicts are real dicts (symbolic values, concrete keys)
    import quantem.diffractive_imaging.probe_models as pmod

    reg.models[pmod.validate_tensor] = m_validate_tensor
    install_recon(reg)
    return reg


def pick(ctx, name, options):
    """fork over concrete alternatives"""
    options = list(options)
    for o in options[:-1]:
        if ctx.branch(ctx.fresh(f"{name}_is_{o}", "bool").t):
            return o
    return options[-1]


def flag(ctx, name):
    return bool(ctx.branch(ctx.fresh(name, "bool").t))


def rr(x):
    return rterm(x)


def sq(t):
    return t * t


# ================================================================================================================
# 1. ObjectConstraints.apply_hard_constraints (diffractive imaging)
# ================================================================================================================

DEFAULT_OBJ_CONSTRAINTS = dict(OP.DEFAULT_CONSTRAINTS)


def ahc_setup(ctx, types=("complex", "pure_phase", "potential"), pos_options=(True, False)):
    import torch

    typ = pick(ctx, "typ", list(types))
    has_mask = flag(ctx, "mask_given")
    fov = flag(ctx, "apply_fov_mask")
    tie = flag(ctx, "identical_slices")
    pos = fix = False
    factor = 1.0
    if typ == "potential":
        pos = pick(ctx, "positivity", list(pos_options))
        fix = flag(ctx, "fix_potential_baseline")
        if fix:
            factor = ctx.fresh("baseline_factor", "real")
    Sn, H, W = ctx.fresh("S", "int"), ctx.fresh("H", "int"), ctx.fresh("W", "int")
    for d in (Sn, H, W):
        ctx.assume(d.t >= 1)
    shape = (Sn, H, W)
    if typ == "potential":
        obj = ctx.fresh_arr("obj", shape, "real")
        obj.as_type = torch.Tensor
    else:
        obj = cm.fresh_complex(ctx, "obj", shape)
    mask = None
    if has_mask:
        mask = ctx.fresh_arr("mask", shape, "real")
        mask.as_type = torch.Tensor
    cons = dict(DEFAULT_OBJ_CONSTRAINTS)
    cons.update(positivity=pos, fix_potential_baseline=fix, fix_potential_baseline_factor=factor, identical_slices=tie,
                apply_fov_mask=fov, gaussian_sigma=None, q_lowpass=None, q_highpass=None)
    me = Obj(OP, dict(_obj_type=typ, _constraints=cons, _obj=obj, _mask=mask))
    # the generic pixel (s0, i0, j0) and a second generic slice s1
    px = [ctx.fresh(n, "int") for n in ("s0", "i0", "j0", "s1")]
    for p, d in zip(px, (Sn, H, W, Sn)):
        ctx.assume(AND(p.t >= 0, p.t < d.t))
    case = f"{typ}{',mask' if has_mask else ''}{',fov' if fov else ''}{',tie' if tie else ''}{',pos' if pos else ''}{',fixbase' if fix else ''}"
    return NS(self=me, obj=obj, mask=mask, typ=typ, has_mask=has_mask, fov=fov, tie=tie, pos=pos, fix=fix, factor=factor,
              dims=shape, px=px, cons=cons, case=case)


def ahc_bind_flags(s):
    """At a call site only self/obj/mask are bound: recover the configuration from the object."""
    if hasattr(s, "typ"):
        return s
    me = s.self
    cons = me.fields["_constraints"]
    s.typ = me.fields["_obj_type"]
    s.has_mask = s.mask is not None
    s.fov = bool(cons["apply_fov_mask"])
    s.tie = bool(cons["identical_slices"])
    s.pos = bool(cons.get("positivity", True))
    s.fix = bool(cons["fix_potential_baseline"])
    s.cons = cons
    s.dims = s.obj.shape
    return s


def mask_range(mask, dims):
    a, b, c = I("a!m"), I("b!m"), I("c!m")
    m = rr(mask.fn(a, b, c))
    return forall([a, b, c], implies(AND(a >= 0, a < lift(dims[0]), b >= 0, b < lift(dims[1]), c >= 0, c < lift(dims[2])), AND(m >= 0, m <= 1)), patterns=[m])


def ahc_requires(s):
    s = ahc_bind_flags(s)
    out = []
    if s.mask is not None:
        if getattr(s, "mode", "verify") == "verify" and hasattr(s, "px"):
            # the body is verified at the generic pixels only: the (weaker, quantifier-free) instance of the precondition suffices
            s0, i0, j0, s1 = [lift(x) for x in s.px]
            vals = [rr(s.mask.fn(s0, i0, j0)), rr(s.mask.fn(s1, i0, j0))]
            out.append(("fov-mask-in-[0,1]", AND(*[AND(v >= 0, v <= 1) for v in vals])))
        else:
            out.append(("fov-mask-in-[0,1]", mask_range(s.mask, s.dims)))
        out.append(("mask-shape", AND(*[lift(x) == lift(y) for x, y in zip(s.mask.shape, s.dims)])))
    out.append(("no-smoothing-filters", s.cons.get("gaussian_sigma") is None and not s.cons["q_lowpass"] and not s.cons["q_highpass"]))
    out.append(("obj-has-num_slices-slices", lift(s.obj.shape[0]) == lift(s.self.fields["_obj"].shape[0])))
    return out


def ahc_snapshot(s):
    o = s.obj
    w = (o.writes, o.re.writes, o.im.writes) if isinstance(o, CT) else (o.writes,)
    return NS(obj_writes=w, mask_writes=None if s.mask is None else s.mask.writes)


def amp_sq(x, p):
    """|x[p]|^2 of a complex (CT) value"""
    return sq(rr(x.re.fn(*p))) + sq(rr(x.im.fn(*p)))


def clamp01(t):
    return z3.If(t < 0, z3.RealVal(0), z3.If(t > 1, z3.RealVal(1), t))


def expected_pixel(s, p, masked):
    """The constrained value the statement implies for an UNTIED complex / pure-phase pixel p:
    amplitude A*M with A = clamp(|obj|, 0, 1) (complex) or 1 (pure phase), M = m^2 where the FOV mask is applied (the code
    multiplies by the mask twice) else 1; phase (theta - global mean phase) [* m where masked]."""
    o = s.obj
    re, im = rr(o.re.fn(*p)), rr(o.im.fn(*p))
    a_in = reals.F["sqrt"](re * re + im * im)
    A = clamp01(a_in) if s.typ == "complex" else z3.RealVal(1)
    mu = rr(o.angle().mean())
    theta = reals.F["atan2"](im, re)
    ph = theta - mu
    M = z3.RealVal(1)
    if masked:
        m = rr(s.mask.fn(*p))
        M = m * m
        ph = ph * m
    return A, M, ph


def type_claims(s, X, p, masked, tag):
    """The property's claims for an untied constrained tensor X at pixel p (labels carry the configuration class)."""
    out = []
    mtag = "fov-mask" if masked else "no-mask"
    if s.typ in ("complex", "pure_phase"):
        A, M, ph = expected_pixel(s, p, masked)
        a2 = amp_sq(X, p)
        xr, xi = rr(X.re.fn(*p)), rr(X.im.fn(*p))
        if s.typ == "complex":
            out.append((f"complex:amplitude<=1{tag}", a2 <= 1))
        elif not masked:
            out.append((f"pure_phase:amplitude=1[{mtag}]{tag}", a2 == 1))
        else:
            # literal statement; the code multiplies by the mask, so this is only true where m = 1 (triaged, see report)
            if "untied-source" not in tag:
                out.append((f"pure_phase:amplitude=1[{mtag}]", a2 == 1))
            out.append((f"pure_phase:amplitude=1-where-mask=1[{mtag}]{tag}", implies(rr(s.mask.fn(*p)) == 1, a2 == 1)))
            out.append((f"pure_phase:amplitude<=1[{mtag}]{tag}", a2 <= 1))
        out.append((f"{s.typ}:whole-view:amplitude=A*M[{mtag}]{tag}", a2 == sq(A * M)))
        out.append((f"{s.typ}:whole-view:phase=theta-mean(theta)[{mtag}]{tag}",
                    AND(xr == A * M * reals.F["cos"](ph), xi == A * M * reals.F["sin"](ph))))
    else:
        x = rr(X.fn(*p))
        if s.pos:
            out.append((f"potential:positivity=>value>=0{tag}", x >= 0))
        if not s.fix:
            v = rr(s.obj.fn(*p))
            e = z3.If(v < 0, z3.RealVal(0), v) if s.pos else v
            if masked:
                e = e * rr(s.mask.fn(*p))
            out.append((f"potential:whole-view:value{tag}", x == e))
    return out


def ahc_ensures(s):
    s = ahc_bind_flags(s)
    res = s.result
    masked = s.has_mask and s.fov
    Sn = lift(s.dims[0])
    out = []
    is_c = s.typ in ("complex", "pure_phase")
    if is_c != isinstance(res, CT):
        return [("result-kind-matches-object-type", False)]
    if s.mode == "verify":
        s0, i0, j0, s1 = [lift(x) for x in s.px]
        P0, P1 = (s0, i0, j0), (s1, i0, j0)
        wrap = wrap2 = lambda t: t
    else:
        s0, i0, j0, s1 = I("s0!q"), I("i0!q"), I("j0!q"), I("s1!q")
        P0, P1 = (s0, i0, j0), (s1, i0, j0)
        rng = AND(s0 >= 0, s0 < Sn, s1 >= 0, s1 < Sn, i0 >= 0, i0 < lift(s.dims[1]), j0 >= 0, j0 < lift(s.dims[2]))
        wrap2 = lambda t: forall([s0, i0, j0, s1], implies(rng, t))
        rng0 = AND(s0 >= 0, s0 < Sn, i0 >= 0, i0 < lift(s.dims[1]), j0 >= 0, j0 < lift(s.dims[2]))
        wrap = lambda t: forall([s0, i0, j0], implies(rng0, t))
    out.append((f"{s.typ}:result-shape", AND(*[lift(x) == lift(y) for x, y in zip(res.shape, s.dims)])))
    if not s.tie:
        out += [(l, wrap(t)) for l, t in type_claims(s, res, P0, masked, "")]
    else:
        # single slice: tying is the identity
        out += [(l, wrap(implies(Sn == 1, t))) for l, t in type_claims(s, res, P0, masked, "[tie,S=1]")]
        # several slices: the result is the slice mean of the untied constrained object `src`
        if is_c:
            same = AND(rr(res.re.fn(*P0)) == rr(res.re.fn(*P1)), rr(res.im.fn(*P0)) == rr(res.im.fn(*P1)))
        else:
            same = rr(res.fn(*P0)) == rr(res.fn(*P1))
        out.append((f"{s.typ}:identical_slices:all-slices-equal", wrap2(same)))
        if s.mode == "verify":
            src = s.ctx.ghost.get("c10_mean_src")
            if src is None:
                out.append((f"{s.typ}:identical_slices:result-is-slice-mean(ghost source recorded)", implies(Sn > 1, False)))
            else:
                out += [(l, implies(Sn > 1, t)) for l, t in type_claims(s, src, P1, masked, "[tie,S>1,untied-source]")]
                mean = src.mean(dim=0, keepdim=True)
                Pm = (z3.IntVal(0), i0, j0)
                if is_c:
                    eq = AND(rr(res.re.fn(*P0)) == rr(mean.re.fn(*Pm)), rr(res.im.fn(*P0)) == rr(mean.im.fn(*Pm)))
                else:
                    eq = rr(res.fn(*P0)) == rr(mean.fn(*Pm))
                out.append((f"{s.typ}:identical_slices:result-is-slice-mean-of-untied-object", implies(Sn > 1, eq)))
                # no amplitude claim on the tied object itself: the property's quantifier says slice tying is only claimed to tie slices
    # frame: the raw parameter tensor and the mask are not written
    o = s.obj
    w = (o.writes, o.re.writes, o.im.writes) if isinstance(o, CT) else (o.writes,)
    out.append((f"{s.typ}:frame:raw-object-not-written", w == s.old.obj_writes))
    if s.mask is not None:
        out.append((f"{s.typ}:frame:mask-not-written", s.mask.writes == s.old.mask_writes))
    return out


def ahc_result(ctx, s):
    import torch

    s = ahc_bind_flags(s)
    if s.typ in ("complex", "pure_phase"):
        return cm.fresh_complex(ctx, "obj2", s.dims)
    r = ctx.fresh_arr("obj2", s.dims, "real")
    r.as_type = torch.Tensor
    return r


def _ahc_contract(types, pos_options=(True, False)):
    return Contract(
        f"{OM}:ObjectConstraints.apply_hard_constraints", setup=lambda ctx: ahc_setup(ctx, types, pos_options), requires=ahc_requires,
        ensures=ahc_ensures, snapshot=ahc_snapshot, result=ahc_result, max_paths=4000)


# one function, four verification units (configuration families); every label carries its object type
C_AHC = _ahc_contract(("complex",))
C_AHC_PURE = _ahc_contract(("pure_phase",))
C_AHC_POT_POS = _ahc_contract(("potential",), (True,))
C_AHC_POT_NOPOS = _ahc_contract(("potential",), (False,))
AHC_ALL = [C_AHC, C_AHC_PURE, C_AHC_POT_POS, C_AHC_POT_NOPOS]


# ---- ObjectPixelated.obj : the object handed to the forward model ------------------------------------------------------


def objprop_setup(ctx):
    s = ahc_setup(ctx)
    s.obj_param = s.obj
    return NS(self=s.self, inner=s, px=s.px, case=s.case)


def objprop_ensures(s):
    t = s.inner
    t.result, t.mode, t.ctx = s.result, "verify", s.ctx
    t.old = ahc_snapshot(t)
    # the claims of the statement on obj_model.obj (frame clauses are the callee's)
    keep = ("complex:amplitude", "pure_phase:amplitude=1[no-mask]", "pure_phase:amplitude<=1", "pure_phase:amplitude=1-where", "potential:positivity",
            "identical_slices:all-slices-equal")
    return [(l, g) for l, g in ahc_ensures(t) if any(k in l for k in keep) and "untied-source" not in l]


def objprop_requires(s):
    if s.mode != "verify":
        return []
    s.inner.mode = "caller"  # the callee's precondition has to be established for every pixel: keep the quantified form
    return ahc_requires(s.inner)


C_OBJPROP = Contract(f"{OM}:ObjectPixelated.obj.fget", setup=objprop_setup,
                     requires=lambda s: objprop_requires(s), ensures=objprop_ensures)


# ---- the same getter on an object WITH A PAST (round-5 seeded change C10_J: the constrained object was memoised under no_grad, keyed
# on the raw parameter only, so a read after a change of constraints / object type / mask returned the object constrained under the
# OLD settings).  The setup performs a first read through the real getter under other settings, with autograd on or off, then puts
# the settings of this case in place; the claims are the ones of the fresh-object contract.
def _install_grad_mode_model(reg):
    import torch

    def is_grad_enabled(interp):
        g = interp.ctx.ghost.get("grad_enabled")
        if g is None:
            return torch.is_grad_enabled()
        return bool(g)  # forks the path: the reader may run with or without autograd

    reg.models[torch.is_grad_enabled] = is_grad_enabled


def objprop_hist_setup(ctx):
    s = objprop_setup(ctx)
    ctx.ghost["grad_enabled"] = ctx.fresh("grad_enabled_during_the_reads", "bool")
    s.case = (s.case or "") + ",second-read-after-a-change-of-constraints"
    s.first_read_done = False
    return s


def objprop_hist_requires(s):
    reqs = objprop_requires(s)
    if s.mode != "verify" or s.first_read_done:
        return reqs
    s.first_read_done = True
    ctx, me = s.ctx, s.self
    from pyvc.registry import Contract as _C
    for lab, t in _C.labelled(C_OBJPROP_HIST, reqs):
        ctx.assume(t)  # the first read happens on a well-formed object as well
    getter = resolve(f"{OM}:ObjectPixelated.obj").fget
    final = dict(me.fields["_constraints"])
    other = dict(final)
    other.update(identical_slices=not final["identical_slices"], apply_fov_mask=not final["apply_fov_mask"],
                 positivity=not final.get("positivity", True))
    me.fields["_constraints"] = other
    ctx.interp.call(getter, [me], {})  # first read under other settings; its result is dropped (what it leaves behind is the point)
    me.fields["_constraints"] = final
    return reqs


C_OBJPROP_HIST = Contract(f"{OM}:ObjectPixelated.obj.fget", setup=objprop_hist_setup,
                          requires=lambda s: objprop_hist_requires(s), ensures=objprop_ensures)


# ================================================================================================================
# 2. tomography ObjectConstraints.apply_hard_constraints
# ================================================================================================================


def tom_setup(ctx):
    import torch

    pos = flag(ctx, "positivity")
    shr = flag(ctx, "shrinkage_set")
    shrink = ctx.fresh("shrinkage", "real") if shr else False
    dims = tuple(ctx.fresh(n, "int") for n in ("Z", "Y", "X"))
    for d in dims:
        ctx.assume(d.t >= 1)
    obj = ctx.fresh_arr("vol", dims, "real")
    obj.as_type = torch.Tensor
    hc = dict(TOC.DEFAULT_HARD_CONSTRAINTS)
    hc.update(positivity=pos, shrinkage=shrink)
    px = [ctx.fresh(n, "int") for n in ("z0", "y0", "x0")]
    for p, d in zip(px, dims):
        ctx.assume(AND(p.t >= 0, p.t < d.t))
    me = Obj(TOC, dict(_hard_constraints=hc))
    return NS(self=me, obj=obj, pos=pos, shr=shr, shrink=shrink, px=px, dims=dims, case=f"pos={int(pos)},shrink={int(shr)}")


def tom_ensures(s):
    res = s.result
    p = [lift(x) for x in s.px]
    x = rr(res.fn(*p))
    v = rr(s.obj.fn(*p))
    out = [("tomography:result-shape", AND(*[lift(a) == lift(b) for a, b in zip(res.shape, s.dims)]))]
    if s.pos:
        out.append(("tomography:positivity=>value>=0", x >= 0))
    e = z3.If(v < 0, z3.RealVal(0), v) if s.pos else v
    if s.shr:
        sh = rr(s.shrink)
        # `if shrinkage:` is a truthiness test: shrinkage == 0.0 switches it off
        e2 = z3.If(e - sh > 0, e - sh, z3.RealVal(0))
        out.append(("tomography:shrinkage!=0=>value>=0", implies(sh != 0, x >= 0)))
        e = z3.If(sh != 0, e2, e)
    out.append(("tomography:whole-view:value", x == e))
    out.append(("tomography:frame:input-volume-not-written", s.obj.writes == s.old))
    out.append(("tomography:result-is-a-new-tensor", res is not s.obj))
    return out


C_TOM = Contract(f"{TM}:ObjectConstraints.apply_hard_constraints", setup=tom_setup, ensures=tom_ensures,
                 snapshot=lambda s: s.obj.writes)


# ================================================================================================================
# 3. Gram-Schmidt orthogonalisation in the abstract inner-product space
# ================================================================================================================


def assume_ip_axioms(ctx):
    for _lab, ax in cm.ip_axioms():
        ctx.assume(ax)


def unit_norms(U, k):
    """H(k): none of the first k normalised residuals is shorter than one, i.e. no residual norm fell below the clamp_min(1e-12)
    floor (quantitative linear independence of the input modes - the property's precondition).  The other half, norm <= 1, is
    PROVED from the code (loop invariant `normalised-residuals-have-norm<=1`), so H together with the invariant gives unit norms."""
    c = I("c!g")
    return forall([c], implies(AND(c >= 0, c < k), ip(U(c), U(c))[0] >= 1))


def norms_le_1(U, k):
    c = I("c!h")
    return forall([c], implies(AND(c >= 0, c < k), ip(U(c), U(c))[0] <= 1))


def gs_setup(ctx):
    n = ctx.fresh("n_probes", "int")
    ctx.assume(n.t >= 1)
    assume_ip_axioms(ctx)
    P = cm.fresh_stack(ctx, "start_probe", n)
    me = Obj(PP, {})
    a0, b0 = ctx.fresh("a0", "int"), ctx.fresh("b0", "int")
    for x in (a0, b0):
        ctx.assume(AND(x.t >= 0, x.t < n.t))
    return NS(self=me, start_probe=P, n=n, a0=a0, b0=b0)


_NS_BOOKKEEPING = ("pre", "ctx", "interp", "k", "env", "loop_iterable", "loop_targets", "loop_carried")


def _the_basis(s):
    """Name-independent: THE list of images the function is building = the unique local bound to a list of abstract images
    (a Python list literal before the first iteration, the symbolic list afterwards)."""
    cands = {}
    for n, v in s.__dict__.items():
        if n in _NS_BOOKKEEPING:
            continue
        if isinstance(v, AList) or isinstance(v, list) and all(isinstance(e, AT) and e.lead == () for e in v):
            cands[id(v)] = v
    it = s.__dict__.get("loop_iterable")
    if isinstance(it, AList):
        cands[id(it)] = it
    return cm.as_alist(next(iter(cands.values()))) if len(cands) == 1 else None


def _the_residual(s):
    """Name-independent: the running residual = the unique abstract image that the inner loop body reassigns and that was bound
    before that loop."""
    c = [v for v in s.loop_carried.values() if isinstance(v, AT) and v.lead == ()]
    return c[0] if len(c) == 1 else None


def gs_outer_inv(s):
    L = _the_basis(s)
    if L is None:
        return [("exactly-one-list-of-modes-is-being-built", False)]
    k = lift(s.k)
    a, b = I("a!g"), I("b!g")
    r, i = ip(L.fn(a), L.fn(b))
    orth = forall([a, b], implies(AND(a >= 0, a < b, b < k), AND(r == 0, i == 0)))
    return [("len(basis)=i", lift(L.n) == k),
            ("normalised-residuals-have-norm<=1", norms_le_1(L.fn, k)),
            ("unit-norms=>basis[:i]-pairwise-orthogonal", implies(unit_norms(L.fn, k), orth))]


def gs_inner_inv(s):
    L, res = _the_basis(s), _the_residual(s)
    if L is None or res is None:
        return [("the-inner-loop-carries-one-residual-image-and-reads-one-list-of-modes", False)]
    n, j = lift(L.n), lift(s.k)      # len(basis) = outer index (outer invariant)
    a = I("a!g")
    r, im = ip(L.fn(a), res.fn())
    return [("unit-norms=><u_a,residual>=0-for-a<j", implies(unit_norms(L.fn, n), forall([a], implies(AND(a >= 0, a < j), AND(r == 0, im == 0)))))]


def gs_havoc_list(s):
    """the list is mutated through .append (not assigned): rebind every local that holds it to one arbitrary symbolic list"""
    names = [n for n, v in s.__dict__.items() if n not in _NS_BOOKKEEPING and (isinstance(v, AList) or isinstance(v, list) and all(isinstance(e, AT) for e in v))]
    if len({id(s.__dict__[n]) for n in names}) != 1:
        raise V.OutOfSubset("Gram-Schmidt loop: expected exactly one list of images being built")
    new = cm.fresh_alist(s.ctx, "U", s.ctx.fresh("len_U", "int"))
    for n in names:
        s.env.assign(n, new)


def gs_post(P, R, n, H, SG, TAU, a, b, wrap=lambda t: t):
    """the orthogonalisation postconditions for input stack P and output stack R at mode indices a, b"""
    ra, rb = R.fn(a), R.fn(b)
    pr, pi_ = ip(ra, rb)
    na, nb = ip(ra, ra)[0], ip(rb, rb)[0]
    src = P.fn(SG(a))
    return [
        ("modes-mutually-orthogonal", wrap(implies(AND(H, a != b), AND(pr == 0, pi_ == 0)))),
        ("mode-intensity-restored:|out[k]|^2=|in[sigma(k)]|^2", wrap(implies(H, na == ip(src, src)[0]))),
        ("sigma-is-a-permutation(same-multiset-of-intensities)", wrap(AND(SG(a) >= 0, SG(a) < n, TAU(SG(a)) == a, TAU(a) >= 0, TAU(a) < n, SG(TAU(a)) == a))),
        ("intensities-descending", wrap(implies(a < b, na >= nb))),
    ]


def gs_result(ctx, s):
    """call sites: a fresh stack with ghost sigma / tau / H (H = no residual norm was clamped)"""
    n = s.start_probe.lead[0]
    R = cm.fresh_stack(ctx, "orthogonalised", n)
    nm = ctx.fresh_name("gs_sigma")
    R.gs_ghost = NS(H=z3.Bool(ctx.fresh_name("gs_no_residual_clamped")), SG=z3.Function(nm, z3.IntSort(), z3.IntSort()),
                    TAU=z3.Function(nm + "_inv", z3.IntSort(), z3.IntSort()), src=s.start_probe)
    return R


def _quant2(n):
    a, b = I("a!gq"), I("b!gq")
    return a, b, (lambda t: forall([a, b], implies(AND(a >= 0, a < n, b >= 0, b < n), t)))


def gs_ensures(s):
    if s.mode != "verify":
        R, g = s.result, s.result.gs_ghost
        n = lift(s.start_probe.lead[0])
        a, b, wrap = _quant2(n)
        return gs_post(s.start_probe, R, n, g.H, g.SG, g.TAU, a, b, wrap)
    res = s.result
    n = lift(s.n)
    g = s.ctx.ghost
    srt, st = g.get("c10_argsort"), g.get("c10_stack_src")
    if not isinstance(res, AT) or len(res.lead) != 1:
        return [("returns-a-stack-of-modes", False)]
    if srt is None or st is None:
        return [("ghosts-recorded(argsort permutation, orthonormal basis)", False)]
    SG, TAU = srt.sigma, srt.tau
    _ln, U = st
    a0, b0 = lift(s.a0), lift(s.b0)
    H = unit_norms(U, n)
    ra, rb = res.fn(a0), res.fn(b0)
    P = s.start_probe
    pr, pi_ = ip(ra, rb)
    na, nb = ip(ra, ra)[0], ip(rb, rb)[0]
    src = P.fn(SG(a0))
    return [
        ("number-of-modes-unchanged", lift(res.lead[0]) == n),
        ("modes-mutually-orthogonal", implies(AND(H, a0 != b0), AND(pr == 0, pi_ == 0))),
        ("mode-intensity-restored:|out[k]|^2=|in[sigma(k)]|^2", implies(H, na == ip(src, src)[0])),
        ("sigma-is-a-permutation(same-multiset-of-intensities)", AND(SG(a0) >= 0, SG(a0) < n, TAU(SG(a0)) == a0, TAU(a0) >= 0, TAU(a0) < n, SG(TAU(a0)) == a0)),
        ("intensities-descending", implies(a0 < b0, na >= nb)),
        ("frame:input-stack-not-written", P.writes == s.old),
    ]


C_GS = Contract(
    f"{PM}:ProbeConstraints._probe_orthogonalization_constraint", setup=gs_setup, ensures=gs_ensures, result=gs_result,
    snapshot=lambda s: s.start_probe.writes,
    loops={0: LoopSpec(inv=gs_outer_inv, havoc={"<the list being appended to>": gs_havoc_list}),
           1: LoopSpec(inv=gs_inner_inv)},
)


# ================================================================================================================
# 4. ProbePixelated._apply_weights / initial_probe_weights setter
# ================================================================================================================


def aw_setup(ctx):
    import torch

    n = pick(ctx, "num_probes", [1, 2, 3, 4, 5])
    assume_ip_axioms(ctx)
    probes = cm.fresh_stack(ctx, "probes", n)
    I0 = ctx.fresh("mean_intensity", "real")
    w = ctx.fresh_arr("weights", (n,), "real")
    w.as_type = torch.Tensor
    me = Obj(PP, dict(_num_probes=n, _mean_diffraction_intensity=I0, _initial_probe_weights=w, _device="cpu"))
    return NS(self=me, probe_array=probes, n=n, I0=I0, w=w, case=f"n={n}")


def mode_norm2(x, k):
    v = x.fn(z3.IntVal(k))
    return ip(v, v)[0]


def aw_requires(s):
    n = s.n
    w = [rr(s.w.fn(z3.IntVal(k))) for k in range(n)]
    return [("mean-intensity>0", rr(s.I0) > 0),
            ("weights>=0", AND(*[x >= 0 for x in w])),
            ("weights-sum-to-1(setter contract)", sum(w) == 1),
            ("every-mode-is-non-zero", AND(*[mode_norm2(s.probe_array, k) > 0 for k in range(n)]))]


def aw_snapshot(s):
    f = s.probe_array.fn
    return NS(fn=f, norms=[ip(f(z3.IntVal(k)), f(z3.IntVal(k)))[0] for k in range(s.n)])


def aw_ensures(s):
    res, n = s.result, s.n
    if not isinstance(res, AT) or len(res.lead) != 1:
        return [("returns-a-stack-of-modes", False)]
    I0 = rr(s.I0)
    out = [("number-of-modes", lift(res.lead[0]) == n)]
    for k in range(n):
        wk = rr(s.w.fn(z3.IntVal(k)))
        v = res.fn(z3.IntVal(k))
        out.append((f"mode-{k}:intensity=weight*mean-intensity", ip(v, v)[0] == wk * I0))
        # with Parseval (A5) the diffraction intensity sum |fft2_ortho(probe_k)|^2 is the same number
        fv = cm.av_ft(v)
        out.append((f"mode-{k}:diffraction-intensity=weight*mean-intensity", ip(fv, fv)[0] == wk * I0))
        src = s.old.fn(z3.IntVal(k))
        ok = v.kind == "lin" and src.kind == "lin" and len(v.terms) == 1 and len(src.terms) == 1 and v.terms[0][2].eq(src.terms[0][2])
        if not ok:
            out.append((f"mode-{k}:non-negative-real-multiple-of-the-input-mode", False))
        else:
            out.append((f"mode-{k}:non-negative-real-multiple-of-the-input-mode", AND(v.terms[0][0] >= 0, v.terms[0][1] == 0)))
    out.append(("frame:aliasing(in-place scaling of the argument is allowed: writes<=1)", s.probe_array.writes <= 1))
    return out


C_AW = Contract(f"{PM}:ProbePixelated._apply_weights", setup=aw_setup, requires=aw_requires, ensures=aw_ensures, snapshot=aw_snapshot)


def ipw_setup(ctx):
    n = pick(ctx, "num_probes", [1, 2, 3, 4, 5])
    mode = pick(ctx, "weights", ["none", "given", "wrong_len"])
    me = Obj(PP, dict(_num_probes=S(n)))  # Sym literal: keeps the default list arithmetic exact (A1 on literals)
    if mode == "none":
        weights = None
    elif mode == "given":
        weights = ctx.fresh_arr("w", (n,), "real")
        weights.pylist = True
    else:
        m = ctx.fresh("len_w", "int")
        ctx.assume(AND(m.t >= 0, m.t != n))
        weights = ctx.fresh_arr("w", (m,), "real")
        weights.pylist = True
    return NS(self=me, weights=weights, n=n, wmode=mode, case=f"n={n},{mode}")


def ipw_requires(s):
    if s.wmode != "given":
        return []
    w = [rr(s.weights.fn(z3.IntVal(k))) for k in range(s.n)]
    return [("weights>=0", AND(*[x >= 0 for x in w])), ("weights-not-all-zero", sum(w) > 0)]


def ipw_ensures(s):
    W = s.self.fields.get("_initial_probe_weights")
    n = s.n
    if not isinstance(W, SymArr) or W.ndim != 1 or V._dim_lit(W.shape[0]) != n:
        return [("stores-a-length-num_probes-weight-tensor", False)]
    vals = [rr(W.fn(z3.IntVal(k))) for k in range(n)]
    out = [("weights-sum-to-1", sum(vals) == 1), ("weights-nonnegative", AND(*[v >= 0 for v in vals]))]
    if s.wmode == "given":
        w = [rr(s.weights.fn(z3.IntVal(k))) for k in range(n)]
        out.append(("relative-weights-as-requested", AND(*[vals[k] * sum(w) == w[k] for k in range(n)])))
        if n >= 2:
            two_nonzero = OR(*[AND(w[i] > 0, w[j] > 0) for i in range(n) for j in range(i + 1, n)])
            out.append(("explicit-weights-with>=2-non-zero-entries:stored-weights-sum-to-1-and-keep-the-requested-ratios",
                        implies(two_nonzero, AND(sum(vals) == 1, *[vals[i] * w[j] == vals[j] * w[i] for i in range(n) for j in range(i + 1, n)]))))
    else:
        out.append(("default:0.02-per-extra-mode", AND(*[vals[k] == z3.RealVal("1/50") for k in range(1, n)])))
    return out


C_IPW = Contract(f"{PM}:ProbePixelated.initial_probe_weights.fset", setup=ipw_setup, requires=ipw_requires, ensures=ipw_ensures,
                 raises={ValueError: lambda s: s.wmode == "wrong_len"})

# ================================================================================================================
# 5. constraint bookkeeping: every model owns its constraint dict (BaseConstraints.__init__ / constraints / add_constraint)
# ================================================================================================================
# Python dicts are real dicts in the interpreter, so identity (`is`) and aliasing are decided exactly.

BC = resolve(f"{CN}:BaseConstraints")
PCC = resolve(f"{PM}:ProbeConstraints")
CLASS_DEFAULTS = {OP: dict(OP.DEFAULT_CONSTRAINTS), PP: dict(PP.DEFAULT_CONSTRAINTS)}  # snapshot at import (before any run-time check)


def _same_items(d, e):
    return isinstance(d, dict) and isinstance(e, dict) and list(d.keys()) == list(e.keys()) and all(d[k] is e[k] or (not V.contains_sym((d[k], e[k])) and d[k] == e[k]) for k in d)


def bk_models(ctx):
    """which concrete model class + one other, already existing, model of the same class with its own dict"""
    base = pick(ctx, "model", [OP, PP])
    # hermetic stand-in for the class-level state: a throw-away subclass carrying its own copy of DEFAULT_CONSTRAINTS, so that a
    # defective body that writes into the class-level dict cannot leak into the checker process (same MRO, same name, same code)
    cls = type(base.__name__, (base,), {"DEFAULT_CONSTRAINTS": dict(CLASS_DEFAULTS[base]), "__module__": base.__module__})
    CLASS_DEFAULTS[cls] = dict(CLASS_DEFAULTS[base])
    other = Obj(cls, dict(_constraints=dict(cls.DEFAULT_CONSTRAINTS)))
    return cls, other


def bk_bind(s):
    """at a call site only the parameters are bound: the model class is the receiver's, there is no designated `other` model"""
    if not hasattr(s, "cls"):
        s.cls = s.self.cls
        s.other = None
        CLASS_DEFAULTS.setdefault(s.cls, dict(CLASS_DEFAULTS.get(s.cls.__mro__[1], s.cls.DEFAULT_CONSTRAINTS)))
    return s


def bk_frame(s, tag):
    cls = bk_bind(s).cls
    if s.other is None:
        return [(f"{tag}:class-defaults-unchanged", cls.DEFAULT_CONSTRAINTS == s.old.defaults)]
    return [(f"{tag}:class-defaults-unchanged", cls.DEFAULT_CONSTRAINTS == s.old.defaults and cls.DEFAULT_CONSTRAINTS == CLASS_DEFAULTS[cls]),
            (f"{tag}:other-model-unchanged", s.other.fields["_constraints"] == s.old.other and s.other.fields["_constraints"] is s.old.other_id)]


def bk_snapshot(s):
    bk_bind(s)
    if s.other is None:
        return NS(defaults=dict(s.cls.DEFAULT_CONSTRAINTS), other=None, other_id=None,
                  mine=dict(s.self.fields["_constraints"]), mine_id=s.self.fields["_constraints"])
    return NS(defaults=dict(s.cls.DEFAULT_CONSTRAINTS), other=dict(s.other.fields["_constraints"]), other_id=s.other.fields["_constraints"],
              mine=dict(s.self.fields["_constraints"]) if "_constraints" in s.self.fields else None, mine_id=s.self.fields.get("_constraints"))


def bcinit_setup(ctx):
    cls, other = bk_models(ctx)
    return NS(self=Obj(cls, {}), cls=cls, other=other, case=cls.__name__)


def bcinit_ensures(s):
    d = s.self.fields.get("_constraints")
    cls = s.cls
    return [("init:instance-dict-equals-class-defaults", isinstance(d, dict) and d == cls.DEFAULT_CONSTRAINTS),
            ("init:instance-dict-is-a-fresh-copy(not the class-level DEFAULT_CONSTRAINTS object)", d is not cls.DEFAULT_CONSTRAINTS
             and all(d is not k.__dict__.get("DEFAULT_CONSTRAINTS") for k in cls.__mro__)),
            ("init:instance-dict-not-shared-with-another-model", d is not s.other.fields["_constraints"]),
            ("init:loss-logs-are-fresh-empty-dicts", s.self.fields.get("_soft_constraint_loss") == {} and s.self.fields.get("_iter_constraint_losses") == {}
             and s.self.fields.get("_soft_constraint_loss") is not s.self.fields.get("_iter_constraint_losses"))] + bk_frame(s, "init")


C_BCINIT = Contract(f"{CN}:BaseConstraints.__init__", setup=bcinit_setup, ensures=bcinit_ensures, snapshot=bk_snapshot)


def _own(cls, other):
    return Obj(cls, dict(_constraints=dict(cls.DEFAULT_CONSTRAINTS)))


def getter_setup(ctx):
    cls, other = bk_models(ctx)
    return NS(self=_own(cls, other), cls=cls, other=other, case=cls.__name__)


C_BCGET = Contract(f"{CN}:BaseConstraints.constraints.fget", setup=getter_setup, snapshot=bk_snapshot,
                   ensures=lambda s: [("getter:returns-the-instance's-own-dict", s.result is s.self.fields["_constraints"] and s.result is s.old.mine_id),
                                      ("getter:own-dict-unchanged", s.self.fields["_constraints"] == s.old.mine)] + bk_frame(s, "getter"))


def _request(ctx, cls, allow_empty=True):
    """a constraint request: concrete keys (known / unknown), symbolic values"""
    keys = list(cls.DEFAULT_CONSTRAINTS)
    shape = pick(ctx, "request", ["one-known", "two-known", "unknown", "known-then-unknown"] + (["empty"] if allow_empty else []))
    val = lambda n: ctx.fresh(n, "bool")
    if shape == "empty":
        return shape, {}
    if shape == "one-known":
        return shape, {keys[0]: val("v0")}
    if shape == "two-known":
        return shape, {keys[-1]: val("v0"), keys[1 % len(keys)]: val("v1")}
    if shape == "unknown":
        return shape, {"no_such_constraint": val("v0")}
    return shape, {keys[0]: val("v0"), "no_such_constraint": val("v1")}


def setter_setup(ctx):
    cls, other = bk_models(ctx)
    shape, c = _request(ctx, cls)
    return NS(self=_own(cls, other), cls=cls, other=other, c=c, shape=shape, case=f"{cls.__name__},{shape}")


def _written(s, req, tag):
    mine = s.self.fields["_constraints"]
    out = [(f"{tag}:still-the-same-own-dict-object", mine is s.old.mine_id),
           (f"{tag}:requested-keys-hold-the-requested-values", all(k in mine and mine[k] is v for k, v in req.items())),
           (f"{tag}:all-other-keys-unchanged", all(mine[k] is s.old.mine[k] or mine[k] == s.old.mine[k] for k in s.old.mine if k not in req)
            and set(mine) == set(s.old.mine))]
    return out + bk_frame(s, tag)


def _bad(req, cls):
    return any(k not in cls.DEFAULT_CONSTRAINTS for k in req)


C_BCSET = Contract(f"{CN}:BaseConstraints.constraints.fset", setup=setter_setup, snapshot=bk_snapshot,
                   ensures=lambda s: _written(s, s.c, "setter"),
                   raises={KeyError: lambda s: _bad(s.c, s.cls)},
                   on_raise=lambda s, E: bk_frame(s, "setter:on-KeyError") + [("setter:on-KeyError:no-unknown-key-stored", set(s.self.fields["_constraints"]) == set(s.old.mine))])


def addc_setup(ctx):
    cls, other = bk_models(ctx)
    known = flag(ctx, "key_known")
    key = list(cls.DEFAULT_CONSTRAINTS)[2 % len(cls.DEFAULT_CONSTRAINTS)] if known else "no_such_constraint"
    return NS(self=_own(cls, other), cls=cls, other=other, key=key, value=ctx.fresh("value", "real"), case=f"{cls.__name__},{'known' if known else 'unknown'}")


C_BCADD = Contract(f"{CN}:BaseConstraints.add_constraint", setup=addc_setup, snapshot=bk_snapshot,
                   ensures=lambda s: _written(s, {s.key: s.value}, "add_constraint"),
                   raises={KeyError: lambda s: s.key not in bk_bind(s).cls.DEFAULT_CONSTRAINTS},
                   modifies=lambda ctx, s: s.self.fields["_constraints"].__setitem__(s.key, s.value),
                   on_raise=lambda s, E: bk_frame(s, "add_constraint:on-KeyError") + [("add_constraint:on-KeyError:own-dict-unchanged", s.self.fields["_constraints"] == s.old.mine)])

BOOKKEEPING = [C_BCINIT, C_BCGET, C_BCSET, C_BCADD]

# ================================================================================================================
# 6. ProbeBase.set_initial_probe: the intensity the probe is normalised to is THIS call's measured mean intensity
# ================================================================================================================
PBASE = resolve(f"{PM}:ProbeBase")


def sip_setup(ctx):
    import numpy as np
    import torch

    pre = pick(ctx, "pre_state", ["already-initialised-with-other-values", "fresh"])
    roi = pick(ctx, "roi", [(4, 6), (5, 6)])
    fields = dict(_device="cpu", _num_probes=2)
    old_m = None
    if pre != "fresh":
        # history: this probe model was initialised before, for another acquisition (other dose, other sampling)
        old_m = ctx.fresh("previous_mean_intensity", "real")
        ctx.assume(old_m.t > 0)
        fields.update(_roi_shape=np.array([4, 6]), _mean_diffraction_intensity=old_m, _reciprocal_sampling=torch.tensor([0.5, 0.25]))
    m = ctx.fresh("mean_diffraction_intensity", "real")
    me = Obj(PP, fields)
    return NS(self=me, roi_shape=roi, reciprocal_sampling=np.array([0.125, 0.0625]), mean_diffraction_intensity=m, device=None,
              pre=pre, old_m=old_m, case=f"{pre},roi={roi}")


def sip_conflict(s):
    return s.pre != "fresh" and tuple(s.roi_shape) != (4, 6)


def sip_ensures(s):
    import numpy as np

    f = s.self.fields
    m = f.get("_mean_diffraction_intensity")
    rs = f.get("_reciprocal_sampling")
    return [("mean_diffraction_intensity-is-the-value-passed-to-THIS-call", m is not None and lift(m) == lift(s.mean_diffraction_intensity)),
            ("reciprocal_sampling-is-the-value-passed-to-THIS-call", rs is not None and not V.contains_sym(rs)
             and np.allclose(np.asarray(rs, dtype=float), np.asarray(s.reciprocal_sampling, dtype=float))),
            ("roi_shape-is-the-value-passed-to-THIS-call", "_roi_shape" in f and tuple(int(x) for x in f["_roi_shape"]) == tuple(s.roi_shape))]


C_SIP = Contract(f"{PM}:ProbeBase.set_initial_probe", setup=sip_setup, ensures=sip_ensures,
                 raises={ValueError: lambda s: OR(sip_conflict(s), AND(not sip_conflict(s), lift(s.mean_diffraction_intensity) <= 0))})

# ================================================================================================================
# 7. Ptychography.reconstruct (prologue): the constraints in force when the epoch loop starts are the ones passed to THIS call
# ================================================================================================================
# Reuses the prologue machinery of contracts/C09.py (seeded / unseeded reconstruction object, opaque optimiser / scheduler /
# dataset collaborators, SimpleBatcher.__init__ and _reset_rng through their C09 contracts); here the object and probe models
# are abstract instances of the real model classes that own real constraint dicts, and reset_recon / the constraints setter are
# INTERPRETED (reset_recon ends by writing the class defaults into the object model).
from . import C09 as c09  # noqa: E402

PB = c09.PB
PTY = c09.PTY
OPTM = "quantem.core.ml.optimizer_mixin"
RECON_REQUESTS = ["object:identical_slices", "object:two-keys+probe", "probe-only", "empty", "dataset-only", "bad-category"]


def _hermetic(base):
    cls = type(base.__name__, (base,), {"DEFAULT_CONSTRAINTS": dict(CLASS_DEFAULTS[base]), "__module__": base.__module__})
    CLASS_DEFAULTS[cls] = dict(CLASS_DEFAULTS[base])
    return cls


def rc_base_setup(ctx):
    """the reconstruction object of the prologue (own copy, so that C09's evolving epoch contract does not move this one):
    seeded / unseeded object with a used generator (C09.reset_setup), opaque dataset, num_iters = 0"""
    from .common import opt_int

    s = c09.reset_setup(ctx)
    N = ctx.fresh("num_gpts", "int")
    ctx.assume(N.t >= 1)
    o = Obj(c09.PTC, dict(s.self.fields))
    o.fields.update(_dset=c09.OpaqueWith("dset", num_gpts=N), _val_ratio=0.0, _val_mode="grid", _batch_size=N, _verbose=0, verbose=0,
                    _iter_losses=[], _iter_val_losses=[])
    s.self = o
    s.reset = ctx.fresh("reset", "bool")
    s.batch_size = opt_int(ctx, "batch_size", lo=1)
    s.num_iters = 0
    s.N = N
    return s


def rc_setup(ctx):
    s = rc_base_setup(ctx)
    o = s.self
    ocls, pcls = _hermetic(OP), _hermetic(PP)
    # history: both models were configured by earlier calls to arbitrary values
    prior_o = {k: ctx.fresh("prior_obj_" + k, "real") for k in ocls.DEFAULT_CONSTRAINTS}
    prior_p = {k: ctx.fresh("prior_probe_" + k, "real") for k in pcls.DEFAULT_CONSTRAINTS}
    om, pm = Obj(ocls, dict(_constraints=dict(prior_o))), Obj(pcls, dict(_constraints=dict(prior_p)))
    o.fields.update(_obj_model=om, _probe_model=pm)
    kind = pick(ctx, "request", RECON_REQUESTS)
    v = lambda n: ctx.fresh(n, "bool")
    req = {"object:identical_slices": lambda: {"object": {"identical_slices": v("v0")}},
           "object:two-keys+probe": lambda: {"object": {"identical_slices": v("v0"), "apply_fov_mask": v("v1")}, "probe": {"orthogonalize_probe": v("v2")}},
           "probe-only": lambda: {"probe": {"orthogonalize_probe": v("v0")}},
           "empty": lambda: {},
           "dataset-only": lambda: {"dataset": {"descan_tv_weight": v("v0")}},
           "bad-category": lambda: {"objekt": {"identical_slices": v("v0")}}}[kind]()
    # every positional parameter up to `batch_size` is bound explicitly (the engine passes the setup's attributes positionally)
    s.optimizer_params = None
    s.scheduler_params = None
    s.constraints = req
    s.req_copy = {k: dict(d) for k, d in req.items()}
    s.kind, s.om, s.pm, s.prior_o, s.prior_p, s.ocls, s.pcls = kind, om, pm, prior_o, prior_p, ocls, pcls
    s.case = kind
    return s


def _is_default(v, d):
    return not V.contains_sym(v) and type(v) is type(d) and v == d or v is d


def rc_ensures(s):
    oc, pc = s.om.fields.get("_constraints"), s.pm.fields.get("_constraints")
    if not isinstance(oc, dict) or not isinstance(pc, dict):
        return [("models-keep-a-constraint-dict", False)]
    req_o, req_p = s.req_copy.get("object", {}), s.req_copy.get("probe", {})
    reset = lift(s.reset)
    d_o = CLASS_DEFAULTS[s.ocls]
    out = [("object-constraints-requested-in-THIS-call-are-in-force-when-the-epoch-loop-starts", all(k in oc and oc[k] is val for k, val in req_o.items())),
           ("probe-constraints-requested-in-THIS-call-are-in-force-when-the-epoch-loop-starts", all(k in pc and pc[k] is val for k, val in req_p.items())),
           ("object-constraints-not-requested:defaults-after-reset-else-as-before",
            AND(*[z3.If(reset, z3.BoolVal(bool(_is_default(oc.get(k), d_o[k]))), z3.BoolVal(oc.get(k) is s.prior_o[k])) for k in d_o if k not in req_o],
                set(oc) == set(d_o))),
           ("probe-constraints-not-requested:as-before", all(pc.get(k) is s.prior_p[k] for k in s.prior_p if k not in req_p) and set(pc) == set(s.prior_p)),
           ("class-defaults-unchanged", s.ocls.DEFAULT_CONSTRAINTS == d_o and s.pcls.DEFAULT_CONSTRAINTS == CLASS_DEFAULTS[s.pcls]),
           ("models-keep-their-own-dict-objects", oc is not pc and oc is not s.ocls.DEFAULT_CONSTRAINTS and pc is not s.pcls.DEFAULT_CONSTRAINTS),
           ("frame:the-caller's-constraints-argument-is-not-written", set(s.constraints) == set(s.req_copy)
            and all(set(s.constraints[k]) == set(s.req_copy[k]) and all(s.constraints[k][j] is s.req_copy[k][j] for j in s.req_copy[k]) for k in s.req_copy))]
    return out


def rc_on_raise(s, E):
    oc = s.om.fields.get("_constraints")
    return [("rejected-request:class-defaults-unchanged", s.ocls.DEFAULT_CONSTRAINTS == CLASS_DEFAULTS[s.ocls] and s.pcls.DEFAULT_CONSTRAINTS == CLASS_DEFAULTS[s.pcls]),
            ("rejected-request:no-unknown-key-stored", isinstance(oc, dict) and set(oc) == set(CLASS_DEFAULTS[s.ocls]))]


C_RECON10 = Contract(f"{PTY}:Ptychography.reconstruct", setup=rc_setup, ensures=rc_ensures, snapshot=c09.reset_snapshot,
                     raises={KeyError: lambda s: s.kind == "bad-category"}, on_raise=rc_on_raise,
                     inline=list(c09.C_RECON.inline) + [f"{PTY}:Ptychography.reset_recon", f"{PB}:PtychographyBase.reset_recon",
                                                        f"{PB}:PtychographyBase.constraints"])


def install_recon(reg):
    import torch

    c09._REG_HOLDER["reg"] = reg
    for c in (c09.C_INIT, c09.C_RESET, c09.C_CPA):       # callees used through the contracts proved under C09
        reg.contracts[c.func] = c
    c09._install_recon_models(reg)
    reg.opaque_calls = (set(reg.opaque_calls) - {f"{PB}:PtychographyBase.constraints"}) | {
        f"{OM}:ObjectPixelated.reset", f"{PM}:ProbePixelated.reset", f"{PM}:ProbeBase.reset", f"{OPTM}:OptimizerMixin.reset_optimizer"}
    reg.inline.add(f"{c09.PU}:SimpleBatcher.rng")
    reg.models[torch.Generator] = lambda interp, device=None: c09._TorchGen(device)
    reg.ctor_models[torch.Generator] = lambda interp, device=None: c09._TorchGen(device)

# ================================================================================================================
# 8. the dispatcher ProbeConstraints.apply_hard_constraints and the public `.probe` of the probe models
# ================================================================================================================
# The number of modes of the STACK and the model's DECLARED num_probes are independent symbols: whenever orthogonalize_probe is on,
# the returned stack satisfies the orthogonalisation postconditions (for the stack it was given).
PDIP = resolve(f"{PM}:ProbeDIP")


def _probe_obj(ctx, cls, ortho, **extra):
    declared = ctx.fresh("declared_num_probes", "int")
    ctx.assume(declared.t >= 1)
    cons = dict(CLASS_DEFAULTS[PP])
    cons.update(orthogonalize_probe=ortho, center_probe=False)
    return Obj(cls, dict(_constraints=cons, _num_probes=declared, **extra)), declared


def _stack_and_indices(ctx, name="probe"):
    n = ctx.fresh("stack_modes", "int")
    ctx.assume(n.t >= 1)
    assume_ip_axioms(ctx)
    P = cm.fresh_stack(ctx, name, n)
    a0, b0 = ctx.fresh("a0", "int"), ctx.fresh("b0", "int")
    for x in (a0, b0):
        ctx.assume(AND(x.t >= 0, x.t < n.t))
    return P, n, a0, b0


def disp_setup(ctx):
    ortho = flag(ctx, "orthogonalize_probe")
    me, declared = _probe_obj(ctx, PP, ortho)
    P, n, a0, b0 = _stack_and_indices(ctx)
    return NS(self=me, probe=P, n=n, a0=a0, b0=b0, ortho=ortho, declared=declared, case=f"orthogonalize={int(ortho)}")


def probe_claims(raw, res, n, ortho, a, b, wrap=lambda t: t, tag=""):
    """THE CLAUSE: with orthogonalize_probe on, the returned stack satisfies the orthogonalisation postconditions w.r.t. the raw
    stack it was computed from; a stack that did NOT go through the orthogonalisation is judged as it is (identity permutation, no
    clamp hypothesis) - so skipping the work is only acceptable where the claims hold anyway (one mode)."""
    if not isinstance(res, AT) or len(res.lead) != 1:
        return [(f"{tag}returns-a-stack-of-modes", False)]
    out = [(f"{tag}number-of-modes-is-the-stack's", lift(res.lead[0]) == n)]
    if not ortho:
        return out + [(f"{tag}orthogonalisation-off=>raw-stack-returned", res is raw or cm.at_same(res, raw))]
    g = getattr(res, "gs_ghost", None)
    if g is not None and (g.src is raw or cm.at_same(g.src, raw)):
        H, SG, TAU = g.H, g.SG, g.TAU
    else:
        H, SG, TAU = z3.BoolVal(True), (lambda t: t), (lambda t: t)
    return out + [(f"{tag}orthogonalize_probe-on=>" + l, t) for l, t in gs_post(raw, res, n, H, SG, TAU, a, b, wrap)]


def disp_bind(s):
    if not hasattr(s, "ortho"):
        s.ortho = bool(s.self.fields["_constraints"]["orthogonalize_probe"])
        if s.self.fields["_constraints"].get("center_probe"):
            raise V.OutOfSubset("center_probe is outside the C10 contracts")
    return s


def disp_ensures(s):
    disp_bind(s)
    n = lift(s.probe.lead[0])
    if s.mode == "verify":
        return probe_claims(s.probe, s.result, n, s.ortho, lift(s.a0), lift(s.b0)) + [("frame:raw-stack-not-written", s.probe.writes == s.old)]
    a, b, wrap = _quant2(n)
    return probe_claims(s.probe, s.result, n, s.ortho, a, b, wrap)


def disp_result(ctx, s):
    disp_bind(s)
    if not s.ortho:
        return s.probe
    t = NS(start_probe=s.probe)
    return gs_result(ctx, t)


C_DISP = Contract(f"{PM}:ProbeConstraints.apply_hard_constraints", setup=disp_setup, ensures=disp_ensures, result=disp_result,
                  snapshot=lambda s: s.probe.writes)


def pprobe_setup(ctx):
    ortho = flag(ctx, "orthogonalize_probe")
    P, n, a0, b0 = _stack_and_indices(ctx, "raw_probe")
    me, declared = _probe_obj(ctx, PP, ortho, _probe=P)
    return NS(self=me, raw=P, n=n, a0=a0, b0=b0, ortho=ortho, case=f"orthogonalize={int(ortho)}")


def pprobe_ensures(s):
    return probe_claims(s.raw, s.result, lift(s.n), s.ortho, lift(s.a0), lift(s.b0), tag="probe:")


C_PPROBE = Contract(f"{PM}:ProbePixelated.probe.fget", setup=pprobe_setup, ensures=pprobe_ensures)


class _Network:
    """the DIP network: an opaque callable returning a batch whose first element is a stack of modes (its channel count is the
    network's business - nothing ties it to the model's num_probes attribute)"""

    _pyvc_value = True

    def __init__(self, out):
        self.out = out

    def __call__(self, x):
        return [self.out]


def dip_setup(ctx):
    ortho = flag(ctx, "orthogonalize_probe")
    P, n, a0, b0 = _stack_and_indices(ctx, "network_output")
    me, declared = _probe_obj(ctx, PDIP, ortho, _model=_Network(P), _model_input="model-input")
    return NS(self=me, raw=P, n=n, a0=a0, b0=b0, ortho=ortho, case=f"orthogonalize={int(ortho)}")


C_DIPPROBE = Contract(f"{PM}:ProbeDIP.probe.fget", setup=dip_setup, ensures=pprobe_ensures)
PROBE_DISPATCH = [C_DISP, C_PPROBE, C_DIPPROBE]

CONTRACTS = AHC_ALL + [C_OBJPROP, C_OBJPROP_HIST, C_TOM, C_GS, C_AW, C_IPW] + BOOKKEEPING + [C_SIP, C_RECON10] + PROBE_DISPATCH

# ================================================================================================================
# property-level lemmas (from the contract statements alone)
# ================================================================================================================


def lemma_idempotent(ctx):
    """Applying the constraint to an already constrained object does not change its amplitude.
    From the contract clause  whole-view:amplitude=A*M :  the amplitude map is  a -> clamp(a,0,1)*M (complex), a -> M (pure phase),
    M = 1 without FOV mask, M = m^2 with it (m in [0,1])."""
    a, m = Rl("a"), Rl("m")
    c = clamp01
    inm = [a >= 0, m >= 0, m <= 1]
    return [
        ("complex[no-mask]", [a >= 0], c(c(a)) == c(a)),
        ("pure_phase[no-mask]", [], z3.RealVal(1) == 1),
        ("pure_phase[fov-mask]", inm, m * m == m * m),
        ("complex[fov-mask,binary]", inm + [OR(m == 0, m == 1)], c(c(a) * m * m) * m * m == c(a) * m * m),
        # literal statement for every mask in [0,1]: false for 0 < m < 1 (a*m^2 -> a*m^4); triaged, see report
        ("complex[fov-mask,fractional]", inm, c(c(a) * m * m) * m * m == c(a) * m * m),
    ]


def lemma_tie(ctx):
    """identical_slices: the result is the slice mean of the untied constrained object (contract clause); induction step over
    slices for the two claims that survive averaging (the Sigma-term is the k-fold iterate of the step - trusted)."""
    wr, wi, zr, zi, k, w, z, Sn = Rl("wr"), Rl("wi"), Rl("zr"), Rl("zi"), Rl("k"), Rl("w"), Rl("z"), Rl("S")
    return [
        ("complex:|partial-sum|<=k:step", [k >= 0, wr * wr + wi * wi <= k * k, zr * zr + zi * zi <= 1], (wr + zr) * (wr + zr) + (wi + zi) * (wi + zi) <= (k + 1) * (k + 1)),
        ("complex:|sum|<=S=>|mean|<=1", [Sn >= 1, wr * wr + wi * wi <= Sn * Sn], (wr / Sn) * (wr / Sn) + (wi / Sn) * (wi / Sn) <= 1),
        ("potential:partial-sum>=0:step", [w >= 0, z >= 0], w + z >= 0),
        ("potential:sum>=0=>mean>=0", [Sn >= 1, w >= 0], w / Sn >= 0),
    ]


def lemma_totals(ctx):
    """_apply_weights: per-mode intensity = weight * mean intensity and weights summing to one (setter contract) give the total
    diffraction intensity and the relative mode weights, for 1..5 modes."""
    out = []
    I0 = Rl("I0")
    for n in range(1, 6):
        N = [Rl(f"N{k}") for k in range(n)]
        w = [Rl(f"w{k}") for k in range(n)]
        hyp = [N[k] == w[k] * I0 for k in range(n)] + [sum(w) == 1]
        out.append((f"n={n}:total-intensity=mean-intensity", hyp, sum(N) == I0))
        out.append((f"n={n}:relative-weights=requested", hyp, AND(*[N[k] == w[k] * sum(N) for k in range(n)])))
    return out


def lemma_setter_feeds_apply_weights(ctx):
    """the setter's postcondition is the weight precondition of _apply_weights"""
    out = []
    for n in range(1, 6):
        W = [Rl(f"W{k}") for k in range(n)]
        post = [sum(W) == 1] + [x >= 0 for x in W]
        out.append((f"n={n}", post, AND(sum(W) == 1, *[x >= 0 for x in W])))
    return out


LEMMAS = [Lemma("idempotent-amplitude", lemma_idempotent, uses=["ObjectConstraints.apply_hard_constraints"]),
          Lemma("slice-tying-keeps-amplitude<=1-and-positivity", lemma_tie, uses=["ObjectConstraints.apply_hard_constraints"]),
          Lemma("probe-intensity-totals", lemma_totals, uses=["ProbePixelated._apply_weights", "ProbePixelated.initial_probe_weights"]),
          Lemma("setter-establishes-apply_weights-precondition", lemma_setter_feeds_apply_weights)]

# ================================================================================================================
# run-time oracles: the same statements evaluated on the REAL functions (replay + bounded stand-ins)
# ================================================================================================================

TOL = 1e-9


def _obj_model(typ, S_, cons, obj):
    import torch
    from quantem.diffractive_imaging.object_models import ObjectPixelated

    m = ObjectPixelated.from_uniform(num_slices=S_, slice_thicknesses=1.0 if S_ > 1 else None, obj_type=typ)
    m._obj = torch.nn.Parameter(obj.clone(), requires_grad=False)
    m.constraints = cons
    return m


def _obj_inputs(inp):
    import numpy as np
    import torch

    rng = np.random.default_rng(inp.get("seed", 0))
    S_, H, W = inp["S"], inp["H"], inp["W"]
    scale = inp.get("scale", 2.0)
    if inp["typ"] == "potential":
        obj = torch.tensor(rng.normal(size=(S_, H, W)) * scale, dtype=torch.float64)
    else:
        amp = rng.uniform(0, scale, size=(S_, H, W))
        amp.flat[0] = 0.0 if inp.get("zero_pixel") else amp.flat[0]
        ph = rng.uniform(-np.pi, np.pi, size=(S_, H, W))
        obj = torch.tensor(amp * np.exp(1j * ph), dtype=torch.complex128)
    mk = inp.get("mask", "none")
    if mk == "none":
        mask = None
    else:
        if mk == "binary":
            m2 = (rng.random((H, W)) > 0.4).astype(float)
        elif mk == "ones":
            m2 = np.ones((H, W))
        else:
            m2 = rng.uniform(0, 1, size=(H, W))
            m2.flat[0] = 1.0
            m2.flat[-1] = 0.0
        mask = torch.tensor(np.broadcast_to(m2, (S_, H, W)).copy(), dtype=torch.float64)
    cons = dict(positivity=bool(inp.get("pos", True)), fix_potential_baseline=bool(inp.get("fix", False)),
                fix_potential_baseline_factor=float(inp.get("factor", 1.0)), identical_slices=bool(inp.get("tie", False)),
                apply_fov_mask=bool(inp.get("fov", False)))
    return obj, mask, cons


def rt_obj(inp):
    """Claims of the statement on the real apply_hard_constraints.  inp['triaged']: evaluate ONLY the two literal claims that the
    unchanged code is known not to meet (reported as findings); otherwise evaluate everything else."""
    import torch

    obj, mask, cons = _obj_inputs(inp)
    typ, S_ = inp["typ"], inp["S"]
    m = _obj_model(typ, S_, cons, obj)
    obj0 = obj.clone()
    mask0 = None if mask is None else mask.clone()
    r = m.apply_hard_constraints(obj, mask=mask)
    r = r.detach().clone()
    r2 = m.apply_hard_constraints(r.clone(), mask=mask).detach()
    masked = mask is not None and cons["apply_fov_mask"]
    tied = cons["identical_slices"] and S_ > 1
    frac = masked and bool(((mask > 0) & (mask < 1)).any())
    problems, klass = [], None
    A, A2 = r.abs(), r2.abs()
    triaged = inp.get("triaged")
    if triaged:
        if typ == "pure_phase" and masked and not tied and float((A - 1).abs().max()) > 1e-7:
            problems.append(f"pure_phase with FOV mask: |obj| = {float(A.min()):.4g}..{float(A.max()):.4g}, not exactly 1 (amplitude = m^2)")
            klass = "pure_phase amplitude is m^2 under the FOV mask"
        elif typ == "complex" and frac and not tied and float((A2 - A).abs().max()) > 1e-7:
            problems.append(f"complex with fractional FOV mask: amplitude changes by {float((A2 - A).abs().max()):.4g} on re-application (a*m^2 -> a*m^4)")
            klass = "complex amplitude not idempotent under a fractional FOV mask"
        return dict(violated=bool(problems), observed="; ".join(problems) or "ok", expected="literal statement", klass=klass)
    if typ == "complex" and float(A.max()) > 1 + TOL:
        problems.append(f"complex: max |obj| = {float(A.max()):.6g} > 1")
    if typ == "pure_phase":
        if not masked and not tied and float((A - 1).abs().max()) > 1e-9:
            problems.append(f"pure_phase: |obj| in [{float(A.min()):.6g}, {float(A.max()):.6g}] != 1")
        if masked and not tied:
            sel = mask == 1
            if bool(sel.any()) and float((A[sel] - 1).abs().max()) > 1e-9:
                problems.append("pure_phase: |obj| != 1 where mask == 1")
        if float(A.max()) > 1 + TOL:
            problems.append(f"pure_phase: max |obj| = {float(A.max()):.6g} > 1")
    if typ == "potential" and cons["positivity"] and float(r.min()) < -TOL:
        problems.append(f"potential+positivity: min value {float(r.min()):.6g} < 0")
    if cons["identical_slices"] and S_ > 1 and float((r - r[0:1]).abs().max()) > 1e-9:
        problems.append("identical_slices: slices differ")
    if typ != "potential" and not tied:
        a_in = obj0.abs().clamp(0, 1) if typ == "complex" else torch.ones_like(obj0.abs())
        exp = a_in * (mask * mask if masked else 1.0)
        if float((A - exp).abs().max()) > 1e-9:
            problems.append(f"amplitude != clamp(|obj|,0,1)*M (max dev {float((A - exp).abs().max()):.3g})")
        mu = obj0.angle().mean()
        ph = (obj0.angle() - mu) * (mask if masked else 1.0)
        if float((r - exp * torch.exp(1j * ph)).abs().max()) > 1e-9:
            problems.append("value != A*M*exp(i(theta-mean theta)[*m])")
    if typ == "potential" and not cons["fix_potential_baseline"] and not tied:
        e = obj0.clamp(min=0) if cons["positivity"] else obj0
        e = e * mask if masked else e
        if float((r - e).abs().max()) > 1e-12:
            problems.append("potential value != clamp(obj,0)[*mask]")
    # idempotence of the amplitude (the two triaged configurations are evaluated separately)
    skip_idem = (typ == "complex" and frac) or (typ == "pure_phase" and tied) or typ == "potential"
    if not skip_idem and float((A2 - A).abs().max()) > 1e-9:
        problems.append(f"amplitude not idempotent: changes by {float((A2 - A).abs().max()):.3g}")
    if not torch.equal(obj, obj0):
        problems.append("raw object tensor was modified in place")
    if mask is not None and not torch.equal(mask, mask0):
        problems.append("mask was modified in place")
    return dict(violated=bool(problems), observed="; ".join(problems[:4]) or "ok",
                expected="|obj|<=1 (complex), =1 (pure phase, mask off / m=1), >=0 (potential+positivity), tied slices, amplitude = clamp(|obj|)*M, idempotent amplitude, inputs untouched")


def fam_obj(tier="quick", seed=0):
    shapes = [(1, 2, 3), (2, 3, 2), (3, 2, 2)] + ([(4, 5, 4)] if tier == "thorough" else [])
    for (S_, H, W) in shapes:
        for typ in ("complex", "pure_phase", "potential"):
            for mask in ("none", "binary", "fractional", "ones"):
                for fov in (False, True):
                    if mask == "none" and fov and typ != "potential":
                        pass
                    for tie in (False, True):
                        flags = [(True, False, 1.0), (False, False, 1.0), (True, True, 1.0), (True, True, 0.5), (False, True, 1.7)] if typ == "potential" else [(True, False, 1.0)]
                        for pos, fix, factor in flags:
                            yield dict(typ=typ, S=S_, H=H, W=W, mask=mask, fov=fov, tie=tie, pos=pos, fix=fix, factor=factor,
                                       seed=seed + S_ * 7 + H, scale=2.0, zero_pixel=(H == 3))


def fam_obj_quick():
    for i, x in enumerate(fam_obj()):
        if i % 3 == 0:
            yield x


def fam_obj_triaged(tier="quick", seed=0):
    for (S_, H, W) in [(1, 2, 3), (2, 3, 2), (3, 2, 2)]:
        for typ in ("complex", "pure_phase"):
            for mask, fov in (("fractional", True), ("binary", True), ("none", False)):
                for tie in (False, True):
                    yield dict(typ=typ, S=S_, H=H, W=W, mask=mask, fov=fov, tie=tie, seed=seed + S_ + H, scale=2.0, triaged=True)


def ahc_concretize(ev, types=("complex", "pure_phase", "potential"), pos_options=(True, False)):
    typ = types[-1]
    for t in types[:-1]:
        if ev(f"typ_is_{t}"):
            typ = t
            break
    S_ = ev("S", 1) or 1
    return dict(typ=typ, S=int(min(max(S_, 1), 3)), H=2, W=3, mask="fractional" if ev("mask_given") else "none", fov=bool(ev("apply_fov_mask")),
                tie=bool(ev("identical_slices")), pos=bool(ev("positivity_is_True", pos_options[-1]) if len(pos_options) > 1 else pos_options[0]), fix=bool(ev("fix_potential_baseline", False)),
                factor=float(ev("baseline_factor", 1.0) or 1.0), seed=1, scale=2.0)


for _c, _t, _p in ((C_AHC, ("complex",), (True, False)), (C_AHC_PURE, ("pure_phase",), (True, False)),
                   (C_AHC_POT_POS, ("potential",), (True,)), (C_AHC_POT_NOPOS, ("potential",), (False,))):
    _c.rt, _c.rt_family = rt_obj, fam_obj_quick
    _c.concretize = (lambda ev, _t=_t, _p=_p: ahc_concretize(ev, _t, _p))
C_OBJPROP.rt, C_OBJPROP.rt_family, C_OBJPROP.concretize = rt_obj, fam_obj_quick, ahc_concretize


def rt_tom(inp):
    import numpy as np
    import torch
    from quantem.tomography.object_models import ObjectVoxelwise

    rng = np.random.default_rng(inp.get("seed", 0))
    shape = tuple(inp["shape"])
    m = ObjectVoxelwise(volume_shape=shape, device="cpu")
    m.add_hard_constraint("positivity", bool(inp["pos"]))
    m.add_hard_constraint("shrinkage", inp["shrink"])
    vol = torch.tensor(rng.normal(size=shape) * 2, dtype=torch.float64)
    v0 = vol.clone()
    r = m.apply_hard_constraints(vol)
    problems = []
    if inp["pos"] and float(r.min()) < 0:
        problems.append(f"positivity: min {float(r.min()):.4g} < 0")
    if inp["shrink"] and float(r.min()) < 0:
        problems.append(f"shrinkage: min {float(r.min()):.4g} < 0")
    e = v0.clamp(min=0) if inp["pos"] else v0
    if inp["shrink"]:
        e = (e - inp["shrink"]).clamp(min=0)
    if float((r - e).abs().max()) > 1e-12:
        problems.append("value != shrink(clamp(vol))")
    if not torch.equal(vol, v0):
        problems.append("input volume modified in place")
    if r.data_ptr() == vol.data_ptr():
        problems.append("result aliases the input volume")
    return dict(violated=bool(problems), observed="; ".join(problems) or "ok", expected="non-negative under positivity / shrinkage; input untouched")


def fam_tom(tier="quick", seed=0):
    for shape in [(1, 1, 2), (2, 3, 2), (3, 3, 3)]:
        for pos in (False, True):
            for shrink in (False, 0.3, 1.5, -0.4):
                yield dict(shape=shape, pos=pos, shrink=shrink, seed=seed + shape[1])


C_TOM.rt, C_TOM.rt_family = rt_tom, fam_tom
C_TOM.concretize = lambda ev: dict(shape=(2, 2, 2), pos=bool(ev("positivity")), shrink=float(ev("shrinkage", 0.0) or 0.0) if ev("shrinkage_set") else False, seed=3)


def _probe_stack(n, H, W, corr, seed, norms=True):
    """n complex images with pairwise correlation ~corr (linearly independent) and distinct norms."""
    import numpy as np

    rng = np.random.default_rng(seed)
    base = rng.normal(size=(n, H * W)) + 1j * rng.normal(size=(n, H * W))
    q, _ = np.linalg.qr(base.T)
    q = q.T[:n]
    common = q[0]
    out = []
    for k in range(n):
        v = q[k] if k == 0 else np.sqrt(max(0.0, 1 - corr ** 2)) * q[k] + corr * common * np.exp(1j * rng.uniform(0, 6.28))
        v = v / np.linalg.norm(v)
        out.append(v * (rng.uniform(0.2, 3.0) if norms else 1.0))
    return np.array(out).reshape(n, H, W)


def rt_gs(inp):
    import numpy as np
    import torch
    from quantem.diffractive_imaging.probe_models import ProbeConstraints

    n, H, W = inp["n"], inp["H"], inp["W"]
    if H * W < n:
        return dict(violated=False, observed="skipped (dimension < modes)", expected="")
    st = torch.tensor(_probe_stack(n, H, W, inp["corr"], inp.get("seed", 0)), dtype=torch.complex128)
    s0 = st.clone()
    out = ProbeConstraints._probe_orthogonalization_constraint(None, st)
    problems = []
    if tuple(out.shape) != tuple(st.shape):
        return dict(violated=True, observed=f"shape {tuple(out.shape)}", expected=str(tuple(st.shape)))
    o = out.reshape(n, -1)
    G = (o.conj() @ o.T)
    nr = torch.sqrt(G.diagonal().real)
    for a in range(n):
        for b in range(n):
            if a != b and float(G[a, b].abs()) > 1e-9 * float(nr[a] * nr[b]) + 1e-12:
                problems.append(f"<out[{a}],out[{b}]> = {complex(G[a, b]):.3g} (norms {float(nr[a]):.3g},{float(nr[b]):.3g})")
    iin = np.sort((s0.abs() ** 2).sum(dim=(-2, -1)).numpy())[::-1]
    iout = (out.abs() ** 2).sum(dim=(-2, -1)).numpy()
    if np.any(np.diff(iout) > 1e-9 * iout.max()):
        problems.append(f"intensities not descending: {iout.tolist()}")
    if not np.allclose(np.sort(iout)[::-1], iin, rtol=1e-9):
        problems.append(f"intensity multiset changed: in {iin.tolist()} out {np.sort(iout)[::-1].tolist()}")
    if not torch.equal(st, s0):
        problems.append("input stack modified in place")
    return dict(violated=bool(problems), observed="; ".join(problems[:3]) or "ok",
                expected="mutually orthogonal modes, same multiset of intensities, descending")


def fam_gs(tier="quick", seed=0):
    for n in (1, 2, 3, 4, 5):
        for corr in (0.0, 0.5, 0.9, 0.99):
            for (H, W) in ((2, 3), (4, 4)) + (((7, 5),) if tier == "thorough" else ()):
                for sd in range(2 if tier == "quick" else 5):
                    yield dict(n=n, corr=corr, H=H, W=W, seed=seed + sd + 11 * n)


C_GS.rt, C_GS.rt_family = rt_gs, fam_gs


def _probe_model(n, H, W, weights, seed):
    import numpy as np
    from quantem.diffractive_imaging.probe_models import ProbePixelated

    arr = _probe_stack(n, H, W, 0.3, seed).astype(np.complex128)
    import torch

    return ProbePixelated.from_array(arr, initial_probe_weights=weights, dtype=torch.complex128), arr


def rt_aw(inp):
    import numpy as np
    import torch

    n, H, W = inp["n"], inp["H"], inp["W"]
    rng = np.random.default_rng(inp.get("seed", 0))
    w = rng.uniform(0.05, 1.0, size=n)
    if inp.get("zero_weight") and n > 1:
        w[-1] = 0.0
    p, arr = _probe_model(n, H, W, list(w), inp.get("seed", 0))
    I0 = float(inp["I0"])
    p._mean_diffraction_intensity = I0
    W_ = p.initial_probe_weights.double().numpy()
    src = torch.tensor(arr, dtype=torch.complex128)
    out = p._apply_weights(src.clone())
    problems = []
    tot = float((torch.fft.fft2(out, norm="ortho").abs() ** 2).sum())
    if abs(tot - I0) > 1e-6 * I0:
        problems.append(f"total diffraction intensity {tot:.8g} != mean intensity {I0:.8g}")
    per = (out.abs() ** 2).sum(dim=(1, 2)).numpy()
    if not np.allclose(per / per.sum(), W_, atol=1e-6):
        problems.append(f"relative mode weights {(per / per.sum()).tolist()} != requested {W_.tolist()}")
    for k in range(n):
        c = (src[k].conj() * out[k]).sum() / (src[k].abs() ** 2).sum()
        if abs(c.imag) > 1e-9 * (abs(c) + 1e-30) or c.real < -1e-12 or float((out[k] - c * src[k]).abs().max()) > 1e-9 * float(out[k].abs().max() + 1e-30):
            problems.append(f"mode {k} is not a non-negative real multiple of the input mode")
    return dict(violated=bool(problems), observed="; ".join(problems[:3]) or "ok",
                expected="sum |fft2_ortho(probe)|^2 = mean intensity; mode fractions = requested weights")


def fam_aw(tier="quick", seed=0):
    for n in (1, 2, 3, 4, 5):
        for (H, W) in ((3, 3), (4, 6)):
            for I0 in (1.0, 37.5, 1e4):
                yield dict(n=n, H=H, W=W, I0=I0, seed=seed + n, zero_weight=(I0 == 37.5))


C_AW.rt, C_AW.rt_family = rt_aw, fam_aw


def rt_ipw(inp):
    import numpy as np

    n = inp["n"]
    rng = np.random.default_rng(inp.get("seed", 0))
    p, _ = _probe_model(n, 3, 3, None, 1)
    mode = inp["mode"]
    problems = []
    if mode == "none":
        p.initial_probe_weights = None
        W_ = p.initial_probe_weights.double().numpy()
        if len(W_) != n or abs(W_.sum() - 1) > 1e-6 or (W_ < 0).any() or not np.allclose(W_[1:], 0.02, atol=1e-7):
            problems.append(f"default weights {W_.tolist()}")
    elif mode == "given":
        w = rng.uniform(0.0, 5.0, size=n)
        p.initial_probe_weights = list(w)
        W_ = p.initial_probe_weights.double().numpy()
        if len(W_) != n or abs(W_.sum() - 1) > 1e-6 or (W_ < 0).any() or not np.allclose(W_ * w.sum(), w, rtol=1e-5, atol=1e-6):
            problems.append(f"weights {W_.tolist()} for request {w.tolist()}")
    else:
        before = p.initial_probe_weights.clone()
        try:
            p.initial_probe_weights = [1.0] * (n + inp.get("extra", 1))
            problems.append("wrong-length weights accepted")
        except ValueError:
            pass
        import torch

        if not torch.equal(before, p.initial_probe_weights):
            problems.append("weights changed by a rejected request")
    return dict(violated=bool(problems), observed="; ".join(problems) or "ok", expected="weights sum to 1, keep the requested ratios; wrong length -> ValueError")


def fam_ipw(tier="quick", seed=0):
    for n in (1, 2, 3, 4, 5):
        for mode in ("none", "given", "wrong_len"):
            for sd in range(2):
                yield dict(n=n, mode=mode, seed=seed + sd, extra=1 if sd == 0 else -1 if n > 1 else 2)


C_IPW.rt, C_IPW.rt_family = rt_ipw, fam_ipw


def rt_probe_property(inp):
    """probe_model.probe (the probe handed to the forward model) with orthogonalize_probe on: orthogonal, sorted, same intensities."""
    import numpy as np
    import torch

    n, H, W = inp["n"], inp["H"], inp["W"]
    p, arr = _probe_model(n, H, W, None, inp.get("seed", 0))
    p.constraints = {"orthogonalize_probe": True, "center_probe": False}
    out = p.probe.detach()
    o = out.reshape(n, -1)
    G = (o.conj() @ o.T)
    nr = torch.sqrt(G.diagonal().real)
    problems = []
    for a in range(n):
        for b in range(a + 1, n):
            if float(G[a, b].abs()) > 1e-9 * float(nr[a] * nr[b]):
                problems.append(f"<probe[{a}],probe[{b}]> = {complex(G[a, b]):.3g}")
    iout = (out.abs() ** 2).sum(dim=(-2, -1)).numpy()
    iin = np.sort((np.abs(arr) ** 2).sum(axis=(1, 2)))[::-1]
    if np.any(np.diff(iout) > 1e-9 * iout.max()) or not np.allclose(iout, iin, rtol=1e-9):
        problems.append(f"intensities {iout.tolist()} vs sorted input {iin.tolist()}")
    return dict(violated=bool(problems), observed="; ".join(problems[:3]) or "ok", expected="probe_model.probe is orthogonal, sorted, intensity preserving")


def fam_probe_property(tier="quick", seed=0):
    for n in (1, 2, 3, 5):
        for (H, W) in ((3, 3), (4, 5)):
            yield dict(n=n, H=H, W=W, seed=seed + n)


def rt_history(inp):
    """Multi-model history on the REAL classes: configuring one model must not change the constrained output of another one,
    and a fresh model starts from the class defaults."""
    import numpy as np
    import torch
    from quantem.diffractive_imaging.object_models import ObjectPixelated
    from quantem.diffractive_imaging.probe_models import ProbePixelated

    rng = np.random.default_rng(inp.get("seed", 0))
    problems = []
    if inp["kind"] == "object":
        typ, S_ = inp["typ"], inp["S"]
        mk = lambda: ObjectPixelated.from_uniform(num_slices=S_, slice_thicknesses=1.0 if S_ > 1 else None, obj_type=typ)
        A = mk()
        reqA = dict(inp["reqA"])
        if inp.get("via") == "add":
            for k, v in reqA.items():
                A.add_constraint(k, v)
        else:
            A.constraints = reqA
        x = torch.tensor(rng.normal(size=(S_, 2, 3)) * 2, dtype=torch.float64) if typ == "potential" else torch.tensor(
            rng.uniform(0, 2, size=(S_, 2, 3)) * np.exp(1j * rng.uniform(-3, 3, size=(S_, 2, 3))), dtype=torch.complex128)
        A._obj = torch.nn.Parameter(x.clone(), requires_grad=False)
        before = A.apply_hard_constraints(x.clone(), mask=None).detach().clone()
        consA = dict(A.constraints)
        B = mk() if inp.get("B_first") is None else None
        B = B or mk()
        if inp.get("via") == "add":
            for k, v in inp["reqB"].items():
                B.add_constraint(k, v)
        else:
            B.constraints = dict(inp["reqB"])
        after = A.apply_hard_constraints(x.clone(), mask=None).detach()
        if dict(A.constraints) != consA:
            diff = {k: (consA[k], A.constraints[k]) for k in consA if A.constraints[k] != consA[k]}
            problems.append(f"configuring model B changed model A's constraints: {diff}")
        if not torch.equal(before, after):
            problems.append(f"constrained output of model A changed after configuring model B (max dev {float((before - after).abs().max()):.3g})")
        if reqA.get("identical_slices") and S_ > 1 and float((after - after[0:1]).abs().max()) > 1e-12:
            problems.append("model A: identical_slices was requested but its slices differ")
        if typ == "potential" and reqA.get("positivity", True) and float(after.min()) < 0:
            problems.append(f"model A: positivity requested but min value {float(after.min()):.3g} < 0")
        for how in ("setter", "add"):
            keep = dict(A.constraints)
            try:
                if how == "setter":
                    A.constraints = {"no_such_constraint": 1}
                else:
                    A.add_constraint("no_such_constraint", 1)
                problems.append(f"unknown constraint key accepted by the {how}")
            except KeyError:
                pass
            if dict(A.constraints) != keep:
                problems.append(f"rejected request changed the constraints ({how})")
                A.constraints.pop("no_such_constraint", None)
        C = mk()
        if dict(C.constraints) != CLASS_DEFAULTS[OP] or dict(ObjectPixelated.DEFAULT_CONSTRAINTS) != CLASS_DEFAULTS[OP]:
            bad = {k: (v, C.constraints.get(k)) for k, v in CLASS_DEFAULTS[OP].items() if C.constraints.get(k) != v}
            problems.append(f"a fresh model does not start from the defaults: {bad}")
        if A.constraints is B.constraints or A.constraints is ObjectPixelated.DEFAULT_CONSTRAINTS:
            problems.append("constraint dict shared between models / with the class defaults")
        # put the class-level dict back (a defective tree writes into it), so later cases start clean
        ObjectPixelated.DEFAULT_CONSTRAINTS.clear(); ObjectPixelated.DEFAULT_CONSTRAINTS.update(CLASS_DEFAULTS[OP])
    else:
        n = inp["n"]
        arr = _probe_stack(n, 3, 4, 0.6, inp.get("seed", 0)).astype(np.complex128)
        mk = lambda: ProbePixelated.from_array(arr.copy(), dtype=torch.complex128)
        A = mk()
        A.constraints = {"orthogonalize_probe": True}
        before = A.probe.detach().clone()
        B = mk()
        B.constraints = {"orthogonalize_probe": False}
        after = A.probe.detach()
        if not torch.equal(before, after):
            problems.append("probe of model A changed after switching orthogonalisation off on model B")
        o = after.reshape(n, -1)
        G = o.conj() @ o.T
        off = G - torch.diag(G.diagonal())
        if n > 1 and float(off.abs().max()) > 1e-9 * float(G.diagonal().real.max()):
            problems.append(f"model A: orthogonalize_probe requested but modes overlap ({float(off.abs().max()):.3g})")
        C = mk()
        if dict(C.constraints) != CLASS_DEFAULTS[PP]:
            problems.append(f"a fresh probe model does not start from the defaults: {dict(C.constraints)}")
        ProbePixelated.DEFAULT_CONSTRAINTS.clear(); ProbePixelated.DEFAULT_CONSTRAINTS.update(CLASS_DEFAULTS[PP])
    return dict(violated=bool(problems), observed="; ".join(problems[:3]) or "ok",
                expected="every model owns its constraints: model A keeps its requested constraints and its constrained output; fresh models have the defaults")


def fam_history(tier="quick", seed=0):
    for via in ("setter", "add"):
        for S_ in (1, 3):
            yield dict(kind="object", typ="potential", S=S_, reqA={"identical_slices": True}, reqB={"identical_slices": False, "positivity": False}, via=via, seed=seed + S_)
            yield dict(kind="object", typ="potential", S=S_, reqA={"positivity": True, "fix_potential_baseline": True}, reqB={"fix_potential_baseline": False, "positivity": False}, via=via, seed=seed + S_)
            yield dict(kind="object", typ="complex", S=S_, reqA={"identical_slices": True}, reqB={"identical_slices": False}, via=via, seed=seed + S_)
            yield dict(kind="object", typ="pure_phase", S=S_, reqA={}, reqB={"identical_slices": True, "apply_fov_mask": True}, via=via, seed=seed + S_)
    for n in (1, 2, 3):
        yield dict(kind="probe", n=n, seed=seed + n)


for _c in BOOKKEEPING:
    _c.rt, _c.rt_family = rt_history, fam_history


def _toy10(num_slices, obj_type="complex", seed=0):
    """C09's 6x6-scan toy reconstruction object with a multislice object model of the requested type"""
    from quantem.diffractive_imaging.object_models import ObjectPixelated

    pt = c09._toy(seed)
    pt.obj_model = ObjectPixelated.from_uniform(num_slices=num_slices, obj_type=obj_type, slice_thicknesses=2.0 if num_slices > 1 else None)
    pt.preprocess(obj_padding_px=(0, 0))
    return pt


def rt_recon(inp):
    """reconstruct(constraints=...) on the real classes: the models are configured as THIS call asked when the epochs run"""
    import copy
    import warnings

    warnings.filterwarnings("ignore")
    pt = _toy10(inp["S"], inp.get("typ", "complex"), inp.get("seed", 0))
    if inp.get("prior"):
        pt.constraints = copy.deepcopy(inp["prior"])
    req = copy.deepcopy(inp["req"])
    req0 = copy.deepcopy(req)
    problems = []
    try:
        pt.reconstruct(num_iters=inp.get("iters", 2), reset=inp["reset"], constraints=req, batch_size=12)
    except KeyError:
        if all(k in ("object", "probe", "dataset", "detector") for k in req):
            problems.append("valid request rejected with KeyError")
        return dict(violated=bool(problems), observed="; ".join(problems) or "ok (rejected)", expected="KeyError only for an unknown category")
    oc, pc = pt.obj_model.constraints, pt.probe_model.constraints
    for k, v in req0.get("object", {}).items():
        if oc.get(k) != v:
            problems.append(f"object constraint {k}={v!r} requested in this call, in force: {oc.get(k)!r} (reset={inp['reset']})")
    for k, v in req0.get("probe", {}).items():
        if pc.get(k) != v:
            problems.append(f"probe constraint {k}={v!r} requested in this call, in force: {pc.get(k)!r}")
    if req != req0:
        problems.append("the caller's constraints dict was modified")
    o = pt.obj_model.obj.detach()
    if req0.get("object", {}).get("identical_slices") and inp["S"] > 1 and float((o - o[0:1]).abs().max()) > 1e-7:
        problems.append(f"identical_slices requested but the object handed to the forward model has differing slices (max dev {float((o - o[0:1]).abs().max()):.3g})")
    if inp.get("typ") == "potential" and req0.get("object", {}).get("positivity", True) and float(o.min()) < 0:
        problems.append(f"positivity requested but min value {float(o.min()):.3g}")
    return dict(violated=bool(problems), observed="; ".join(problems[:3]) or "ok",
                expected="constraints passed to reconstruct() are in force for its epochs, also with reset=True; tied slices when requested")


def fam_recon(tier="quick", seed=0):
    it = 1 if tier == "quick" else 2
    for reset in (True, False):
        yield dict(S=2, reset=reset, req={"object": {"identical_slices": True}}, seed=seed, iters=it)
        yield dict(S=2, reset=reset, req={"object": {"identical_slices": True, "apply_fov_mask": True}, "probe": {"orthogonalize_probe": False}},
                   prior={"object": {"identical_slices": False}}, seed=seed, iters=it)
        if tier != "quick":
            yield dict(S=1, reset=reset, req={"object": {"identical_slices": True}}, seed=seed, iters=it)
            yield dict(S=2, reset=reset, typ="potential", req={"object": {"identical_slices": True, "positivity": True}}, prior={"object": {"positivity": False}}, seed=seed, iters=it)
            yield dict(S=2, reset=reset, req={"probe": {"orthogonalize_probe": True}}, seed=seed, iters=it)
            yield dict(S=1, reset=reset, req={}, seed=seed, iters=it)
    yield dict(S=1, reset=True, req={"objekt": {"identical_slices": True}}, seed=seed, iters=it)


def rc_concretize(ev):
    kind = RECON_REQUESTS[-1]
    for k in RECON_REQUESTS[:-1]:
        if ev(f"request_is_{k}"):
            kind = k
            break
    req = {"object:identical_slices": {"object": {"identical_slices": True}},
           "object:two-keys+probe": {"object": {"identical_slices": True, "apply_fov_mask": True}, "probe": {"orthogonalize_probe": False}},
           "probe-only": {"probe": {"orthogonalize_probe": False}}, "empty": {}, "dataset-only": {},
           "bad-category": {"objekt": {"identical_slices": True}}}[kind]
    return dict(S=2, reset=bool(ev("reset", True)), req=req, seed=0)


C_RECON10.rt, C_RECON10.rt_family, C_RECON10.concretize = rt_recon, fam_recon, rc_concretize


def rt_probe_reinit(inp):
    """History on the real ProbePixelated: initialise, then initialise AGAIN for an acquisition with another mean intensity."""
    import numpy as np
    import torch
    from quantem.diffractive_imaging.probe_models import ProbePixelated

    n, H, W = inp["n"], inp["H"], inp["W"]
    rng = np.random.default_rng(inp.get("seed", 0))
    w = list(rng.uniform(0.1, 1.0, size=n)) if inp.get("weights") else None
    arr = _probe_stack(n, H, W, 0.3, inp.get("seed", 0)).astype(np.complex128)
    p = ProbePixelated.from_array(arr, initial_probe_weights=w, dtype=torch.complex128, rng=inp.get("seed", 0))
    problems = []
    for I0 in inp["intensities"]:
        p.set_initial_probe((H, W), np.array([0.1, 0.1]), float(I0))
        ip_ = p.initial_probe.detach()
        tot = float((torch.fft.fft2(ip_, norm="ortho").abs() ** 2).sum())
        if abs(float(p.mean_diffraction_intensity) - I0) > 1e-9 * I0:
            problems.append(f"mean_diffraction_intensity is {float(p.mean_diffraction_intensity):.6g} after initialising with {I0:.6g}")
        if abs(tot - I0) > 1e-5 * I0:
            problems.append(f"initial probe total diffraction intensity {tot:.6g} != measured mean intensity {I0:.6g} of this initialisation")
        per = (ip_.abs() ** 2).sum(dim=(1, 2)).numpy()
        W_ = p.initial_probe_weights.double().numpy()
        if not np.allclose(per / per.sum(), W_, atol=1e-5):
            problems.append("relative mode weights differ from the requested ones")
    return dict(violated=bool(problems), observed="; ".join(problems[:3]) or "ok",
                expected="after every initialisation: total diffraction intensity = the mean intensity passed to THAT call, requested mode weights")


def fam_probe_reinit(tier="quick", seed=0):
    for n in (1, 2, 3):
        for ints in ([50.0], [50.0, 800.0], [1e4, 3.0, 3.0], [7.0, 7.0]):
            yield dict(n=n, H=4, W=5, intensities=ints, weights=(n > 1), seed=seed + n)


C_SIP.rt, C_SIP.rt_family = rt_probe_reinit, fam_probe_reinit


def rt_dispatch(inp):
    """public apply_hard_constraints / .probe on the real ProbePixelated: the STACK has `n` modes, the model DECLARES `declared`."""
    import numpy as np
    import torch
    from quantem.diffractive_imaging.probe_models import ProbePixelated

    n, declared, H, W = inp["n"], inp["declared"], inp["H"], inp["W"]
    arr = _probe_stack(n, H, W, inp.get("corr", 0.8), inp.get("seed", 0)).astype(np.complex128)
    order = np.argsort((np.abs(arr) ** 2).sum(axis=(1, 2)))          # ascending input order: the sort has something to do
    arr = arr[order]
    problems = []
    try:
        p = ProbePixelated.from_array(arr[:declared].copy() if declared <= n else np.concatenate([arr] * 2)[:declared].copy(), dtype=torch.complex128)
        p.constraints = {"orthogonalize_probe": bool(inp["ortho"]), "center_probe": False}
        st = torch.tensor(arr, dtype=torch.complex128)
        if inp.get("via") == "probe" and declared == n:
            with torch.no_grad():
                p._probe.data = st.clone()
            out = p.probe.detach()
        else:
            out = p.apply_hard_constraints(st.clone()).detach()
    except Exception as e:  # an unexpected exception of the real function is a failure, not a checker fault
        return dict(violated=True, observed=f"{type(e).__name__}: {e}", expected="a constrained stack")
    if tuple(out.shape) != tuple(st.shape):
        return dict(violated=True, observed=f"shape {tuple(out.shape)}", expected=str(tuple(st.shape)))
    if not inp["ortho"]:
        if not torch.equal(out, st):
            problems.append("orthogonalisation off but the stack was changed")
    else:
        o = out.reshape(n, -1)
        G = o.conj() @ o.T
        nr = torch.sqrt(G.diagonal().real)
        for a in range(n):
            for b in range(a + 1, n):
                if float(G[a, b].abs()) > 1e-9 * float(nr[a] * nr[b]):
                    problems.append(f"normalised overlap of modes {a},{b}: {float(G[a, b].abs() / (nr[a] * nr[b])):.3g} (stack has {n} modes, model declares num_probes={declared})")
        iout = (out.abs() ** 2).sum(dim=(-2, -1)).numpy()
        iin = np.sort((np.abs(arr) ** 2).sum(axis=(1, 2)))[::-1]
        if np.any(np.diff(iout) > 1e-9 * iout.max()):
            problems.append(f"intensities not descending: {iout.tolist()}")
        if not np.allclose(np.sort(iout)[::-1], iin, rtol=1e-9):
            problems.append("intensity multiset changed")
    return dict(violated=bool(problems), observed="; ".join(problems[:3]) or "ok",
                expected="orthogonalize_probe on: mutually orthogonal, descending, same intensities - for the stack that was given")


def fam_dispatch(tier="quick", seed=0):
    for n, declared in ((1, 1), (2, 2), (3, 3), (3, 1), (2, 1), (4, 2), (2, 3), (1, 2)):
        for ortho in (True, False):
            for via in ("call", "probe"):
                yield dict(n=n, declared=declared, ortho=ortho, via=via, H=3, W=4, corr=0.8, seed=seed + n)


for _c in PROBE_DISPATCH:
    _c.rt, _c.rt_family = rt_dispatch, fam_dispatch
    _c.concretize = lambda ev: dict(n=int(min(max(ev("stack_modes", 3) or 3, 1), 4)), declared=int(min(max(ev("declared_num_probes", 1) or 1, 1), 4)),
                                    ortho=bool(ev("orthogonalize_probe", True)), via="call", H=3, W=4, corr=0.8, seed=2)


BOUNDED = [
    Bounded.from_rt("object constraints on random tensors (all configurations, non-triaged claims)", rt_obj, fam_obj,
                    "shapes <=3x3x2 (<=4x5x4 thorough), 3 object types, 4 mask kinds, fov/tie/positivity/baseline flags; float64"),
    Bounded.from_rt("object constraints: the two literal claims the unchanged code does not meet", rt_obj, fam_obj_triaged,
                    "shapes <=3x3x2, complex / pure_phase, fractional / binary / no mask, tie on/off", klass=lambda inp, res: res.get("klass") or "other"),
    Bounded.from_rt("tomography hard constraints on random volumes", rt_tom, fam_tom, "volumes <=3x3x3, positivity x shrinkage in {off, 0.3, 1.5, -0.4}"),
    Bounded.from_rt("Gram-Schmidt orthogonalisation on random stacks", rt_gs, fam_gs, "1..5 modes, pairwise correlation 0..0.99, images 2x3 / 4x4 (7x5 thorough), complex128"),
    Bounded.from_rt("probe_model.probe with orthogonalisation on (dispatch through apply_hard_constraints)", rt_probe_property, fam_probe_property, "1..5 modes, images 3x3 / 4x5"),
    Bounded.from_rt("_apply_weights intensity / weight normalisation", rt_aw, fam_aw, "1..5 modes, images 3x3 / 4x6, 3 mean intensities, one zero weight"),
    Bounded.from_rt("initial_probe_weights setter", rt_ipw, fam_ipw, "1..5 modes, default / given / wrong-length"),
    Bounded.from_rt("reconstruct(constraints=...) on a toy problem: this call's constraints are in force for its epochs", rt_recon, fam_recon,
                    "6x6-scan toy problem, 2 slices (1 / 2 thorough), reset on/off, object (+ probe / empty thorough) / invalid requests, 1 iteration (2 thorough)"),
    Bounded.from_rt("probe model initialised repeatedly with different mean intensities", rt_probe_reinit, fam_probe_reinit,
                    "1..3 modes, 4x5 images, 1..3 consecutive initialisations"),
    Bounded.from_rt("public apply_hard_constraints / .probe with a stack whose mode count differs from the declared num_probes", rt_dispatch, fam_dispatch,
                    "stacks of 1..4 modes on models declaring 1..3 probes, orthogonalisation on/off, direct call and .probe"),
    Bounded.from_rt("multi-model history: configuring one model leaves the others and the class defaults alone", rt_history, fam_history,
                    "two + one fresh model per case; object models (3 types, 1 / 3 slices, setter and add_constraint) and probe models (1..3 modes)"),
]

TRUSTED = [
    "pyvc engine, z3, cvc5",
    "getter with a past (round 5): torch.is_grad_enabled() is an arbitrary boolean that is the same for both reads; Tensor._version is the write counter of the array model; "
    "the first read uses ONE other setting (identical_slices, apply_fov_mask, positivity all flipped) - other pasts (object type or mask changed, several earlier reads) are not explored",
    "A4 lemma instances for sqrt / cos / sin / atan2 (sqrt(t)^2 = t for t >= 0, cos^2+sin^2 = 1); no other fact about atan2/angle is used",
    "complex arithmetic of torch tensors = field arithmetic on (re, im) pairs; abs = sqrt(re^2+im^2); exp(i x) = (cos x, sin x) (pyvc/lib/c10_models.py, pixel domain)",
    "inner-product domain (pyvc/lib/c10_models.py): a pixel sum of conj(x)*y is the sesquilinear form <x,y>; expansion of pixel sums over finite linear combinations; conjugate symmetry and positivity axioms",
    "A5 Parseval: torch.fft.fft2(norm='ortho') over the pixel axes preserves <.,.>",
    "torch.vdot(x, y) = <x, y> (conjugate on the FIRST argument), torch.dot(x, y) = sum x*y, torch.norm = sqrt(Re <x, x>), flattening the pixel axes keeps the vector",
    "torch.argsort(descending=True) returns a permutation of the indices with non-increasing keys; a permutation preserves the multiset",
    "tensor.max()/min() bound every element; tensor.any() and boolean-mask gather are abstract (no C10 statement depends on their value)",
    "quantem.core.utils.validators.validate_tensor returns the same numbers as a tensor (helper, not under contract)",
    "induction over slices linking the Sigma-term of torch.mean(dim=0) to the step lemmas of `slice-tying-keeps-amplitude<=1-and-positivity`",
]
ASSUMPTIONS = [
    "A1 floats are reals (the clamp floor 1e-12 and all sums are exact; rounding is only exercised by the bounded stand-ins)",
    "Gram-Schmidt claims are proved under H := every normalised residual has unit norm, i.e. no residual norm fell below clamp_min(1e-12); this is the property's linear-independence precondition in quantitative form (run-time oracle: correlation <= 0.99)",
    "smoothing filters (gaussian_sigma, q_lowpass, q_highpass) are off, as the property's quantifier says; surface / TV terms are soft constraints and not part of apply_hard_constraints",
    "identical_slices with more than one slice: proved are tied slices, result = slice mean of the untied constrained object, and the type claims of that untied object; amplitude <= 1 and positivity of the mean follow by the step lemmas plus trusted induction (also bounded check)",
    "mode count 1..5 is enumerated for _apply_weights and the weights setter (the property's own range); Gram-Schmidt is proved for every mode count by induction",
    "constraint bookkeeping: the rest of the cooperative __init__ chain behind `super().__init__` in BaseConstraints.__init__ (ObjectBase / ProbeBase / nn.Module / mixins) is not interpreted; it runs before `_constraints` is assigned and does not touch DEFAULT_CONSTRAINTS (full construction of the real classes is exercised by the bounded multi-model history check)",
    "Ptychography.reconstruct: only the prologue is under contract (num_iters = 0; the state reached is the state in which the epoch loop starts); optimiser / scheduler / dataset collaborators, model reset() and reset_optimizer() are opaque with an ASSUMED frame (they do not touch constraint dicts); SimpleBatcher.__init__, _reset_rng and compute_propagator_arrays are used through the contracts of C09",
    "ProbeBase.set_initial_probe is verified from a pre-state that already holds another mean intensity / roi_shape (history); the chain ProbePixelated.set_initial_probe -> _apply_random_phase_shifts -> _apply_weights is composed by the bounded re-initialisation check, not by proof",
    "probe center-of-mass constraint, random phase shifts and ProbeParametric/ProbeDIP/ObjectDIP wrappers are outside the claim",
    "dispatcher / .probe contracts: center_probe is off (the centre-of-mass shift is outside the claim); the DIP network is an opaque callable whose output stack has its own mode count; ProbeParametric.probe (same one-line shape) is not under contract",
    "two literal claims are NOT met by the unchanged code and are reported as known findings (pure_phase amplitude m^2 under the FOV mask; complex amplitude not idempotent under a fractional FOV mask); what is proved in their place is stated in the obligations next to them",
    "the amplitude claims (<= 1, = 1, idempotence) are not made for tied multi-slice objects (identical_slices with more than one slice): the property's quantifier says slice tying is only claimed to tie slices; for that case the check proves identical slices and result = slice mean of the untied constrained object (a pure_phase object tied over several slices has amplitude |mean of unit phasors| <= 1 - observation, not a finding)",
]
EXPLANATION = ("VCs from the real source of the object hard constraints (pointwise over one generic pixel of a symbolic-shape tensor, complex entries "
               "as (re, im), mean phase = the code's own Sigma-term), of the Gram-Schmidt orthogonalisation (outer/inner loop invariants in an abstract "
               "complex inner-product space; descending sort through the trusted argsort permutation) and of the probe intensity / weight normalisation "
               "(Parseval); property lemmas for idempotence, slice tying and intensity totals")
