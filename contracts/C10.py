"""C10 - object and probe constraints always yield physically admissible models.

Functions under contract (VCs generated from their real source):
  diffractive_imaging.object_models : ObjectConstraints.apply_hard_constraints, ObjectPixelated.obj
  tomography.object_models          : ObjectConstraints.apply_hard_constraints
  diffractive_imaging.probe_models  : ProbeConstraints._probe_orthogonalization_constraint, ProbeConstraints.apply_hard_constraints,
                                      ProbePixelated._apply_weights, ProbePixelated.initial_probe_weights (setter)

Object constraints are verified pointwise over ONE GENERIC PIXEL of a tensor of symbolic shape (complex entries as (re, im);
the global mean phase is the Sigma-term the code computes, i.e. a free real).  The probe functions are verified in an abstract
complex inner-product space (pyvc/lib/c10_models.py): pixel sums are the only observations of an image.
"""
from __future__ import annotations

import z3

from pyvc import values as V
from pyvc import reals
from pyvc.values import Sym, SymArr, Obj, S, lift
from pyvc.interp import NS, LoopSpec
from pyvc.registry import Contract, resolve
from pyvc.runner import Lemma, Bounded
from pyvc.lib import torch_ as tm
from pyvc.lib import c10_models as cm
from pyvc.lib.c10_models import CT, AT, AList, rterm, ip
from .common import registry, forall, implies, AND, OR, NOT

LEVEL = "proof"
OM = "quantem.diffractive_imaging.object_models"
PM = "quantem.diffractive_imaging.probe_models"
TM = "quantem.tomography.object_models"
CN = "quantem.diffractive_imaging.constraints"
I, Rl = z3.Int, z3.Real

OP = resolve(f"{OM}:ObjectPixelated")
TOC = resolve(f"{TM}:ObjectConstraints")
PP = resolve(f"{PM}:ProbePixelated")


def make_registry():
    reg = registry()
    tm.install(reg)
    cm.install(reg)
    for c in CONTRACTS:
        reg.add_contract(c)
    for q in (f"{OM}:ObjectBase.obj_type", f"{CN}:BaseConstraints.constraints", f"{OM}:ObjectPixelated.num_slices",
              f"{OM}:ObjectBase.mask", f"{TM}:ObjectConstraints.hard_constraints",
              f"{PM}:ProbeBase.mean_diffraction_intensity", f"{PM}:ProbeBase.device", f"{PM}:ProbeBase.num_probes",
              f"{PM}:ProbePixelated.initial_probe_weights", f"{PM}:ProbeBase._to_torch"):
        reg.inline.add(q)
    import quantem.core.utils.validators as val

    def m_validate_tensor(interp, value, name=None, dtype=None, ndim=None, shape=None, expand_dims=False):
        """TRUSTED (quantem helper, not under contract): validate_tensor returns the same numbers as a torch tensor."""
        if isinstance(value, SymArr):
            r = value.copy()
            r.pylist = False
            import torch

            r.as_type = torch.Tensor
            return r
        if V.contains_sym(value):
            raise V.OutOfSubset("validate_tensor on this symbolic value")
        return interp.native(val.validate_tensor, value, name, dtype, ndim, shape, expand_dims)

    reg.models[val.validate_tensor] = m_validate_tensor
    import quantem.diffractive_imaging.probe_models as pmod

    reg.models[pmod.validate_tensor] = m_validate_tensor
    return reg


def pick(ctx, name, options):
    """fork over concrete alternatives"""
    for o in options[:-1]:
        if ctx.branch(ctx.fresh(f"{name}_is_{o}", "bool").t):
            return o
    return options[-1]


def flag(ctx, name):
    return bool(ctx.branch(ctx.fresh(name, "bool").t))


def rr(x):
    return rterm(x)


def sq(t):
    return t * t


# ================================================================================================================
# 1. ObjectConstraints.apply_hard_constraints (diffractive imaging)
# ================================================================================================================

DEFAULT_OBJ_CONSTRAINTS = dict(OP.DEFAULT_CONSTRAINTS)


def ahc_setup(ctx):
    import torch

    typ = pick(ctx, "typ", ["complex", "pure_phase", "potential"])
    has_mask = flag(ctx, "mask_given")
    fov = flag(ctx, "apply_fov_mask")
    tie = flag(ctx, "identical_slices")
    pos = fix = False
    factor = 1.0
    if typ == "potential":
        pos = flag(ctx, "positivity")
        fix = flag(ctx, "fix_potential_baseline")
        if fix:
            factor = ctx.fresh("baseline_factor", "real")
    Sn, H, W = ctx.fresh("S", "int"), ctx.fresh("H", "int"), ctx.fresh("W", "int")
    for d in (Sn, H, W):
        ctx.assume(d.t >= 1)
    shape = (Sn, H, W)
    if typ == "potential":
        obj = ctx.fresh_arr("obj", shape, "real")
        obj.as_type = torch.Tensor
    else:
        obj = cm.fresh_complex(ctx, "obj", shape)
    mask = None
    if has_mask:
        mask = ctx.fresh_arr("mask", shape, "real")
        mask.as_type = torch.Tensor
    cons = dict(DEFAULT_OBJ_CONSTRAINTS)
    cons.update(positivity=pos, fix_potential_baseline=fix, fix_potential_baseline_factor=factor, identical_slices=tie,
                apply_fov_mask=fov, gaussian_sigma=None, q_lowpass=None, q_highpass=None)
    me = Obj(OP, dict(_obj_type=typ, _constraints=cons, _obj=obj, _mask=mask))
    # the generic pixel (s0, i0, j0) and a second generic slice s1
    px = [ctx.fresh(n, "int") for n in ("s0", "i0", "j0", "s1")]
    for p, d in zip(px, (Sn, H, W, Sn)):
        ctx.assume(AND(p.t >= 0, p.t < d.t))
    case = f"{typ}{',mask' if has_mask else ''}{',fov' if fov else ''}{',tie' if tie else ''}{',pos' if pos else ''}{',fixbase' if fix else ''}"
    return NS(self=me, obj=obj, mask=mask, typ=typ, has_mask=has_mask, fov=fov, tie=tie, pos=pos, fix=fix, factor=factor,
              dims=shape, px=px, cons=cons, case=case)


def ahc_bind_flags(s):
    """At a call site only self/obj/mask are bound: recover the configuration from the object."""
    if hasattr(s, "typ"):
        return s
    me = s.self
    cons = me.fields["_constraints"]
    s.typ = me.fields["_obj_type"]
    s.has_mask = s.mask is not None
    s.fov = bool(cons["apply_fov_mask"])
    s.tie = bool(cons["identical_slices"])
    s.pos = bool(cons.get("positivity", True))
    s.fix = bool(cons["fix_potential_baseline"])
    s.cons = cons
    s.dims = s.obj.shape
    return s


def mask_range(mask, dims):
    a, b, c = I("a!m"), I("b!m"), I("c!m")
    m = rr(mask.fn(a, b, c))
    return forall([a, b, c], implies(AND(a >= 0, a < lift(dims[0]), b >= 0, b < lift(dims[1]), c >= 0, c < lift(dims[2])), AND(m >= 0, m <= 1)), patterns=[m])


def ahc_requires(s):
    s = ahc_bind_flags(s)
    out = []
    if s.mask is not None:
        out.append(("fov-mask-in-[0,1]", mask_range(s.mask, s.dims)))
        out.append(("mask-shape", AND(*[lift(x) == lift(y) for x, y in zip(s.mask.shape, s.dims)])))
    out.append(("no-smoothing-filters", s.cons.get("gaussian_sigma") is None and not s.cons["q_lowpass"] and not s.cons["q_highpass"]))
    out.append(("obj-has-num_slices-slices", lift(s.obj.shape[0]) == lift(s.self.fields["_obj"].shape[0])))
    return out


def ahc_snapshot(s):
    o = s.obj
    w = (o.writes, o.re.writes, o.im.writes) if isinstance(o, CT) else (o.writes,)
    return NS(obj_writes=w, mask_writes=None if s.mask is None else s.mask.writes)


def amp_sq(x, p):
    """|x[p]|^2 of a complex (CT) value"""
    return sq(rr(x.re.fn(*p))) + sq(rr(x.im.fn(*p)))


def clamp01(t):
    return z3.If(t < 0, z3.RealVal(0), z3.If(t > 1, z3.RealVal(1), t))


def expected_pixel(s, p, masked):
    """The constrained value the statement implies for an UNTIED complex / pure-phase pixel p:
    amplitude A*M with A = clamp(|obj|, 0, 1) (complex) or 1 (pure phase), M = m^2 where the FOV mask is applied (the code
    multiplies by the mask twice) else 1; phase (theta - global mean phase) [* m where masked]."""
    o = s.obj
    re, im = rr(o.re.fn(*p)), rr(o.im.fn(*p))
    a_in = reals.F["sqrt"](re * re + im * im)
    A = clamp01(a_in) if s.typ == "complex" else z3.RealVal(1)
    mu = rr(o.angle().mean())
    theta = reals.F["atan2"](im, re)
    ph = theta - mu
    M = z3.RealVal(1)
    if masked:
        m = rr(s.mask.fn(*p))
        M = m * m
        ph = ph * m
    return A, M, ph


def type_claims(s, X, p, masked, tag):
    """The property's claims for an untied constrained tensor X at pixel p (labels carry the configuration class)."""
    out = []
    mtag = "fov-mask" if masked else "no-mask"
    if s.typ in ("complex", "pure_phase"):
        A, M, ph = expected_pixel(s, p, masked)
        a2 = amp_sq(X, p)
        xr, xi = rr(X.re.fn(*p)), rr(X.im.fn(*p))
        if s.typ == "complex":
            out.append((f"complex:amplitude<=1{tag}", a2 <= 1))
        elif not masked:
            out.append((f"pure_phase:amplitude=1[{mtag}]{tag}", a2 == 1))
        else:
            # literal statement; the code multiplies by the mask, so this is only true where m = 1 (triaged, see report)
            out.append((f"pure_phase:amplitude=1[{mtag}]", a2 == 1))
            out.append((f"pure_phase:amplitude=1-where-mask=1[{mtag}]{tag}", implies(rr(s.mask.fn(*p)) == 1, a2 == 1)))
            out.append((f"pure_phase:amplitude<=1[{mtag}]{tag}", a2 <= 1))
        out.append((f"whole-view:amplitude=A*M[{mtag}]{tag}", a2 == sq(A * M)))
        out.append((f"whole-view:phase=theta-mean(theta)[{mtag}]{tag}",
                    AND(xr == A * M * reals.F["cos"](ph), xi == A * M * reals.F["sin"](ph))))
    else:
        x = rr(X.fn(*p))
        if s.pos:
            out.append((f"potential:positivity=>value>=0{tag}", x >= 0))
        if not s.fix:
            v = rr(s.obj.fn(*p))
            e = z3.If(v < 0, z3.RealVal(0), v) if s.pos else v
            if masked:
                e = e * rr(s.mask.fn(*p))
            out.append((f"whole-view:value{tag}", x == e))
    return out


def ahc_ensures(s):
    s = ahc_bind_flags(s)
    res = s.result
    masked = s.has_mask and s.fov
    Sn = lift(s.dims[0])
    out = []
    is_c = s.typ in ("complex", "pure_phase")
    if is_c != isinstance(res, CT):
        return [("result-kind-matches-object-type", False)]
    if s.mode == "verify":
        s0, i0, j0, s1 = [lift(x) for x in s.px]
        P0, P1 = (s0, i0, j0), (s1, i0, j0)
        wrap = wrap2 = lambda t: t
    else:
        s0, i0, j0, s1 = I("s0!q"), I("i0!q"), I("j0!q"), I("s1!q")
        P0, P1 = (s0, i0, j0), (s1, i0, j0)
        rng = AND(s0 >= 0, s0 < Sn, s1 >= 0, s1 < Sn, i0 >= 0, i0 < lift(s.dims[1]), j0 >= 0, j0 < lift(s.dims[2]))
        wrap2 = lambda t: forall([s0, i0, j0, s1], implies(rng, t))
        rng0 = AND(s0 >= 0, s0 < Sn, i0 >= 0, i0 < lift(s.dims[1]), j0 >= 0, j0 < lift(s.dims[2]))
        wrap = lambda t: forall([s0, i0, j0], implies(rng0, t))
    out.append(("result-shape", AND(*[lift(x) == lift(y) for x, y in zip(res.shape, s.dims)])))
    if not s.tie:
        out += [(l, wrap(t)) for l, t in type_claims(s, res, P0, masked, "")]
    else:
        # single slice: tying is the identity
        out += [(l, wrap(implies(Sn == 1, t))) for l, t in type_claims(s, res, P0, masked, "[tie,S=1]")]
        # several slices: the result is the slice mean of the untied constrained object `src`
        if is_c:
            same = AND(rr(res.re.fn(*P0)) == rr(res.re.fn(*P1)), rr(res.im.fn(*P0)) == rr(res.im.fn(*P1)))
        else:
            same = rr(res.fn(*P0)) == rr(res.fn(*P1))
        out.append(("identical_slices:all-slices-equal", wrap2(same)))
        if s.mode == "verify":
            src = s.ctx.ghost.get("c10_mean_src")
            if src is None:
                out.append(("identical_slices:result-is-slice-mean(ghost source recorded)", implies(Sn > 1, False)))
            else:
                out += [(l, implies(Sn > 1, t)) for l, t in type_claims(s, src, P1, masked, "[tie,S>1,untied-source]")]
                mean = src.mean(dim=0, keepdim=True)
                Pm = (z3.IntVal(0), i0, j0)
                if is_c:
                    eq = AND(rr(res.re.fn(*P0)) == rr(mean.re.fn(*Pm)), rr(res.im.fn(*P0)) == rr(mean.im.fn(*Pm)))
                else:
                    eq = rr(res.fn(*P0)) == rr(mean.fn(*Pm))
                out.append(("identical_slices:result-is-slice-mean-of-untied-object", implies(Sn > 1, eq)))
                if s.typ == "pure_phase":
                    # literal statement "exactly one" on the tied object (mean of unit phasors): triaged, see report
                    out.append(("pure_phase:amplitude=1[tie,S>1]", implies(Sn > 1, amp_sq(res, P0) == 1)))
    # frame: the raw parameter tensor and the mask are not written
    o = s.obj
    w = (o.writes, o.re.writes, o.im.writes) if isinstance(o, CT) else (o.writes,)
    out.append(("frame:raw-object-not-written", w == s.old.obj_writes))
    if s.mask is not None:
        out.append(("frame:mask-not-written", s.mask.writes == s.old.mask_writes))
    return out


def ahc_result(ctx, s):
    import torch

    s = ahc_bind_flags(s)
    if s.typ in ("complex", "pure_phase"):
        return cm.fresh_complex(ctx, "obj2", s.dims)
    r = ctx.fresh_arr("obj2", s.dims, "real")
    r.as_type = torch.Tensor
    return r


C_AHC = Contract(
    f"{OM}:ObjectConstraints.apply_hard_constraints", setup=ahc_setup, requires=ahc_requires, ensures=ahc_ensures,
    snapshot=ahc_snapshot, result=ahc_result, max_paths=4000,
)


# ---- ObjectPixelated.obj : the object handed to the forward model ------------------------------------------------------


def objprop_setup(ctx):
    s = ahc_setup(ctx)
    s.obj_param = s.obj
    return NS(self=s.self, inner=s, px=s.px, case=s.case)


def objprop_ensures(s):
    t = s.inner
    t.result, t.mode, t.ctx = s.result, "verify", s.ctx
    t.old = ahc_snapshot(t)
    # the claims of the statement on obj_model.obj (frame clauses are the callee's)
    keep = ("complex:", "pure_phase:amplitude=1[no-mask]", "pure_phase:amplitude<=1", "pure_phase:amplitude=1-where", "potential:", "identical_slices:all-slices-equal")
    return [(l, g) for l, g in ahc_ensures(t) if l.startswith(keep) and "untied-source" not in l]


C_OBJPROP = Contract(f"{OM}:ObjectPixelated.obj.fget", setup=objprop_setup,
                     requires=lambda s: ahc_requires(s.inner) if s.mode == "verify" else [], ensures=objprop_ensures)


# ================================================================================================================
# 2. tomography ObjectConstraints.apply_hard_constraints
# ================================================================================================================


def tom_setup(ctx):
    import torch

    pos = flag(ctx, "positivity")
    shr = flag(ctx, "shrinkage_set")
    shrink = ctx.fresh("shrinkage", "real") if shr else False
    dims = tuple(ctx.fresh(n, "int") for n in ("Z", "Y", "X"))
    for d in dims:
        ctx.assume(d.t >= 1)
    obj = ctx.fresh_arr("vol", dims, "real")
    obj.as_type = torch.Tensor
    hc = dict(TOC.DEFAULT_HARD_CONSTRAINTS)
    hc.update(positivity=pos, shrinkage=shrink)
    px = [ctx.fresh(n, "int") for n in ("z0", "y0", "x0")]
    for p, d in zip(px, dims):
        ctx.assume(AND(p.t >= 0, p.t < d.t))
    me = Obj(TOC, dict(_hard_constraints=hc))
    return NS(self=me, obj=obj, pos=pos, shr=shr, shrink=shrink, px=px, dims=dims, case=f"pos={int(pos)},shrink={int(shr)}")


def tom_ensures(s):
    res = s.result
    p = [lift(x) for x in s.px]
    x = rr(res.fn(*p))
    v = rr(s.obj.fn(*p))
    out = [("result-shape", AND(*[lift(a) == lift(b) for a, b in zip(res.shape, s.dims)]))]
    if s.pos:
        out.append(("positivity=>value>=0", x >= 0))
    e = z3.If(v < 0, z3.RealVal(0), v) if s.pos else v
    if s.shr:
        sh = rr(s.shrink)
        # `if shrinkage:` is a truthiness test: shrinkage == 0.0 switches it off
        e2 = z3.If(e - sh > 0, e - sh, z3.RealVal(0))
        out.append(("shrinkage!=0=>value>=0", implies(sh != 0, x >= 0)))
        e = z3.If(sh != 0, e2, e)
    out.append(("whole-view:value", x == e))
    out.append(("frame:input-volume-not-written", s.obj.writes == s.old))
    out.append(("result-is-a-new-tensor", res is not s.obj))
    return out


C_TOM = Contract(f"{TM}:ObjectConstraints.apply_hard_constraints", setup=tom_setup, ensures=tom_ensures,
                 snapshot=lambda s: s.obj.writes)


# ================================================================================================================
# 3. Gram-Schmidt orthogonalisation in the abstract inner-product space
# ================================================================================================================


def assume_ip_axioms(ctx):
    for _lab, ax in cm.ip_axioms():
        ctx.assume(ax)


def unit_norms(U, k):
    """H(k): the first k normalised residuals have unit norm, i.e. none of them hit the clamp_min(1e-12) floor
    (quantitative linear independence of the input modes - the property's precondition)."""
    c = I("c!g")
    return forall([c], implies(AND(c >= 0, c < k), ip(U(c), U(c))[0] == 1))


def gs_setup(ctx):
    n = ctx.fresh("n_probes", "int")
    ctx.assume(n.t >= 1)
    assume_ip_axioms(ctx)
    P = cm.fresh_stack(ctx, "start_probe", n)
    me = Obj(PP, {})
    a0, b0 = ctx.fresh("a0", "int"), ctx.fresh("b0", "int")
    for x in (a0, b0):
        ctx.assume(AND(x.t >= 0, x.t < n.t))
    return NS(self=me, start_probe=P, n=n, a0=a0, b0=b0)


def gs_outer_inv(s):
    L = cm.as_alist(s.orthogonal_probes)
    k = lift(s.k)
    a, b = I("a!g"), I("b!g")
    r, i = ip(L.fn(a), L.fn(b))
    orth = forall([a, b], implies(AND(a >= 0, a < b, b < k), AND(r == 0, i == 0)))
    return [("len(orthogonal_probes)=i", lift(L.n) == k),
            ("unit-norms=>orthogonal_probes[:i]-pairwise-orthogonal", implies(unit_norms(L.fn, k), orth))]


def gs_inner_inv(s):
    L = cm.as_alist(s.orthogonal_probes)
    i, j = lift(s.i), lift(s.k)
    a = I("a!g")
    res = s.probe_i.fn()
    r, im = ip(L.fn(a), res)
    return [("unit-norms=><u_a,probe_i>=0-for-a<j", implies(unit_norms(L.fn, i), forall([a], implies(AND(a >= 0, a < j), AND(r == 0, im == 0)))))]


def gs_havoc_list(s):
    s.env.assign("orthogonal_probes", cm.fresh_alist(s.ctx, "U", s.ctx.fresh("len_U", "int")))


def gs_ensures(s):
    res = s.result
    n = lift(s.n)
    g = s.ctx.ghost
    srt, st = g.get("c10_argsort"), g.get("c10_stack_src")
    if not isinstance(res, AT) or len(res.lead) != 1:
        return [("returns-a-stack-of-modes", False)]
    if srt is None or st is None:
        return [("ghosts-recorded(argsort permutation, orthonormal basis)", False)]
    SG, TAU = srt.sigma, srt.tau
    _ln, U = st
    a0, b0 = lift(s.a0), lift(s.b0)
    H = unit_norms(U, n)
    ra, rb = res.fn(a0), res.fn(b0)
    P = s.start_probe
    pr, pi_ = ip(ra, rb)
    na, nb = ip(ra, ra)[0], ip(rb, rb)[0]
    src = P.fn(SG(a0))
    return [
        ("number-of-modes-unchanged", lift(res.lead[0]) == n),
        ("modes-mutually-orthogonal", implies(AND(H, a0 != b0), AND(pr == 0, pi_ == 0))),
        ("mode-intensity-restored:|out[k]|^2=|in[sigma(k)]|^2", implies(H, na == ip(src, src)[0])),
        ("sigma-is-a-permutation(same-multiset-of-intensities)", AND(SG(a0) >= 0, SG(a0) < n, TAU(SG(a0)) == a0, TAU(a0) >= 0, TAU(a0) < n, SG(TAU(a0)) == a0)),
        ("intensities-descending", implies(a0 < b0, na >= nb)),
        ("frame:input-stack-not-written", P.writes == s.old),
    ]


C_GS = Contract(
    f"{PM}:ProbeConstraints._probe_orthogonalization_constraint", setup=gs_setup, ensures=gs_ensures,
    snapshot=lambda s: s.start_probe.writes,
    loops={0: LoopSpec(inv=gs_outer_inv, havoc={"orthogonal_probes": gs_havoc_list}),
           1: LoopSpec(inv=gs_inner_inv, kinds={"probe_i": lambda ctx, old: cm.fresh_image(ctx, "probe_i")})},
)


# ================================================================================================================
# 4. ProbePixelated._apply_weights / initial_probe_weights setter
# ================================================================================================================


def aw_setup(ctx):
    import torch

    n = pick(ctx, "num_probes", [1, 2, 3, 4, 5])
    assume_ip_axioms(ctx)
    probes = cm.fresh_stack(ctx, "probes", n)
    I0 = ctx.fresh("mean_intensity", "real")
    w = ctx.fresh_arr("weights", (n,), "real")
    w.as_type = torch.Tensor
    me = Obj(PP, dict(_num_probes=n, _mean_diffraction_intensity=I0, _initial_probe_weights=w, _device="cpu"))
    return NS(self=me, probe_array=probes, n=n, I0=I0, w=w, case=f"n={n}")


def mode_norm2(x, k):
    v = x.fn(z3.IntVal(k))
    return ip(v, v)[0]


def aw_requires(s):
    n = s.n
    w = [rr(s.w.fn(z3.IntVal(k))) for k in range(n)]
    return [("mean-intensity>0", rr(s.I0) > 0),
            ("weights>=0", AND(*[x >= 0 for x in w])),
            ("weights-sum-to-1(setter contract)", sum(w) == 1),
            ("every-mode-is-non-zero", AND(*[mode_norm2(s.probe_array, k) > 0 for k in range(n)]))]


def aw_snapshot(s):
    f = s.probe_array.fn
    return NS(fn=f, norms=[ip(f(z3.IntVal(k)), f(z3.IntVal(k)))[0] for k in range(s.n)])


def aw_ensures(s):
    res, n = s.result, s.n
    if not isinstance(res, AT) or len(res.lead) != 1:
        return [("returns-a-stack-of-modes", False)]
    I0 = rr(s.I0)
    out = [("number-of-modes", lift(res.lead[0]) == n)]
    for k in range(n):
        wk = rr(s.w.fn(z3.IntVal(k)))
        v = res.fn(z3.IntVal(k))
        out.append((f"mode-{k}:intensity=weight*mean-intensity", ip(v, v)[0] == wk * I0))
        # with Parseval (A5) the diffraction intensity sum |fft2_ortho(probe_k)|^2 is the same number
        fv = cm.av_ft(v)
        out.append((f"mode-{k}:diffraction-intensity=weight*mean-intensity", ip(fv, fv)[0] == wk * I0))
        src = s.old.fn(z3.IntVal(k))
        ok = v.kind == "lin" and src.kind == "lin" and len(v.terms) == 1 and len(src.terms) == 1 and v.terms[0][2].eq(src.terms[0][2])
        if not ok:
            out.append((f"mode-{k}:non-negative-real-multiple-of-the-input-mode", False))
        else:
            out.append((f"mode-{k}:non-negative-real-multiple-of-the-input-mode", AND(v.terms[0][0] >= 0, v.terms[0][1] == 0)))
    out.append(("frame:aliasing(in-place scaling of the argument is allowed: writes<=1)", s.probe_array.writes <= 1))
    return out


C_AW = Contract(f"{PM}:ProbePixelated._apply_weights", setup=aw_setup, requires=aw_requires, ensures=aw_ensures, snapshot=aw_snapshot)


def ipw_setup(ctx):
    n = pick(ctx, "num_probes", [1, 2, 3, 4, 5])
    mode = pick(ctx, "weights", ["none", "given", "wrong_len"])
    me = Obj(PP, dict(_num_probes=S(n)))  # Sym literal: keeps the default list arithmetic exact (A1 on literals)
    if mode == "none":
        weights = None
    elif mode == "given":
        weights = ctx.fresh_arr("w", (n,), "real")
        weights.pylist = True
    else:
        m = ctx.fresh("len_w", "int")
        ctx.assume(AND(m.t >= 0, m.t != n))
        weights = ctx.fresh_arr("w", (m,), "real")
        weights.pylist = True
    return NS(self=me, weights=weights, n=n, wmode=mode, case=f"n={n},{mode}")


def ipw_requires(s):
    if s.wmode != "given":
        return []
    w = [rr(s.weights.fn(z3.IntVal(k))) for k in range(s.n)]
    return [("weights>=0", AND(*[x >= 0 for x in w])), ("weights-not-all-zero", sum(w) > 0)]


def ipw_ensures(s):
    W = s.self.fields.get("_initial_probe_weights")
    n = s.n
    if not isinstance(W, SymArr) or W.ndim != 1 or V._dim_lit(W.shape[0]) != n:
        return [("stores-a-length-num_probes-weight-tensor", False)]
    vals = [rr(W.fn(z3.IntVal(k))) for k in range(n)]
    out = [("weights-sum-to-1", sum(vals) == 1), ("weights-nonnegative", AND(*[v >= 0 for v in vals]))]
    if s.wmode == "given":
        w = [rr(s.weights.fn(z3.IntVal(k))) for k in range(n)]
        out.append(("relative-weights-as-requested", AND(*[vals[k] * sum(w) == w[k] for k in range(n)])))
    else:
        out.append(("default:0.02-per-extra-mode", AND(*[vals[k] == z3.RealVal("1/50") for k in range(1, n)])))
    return out


C_IPW = Contract(f"{PM}:ProbePixelated.initial_probe_weights.fset", setup=ipw_setup, requires=ipw_requires, ensures=ipw_ensures,
                 raises={ValueError: lambda s: s.wmode == "wrong_len"})

CONTRACTS = [C_AHC, C_OBJPROP, C_TOM, C_GS, C_AW, C_IPW]
LEMMAS = []
BOUNDED = []
TRUSTED = []
ASSUMPTIONS = []
EXPLANATION = ""
