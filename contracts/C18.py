"""C18 - centre-of-mass origins: CoM = (sum I*row / sum I, sum I*col / sum I) in all three implementations,
vectorised == looped, batch independence, constant fit, integer origin shift == circular roll."""
from __future__ import annotations

import z3

from pyvc import values as V
from pyvc.values import Sym, SymArr, Obj, S, lift
from pyvc.interp import NS, LoopSpec, GhostGen
from pyvc.registry import Contract, resolve
from pyvc.runner import Lemma, Bounded
from pyvc.lib import numpy_ as npm
from pyvc.lib import torch_ as tm
from pyvc.lib import c18_models as lm
from .common import registry, ceil_div, zmin, zmax, forall, implies, AND, OR, NOT, opt_int

import numpy as np
import torch

LEVEL = "proof"
OM = "quantem.diffractive_imaging.origin_models"
DM = "quantem.diffractive_imaging.dataset_models"
PU = "quantem.diffractive_imaging.ptycho_utils"
VAL = "quantem.core.utils.validators"
UT = "quantem.core.utils.utils"
AF = "quantem.core.utils.array_funcs"
DS = "quantem.core.datastructures.dataset"

I, Rl = z3.Int, z3.Real
COM = resolve(f"{OM}:CenterOfMassOriginModel")
SB = resolve(f"{PU}:SimpleBatcher")
PDR = resolve(f"{DM}:PtychographyDatasetRaster")
DATASET = resolve(f"{DS}:Dataset")

INLINE = [
    f"{OM}:CenterOfMassOriginModel.dataset", f"{OM}:CenterOfMassOriginModel.tensor", f"{OM}:CenterOfMassOriginModel.device",
    f"{OM}:CenterOfMassOriginModel.shifted_tensor",
    f"{DS}:Dataset.shape", f"{DS}:Dataset.array", f"{DS}:Dataset.ndim",
    f"{PU}:SimpleBatcher.rng", f"{UT}:tqdmnd",
    f"{AF}:sum", f"{AF}:match_device", f"{AF}:validate_arraylike",
    f"{DM}:PtychographyDatasetRaster.com_measured", f"{DM}:PtychographyDatasetRaster.com_fit", f"{DM}:PtychographyDatasetRaster.gpts",
    f"{DM}:PtychographyDatasetBase.roi_shape", f"{DM}:PtychographyDatasetBase.dset",
]


def make_registry():
    reg = registry()
    tm.install(reg)
    lm.install(reg)
    for c in CONTRACTS + ASSUMED_CONTRACTS:
        reg.add_contract(c)
    for c in CONTRACTS:
        if isinstance(c, SetterContract):
            reg.contracts[c.prop_qn] = c  # getter and setter share one __qualname__; the wrapper dispatches on arity
    reg.inline.update(INLINE)
    return reg


class SetterContract(Contract):
    """Contract of a property *setter*.  The getter has the same __qualname__, so a call with only `self` is the getter
    (a one-line `return self._x`) and is interpreted from its source."""

    def __init__(self, func, **kw):
        super().__init__(func, **kw)
        mod, _, qn = func.partition(":")
        assert qn.endswith(".fset")
        self.prop_qn = f"{mod}:{qn[:-5]}"
        self.getter = resolve(f"{mod}:{qn[:-5]}.fget")

    def apply(self, interp, args, kwargs):
        if len(args) + len(kwargs) == 1:
            return interp.call_closure(interp.closure_of(self.getter), args, kwargs)
        return super().apply(interp, args, kwargs)


class FamilyGen(GhostGen):
    """Ghost sequence of a generator given directly as (count, k -> k-th yielded value)."""

    def __init__(self, count, getter, ctx, tag="family"):
        kk = ctx.fresh("ky", "int")
        super().__init__([("family", count, kk, getter(kk), tag)])
        self._count, self._getter = count, getter

    def family(self):
        return self._count, self._getter


# ------------------------------------------------------------------------------------------------
# THE SPECIFICATION (from the property statement): intensity-weighted mean detector coordinate, row then column
# ------------------------------------------------------------------------------------------------


def com_spec(pattern, H, W):
    """pattern(i, j) -> value (Sym / term) of one diffraction pattern of shape (H, W).
    Returns the pair of terms (sum_ij I*i / sum_ij I, sum_ij I*j / sum_ij I)."""
    pat = SymArr((H, W), lambda i, j: S(pattern(i, j)), "real")
    rows = SymArr((H, W), lambda i, j: Sym(i), "int")
    cols = SymArr((H, W), lambda i, j: Sym(j), "int")
    den = lm.reduce_sum(pat)
    return lift(V._realdiv(lm.reduce_sum(pat * rows), den)), lift(V._realdiv(lm.reduce_sum(pat * cols), den))


def pattern_of(fn, lead, p):
    """Pattern number p (row-major over the scan axes) of a dataset whose index function is `fn`:
    3-D (N,H,W): fn(p, i, j);  4-D (Rx,Ry,H,W): fn(p div Ry, p mod Ry, i, j)."""
    p = lift(p)
    if len(lead) == 1:
        return lambda i, j: fn(p, i, j)
    ry = lift(lead[1])
    return lambda i, j: fn(p / ry, p % ry, i, j)


def arange_arr(n):
    nt = lift(n)
    return npm.index_array(n, lambda i: Sym(i), lambda v: z3.And(lift(v) >= 0, lift(v) < nt), lambda v: lift(v), name="arange")


def havoc_array(ctx, a, name):
    """Loop havoc of an array that is written through subscripts: arbitrary contents, same object."""
    f = ctx.fresh_arr(name, a.shape, a.kind if a.kind in ("int", "real", "bool") else "real")
    a.fn = f.fn


# ------------------------------------------------------------------------------------------------
# SimpleBatcher in the configuration used by the origin model (shuffle=False, no validation split)
# ------------------------------------------------------------------------------------------------


def sbi_setup(ctx):
    return NS(self=Obj(SB, {}), num=ctx.fresh("num", "int"), batch_size=opt_int(ctx, "batch_size"), shuffle=False)


def _sbi_plain(s):
    g = s.get
    return (s.shuffle is False and g("rng") is None and g("val_ratio", 0.0) == 0.0 and g("train_indices") is None
            and g("val_indices") is None)


def sbi_requires(s):
    return [("unshuffled-batcher-without-validation-split", _sbi_plain(s))]


def sbi_modifies(ctx, s):
    n = V.smax(0, s.num)
    idx = arange_arr(n)
    s.self.fields.update(indices=idx, train_indices=idx, val_indices=np.asarray([], dtype=int), shuffle=False, _rng=None,
                         batch_size=s.batch_size if s.batch_size is not None else s.num)


def sbi_ensures(s):
    f = s.self.fields
    tr = f["train_indices"]
    n = lift(tr.sym_len())
    i = I("i")
    return [
        ("train-length=max(0,num)", n == zmax(0, s.num)),
        ("train[i]=i", forall(i, implies(AND(i >= 0, i < n), lift(tr.fn(i)) == i))),
        ("batch_size", lift(f["batch_size"]) == lift(s.batch_size if s.batch_size is not None else s.num)),
        ("no-validation-indices", len(f["val_indices"]) == 0),
        ("shuffle-off", f["shuffle"] is False),
    ]


C_SB_INIT = Contract(f"{PU}:SimpleBatcher.__init__", setup=sbi_setup, requires=sbi_requires, ensures=sbi_ensures, modifies=sbi_modifies)


def batch_k(train, k, B, n):
    """k-th batch of the unshuffled epoch: train[kB : kB + min(B, n - kB)] with injectivity ghosts."""
    kB = lift(k) * lift(B)
    ln = zmax(0, zmin(B, lift(n) - kB))
    tf, tmem, tinv = train.fn, train.mem, train.inv
    return npm.index_array(Sym(ln), lambda i: tf(kB + i),
                           lambda v: z3.And(tmem(v), tinv(v) >= kB, tinv(v) < kB + ln), lambda v: tinv(v) - kB, name="batch")


def sbit_setup(ctx):
    train = npm.fresh_index_array(ctx, "train")
    B = ctx.fresh("batch_size", "int")
    return NS(self=Obj(SB, dict(train_indices=train, batch_size=B, shuffle=False, _rng=None)))


def sbit_requires(s):
    f = s.self.fields
    return [("shuffle-off", f["shuffle"] is False), ("batch_size>=1", lift(f["batch_size"]) >= 1)]


def sbit_yields(s):
    f = s.self.fields
    return batch_k(s.train_order, s.k, f["batch_size"], s.train_order.sym_len())


def sbit_ensures(s):
    if s.mode == "apply":
        return []  # the call-site result is constructed as exactly the sequence described below
    f = s.self.fields
    train, B = f["train_indices"], lift(f["batch_size"])
    n = lift(train.sym_len())
    N, getter = s.result.family()
    k, i = I("k"), I("i")
    yk = getter(k)
    cnt = ceil_div(n, B)
    ink = AND(k >= 0, k < cnt)
    lenk = lift(yk.sym_len())
    return [
        ("number-of-batches=ceil(n/B)", lift(N) == cnt),
        ("batch-k-length=min(B,n-kB)", forall(k, implies(ink, lenk == zmin(B, n - k * B)))),
        ("batches-non-empty", forall(k, implies(ink, lenk >= 1))),
        ("batch-k-element-i-is-train[kB+i]", forall([k, i], implies(AND(ink, i >= 0, i < lenk), lift(yk.fn(i)) == lift(train.fn(k * B + i))))),
    ]


def sbit_result(ctx, s):
    f = s.self.fields
    train, B = f["train_indices"], f["batch_size"]
    n = train.sym_len()
    return FamilyGen(Sym(ceil_div(n, B)), lambda k: batch_k(train, k, B, n), ctx, "SimpleBatcher.__iter__")


C_SB_ITER = Contract(f"{PU}:SimpleBatcher.__iter__", setup=sbit_setup, requires=sbit_requires, ensures=sbit_ensures, result=sbit_result,
                     loops={0: LoopSpec(yields=sbit_yields)})

# ------------------------------------------------------------------------------------------------
# validators: ASSUMED contracts (used at call sites, NOT verified here - see ASSUMPTIONS)
# ------------------------------------------------------------------------------------------------


def _vt_result(ctx, s):
    v = s.value
    if isinstance(v, SymArr):
        if getattr(v, "as_type", None) is torch.Tensor:
            return v
        r = v.copy()
        r.as_type = torch.Tensor
        return r
    raise V.OutOfSubset("validate_tensor of a non-array symbolic value")


C_VALIDATE_TENSOR = Contract(f"{VAL}:validate_tensor", result=_vt_result,
                             requires=lambda s: [("real-array-no-ndim/shape-request", isinstance(s.value, SymArr) and s.ndim is None and s.shape is None)])


def _va_value(s):
    v = s.value
    if isinstance(v, (tuple, list)):
        return lm.stack(list(v), 0, np.ndarray)
    return v


def _va_shape_mismatch(s):
    if s.shape is None:
        return False
    v = _va_value(s)
    want = tuple(s.shape)
    if len(want) != v.ndim:
        return True
    return z3.Not(z3.And(*[lift(a) == lift(b) for a, b in zip(v.shape, want)]))


C_VALIDATE_ARRAY = Contract(f"{VAL}:validate_array", result=lambda ctx, s: _va_value(s),
                            requires=lambda s: [("array-or-sequence-of-arrays", isinstance(s.value, SymArr) or all(isinstance(x, SymArr) for x in s.value))],
                            raises={ValueError: _va_shape_mismatch})

ASSUMED_CONTRACTS = [C_VALIDATE_TENSOR, C_VALIDATE_ARRAY]

# ------------------------------------------------------------------------------------------------
# CenterOfMassOriginModel
# ------------------------------------------------------------------------------------------------


def com_model(ctx, measured=False, fitted=False):
    """Abstract CenterOfMassOriginModel over a 3-D (N,H,W) or 4-D (Rx,Ry,H,W) dataset; all extents symbolic >= 1."""
    H, W = ctx.fresh("H", "int"), ctx.fresh("W", "int")
    ctx.assume(H.t >= 1)
    ctx.assume(W.t >= 1)
    four = ctx.fresh("dataset_is_4d", "bool")
    if ctx.branch(four.t):
        Rx, Ry = ctx.fresh("Rx", "int"), ctx.fresh("Ry", "int")
        ctx.assume(Rx.t >= 1)
        ctx.assume(Ry.t >= 1)
        lead = (Rx, Ry)
        N = Rx * Ry
    else:
        N = ctx.fresh("N", "int")
        ctx.assume(N.t >= 1)
        lead = (N,)
    T = ctx.fresh_arr("T", lead + (H, W), "real")
    T.as_type = torch.Tensor
    A = ctx.fresh_arr("A", lead + (H, W), "real")
    A.as_type = np.ndarray
    ds = Obj(DATASET, {"_array": A})
    fields = dict(_dataset=ds, _tensor=T, num_dps=N, _device="cpu", _origin_measured=None, _origin_fitted=None, _shifted_tensor=None)
    g = NS(T=T, Tfn=T.fn, A=A, lead=lead, N=N, H=H, W=W, ds=ds)
    if measured:
        om = ctx.fresh_arr("origin_measured", (N, 2), "real")
        om.as_type = torch.Tensor
        fields["_origin_measured"] = om
        g.om, g.omfn = om, om.fn
    if fitted:
        of = ctx.fresh_arr("origin_fitted", (N, 2), "real")
        of.as_type = torch.Tensor
        fields["_origin_fitted"] = of
        g.of, g.offn = of, of.fn
    me = Obj(COM, fields)
    ctx.ghost["c18"] = g
    g.me = me
    g.case = "4d" if len(lead) == 2 else "3d"
    return me, g


# ---- origin setters: value.view(-1, 2).expand(num_dps, 2)


def oset_setup(field):
    def setup(ctx):
        N = ctx.fresh("num_dps", "int")
        ctx.assume(N.t >= 0)
        me = Obj(COM, dict(num_dps=N, _device="cpu", _origin_measured=None, _origin_fitted=None, _shifted_tensor=None))
        if ctx.branch(ctx.fresh("value_is_one_pair", "bool").t):
            v = ctx.fresh_arr("value", (2,), "real")
        else:
            M = ctx.fresh("rows", "int")
            ctx.assume(M.t >= 0)
            v = ctx.fresh_arr("value", (M, 2), "real")
        v.as_type = torch.Tensor
        return NS(self=me, value=v)
    return setup


def _oset_src(s):
    """(rows M, fn(p, c)) of value.view(-1, 2)."""
    v = s.value
    vf = v.fn
    if v.ndim == 1:
        return 1, (lambda p, c: vf(c))
    return v.shape[0], (lambda p, c: vf(p, c))


def _oset_ok(s):
    v = s.value
    return isinstance(v, SymArr) and (v.ndim == 1 and V._dim_lit(v.shape[0]) == 2 or v.ndim == 2 and V._dim_lit(v.shape[1]) == 2)


def oset_raises(s):
    M, _ = _oset_src(s)
    N = lift(s.self.fields["num_dps"])
    return z3.And(lift(M) != N, lift(M) != 1)


def oset_new(s):
    M, src = _oset_src(s)
    N = s.self.fields["num_dps"]
    same = z3.simplify(lift(M) == lift(N))
    if z3.is_true(same):
        fn = lambda p, c: src(p, c)
    elif V._dim_lit(M) == 1:
        fn = lambda p, c: src(z3.IntVal(0), c)
    else:
        fn = lambda p, c: src(z3.If(lift(M) == lift(N), p, z3.IntVal(0)), c)
    r = SymArr((N, 2), fn, "real")
    r.as_type = torch.Tensor
    return r


def oset_contract(field):
    fld = "_" + field

    def modifies(ctx, s):
        s.self.fields[fld] = oset_new(s)

    def snapshot(s):
        return NS(fields=dict(s.self.fields), vw=s.value.writes if isinstance(s.value, SymArr) else 0, expect=oset_new(s) if _oset_ok(s) else None)

    def ensures(s):
        f = s.self.fields
        new = f[fld]
        N = lift(f["num_dps"])
        p, c = I("p"), I("c")
        exp = s.old.expect
        out = [
            ("shape=(num_dps,2)", AND(lift(new.shape[0]) == N, lift(new.shape[1]) == 2)),
            ("row-p-is-value-row-p-(or-the-single-row)", forall([p, c], implies(AND(p >= 0, p < N, c >= 0, c < 2), lift(new.fn(p, c)) == lift(exp.fn(p, c))))),
            ("frame:other-fields-untouched", all(f[k] is s.old.fields[k] for k in s.old.fields if k != fld) and set(f) == set(s.old.fields) | {fld}),
            ("frame:value-not-written", s.value.writes == s.old.vw),
        ]
        return out

    return SetterContract(f"{OM}:CenterOfMassOriginModel.{field}.fset", setup=oset_setup(field), ensures=ensures, modifies=modifies,
                          snapshot=snapshot, requires=lambda s: [("value-is-(M,2)-or-(2,)", _oset_ok(s))],
                          raises={RuntimeError: oset_raises})


C_SET_MEASURED = oset_contract("origin_measured")
C_SET_FITTED = oset_contract("origin_fitted")

# ---- calculate_origin


def co_setup(ctx):
    me, g = com_model(ctx)
    return NS(self=me, max_batch_size=opt_int(ctx, "max_batch_size"), g=g, case=g.case)


def co_requires(s):
    r = []
    if s.max_batch_size is not None:
        r.append(("max_batch_size>=1", lift(s.max_batch_size) >= 1))
    return r


def co_spec(g, p):
    return com_spec(pattern_of(g.Tfn, g.lead, p), g.H, g.W)


def co_loop_inv(s):
    g = s.ctx.ghost["c18"]
    com = s.com_measured
    B = lift(s.batcher.fields["batch_size"])
    N = lift(g.N)
    p = I("p")
    done = zmin(lift(s.k) * B, N)
    sr, sc = co_spec(g, p)
    return [
        ("rows-below-min(kB,N)-hold-the-CoM", forall(p, implies(AND(p >= 0, p < done), AND(lift(com.fn(p, z3.IntVal(0))) == sr, lift(com.fn(p, z3.IntVal(1))) == sc)))),
        ("frame:tensor-not-written", g.T.writes == 0 and g.A.writes == 0),
    ]


def co_after(s):
    """Exit hint (proved as its own quantifier-free obligation, then available): after ceil(N/B) batches every row is done."""
    g = s.ctx.ghost["c18"]
    B = lift(s.batcher.fields["batch_size"])
    s.ctx.prove("loop-exit:all-rows-done:min(kB,N)=N", zmin(lift(s.k) * B, lift(g.N)) == lift(g.N), kind="hint")


def co_ensures(s):
    g = s.g
    f = s.self.fields
    om = f["_origin_measured"]
    N = lift(g.N)
    p = I("p")
    sr, sc = co_spec(g, p)
    inr = AND(p >= 0, p < N)
    return [
        ("origin_measured-shape=(num_dps,2)", AND(lift(om.shape[0]) == N, lift(om.shape[1]) == 2)),
        ("origin_measured[p,0]=sum(I*row)/sum(I)", forall(p, implies(inr, lift(om.fn(p, z3.IntVal(0))) == sr))),
        ("origin_measured[p,1]=sum(I*col)/sum(I)", forall(p, implies(inr, lift(om.fn(p, z3.IntVal(1))) == sc))),
        ("returns-self", s.result is s.self),
        ("frame:tensor-and-dataset-not-written", g.T.writes == 0 and g.A.writes == 0 and f["_tensor"] is g.T and f["_dataset"] is g.ds),
        ("frame:fitted-origin-and-shifted-tensor-untouched", f["_origin_fitted"] is None and f["_shifted_tensor"] is None),
    ]


C_CALC = Contract(
    f"{OM}:CenterOfMassOriginModel.calculate_origin", setup=co_setup, requires=co_requires, ensures=co_ensures,
    loops={0: LoopSpec(inv=co_loop_inv, after=co_after, havoc={"com_measured": lambda s: havoc_array(s.ctx, s.com_measured, "com_measured")})},
)


# ------------------------------------------------------------------------------------------------
# ptycho_utils.get_com_2d  (third implementation; stack of patterns (B,H,W), numpy or torch)
# ------------------------------------------------------------------------------------------------


def gc_setup(ctx):
    B, H, W = ctx.fresh("B", "int"), ctx.fresh("H", "int"), ctx.fresh("W", "int")
    for d in (B, H, W):
        ctx.assume(d.t >= 1)
    ar = ctx.fresh_arr("ar", (B, H, W), "real")
    is_torch = ctx.branch(ctx.fresh("input_is_torch", "bool").t)
    ar.as_type = torch.Tensor if is_torch else np.ndarray
    return NS(ar=ar, corner_centered=False, g=NS(fn=ar.fn, B=B, H=H, W=W), case="torch" if is_torch else "numpy")


def gc_ensures(s):
    g = s.g
    res = s.result
    b = I("b")
    sr, sc = com_spec(lambda i, j: g.fn(b, i, j), g.H, g.W)
    inr = AND(b >= 0, b < lift(g.B))
    return [
        ("shape=(B,2)", isinstance(res, SymArr) and res.ndim == 2 and AND(lift(res.shape[0]) == lift(g.B), lift(res.shape[1]) == 2)),
        ("com[b,0]=sum(I*row)/sum(I)", forall(b, implies(inr, lift(res.fn(b, z3.IntVal(0))) == sr))),
        ("com[b,1]=sum(I*col)/sum(I)", forall(b, implies(inr, lift(res.fn(b, z3.IntVal(1))) == sc))),
        ("frame:input-not-written", s.ar.writes == 0),
    ]


C_GETCOM = Contract(f"{PU}:get_com_2d", setup=gc_setup, ensures=gc_ensures)

# ------------------------------------------------------------------------------------------------
# ptycho_utils.fit_origin  (constant branch deductive; curve_fit branches: bounded stand-in)
# ------------------------------------------------------------------------------------------------

FIT_NAMES = ("plane", "parabola", "bezier_two", "constant")


class LazyChoice:
    """A string parameter ranging over `options`; which one it is gets decided (path fork) only when the code compares it,
    so code that runs before the first comparison is explored once."""

    def __init__(self, name, options):
        self.name, self.options, self.value = name, list(options), None

    def decide(self, other):
        if self.value is not None:
            return self.value == other
        if other not in self.options:
            return False
        if len(self.options) > 1:
            ctx = V.cur()
            if ctx.branch(ctx.fresh(f"{self.name}_is_{other}", "bool").t):
                self.value = other
                return True
            self.options.remove(other)
        if len(self.options) == 1:
            self.value = self.options[0]
        return self.value == other

    def __eq__(self, o):
        return self.decide(o) if isinstance(o, str) else NotImplemented

    def __ne__(self, o):
        return (not self.decide(o)) if isinstance(o, str) else NotImplemented

    __hash__ = object.__hash__

    def __repr__(self):
        return f"<{self.name}={self.value or '|'.join(self.options)}>"


def _np(a):
    a.as_type = np.ndarray
    return a


def fo_setup(ctx):
    n0, n1 = ctx.fresh("n0", "int"), ctx.fresh("n1", "int")
    ctx.assume(n0.t >= 1)
    ctx.assume(n1.t >= 1)
    const = ctx.branch(ctx.fresh("data_is_constant", "bool").t)
    if const:
        vr, vc = ctx.fresh("v_r", "real"), ctx.fresh("v_c", "real")
        qr, qc = _np(lm.const_arr((n0, n1), vr)), _np(lm.const_arr((n0, n1), vc))
    else:
        vr = vc = None
        qr, qc = _np(ctx.fresh_arr("qr0_meas", (n0, n1), "real")), _np(ctx.fresh_arr("qc0_meas", (n0, n1), "real"))
    mask = None
    if ctx.branch(ctx.fresh("mask_given", "bool").t):
        mask = _np(ctx.fresh_arr("mask", (n0, n1), "bool"))
    ff = "constant" if ctx.branch(ctx.fresh("fit_function_is_constant", "bool").t) else "bogus"
    return NS(data=(qr, qc), mask=mask, fit_function=ff, g=NS(qr=qr.fn, qc=qc.fn, n0=n0, n1=n1, vr=vr, vc=vc, arrs=(qr, qc)),
              case=("const-data" if const else "any-data") + ("+mask" if mask is not None else "") + ":" + ff)


def _fo_data_ok(s):
    d = s.data
    return (isinstance(d, tuple) and len(d) == 2 and all(isinstance(x, SymArr) and x.ndim == 2 for x in d)
            and all(V.dims_equal(a, b) for a, b in zip(d[0].shape, d[1].shape)))


def _fo_unknown(s):
    ff = s.fit_function
    return not any(ff == n for n in FIT_NAMES)


def fo_result(ctx, s):
    qr, qc = s.data
    if s.fit_function == "constant":
        mr, mc = lm.reduce_mean(qr), lm.reduce_mean(qc)
        fr, fc = _np(lm.const_arr(qr.shape, mr)), _np(lm.const_arr(qc.shape, mc))
        return (fr, fc, _np(qr - fr), _np(qc - fc))
    return tuple(_np(ctx.fresh_arr(nm, qr.shape, "real")) for nm in ("qr0_fit", "qc0_fit", "qr0_res", "qc0_res"))


def fo_snapshot(s):
    if not _fo_data_ok(s):
        return None
    qr, qc = s.data
    return NS(qr=qr.fn, qc=qc.fn, mr=lm.reduce_mean(qr), mc=lm.reduce_mean(qc), shape=tuple(qr.shape), w=(qr.writes, qc.writes),
              mw=s.mask.writes if isinstance(s.mask, SymArr) else 0)


def fo_ensures(s):
    o = s.old
    res = s.result
    n0, n1 = o.shape
    out = [("returns-four-arrays-of-the-data-shape", isinstance(res, tuple) and len(res) == 4 and all(
        isinstance(x, SymArr) and x.ndim == 2 and V.dims_equal(x.shape[0], n0) and V.dims_equal(x.shape[1], n1) for x in res))]
    qr, qc = s.data
    out.append(("frame:data-and-mask-not-written", (qr.writes, qc.writes) == o.w and (s.mask.writes if isinstance(s.mask, SymArr) else 0) == o.mw))
    if not (s.fit_function == "constant"):
        return out
    fr, fc, rr, rc = res
    i, j = I("i"), I("j")
    inr = AND(i >= 0, i < lift(n0), j >= 0, j < lift(n1))
    out += [
        ("constant-fit=mean-of-the-data", forall([i, j], implies(inr, AND(lift(fr.fn(i, j)) == lift(o.mr), lift(fc.fn(i, j)) == lift(o.mc))))),
        ("residual=data-fit", forall([i, j], implies(inr, AND(lift(rr.fn(i, j)) == lift(o.qr(i, j)) - lift(o.mr), lift(rc.fn(i, j)) == lift(o.qc(i, j)) - lift(o.mc))))),
    ]
    g = s.get("g")
    if s.mode == "verify" and g is not None and g.vr is not None:
        out += [
            ("constant-data=>fit-returns-that-constant", forall([i, j], implies(inr, AND(lift(fr.fn(i, j)) == lift(g.vr), lift(fc.fn(i, j)) == lift(g.vc))))),
            ("constant-data=>zero-residual", forall([i, j], implies(inr, AND(lift(rr.fn(i, j)) == 0, lift(rc.fn(i, j)) == 0)))),
        ]
    return out


C_FITORIGIN = Contract(f"{PU}:fit_origin", setup=fo_setup, requires=lambda s: [("data=(rows,cols)-pair-of-equal-2-D-arrays", _fo_data_ok(s))],
                       ensures=fo_ensures, result=fo_result, snapshot=fo_snapshot, raises={ValueError: _fo_unknown})

# ------------------------------------------------------------------------------------------------
# PtychographyDatasetRaster._set_intensities_com : vectorised and looped path (two views of the same function)
# ------------------------------------------------------------------------------------------------

SIC_FITS = ["none", "no_shift", "constant", "plane", "bogus"]


def sic_setup(vectorized):
    def setup(ctx):
        Rr, Rc, Qr, Qc = (ctx.fresh(n, "int") for n in ("Rr", "Rc", "Qr", "Qc"))
        for d in (Rr, Rc, Qr, Qc):
            ctx.assume(d.t >= 1)
        inten = _np(ctx.fresh_arr("intensities", (Rr, Rc, Qr, Qc), "real"))
        mask = None
        if ctx.branch(ctx.fresh("dp_mask_given", "bool").t):
            Mr, Mc = ctx.fresh("Mr", "int"), ctx.fresh("Mc", "int")
            ctx.assume(Mr.t >= 1)
            ctx.assume(Mc.t >= 1)
            mask = _np(ctx.fresh_arr("dp_mask", (Mr, Mc), "real"))
        Dn, Dr, Dc = ctx.fresh("Dn", "int"), ctx.fresh("Dr", "int"), ctx.fresh("Dc", "int")
        for d in (Dn, Dr, Dc):
            ctx.assume(d.t >= 1)
        dset = Obj(DATASET, {"_array": _np(ctx.fresh_arr("dset_array", (Dn, Dr, Dc), "real"))})
        me = Obj(PDR, dict(_verbose=0, _gpts=(Rr, Rc), _dset=dset, _com_measured=None, _com_fit=None))
        ff = LazyChoice("fit_function", SIC_FITS)
        rs, cs = ctx.fresh("r_star", "int"), ctx.fresh("c_star", "int")  # an arbitrary scan position (looped view)
        ctx.assume(z3.And(rs.t >= 0, rs.t < Rr.t, cs.t >= 0, cs.t < Rc.t))
        g = NS(rs=rs, cs=cs, Ifn=inten.fn, Mfn=mask.fn if mask is not None else None, inten=inten, mask=mask, Rr=Rr, Rc=Rc, Qr=Qr, Qc=Qc, Dr=Dr, Dc=Dc, ff=ff,
               mode="vectorised" if vectorized else "looped", fields0=dict(me.fields))
        ctx.ghost["c18"] = g
        return NS(self=me, intensities=inten, dp_mask=mask, fit_function=ff, vectorized_calculation=vectorized, g=g,
                  case=g.mode + (",mask" if mask is not None else ",no-mask"))
    return setup


def sic_pattern(g, r, c):
    if g.Mfn is None:
        return lambda i, j: g.Ifn(r, c, i, j)
    return lambda i, j: g.Ifn(r, c, i, j) * g.Mfn(i, j)


def sic_spec(g, r, c):
    return com_spec(sic_pattern(g, r, c), g.Qr, g.Qc)


def sic_mask_mismatch(g):
    if g.mask is None:
        return z3.BoolVal(False)
    return z3.Not(z3.And(lift(g.mask.shape[0]) == lift(g.Qr), lift(g.mask.shape[1]) == lift(g.Qc)))


def sic_raises(s):
    g = s.g
    return z3.Or(sic_mask_mismatch(g), z3.BoolVal(g.ff.value == "bogus"))


def sic_tag(g):
    return f"[{g.mode},{'mask' if g.mask is not None else 'no-mask'}]"


def sic_loop_inv(s):
    """Invariant at ONE arbitrary scan position (r*, c*) (free symbols of the setup, only constrained to be in range):
    once the row-major counter has passed it, its two entries hold the CoM of its pattern.  Quantifier-free on purpose:
    a false instance comes back with a model."""
    g = s.ctx.ghost["c18"]
    sc = lift(s.shape_c)
    r, c = lift(g.rs), lift(g.cs)
    sr, scol = sic_spec(g, r, c)
    tag = sic_tag(g)
    passed = r * sc + c < lift(s.k)
    return [
        (f"{tag}com_measured_r[r*,c*]=sum(I*row)/sum(I)-once-visited", implies(passed, lift(s.com_measured_r.fn(r, c)) == sr)),
        (f"{tag}com_measured_c[r*,c*]=sum(I*col)/sum(I)-once-visited", implies(passed, lift(s.com_measured_c.fn(r, c)) == scol)),
        (f"{tag}frame:caller's-intensities-and-mask-not-written", g.inten.writes == 0 and (g.mask is None or g.mask.writes == 0)),
    ]


def sic_ensures(s):
    g = s.g
    f = s.self.fields
    cm, cf = f["_com_measured"], f["_com_fit"]
    tag = sic_tag(g)
    r, c, x = I("r"), I("c"), I("x")
    Rr, Rc = lift(g.Rr), lift(g.Rc)
    inr = AND(r >= 0, r < Rr, c >= 0, c < Rc)
    sr, sc = sic_spec(g, r, c)
    z0, z1 = z3.IntVal(0), z3.IntVal(1)
    shp = lambda a: isinstance(a, SymArr) and a.ndim == 3 and AND(lift(a.shape[0]) == 2, lift(a.shape[1]) == Rr, lift(a.shape[2]) == Rc)
    if g.mode == "looped":
        # stated at the arbitrary scan position (r*, c*) of the setup (free symbols) - the same universal statement
        rs, cs = lift(g.rs), lift(g.cs)
        srs, scs = sic_spec(g, rs, cs)
        com_posts = [
            (f"{tag}com_measured[0]=sum(I*row)/sum(I)", lift(cm.fn(z0, rs, cs)) == srs),
            (f"{tag}com_measured[1]=sum(I*col)/sum(I)", lift(cm.fn(z1, rs, cs)) == scs),
        ]
    else:
        com_posts = [
            (f"{tag}com_measured[0]=sum(I*row)/sum(I)", forall([r, c], implies(inr, lift(cm.fn(z0, r, c)) == sr))),
            (f"{tag}com_measured[1]=sum(I*col)/sum(I)", forall([r, c], implies(inr, lift(cm.fn(z1, r, c)) == sc))),
        ]
    out = [
        (f"{tag}com_measured-shape=(2,Rr,Rc)", shp(cm)),
        *com_posts,
        (f"{tag}frame:caller's-intensities-and-mask-not-written", g.inten.writes == 0 and (g.mask is None or g.mask.writes == 0)),
        (f"{tag}returns-None-and-sets-only-com_measured/com_fit", s.result is None and set(f) == set(g.fields0) and all(
            f[k] is g.fields0[k] for k in g.fields0 if k not in ("_com_measured", "_com_fit"))),
        (f"{tag}com_fit-shape=(2,Rr,Rc)", shp(cf)),
    ]
    fit = g.ff.value
    ftag = f"{tag}[fit={fit}]"
    if fit == "none":
        out.append((f"{ftag}com_fit=com_measured", forall([x, r, c], implies(AND(inr, x >= 0, x < 2), lift(cf.fn(x, r, c)) == lift(cm.fn(x, r, c))))))
    elif fit == "no_shift":
        out.append((f"{ftag}com_fit=detector-centre", forall([r, c], implies(inr, AND(lift(cf.fn(z0, r, c)) == z3.ToReal(lift(g.Dr)) / 2, lift(cf.fn(z1, r, c)) == z3.ToReal(lift(g.Dc)) / 2)))))
    elif fit == "constant":
        cmf = cm.fn
        m0 = lm.reduce_mean(SymArr((g.Rr, g.Rc), lambda a, b: cmf(z0, a, b), "real"))
        m1 = lm.reduce_mean(SymArr((g.Rr, g.Rc), lambda a, b: cmf(z1, a, b), "real"))
        out.append((f"{ftag}com_fit=mean-of-com_measured", forall([r, c], implies(inr, AND(lift(cf.fn(z0, r, c)) == lift(m0), lift(cf.fn(z1, r, c)) == lift(m1))))))
    return out


def sic_contract(vectorized):
    loops = {} if vectorized else {0: LoopSpec(inv=sic_loop_inv, havoc={
        "com_measured_r": lambda s: havoc_array(s.ctx, s.com_measured_r, "com_measured_r"),
        "com_measured_c": lambda s: havoc_array(s.ctx, s.com_measured_c, "com_measured_c"),
        # the caller's arrays are NOT havocked: the invariant says the body leaves them unwritten (a write fails `frame:`)
        "intensities": lambda s: None, "dp_mask": lambda s: None})}
    c = Contract(f"{DM}:PtychographyDatasetRaster._set_intensities_com", setup=sic_setup(vectorized), ensures=sic_ensures,
                 raises={ValueError: sic_raises}, loops=loops)
    c.tag = "vec" if vectorized else "loop"
    return c


C_SIC_VEC = sic_contract(True)
C_SIC_LOOP = sic_contract(False)

# ------------------------------------------------------------------------------------------------
# CenterOfMassOriginModel.fit_origin_background  (constant branch deductive; PCA plane fit: bounded stand-in)
# ------------------------------------------------------------------------------------------------


def fb_setup(ctx):
    me, g = com_model(ctx)
    N = g.N
    kind = "none"
    if ctx.branch(ctx.fresh("origin_measured_is_set", "bool").t):
        if ctx.branch(ctx.fresh("measured_origins_are_constant", "bool").t):
            v0, v1 = ctx.fresh("v_row", "real"), ctx.fresh("v_col", "real")
            om = SymArr((N, 2), lambda p, c: V.ite(c == 0, v0, v1), "real")
            g.const = (v0, v1)
            kind = "const"
        else:
            om = ctx.fresh_arr("origin_measured", (N, 2), "real")
            g.const = None
            kind = "any"
        om.as_type = torch.Tensor
        me.fields["_origin_measured"] = om
        g.om, g.omfn = om, om.fn
    else:
        g.om = None
    pp = None
    if ctx.branch(ctx.fresh("probe_positions_given", "bool").t):
        P = ctx.fresh("P", "int")
        ctx.assume(P.t >= 1)
        pp = ctx.fresh_arr("probe_positions", (P, 2), "real")
        pp.as_type = torch.Tensor
    g.pp = pp
    fm = "constant" if ctx.branch(ctx.fresh("fit_method_is_constant", "bool").t) else "bogus"
    g.fields0 = dict(me.fields)
    return NS(self=me, probe_positions=pp, fit_method=fm, g=g, case=f"{g.case},measured:{kind},{'positions' if pp is not None else 'no-positions'},{fm}")


def fb_value_error(s):
    g = s.g
    if g.om is None:
        return True
    if g.pp is None:
        return len(g.lead) + 2 != 4
    return lift(g.pp.shape[0]) != lift(g.N)


def fb_not_implemented(s):
    ve = fb_value_error(s)
    unknown = s.fit_method not in ("plane", "constant")
    if ve is True or not unknown:
        return False
    if ve is False:
        return True
    return z3.Not(ve)


def fb_ensures(s):
    g = s.g
    f = s.self.fields
    of = f["_origin_fitted"]
    N = lift(g.N)
    p, c = I("p"), I("c")
    inr = AND(p >= 0, p < N, c >= 0, c < 2)
    om = SymArr((g.N, 2), g.omfn, "real")
    mean = lm.reduce_mean(om, 0)
    out = [
        ("origin_fitted-shape=(num_dps,2)", isinstance(of, SymArr) and of.ndim == 2 and AND(lift(of.shape[0]) == N, lift(of.shape[1]) == 2)),
        ("constant-fit:every-row=mean-of-measured-origins", forall([p, c], implies(inr, lift(of.fn(p, c)) == lift(mean.fn(c))))),
        ("returns-self", s.result is s.self),
        ("frame:only-_origin_fitted-changed", set(f) == set(g.fields0) and all(f[k] is g.fields0[k] for k in g.fields0 if k != "_origin_fitted")),
        ("frame:measured-origins/tensor/positions-not-written", g.om.writes == 0 and g.T.writes == 0 and (g.pp is None or g.pp.writes == 0)),
    ]
    if g.const is not None:
        v0, v1 = g.const
        out.append(("constant-measured-origins=>fit-returns-that-constant",
                    forall(p, implies(AND(p >= 0, p < N), AND(lift(of.fn(p, z3.IntVal(0))) == lift(v0), lift(of.fn(p, z3.IntVal(1))) == lift(v1))))))
    return out


C_FITBG = Contract(f"{OM}:CenterOfMassOriginModel.fit_origin_background", setup=fb_setup, ensures=fb_ensures,
                   raises={ValueError: fb_value_error, NotImplementedError: fb_not_implemented})

# ------------------------------------------------------------------------------------------------
# CenterOfMassOriginModel.shift_origin_to : integer (origin - coordinate)  =>  circular roll of every pattern
# ------------------------------------------------------------------------------------------------


def so_setup(ctx):
    me, g = com_model(ctx)
    N = g.N
    if ctx.branch(ctx.fresh("origin_fitted_is_set", "bool").t):
        of = ctx.fresh_arr("origin_fitted", (N, 2), "real")
        of.as_type = torch.Tensor
        me.fields["_origin_fitted"] = of
        g.of, g.offn = of, of.fn
    else:
        g.of = None
    cy, cx = ctx.fresh("coord_row", "real"), ctx.fresh("coord_col", "real")
    mode = "bilinear" if ctx.branch(ctx.fresh("mode_is_bilinear", "bool").t) else "nearest"
    # ONE arbitrary pattern p* and ONE arbitrary detector pixel (y*, x*): free symbols, only constrained to be in range
    ps, ys, xs = ctx.fresh("p_star", "int"), ctx.fresh("y_star", "int"), ctx.fresh("x_star", "int")
    ctx.assume(z3.And(ps.t >= 0, ps.t < lift(N), ys.t >= 0, ys.t < g.H.t, xs.t >= 0, xs.t < g.W.t))
    g.ps, g.ys, g.xs = ps, ys, xs
    g.sy, g.sx = ctx.fresh("shift_row", "int"), ctx.fresh("shift_col", "int")
    g.coord = (cy, cx)
    g.fields0 = dict(me.fields)
    g.mode = mode
    return NS(self=me, origin_coordinate=(cy, cx), max_batch_size=opt_int(ctx, "max_batch_size"), param_values={"mode": mode}, g=g,
              case=f"{g.case},{mode}" + ("" if g.of is not None else ",no-fit"))


def so_requires(s):
    g = s.g
    r = [("detector-larger-than-one-pixel (H,W>1: the grid normalisation divides by H-1, W-1)", AND(g.H.t >= 2, g.W.t >= 2))]
    if s.max_batch_size is not None:
        r.append(("max_batch_size>=1", lift(s.max_batch_size) >= 1))
    if g.of is not None:
        cy, cx = g.coord
        r.append(("integer-valued (fitted origin - target coordinate) for pattern p*",
                  AND(lift(g.offn(g.ps.t, z3.IntVal(0))) - cy.t == z3.ToReal(g.sy.t), lift(g.offn(g.ps.t, z3.IntVal(1))) - cx.t == z3.ToReal(g.sx.t))))
    return r


def so_rolled(g):
    """in[(y* + s_row) mod H, (x* + s_col) mod W] of pattern p*."""
    H, W = g.H.t, g.W.t
    return lift(pattern_of(g.Tfn, g.lead, g.ps.t)((g.ys.t + g.sy.t) % H, (g.xs.t + g.sx.t) % W))


def so_loop_inv(s):
    g = s.ctx.ghost["c18"]
    B = lift(s.batcher.fields["batch_size"])
    done = zmin(lift(s.k) * B, lift(g.N))
    st = s.shifted_tensor_3d
    out = []
    sg = s.get("shifted_grid")
    if sg is not None and s.get("batch_idx") is not None:
        # stepping stones (only after the body has run): facts about the sampling grid of the current batch at p*, (y*, x*)
        kB = z3.simplify(lift(s.k) - 1) * B  # the clauses are evaluated for k+1 after iteration k
        b = g.ps.t - kB
        inb = AND(b >= 0, b < lift(s.batch_idx.sym_len()))
        z0, z1 = z3.IntVal(0), z3.IntVal(1)
        out += [
            ("aux:wrapped-row-coordinate-of-p*-is-(y*+s_row)-mod-H", implies(inb, lift(sg.fn(b, g.ys.t, g.xs.t, z0)) == z3.ToReal((g.ys.t + g.sy.t) % g.H.t))),
            ("aux:wrapped-col-coordinate-of-p*-is-(x*+s_col)-mod-W", implies(inb, lift(sg.fn(b, g.ys.t, g.xs.t, z1)) == z3.ToReal((g.xs.t + g.sx.t) % g.W.t))),
        ]
        gr = s.get("grid")
        if gr is not None:
            # align_corners=True un-normalisation ((g+1)/2)*(size-1) of the normalised grid gives back the wrapped pixel coordinate
            ux = (lift(gr.fn(b, g.ys.t, g.xs.t, z0)) + 1) / 2 * z3.ToReal(g.W.t - 1)
            uy = (lift(gr.fn(b, g.ys.t, g.xs.t, z1)) + 1) / 2 * z3.ToReal(g.H.t - 1)
            out += [
                ("aux:un-normalised-x-of-p*-is-the-wrapped-col-coordinate", implies(inb, ux == z3.ToReal((g.xs.t + g.sx.t) % g.W.t))),
                ("aux:un-normalised-y-of-p*-is-the-wrapped-row-coordinate", implies(inb, uy == z3.ToReal((g.ys.t + g.sy.t) % g.H.t))),
            ]
    out += [
        ("pattern-p*-is-rolled-once-its-batch-is-done", implies(g.ps.t < done, lift(st.fn(g.ps.t, z3.IntVal(0), g.ys.t, g.xs.t)) == so_rolled(g))),
        ("frame:tensor-and-fitted-origins-not-written", g.T.writes == 0 and g.of.writes == 0),
    ]
    return out


def so_after(s):
    g = s.ctx.ghost["c18"]
    B = lift(s.batcher.fields["batch_size"])
    s.ctx.prove("loop-exit:all-rows-done:min(kB,N)=N", zmin(lift(s.k) * B, lift(g.N)) == lift(g.N), kind="hint")


def so_ensures(s):
    g = s.g
    f = s.self.fields
    st = f["_shifted_tensor"]
    T = g.T
    shape_ok = isinstance(st, SymArr) and st.ndim == T.ndim and AND(*[lift(a) == lift(b) for a, b in zip(st.shape, T.shape)])
    got = lift(pattern_of(st.fn, g.lead, g.ps.t)(g.ys.t, g.xs.t))
    return [
        ("shifted_tensor-has-the-dataset-shape", shape_ok),
        ("shifted[p*][y*,x*]=input[p*][(y*+s_row) mod H,(x*+s_col) mod W]  (circular roll, origin -> target coordinate)", got == so_rolled(g)),
        ("returns-self", s.result is s.self),
        ("frame:only-_shifted_tensor-changed", set(f) == set(g.fields0) and all(f[k] is g.fields0[k] for k in g.fields0 if k != "_shifted_tensor")),
        ("frame:tensor-and-fitted-origins-not-written", g.T.writes == 0 and g.of.writes == 0 and g.A.writes == 0),
    ]


C_SHIFT = Contract(
    f"{OM}:CenterOfMassOriginModel.shift_origin_to", setup=so_setup, requires=so_requires, ensures=so_ensures,
    raises={ValueError: lambda s: s.g.of is None},
    loops={0: LoopSpec(inv=so_loop_inv, after=so_after, havoc={"shifted_tensor_3d": lambda s: havoc_array(s.ctx, s.shifted_tensor_3d, "shifted_tensor_3d")})},
)

CONTRACTS = [C_SB_INIT, C_SB_ITER, C_SET_MEASURED, C_SET_FITTED, C_CALC, C_FITBG, C_SHIFT, C_GETCOM, C_FITORIGIN, C_SIC_VEC, C_SIC_LOOP]
LEMMAS = []
BOUNDED = []
TRUSTED = []
ASSUMPTIONS = []
EXPLANATION = ""
