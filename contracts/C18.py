"""C18 - centre-of-mass origins: CoM = (sum I*row / sum I, sum I*col / sum I) in all three implementations,
vectorised == looped, batch independence, constant fit, integer origin shift == circular roll."""
from __future__ import annotations

import z3

from pyvc import values as V
from pyvc.values import Sym, SymArr, Obj, S, lift
from pyvc.interp import NS, LoopSpec, GhostGen
from pyvc.registry import Contract, resolve
from pyvc.runner import Lemma, Bounded
from pyvc.lib import numpy_ as npm
from pyvc.lib import torch_ as tm
from pyvc.lib import c18_models as lm
from .common import registry, ceil_div, zmin, zmax, forall, implies, AND, OR, NOT, opt_int, frame_snapshot, frame_clauses

import numpy as np
import torch

LEVEL = "proof"
OM = "quantem.diffractive_imaging.origin_models"
DM = "quantem.diffractive_imaging.dataset_models"
PU = "quantem.diffractive_imaging.ptycho_utils"
VAL = "quantem.core.utils.validators"
UT = "quantem.core.utils.utils"
AF = "quantem.core.utils.array_funcs"
DS = "quantem.core.datastructures.dataset"

I, Rl = z3.Int, z3.Real
COM = resolve(f"{OM}:CenterOfMassOriginModel")
SB = resolve(f"{PU}:SimpleBatcher")
PDR = resolve(f"{DM}:PtychographyDatasetRaster")
DATASET = resolve(f"{DS}:Dataset")

INLINE = [
    f"{OM}:CenterOfMassOriginModel.dataset", f"{OM}:CenterOfMassOriginModel.tensor", f"{OM}:CenterOfMassOriginModel.device",
    f"{OM}:CenterOfMassOriginModel.shifted_tensor",
    f"{DS}:Dataset.shape", f"{DS}:Dataset.array", f"{DS}:Dataset.ndim",
    f"{PU}:SimpleBatcher.rng", f"{UT}:tqdmnd",
    f"{AF}:sum", f"{AF}:match_device", f"{AF}:validate_arraylike", f"{AF}:as_type",
    f"{VAL}:validate_array_or_tensor", f"{VAL}:validate_arraylike", f"{VAL}:canonical_dtype_str",
    f"{DM}:PtychographyDatasetRaster.com_measured", f"{DM}:PtychographyDatasetRaster.com_fit", f"{DM}:PtychographyDatasetRaster.gpts",
    f"{DM}:PtychographyDatasetBase.roi_shape", f"{DM}:PtychographyDatasetBase.dset",
]


def make_registry():
    reg = registry()
    tm.install(reg)
    lm.install(reg)
    for c in CONTRACTS + ASSUMED_CONTRACTS:
        reg.add_contract(c)
    for c in CONTRACTS:
        if isinstance(c, SetterContract):
            reg.contracts[c.prop_qn] = c  # getter and setter share one __qualname__; the wrapper dispatches on arity
    reg.inline.update(INLINE)
    reg.closure_models = {"*": m_plane_fit_helper}  # the nested PCA plane fit (recognised by torch.linalg.eigh) is used through its stated contract
    return reg


class SetterContract(Contract):
    """Contract of a property *setter*.  The getter has the same __qualname__, so a call with only `self` is the getter
    (a one-line `return self._x`) and is interpreted from its source."""

    def __init__(self, func, **kw):
        super().__init__(func, **kw)
        mod, _, qn = func.partition(":")
        assert qn.endswith(".fset")
        self.prop_qn = f"{mod}:{qn[:-5]}"
        self.getter = resolve(f"{mod}:{qn[:-5]}.fget")

    def apply(self, interp, args, kwargs):
        if len(args) + len(kwargs) == 1:
            return interp.call_closure(interp.closure_of(self.getter), args, kwargs)
        return super().apply(interp, args, kwargs)


class FamilyGen(GhostGen):
    """Ghost sequence of a generator given directly as (count, k -> k-th yielded value)."""

    def __init__(self, count, getter, ctx, tag="family"):
        kk = ctx.fresh("ky", "int")
        super().__init__([("family", count, kk, getter(kk), tag)])
        self._count, self._getter = count, getter

    def family(self):
        return self._count, self._getter


# ------------------------------------------------------------------------------------------------
# THE SPECIFICATION (from the property statement): intensity-weighted mean detector coordinate, row then column
# ------------------------------------------------------------------------------------------------


def com_spec(pattern, H, W):
    """pattern(i, j) -> value (Sym / term) of one diffraction pattern of shape (H, W).
    Returns the pair of terms (sum_ij I*i / sum_ij I, sum_ij I*j / sum_ij I)."""
    pat = SymArr((H, W), lambda i, j: S(pattern(i, j)), "real")
    rows = SymArr((H, W), lambda i, j: Sym(i), "int")
    cols = SymArr((H, W), lambda i, j: Sym(j), "int")
    den = lm.reduce_sum(pat)
    return lift(V._realdiv(lm.reduce_sum(pat * rows), den)), lift(V._realdiv(lm.reduce_sum(pat * cols), den))


def pattern_of(fn, lead, p):
    """Pattern number p (row-major over the scan axes) of a dataset whose index function is `fn`:
    3-D (N,H,W): fn(p, i, j);  4-D (Rx,Ry,H,W): fn(p div Ry, p mod Ry, i, j)."""
    p = lift(p)
    if len(lead) == 1:
        return lambda i, j: fn(p, i, j)
    ry = lift(lead[1])
    return lambda i, j: fn(p / ry, p % ry, i, j)


def arange_arr(n):
    nt = lift(n)
    return npm.index_array(n, lambda i: Sym(i), lambda v: z3.And(lift(v) >= 0, lift(v) < nt), lambda v: lift(v), name="arange")


def unwritten_in_loop(s, key, arrays):
    """Loop-invariant clause "the body does not write these arrays", robust against the engine's automatic havoc (which bumps the
    write counter of an array the body stores into BEFORE the invariant is assumed - a clause comparing against the entry
    counter would then be assumed false and the loop would silently vanish).  Entry: unwritten since the setup; arbitrary
    iteration: the counters at the START of the iteration are recorded, after the body they must be the same."""
    ws = tuple(a.writes for a in arrays if a is not None)
    book = s.ctx.ghost.setdefault("c18_loop_writes", {})
    kt = z3.simplify(lift(s.k))
    if z3.is_int_value(kt):
        return all(w == 0 for w in ws)
    if z3.is_const(kt):  # the havocked iteration counter k: the invariant is being ASSUMED
        book[key] = ws
        return True
    return book.get(key) == ws  # k + 1: after the body


def havoc_array(ctx, a, name):
    """Loop havoc of an array that is written through subscripts: arbitrary contents, same object."""
    f = ctx.fresh_arr(name, a.shape, a.kind if a.kind in ("int", "real", "bool") else "real")
    a.fn = f.fn


# ------------------------------------------------------------------------------------------------
# SimpleBatcher in the configuration used by the origin model (shuffle=False, no validation split)
# ------------------------------------------------------------------------------------------------


def sbi_setup(ctx):
    return NS(self=Obj(SB, {}), num=ctx.fresh("num", "int"), batch_size=opt_int(ctx, "batch_size"), shuffle=False)


def _sbi_plain(s):
    g = s.get
    return (s.shuffle is False and g("rng") is None and g("val_ratio", 0.0) == 0.0 and g("train_indices") is None
            and g("val_indices") is None)


def sbi_requires(s):
    return [("unshuffled-batcher-without-validation-split", _sbi_plain(s))]


def sbi_modifies(ctx, s):
    n = lm.nonneg_dim(s.num)
    idx = arange_arr(n)
    s.self.fields.update(indices=idx, train_indices=idx, val_indices=np.asarray([], dtype=int), shuffle=False, _rng=None,
                         batch_size=s.batch_size if s.batch_size is not None else s.num)


def sbi_ensures(s):
    f = s.self.fields
    tr = f["train_indices"]
    n = lift(tr.sym_len())
    i = I("i")
    return [
        ("train-length=max(0,num)", n == zmax(0, s.num)),
        ("train[i]=i", forall(i, implies(AND(i >= 0, i < n), lift(tr.fn(i)) == i))),
        ("batch_size", lift(f["batch_size"]) == lift(s.batch_size if s.batch_size is not None else s.num)),
        ("no-validation-indices", len(f["val_indices"]) == 0),
        ("shuffle-off", f["shuffle"] is False),
    ]


C_SB_INIT = Contract(f"{PU}:SimpleBatcher.__init__", setup=sbi_setup, requires=sbi_requires, ensures=sbi_ensures, modifies=sbi_modifies)


def batch_k(train, k, B, n):
    """k-th batch of the unshuffled epoch: train[kB : kB + min(B, n - kB)] with injectivity ghosts."""
    kB = lift(k) * lift(B)
    ln = zmax(0, zmin(B, lift(n) - kB))
    tf, tmem, tinv = train.fn, train.mem, train.inv
    return npm.index_array(Sym(ln), lambda i: tf(z3.simplify(kB + i)),
                           lambda v: z3.And(tmem(v), tinv(v) >= kB, tinv(v) < kB + ln), lambda v: tinv(v) - kB, name="batch")


def sbit_setup(ctx):
    train = npm.fresh_index_array(ctx, "train")
    B = ctx.fresh("batch_size", "int")
    return NS(self=Obj(SB, dict(train_indices=train, batch_size=B, shuffle=False, _rng=None)))


def sbit_requires(s):
    f = s.self.fields
    return [("shuffle-off", f["shuffle"] is False), ("batch_size>=1", lift(f["batch_size"]) >= 1)]


def sbit_yields(s):
    f = s.self.fields
    return batch_k(s.train_order, s.k, f["batch_size"], s.train_order.sym_len())


def sbit_ensures(s):
    if s.mode == "apply":
        return []  # the call-site result is constructed as exactly the sequence described below
    f = s.self.fields
    train, B = f["train_indices"], lift(f["batch_size"])
    n = lift(train.sym_len())
    N, getter = s.result.family()
    k, i = I("k"), I("i")
    yk = getter(k)
    cnt = ceil_div(n, B)
    ink = AND(k >= 0, k < cnt)
    lenk = lift(yk.sym_len())
    return [
        ("number-of-batches=ceil(n/B)", lift(N) == cnt),
        ("batch-k-length=min(B,n-kB)", forall(k, implies(ink, lenk == zmin(B, n - k * B)))),
        ("batches-non-empty", forall(k, implies(ink, lenk >= 1))),
        ("batch-k-element-i-is-train[kB+i]", forall([k, i], implies(AND(ink, i >= 0, i < lenk), lift(yk.fn(i)) == lift(train.fn(k * B + i))))),
    ]


def sbit_result(ctx, s):
    f = s.self.fields
    train, B = f["train_indices"], f["batch_size"]
    n = train.sym_len()
    return FamilyGen(Sym(ceil_div(n, B)), lambda k: batch_k(train, k, B, n), ctx, "SimpleBatcher.__iter__")


C_SB_ITER = Contract(f"{PU}:SimpleBatcher.__iter__", setup=sbit_setup, requires=sbit_requires, ensures=sbit_ensures, result=sbit_result,
                     loops={0: LoopSpec(yields=sbit_yields)})

# ------------------------------------------------------------------------------------------------
# validators: ASSUMED contracts (used at call sites, NOT verified here - see ASSUMPTIONS)
# ------------------------------------------------------------------------------------------------


def _vt_result(ctx, s):
    v = s.value
    if isinstance(v, SymArr):
        if getattr(v, "as_type", None) is torch.Tensor:
            return v
        r = v.copy()
        r.as_type = torch.Tensor
        return r
    raise V.OutOfSubset("validate_tensor of a non-array symbolic value")


C_VALIDATE_TENSOR = Contract(f"{VAL}:validate_tensor", result=_vt_result,
                             requires=lambda s: [("real-array-no-ndim/shape-request", isinstance(s.value, SymArr) and s.ndim is None and s.shape is None)])


def _va_value(s):
    v = s.value
    if isinstance(v, (tuple, list)):
        return lm.stack(list(v), 0, np.ndarray)
    return v


def _va_shape_mismatch(s):
    if s.shape is None:
        return False
    v = _va_value(s)
    want = tuple(s.shape)
    if len(want) != v.ndim:
        return True
    return z3.Not(z3.And(*[lift(a) == lift(b) for a, b in zip(v.shape, want)]))


C_VALIDATE_ARRAY = Contract(f"{VAL}:validate_array", result=lambda ctx, s: _va_value(s),
                            requires=lambda s: [("array-or-sequence-of-arrays", isinstance(s.value, SymArr) or all(isinstance(x, SymArr) for x in s.value))],
                            raises={ValueError: _va_shape_mismatch})

ASSUMED_CONTRACTS = []  # both validators are verified from source below (same Contract objects: call-site view + verified view)


# ---- the validators verified FROM SOURCE (validate_tensor / validate_array -> validate_array_or_tensor -> validate_arraylike,
#      canonical_dtype_str, array_funcs.as_type interpreted in place).  Exported for other property modules:
#      VALIDATE_TENSOR_CONTRACT / VALIDATE_ARRAY_CONTRACT (add them to CONTRACTS-for-call-sites via reg.add_contract).


def _val_setup(want_tensor):
    def setup(ctx):
        br = lambda n: ctx.branch(ctx.fresh(n, "bool").t)
        pair = (not want_tensor) and br("value_is_a_pair_of_arrays")
        rank = 1 if br("value_is_1d") else 2 if br("value_is_2d") else 4
        dims = tuple(ctx.fresh(f"d{i}", "int") for i in range(rank))
        for d in dims:
            ctx.assume(d.t >= 0)
        kind = "int" if br("value_holds_integers") else "real"
        lib = torch.Tensor if (not pair and br("value_is_torch")) else np.ndarray

        def mk(nm):
            a = ctx.fresh_arr(nm, dims, kind)
            a.as_type = lib
            return a

        value = (mk("value0"), mk("value1")) if pair else mk("value")
        out_rank = rank + (1 if pair else 0)
        nd = None
        if not br("ndim_is_none"):
            nd = out_rank if br("ndim_request_matches") else out_rank + 1
        shp = None
        if not br("shape_is_none"):
            r2 = out_rank if br("shape_request_has_the_same_rank") else out_rank + 1
            shp = tuple(ctx.fresh(f"want{i}", "int") for i in range(r2))
        dt = torch.float if want_tensor else np.float32
        return NS(value=value, name="value", dtype=dt, ndim=nd, shape=shp, expand_dims=False,
                  g=NS(arrs=(value if pair else (value,)), fns=[a.fn for a in (value if pair else (value,))], pair=pair, dims=dims, out_rank=out_rank),
                  case=f"{'pair' if pair else lib.__name__},{kind},rank{rank},ndim:{nd},shape:{None if shp is None else len(shp)}")
    return setup


def _val_out_shape(s):
    v = s.value
    if isinstance(v, (tuple, list)):
        return (len(v),) + tuple(v[0].shape)
    return tuple(v.shape)


def _val_raises(s):
    have = _val_out_shape(s)
    bad = []
    if s.ndim is not None and not s.get("expand_dims", False):
        bad.append(z3.BoolVal(len(have) != int(s.ndim)))
    if s.ndim is not None and s.get("expand_dims", False):
        raise V.OutOfSubset("validators with expand_dims=True are not specified")
    if s.shape is not None:
        want = tuple(s.shape)
        bad.append(z3.BoolVal(True) if len(want) != len(have) else z3.Not(z3.And(*[lift(a) == lift(b) for a, b in zip(have, want)])))
    return z3.simplify(z3.Or(*bad)) if bad else False


def _val_ensures(want_tensor):
    def ensures(s):
        if s.mode == "apply":
            return []  # the call-site result is constructed as exactly the array described below
        g = s.g
        r = s.result
        have = (len(g.arrs),) + tuple(g.dims) if g.pair else tuple(g.dims)
        ok = isinstance(r, SymArr) and not r.pylist and r.ndim == len(have)
        idx = [I(f"i{k}") for k in range(len(have))]
        inr = AND(*[AND(i >= 0, i < lift(d)) for i, d in zip(idx, have)])
        if ok:
            got = V._num(lift(r.fn(*idx)))
            if g.pair:
                src = z3.If(idx[0] == 0, V._num(lift(g.fns[0](*idx[1:]))), V._num(lift(g.fns[1](*idx[1:]))))
            else:
                src = V._num(lift(g.fns[0](*idx)))
            if z3.is_int(got) != z3.is_int(src):
                got, src = lm._to_real(got), lm._to_real(src)
        return [
            ("returns-a-torch-tensor" if want_tensor else "returns-a-numpy-array", ok and getattr(r, "as_type", None) is (torch.Tensor if want_tensor else np.ndarray)),
            ("shape-preserved (a pair of arrays is stacked along a new leading axis)", ok and AND(*[lift(a) == lift(b) for a, b in zip(r.shape, have)])),
            ("values-preserved (dtype cast only; A1: the cast to a float dtype is the identity on values)", ok and forall(idx, implies(inr, got == src))),
            ("frame:the-caller's-array-is-not-written", all(a.writes == 0 for a in g.arrs)),
        ]
    return ensures


def _is_float_dtype(dt):
    if dt is None:
        return True
    try:
        from quantem.core.utils.validators import canonical_dtype_str
        return canonical_dtype_str(dt).startswith("float")
    except Exception:
        return False


def _val_requires(s):
    if s.mode != "apply":
        return []
    v = s.value
    arrs = list(v) if isinstance(v, (tuple, list)) else [v]
    return [("array (or a sequence of equal-shape arrays); no expand_dims; requested dtype is a float dtype or the values are integers already",
             all(isinstance(a, SymArr) and not a.pylist for a in arrs) and not s.get("expand_dims", False)
             and all(V.dims_equal(x, y) for a in arrs[1:] for x, y in zip(a.shape, arrs[0].shape)) and all(a.ndim == arrs[0].ndim for a in arrs)
             and (_is_float_dtype(s.get("dtype")) or all(a.kind == "int" for a in arrs)))]


C_VALIDATE_TENSOR.setup, C_VALIDATE_TENSOR.ensures, C_VALIDATE_TENSOR.raises = _val_setup(True), _val_ensures(True), {ValueError: _val_raises}
C_VALIDATE_ARRAY.setup, C_VALIDATE_ARRAY.ensures, C_VALIDATE_ARRAY.raises = _val_setup(False), _val_ensures(False), {ValueError: _val_raises}
C_VALIDATE_TENSOR.requires = C_VALIDATE_ARRAY.requires = _val_requires
for _c in (C_VALIDATE_TENSOR, C_VALIDATE_ARRAY):
    _c.inline = {f"{VAL}:validate_array_or_tensor", f"{VAL}:validate_arraylike", f"{VAL}:canonical_dtype_str", f"{AF}:as_type"}
VALIDATE_TENSOR_CONTRACT, VALIDATE_ARRAY_CONTRACT = C_VALIDATE_TENSOR, C_VALIDATE_ARRAY

# ------------------------------------------------------------------------------------------------
# CenterOfMassOriginModel
# ------------------------------------------------------------------------------------------------


def com_model(ctx, measured=False, fitted=False):
    """Abstract CenterOfMassOriginModel over a 3-D (N,H,W) or 4-D (Rx,Ry,H,W) dataset; all extents symbolic >= 1."""
    H, W = ctx.fresh("H", "int"), ctx.fresh("W", "int")
    ctx.assume(H.t >= 1)
    ctx.assume(W.t >= 1)
    four = ctx.fresh("dataset_is_4d", "bool")
    if ctx.branch(four.t):
        Rx, Ry = ctx.fresh("Rx", "int"), ctx.fresh("Ry", "int")
        ctx.assume(Rx.t >= 1)
        ctx.assume(Ry.t >= 1)
        lead = (Rx, Ry)
        N = Rx * Ry
    else:
        N = ctx.fresh("N", "int")
        ctx.assume(N.t >= 1)
        lead = (N,)
    T = ctx.fresh_arr("T", lead + (H, W), "real")
    T.as_type = torch.Tensor
    A = ctx.fresh_arr("A", lead + (H, W), "real")
    A.as_type = np.ndarray
    ds = Obj(DATASET, {"_array": A})
    fields = dict(_dataset=ds, _tensor=T, num_dps=N, _device="cpu", _origin_measured=None, _origin_fitted=None, _shifted_tensor=None)
    g = NS(T=T, Tfn=T.fn, A=A, lead=lead, N=N, H=H, W=W, ds=ds)
    if measured:
        om = ctx.fresh_arr("origin_measured", (N, 2), "real")
        om.as_type = torch.Tensor
        fields["_origin_measured"] = om
        g.om, g.omfn = om, om.fn
    if fitted:
        of = ctx.fresh_arr("origin_fitted", (N, 2), "real")
        of.as_type = torch.Tensor
        fields["_origin_fitted"] = of
        g.of, g.offn = of, of.fn
    me = Obj(COM, fields)
    ctx.ghost["c18"] = g
    g.me = me
    g.case = "4d" if len(lead) == 2 else "3d"
    return me, g


def _same_value(a, b):
    if a is b:
        return True
    if isinstance(a, Sym) and isinstance(b, Sym):
        return a.t.eq(b.t)
    if isinstance(a, (tuple, list)) and isinstance(b, (tuple, list)):
        return len(a) == len(b) and all(_same_value(x, y) for x, y in zip(a, b))
    if isinstance(a, (SymArr, Obj)) or isinstance(b, (SymArr, Obj)):
        return False
    return type(a) is type(b) and a == b


def forwarded_arguments(s, callee, names):
    """Call-site preconditions (only inside a caller that announced what it was given, see fw_setup): the one-call workflow
    must hand each step the CALLER's arguments - otherwise it does not agree with the step-by-step entry points."""
    exp = s.ctx.ghost.get("c18_expect") if s.mode == "apply" else None
    if not exp:
        return []
    seen = s.ctx.ghost.setdefault("c18_steps_called", [])
    seen.append(callee)
    out = []
    for n in names:
        got = s.get("arg_" + n) if n == "mode" else s.get(n)
        out.append((f"{callee}-receives-the-caller's-{n}", _same_value(got, exp[n])))
    return out


class KeepsModeArg(Contract):
    """`mode` is also the NS bookkeeping attribute (verify / apply): keep the bound PARAMETER under `arg_mode`."""

    def bind(self, interp, args, kwargs):
        s = super().bind(interp, args, kwargs)
        s.arg_mode = s.__dict__.get("mode")
        return s


def model_view(me):
    """The ghost description (tensor, scan axes, detector extents, stored origins) of a model object met at a CALL SITE."""
    f = me.fields
    T = f["_tensor"]
    om, of = f.get("_origin_measured"), f.get("_origin_fitted")
    return NS(T=T, Tfn=T.fn, lead=tuple(T.shape[:-2]), H=T.shape[-2], W=T.shape[-1], N=f["num_dps"], om=om, of=of,
              omfn=om.fn if isinstance(om, SymArr) else None, offn=of.fn if isinstance(of, SymArr) else None, me=me)


def com_array(g):
    """The (num_dps, 2) array of the property statement: row p = (sum I*row / sum I, sum I*col / sum I) of pattern p."""
    def fn(p, c):
        sr, sc = com_spec(pattern_of(g.Tfn, g.lead, p), g.H, g.W)
        return V.ite(lift(c) == 0, Sym(sr), Sym(sc))
    a = SymArr((g.N, 2), fn, "real")
    a.as_type = torch.Tensor
    return a


def add_stale_state(ctx, me, g, names, fork=True):
    """History pre-state: forks on "earlier workflow steps already ran on this object", in which case the named fields already
    hold ARBITRARY OTHER values (not None).  What a method recomputes must come from this call, what it only reads must survive."""
    from pyvc.interp import _value_signature

    if fork and ctx.branch(ctx.fresh("earlier_workflow_steps_already_ran", "bool").t):
        for n in names:
            if n in ("_origin_measured", "_origin_fitted"):
                a = ctx.fresh_arr("stale" + n, (g.N, 2), "real")
                a.as_type = torch.Tensor
            elif n == "_shifted_tensor":
                a = ctx.fresh_arr("stale_shifted_tensor", tuple(g.T.shape), "real")
                a.as_type = torch.Tensor
            elif n == "_detector_transpose":
                a = ctx.fresh("stale_detector_transpose", "bool")
            else:
                a = ctx.fresh("stale" + n, "real")
            me.fields[n] = a
        g.case += ",re-run"
    g.snap0 = {k: (v, _value_signature(v)) for k, v in me.fields.items()}


def stored_state_frame(me, g, recomputed):
    """One clause per stored field the method does NOT recompute: same object, never written (views of it included)."""
    from pyvc.interp import _value_signature

    f = me.fields
    out = [("frame:no-stored-field-appears-or-disappears-except-" + "/".join(sorted(recomputed)), set(f) - set(recomputed) == set(g.snap0) - set(recomputed))]
    for k, (v, sig) in g.snap0.items():
        if k in recomputed or k.startswith("$"):
            continue
        out.append((f"frame:stored-{k}-is-kept-and-not-written", k in f and f[k] is v and _value_signature(f[k]) == sig))
    return out


# ---- origin setters: value.view(-1, 2).expand(num_dps, 2)


def oset_setup(field):
    def setup(ctx):
        N = ctx.fresh("num_dps", "int")
        ctx.assume(N.t >= 0)
        me = Obj(COM, dict(num_dps=N, _device="cpu", _origin_measured=None, _origin_fitted=None, _shifted_tensor=None))
        if ctx.branch(ctx.fresh("value_is_one_pair", "bool").t):
            v = ctx.fresh_arr("value", (2,), "real")
        else:
            M = ctx.fresh("rows", "int")
            ctx.assume(M.t >= 0)
            v = ctx.fresh_arr("value", (M, 2), "real")
        v.as_type = torch.Tensor
        return NS(self=me, value=v)
    return setup


def _oset_src(s):
    """(rows M, fn(p, c)) of value.view(-1, 2)."""
    v = s.value
    vf = v.fn
    if v.ndim == 1:
        return 1, (lambda p, c: vf(c))
    return v.shape[0], (lambda p, c: vf(p, c))


def _oset_ok(s):
    v = s.value
    return isinstance(v, SymArr) and (v.ndim == 1 and V._dim_lit(v.shape[0]) == 2 or v.ndim == 2 and V._dim_lit(v.shape[1]) == 2)


def oset_raises(s):
    M, _ = _oset_src(s)
    N = lift(s.self.fields["num_dps"])
    return z3.And(lift(M) != N, lift(M) != 1)


def oset_new(s):
    M, src = _oset_src(s)
    N = s.self.fields["num_dps"]
    same = z3.simplify(lift(M) == lift(N))
    if z3.is_true(same):
        fn = lambda p, c: src(p, c)
    elif V._dim_lit(M) == 1:
        fn = lambda p, c: src(z3.IntVal(0), c)
    else:
        fn = lambda p, c: src(z3.If(lift(M) == lift(N), p, z3.IntVal(0)), c)
    r = SymArr((N, 2), fn, "real")
    r.as_type = torch.Tensor
    return r


def oset_contract(field):
    fld = "_" + field

    def modifies(ctx, s):
        s.self.fields[fld] = oset_new(s)

    def snapshot(s):
        return NS(fields=dict(s.self.fields), vw=s.value.writes if isinstance(s.value, SymArr) else 0, expect=oset_new(s) if _oset_ok(s) else None)

    def ensures(s):
        f = s.self.fields
        new = f[fld]
        N = lift(f["num_dps"])
        p, c = I("p"), I("c")
        exp = s.old.expect
        out = [
            ("shape=(num_dps,2)", AND(lift(new.shape[0]) == N, lift(new.shape[1]) == 2)),
            ("row-p-is-value-row-p-(or-the-single-row)", forall([p, c], implies(AND(p >= 0, p < N, c >= 0, c < 2), lift(new.fn(p, c)) == lift(exp.fn(p, c))))),
            ("frame:other-fields-untouched", all(f[k] is s.old.fields[k] for k in s.old.fields if k != fld) and set(f) == set(s.old.fields) | {fld}),
            ("frame:value-not-written", s.value.writes == s.old.vw),
        ]
        return out

    return SetterContract(f"{OM}:CenterOfMassOriginModel.{field}.fset", setup=oset_setup(field), ensures=ensures, modifies=modifies,
                          snapshot=snapshot, requires=lambda s: [("value-is-(M,2)-or-(2,)", _oset_ok(s))],
                          raises={RuntimeError: oset_raises})


C_SET_MEASURED = oset_contract("origin_measured")
C_SET_FITTED = oset_contract("origin_fitted")

# ---- calculate_origin


def co_setup(ctx):
    me, g = com_model(ctx)
    add_stale_state(ctx, me, g, ["_origin_measured", "_origin_fitted", "_shifted_tensor", "_detector_transpose", "_detector_rotation_deg"])
    return NS(self=me, max_batch_size=opt_int(ctx, "max_batch_size"), g=g, case=g.case)


def co_requires(s):
    r = []
    if s.max_batch_size is not None:
        r.append(("max_batch_size>=1", lift(s.max_batch_size) >= 1))
    return r + forwarded_arguments(s, "calculate_origin", ["max_batch_size"])


def co_spec(g, p):
    return com_spec(pattern_of(g.Tfn, g.lead, p), g.H, g.W)


def co_loop_inv(s):
    g = s.ctx.ghost["c18"]
    com = s.com_measured
    B = lift(s.batcher.fields["batch_size"])
    N = lift(g.N)
    p = I("p")
    done = zmin(lift(s.k) * B, N)
    sr, sc = co_spec(g, p)
    return [
        ("rows-below-min(kB,N)-hold-the-CoM", forall(p, implies(AND(p >= 0, p < done), AND(lift(com.fn(p, z3.IntVal(0))) == sr, lift(com.fn(p, z3.IntVal(1))) == sc)))),
        ("frame:tensor-not-written", unwritten_in_loop(s, "calc", [g.T, g.A])),
    ]


def co_after(s):
    """Exit hint (proved as its own quantifier-free obligation, then available): after ceil(N/B) batches every row is done."""
    g = s.ctx.ghost["c18"]
    B = lift(s.batcher.fields["batch_size"])
    s.ctx.prove("loop-exit:all-rows-done:min(kB,N)=N", zmin(lift(s.k) * B, lift(g.N)) == lift(g.N), kind="hint")


def co_modifies(ctx, s):
    s.self.fields["_origin_measured"] = com_array(model_view(s.self))  # exactly the array the postcondition describes


def co_ensures(s):
    if s.mode == "apply":
        return []
    g = s.g
    f = s.self.fields
    om = f["_origin_measured"]
    N = lift(g.N)
    p = I("p")
    sr, sc = co_spec(g, p)
    inr = AND(p >= 0, p < N)
    return [
        ("origin_measured-shape=(num_dps,2)", AND(lift(om.shape[0]) == N, lift(om.shape[1]) == 2)),
        ("origin_measured[p,0]=sum(I*row)/sum(I)", forall(p, implies(inr, lift(om.fn(p, z3.IntVal(0))) == sr))),
        ("origin_measured[p,1]=sum(I*col)/sum(I)", forall(p, implies(inr, lift(om.fn(p, z3.IntVal(1))) == sc))),
        ("returns-self", s.result is s.self),
        ("frame:tensor-and-dataset-not-written", g.T.writes == 0 and g.A.writes == 0 and f["_tensor"] is g.T and f["_dataset"] is g.ds),
    ] + stored_state_frame(s.self, g, {"_origin_measured"})


C_CALC = Contract(
    f"{OM}:CenterOfMassOriginModel.calculate_origin", setup=co_setup, requires=co_requires, ensures=co_ensures,
    modifies=co_modifies, result=lambda ctx, s: s.self,
    loops={0: LoopSpec(inv=co_loop_inv, after=co_after, havoc={
        "com_measured": lambda s: havoc_array(s.ctx, s.com_measured, "com_measured"),
        # kept, not havocked: `frame:tensor-not-written` is part of the invariant
        "tensor_3d": lambda s: None, "self._tensor": lambda s: None})},
)


# ------------------------------------------------------------------------------------------------
# ptycho_utils.get_com_2d  (third implementation; stack of patterns (B,H,W), numpy or torch)
# ------------------------------------------------------------------------------------------------


def gc_setup(ctx):
    """every rank the function accepts: a single pattern (H,W), a stack (B,H,W), a 4-D dataset (A,B,H,W); numpy or torch"""
    H, W = ctx.fresh("H", "int"), ctx.fresh("W", "int")
    rank = 3 if ctx.branch(ctx.fresh("input_is_a_stack_BHW", "bool").t) else 2 if ctx.branch(ctx.fresh("input_is_one_pattern_HW", "bool").t) else 4
    lead = tuple(ctx.fresh(n, "int") for n in (("A", "B")[2 - (rank - 2):] if rank > 2 else ()))
    for d in lead + (H, W):
        ctx.assume(d.t >= 1)
    ar = ctx.fresh_arr("ar", lead + (H, W), "real")
    is_torch = ctx.branch(ctx.fresh("input_is_torch", "bool").t)
    ar.as_type = torch.Tensor if is_torch else np.ndarray
    return NS(ar=ar, corner_centered=False, g=NS(fn=ar.fn, lead=lead, H=H, W=W), case=("torch" if is_torch else "numpy") + f",rank{rank}")


def gc_ensures(s):
    g = s.g
    res = s.result
    lead = g.lead  # clause names keep the (B,H,W) wording of the baseline: `b` stands for the tuple of leading indices, B for the leading axes
    idx = [I(f"b{k}") for k in range(len(lead))]
    sr, sc = com_spec(lambda i, j: g.fn(*idx, i, j), g.H, g.W)
    inr = AND(*[AND(b >= 0, b < lift(d)) for b, d in zip(idx, lead)]) if lead else z3.BoolVal(True)
    ok = isinstance(res, SymArr) and res.ndim == len(lead) + 1
    q = (lambda t: forall(idx, implies(inr, t))) if lead else (lambda t: t)
    return [
        ("shape=(B,2)", ok and AND(*[lift(a) == lift(b) for a, b in zip(res.shape, lead + (2,))])),
        ("com[b,0]=sum(I*row)/sum(I)", ok and q(lift(res.fn(*idx, z3.IntVal(0))) == sr)),
        ("com[b,1]=sum(I*col)/sum(I)", ok and q(lift(res.fn(*idx, z3.IntVal(1))) == sc)),
        ("frame:input-not-written", s.ar.writes == 0),
    ]


C_GETCOM = Contract(f"{PU}:get_com_2d", setup=gc_setup, ensures=gc_ensures)

# ------------------------------------------------------------------------------------------------
# ptycho_utils.fit_origin  (constant branch deductive; curve_fit branches: bounded stand-in)
# ------------------------------------------------------------------------------------------------

FIT_NAMES = ("plane", "parabola", "bezier_two", "constant")


class LazyChoice:
    """A string parameter ranging over `options`; which one it is gets decided (path fork) only when the code compares it,
    so code that runs before the first comparison is explored once."""

    def __init__(self, name, options):
        self.name, self.options, self.value = name, list(options), None

    def decide(self, other):
        if self.value is not None:
            return self.value == other
        if other not in self.options:
            return False
        if len(self.options) > 1:
            ctx = V.cur()
            if ctx.branch(ctx.fresh(f"{self.name}_is_{other}", "bool").t):
                self.value = other
                return True
            self.options.remove(other)
        if len(self.options) == 1:
            self.value = self.options[0]
        return self.value == other

    def __eq__(self, o):
        return self.decide(o) if isinstance(o, str) else NotImplemented

    def __ne__(self, o):
        return (not self.decide(o)) if isinstance(o, str) else NotImplemented

    __hash__ = object.__hash__

    def __repr__(self):
        return f"<{self.name}={self.value or '|'.join(self.options)}>"


def _np(a):
    a.as_type = np.ndarray
    return a


def fo_setup(ctx):
    n0, n1 = ctx.fresh("n0", "int"), ctx.fresh("n1", "int")
    ctx.assume(n0.t >= 1)
    ctx.assume(n1.t >= 1)
    const = ctx.branch(ctx.fresh("data_is_constant", "bool").t)
    if const:
        vr, vc = ctx.fresh("v_r", "real"), ctx.fresh("v_c", "real")
        qr, qc = _np(lm.const_arr((n0, n1), vr)), _np(lm.const_arr((n0, n1), vc))
    else:
        vr = vc = None
        qr, qc = _np(ctx.fresh_arr("qr0_meas", (n0, n1), "real")), _np(ctx.fresh_arr("qc0_meas", (n0, n1), "real"))
    mask = None
    if ctx.branch(ctx.fresh("mask_given", "bool").t):
        mask = _np(ctx.fresh_arr("mask", (n0, n1), "bool"))
    ff = "constant" if ctx.branch(ctx.fresh("fit_function_is_constant", "bool").t) else "bogus"
    return NS(data=(qr, qc), mask=mask, fit_function=ff, g=NS(qr=qr.fn, qc=qc.fn, n0=n0, n1=n1, vr=vr, vc=vc, arrs=(qr, qc)),
              case=("const-data" if const else "any-data") + ("+mask" if mask is not None else "") + ":" + ff)


def _fo_data_ok(s):
    d = s.data
    return (isinstance(d, tuple) and len(d) == 2 and all(isinstance(x, SymArr) and x.ndim == 2 for x in d)
            and all(V.dims_equal(a, b) for a, b in zip(d[0].shape, d[1].shape)))


def _fo_unknown(s):
    ff = s.fit_function
    return not any(ff == n for n in FIT_NAMES)


def fo_result(ctx, s):
    qr, qc = s.data
    if s.fit_function == "constant":
        mr, mc = lm.reduce_mean(qr), lm.reduce_mean(qc)
        fr, fc = _np(lm.const_arr(qr.shape, mr)), _np(lm.const_arr(qc.shape, mc))
        return (fr, fc, _np(qr - fr), _np(qc - fc))
    return tuple(_np(ctx.fresh_arr(nm, qr.shape, "real")) for nm in ("qr0_fit", "qc0_fit", "qr0_res", "qc0_res"))


def fo_snapshot(s):
    if not _fo_data_ok(s):
        return None
    qr, qc = s.data
    return NS(qr=qr.fn, qc=qc.fn, mr=lm.reduce_mean(qr), mc=lm.reduce_mean(qc), shape=tuple(qr.shape), w=(qr.writes, qc.writes),
              mw=s.mask.writes if isinstance(s.mask, SymArr) else 0)


def fo_ensures(s):
    o = s.old
    res = s.result
    n0, n1 = o.shape
    out = [("returns-four-arrays-of-the-data-shape", isinstance(res, tuple) and len(res) == 4 and all(
        isinstance(x, SymArr) and x.ndim == 2 and V.dims_equal(x.shape[0], n0) and V.dims_equal(x.shape[1], n1) for x in res))]
    qr, qc = s.data
    out.append(("frame:data-and-mask-not-written", (qr.writes, qc.writes) == o.w and (s.mask.writes if isinstance(s.mask, SymArr) else 0) == o.mw))
    if not (s.fit_function == "constant"):
        return out
    fr, fc, rr, rc = res
    i, j = I("i"), I("j")
    inr = AND(i >= 0, i < lift(n0), j >= 0, j < lift(n1))
    out += [
        ("constant-fit=mean-of-the-data", forall([i, j], implies(inr, AND(lift(fr.fn(i, j)) == lift(o.mr), lift(fc.fn(i, j)) == lift(o.mc))))),
        ("residual=data-fit", forall([i, j], implies(inr, AND(lift(rr.fn(i, j)) == lift(o.qr(i, j)) - lift(o.mr), lift(rc.fn(i, j)) == lift(o.qc(i, j)) - lift(o.mc))))),
    ]
    g = s.get("g")
    if s.mode == "verify" and g is not None and g.vr is not None:
        out += [
            ("constant-data=>fit-returns-that-constant", forall([i, j], implies(inr, AND(lift(fr.fn(i, j)) == lift(g.vr), lift(fc.fn(i, j)) == lift(g.vc))))),
            ("constant-data=>zero-residual", forall([i, j], implies(inr, AND(lift(rr.fn(i, j)) == 0, lift(rc.fn(i, j)) == 0)))),
        ]
    return out


C_FITORIGIN = Contract(f"{PU}:fit_origin", setup=fo_setup, requires=lambda s: [("data=(rows,cols)-pair-of-equal-2-D-arrays", _fo_data_ok(s))],
                       ensures=fo_ensures, result=fo_result, snapshot=fo_snapshot, raises={ValueError: _fo_unknown})

# ------------------------------------------------------------------------------------------------
# PtychographyDatasetRaster._set_intensities_com : vectorised and looped path (two views of the same function)
# ------------------------------------------------------------------------------------------------

SIC_FITS = ["none", "no_shift", "constant", "plane", "bogus"]


def sic_setup(vectorized):
    def setup(ctx):
        Rr, Rc, Qr, Qc = (ctx.fresh(n, "int") for n in ("Rr", "Rc", "Qr", "Qc"))
        for d in (Rr, Rc, Qr, Qc):
            ctx.assume(d.t >= 1)
        inten = _np(ctx.fresh_arr("intensities", (Rr, Rc, Qr, Qc), "real"))
        mask = None
        if ctx.branch(ctx.fresh("dp_mask_given", "bool").t):
            Mr, Mc = ctx.fresh("Mr", "int"), ctx.fresh("Mc", "int")
            ctx.assume(Mr.t >= 1)
            ctx.assume(Mc.t >= 1)
            mask = _np(ctx.fresh_arr("dp_mask", (Mr, Mc), "real"))
        Dn, Dr, Dc = ctx.fresh("Dn", "int"), ctx.fresh("Dr", "int"), ctx.fresh("Dc", "int")
        for d in (Dn, Dr, Dc):
            ctx.assume(d.t >= 1)
        dset = Obj(DATASET, {"_array": _np(ctx.fresh_arr("dset_array", (Dn, Dr, Dc), "real"))})
        me = Obj(PDR, dict(_verbose=0, _gpts=(Rr, Rc), _dset=dset, _com_measured=None, _com_fit=None))
        ff = LazyChoice("fit_function", SIC_FITS)
        rs, cs = ctx.fresh("r_star", "int"), ctx.fresh("c_star", "int")  # an arbitrary scan position (looped view)
        ctx.assume(z3.And(rs.t >= 0, rs.t < Rr.t, cs.t >= 0, cs.t < Rc.t))
        g = NS(rs=rs, cs=cs, Ifn=inten.fn, Mfn=mask.fn if mask is not None else None, inten=inten, mask=mask, Rr=Rr, Rc=Rc, Qr=Qr, Qc=Qc, Dr=Dr, Dc=Dc, ff=ff,
               mode="vectorised" if vectorized else "looped", fields0=dict(me.fields))
        ctx.ghost["c18"] = g
        return NS(self=me, intensities=inten, dp_mask=mask, fit_function=ff, vectorized_calculation=vectorized, g=g,
                  case=g.mode + (",mask" if mask is not None else ",no-mask"))
    return setup


def sic_pattern(g, r, c):
    if g.Mfn is None:
        return lambda i, j: g.Ifn(r, c, i, j)
    return lambda i, j: g.Ifn(r, c, i, j) * g.Mfn(i, j)


def sic_spec(g, r, c):
    return com_spec(sic_pattern(g, r, c), g.Qr, g.Qc)


def sic_mask_mismatch(g):
    if g.mask is None:
        return z3.BoolVal(False)
    return z3.Not(z3.And(lift(g.mask.shape[0]) == lift(g.Qr), lift(g.mask.shape[1]) == lift(g.Qc)))


def sic_raises(s):
    g = s.g
    return z3.Or(sic_mask_mismatch(g), z3.BoolVal(g.ff.value == "bogus"))


def sic_tag(g):
    return f"[{g.mode},{'mask' if g.mask is not None else 'no-mask'}]"


def sic_loop_inv(s):
    """Invariant at ONE arbitrary scan position (r*, c*) (free symbols of the setup, only constrained to be in range):
    once the row-major counter has passed it, its two entries hold the CoM of its pattern.  Quantifier-free on purpose:
    a false instance comes back with a model."""
    g = s.ctx.ghost["c18"]
    sc = lift(s.shape_c)
    r, c = lift(g.rs), lift(g.cs)
    sr, scol = sic_spec(g, r, c)
    tag = sic_tag(g)
    passed = r * sc + c < lift(s.k)
    return [
        (f"{tag}com_measured_r[r*,c*]=sum(I*row)/sum(I)-once-visited", implies(passed, lift(s.com_measured_r.fn(r, c)) == sr)),
        (f"{tag}com_measured_c[r*,c*]=sum(I*col)/sum(I)-once-visited", implies(passed, lift(s.com_measured_c.fn(r, c)) == scol)),
        (f"{tag}frame:caller's-intensities-and-mask-not-written", unwritten_in_loop(s, "sic", [g.inten, g.mask])),
    ]


def sic_ensures(s):
    g = s.g
    f = s.self.fields
    cm, cf = f["_com_measured"], f["_com_fit"]
    tag = sic_tag(g)
    r, c, x = I("r"), I("c"), I("x")
    Rr, Rc = lift(g.Rr), lift(g.Rc)
    inr = AND(r >= 0, r < Rr, c >= 0, c < Rc)
    sr, sc = sic_spec(g, r, c)
    z0, z1 = z3.IntVal(0), z3.IntVal(1)
    shp = lambda a: isinstance(a, SymArr) and a.ndim == 3 and AND(lift(a.shape[0]) == 2, lift(a.shape[1]) == Rr, lift(a.shape[2]) == Rc)
    if g.mode == "looped":
        # stated at the arbitrary scan position (r*, c*) of the setup (free symbols) - the same universal statement
        rs, cs = lift(g.rs), lift(g.cs)
        srs, scs = sic_spec(g, rs, cs)
        com_posts = [
            (f"{tag}com_measured[0]=sum(I*row)/sum(I)", lift(cm.fn(z0, rs, cs)) == srs),
            (f"{tag}com_measured[1]=sum(I*col)/sum(I)", lift(cm.fn(z1, rs, cs)) == scs),
        ]
    else:
        com_posts = [
            (f"{tag}com_measured[0]=sum(I*row)/sum(I)", forall([r, c], implies(inr, lift(cm.fn(z0, r, c)) == sr))),
            (f"{tag}com_measured[1]=sum(I*col)/sum(I)", forall([r, c], implies(inr, lift(cm.fn(z1, r, c)) == sc))),
        ]
    out = [
        (f"{tag}com_measured-shape=(2,Rr,Rc)", shp(cm)),
        *com_posts,
        (f"{tag}frame:caller's-intensities-and-mask-not-written", g.inten.writes == 0 and (g.mask is None or g.mask.writes == 0)),
        (f"{tag}returns-None-and-sets-only-com_measured/com_fit", s.result is None and set(f) == set(g.fields0) and all(
            f[k] is g.fields0[k] for k in g.fields0 if k not in ("_com_measured", "_com_fit"))),
        (f"{tag}com_fit-shape=(2,Rr,Rc)", shp(cf)),
    ]
    fit = g.ff.value
    ftag = f"{tag}[fit={fit}]"
    if fit == "none":
        out.append((f"{ftag}com_fit=com_measured", forall([x, r, c], implies(AND(inr, x >= 0, x < 2), lift(cf.fn(x, r, c)) == lift(cm.fn(x, r, c))))))
    elif fit == "no_shift":
        out.append((f"{ftag}com_fit=detector-centre", forall([r, c], implies(inr, AND(lift(cf.fn(z0, r, c)) == z3.ToReal(lift(g.Dr)) / 2, lift(cf.fn(z1, r, c)) == z3.ToReal(lift(g.Dc)) / 2)))))
    elif fit == "constant":
        cmf = cm.fn
        m0 = lm.reduce_mean(SymArr((g.Rr, g.Rc), lambda a, b: cmf(z0, a, b), "real"))
        m1 = lm.reduce_mean(SymArr((g.Rr, g.Rc), lambda a, b: cmf(z1, a, b), "real"))
        out.append((f"{ftag}com_fit=mean-of-com_measured", forall([r, c], implies(inr, AND(lift(cf.fn(z0, r, c)) == lift(m0), lift(cf.fn(z1, r, c)) == lift(m1))))))
    return out


def sic_contract(vectorized):
    loops = {} if vectorized else {0: LoopSpec(inv=sic_loop_inv, havoc={
        "com_measured_r": lambda s: havoc_array(s.ctx, s.com_measured_r, "com_measured_r"),
        "com_measured_c": lambda s: havoc_array(s.ctx, s.com_measured_c, "com_measured_c"),
        # the caller's arrays are NOT havocked: the invariant says the body leaves them unwritten (a write fails `frame:`)
        "intensities": lambda s: None, "dp_mask": lambda s: None})}
    c = Contract(f"{DM}:PtychographyDatasetRaster._set_intensities_com", setup=sic_setup(vectorized), ensures=sic_ensures,
                 raises={ValueError: sic_raises}, loops=loops)
    c.tag = "vec" if vectorized else "loop"
    return c


C_SIC_VEC = sic_contract(True)
C_SIC_LOOP = sic_contract(False)

# ------------------------------------------------------------------------------------------------
# CenterOfMassOriginModel.fit_origin_background  (constant branch deductive; PCA plane fit: bounded stand-in)
# ------------------------------------------------------------------------------------------------


def fb_position_spec(g):
    """p -> (X(p), Y(p)): the scan position the plane fit must pair with pattern p.  Explicit positions: row p of the caller's
    probe_positions; inferred positions: the row-major scan layout every other method of the model uses (calculate_origin merges
    (Rx, Ry) into num_dps, estimate_detector_rotation / forward split it again): pattern p sits at (p div Ry, p mod Ry)."""
    if g.pp is not None:
        ppf = g.ppfn
        return lambda p: (V._num(lift(ppf(p, z3.IntVal(0)))), V._num(lift(ppf(p, z3.IntVal(1)))))
    if len(g.lead) == 2:
        ry = lift(g.lead[1])
        return lambda p: (z3.ToReal(p / ry), z3.ToReal(p % ry))
    return None


def fb_setup(ctx):
    me, g = com_model(ctx)
    N = g.N
    kind = "none"
    fm = "constant" if ctx.branch(ctx.fresh("fit_method_is_constant", "bool").t) else "plane" if ctx.branch(ctx.fresh("fit_method_is_plane", "bool").t) else "bogus"
    pp = None
    if ctx.branch(ctx.fresh("probe_positions_given", "bool").t):
        P = ctx.fresh("P", "int")
        ctx.assume(P.t >= 1)
        pp = ctx.fresh_arr("probe_positions", (P, 2), "real")
        pp.as_type = torch.Tensor
    g.pp, g.ppfn = pp, (pp.fn if pp is not None else None)
    g.const = g.plane = g.noncollinear = None
    g.pos_spec = fb_position_spec(g)
    if ctx.branch(ctx.fresh("origin_measured_is_set", "bool").t):
        special = ctx.branch(ctx.fresh("measured_origins_lie_exactly_on_a_surface_of_the_fitted_family", "bool").t)
        if special and fm != "plane":
            v0, v1 = ctx.fresh("v_row", "real"), ctx.fresh("v_col", "real")
            om = SymArr((N, 2), lambda p, c: V.ite(c == 0, v0, v1), "real")
            g.const = (v0, v1)
            kind = "const"
        elif special and g.pos_spec is not None:
            # EXACT planes over the scan positions: origin[p, k] = alpha_k * X(p) + beta_k * Y(p) + gamma_k, arbitrary real coefficients;
            # the positions are not collinear (otherwise no plane is determined): three witnesses p1, p2, p3
            co = [tuple(ctx.fresh(f"{n}_{k}", "real") for n in ("alpha", "beta", "gamma")) for k in ("row", "col")]
            spec = g.pos_spec

            def plane(p, k):
                X, Y = spec(lift(p))
                al, be, ga = co[k]
                return Sym(al.t * X + be.t * Y + ga.t)

            om = SymArr((N, 2), lambda p, c: V.ite(lift(c) == 0, plane(p, 0), plane(p, 1)), "real")
            g.plane = co
            if pp is None:
                ctx.assume(z3.And(lift(g.lead[0]) >= 2, lift(g.lead[1]) >= 2))
                g.noncollinear = (z3.IntVal(0), z3.IntVal(1), lift(g.lead[1]))  # positions (0,0), (0,1), (1,0)
            else:
                ws = [ctx.fresh(f"p{i}_noncollinear", "int") for i in (1, 2, 3)]
                ctx.assume(z3.And(*[z3.And(w.t >= 0, w.t < lift(N)) for w in ws]))
                g.noncollinear = tuple(w.t for w in ws)
                ctx.assume(fb_det(spec, g.noncollinear) != 0)
            kind = "plane"
        else:
            om = ctx.fresh_arr("origin_measured", (N, 2), "real")
            kind = "any"
        om.as_type = torch.Tensor
        me.fields["_origin_measured"] = om
        g.om, g.omfn = om, om.fn
    else:
        g.om = None
    add_stale_state(ctx, me, g, ["_origin_fitted", "_shifted_tensor", "_detector_transpose", "_detector_rotation_deg"])
    g.fields0 = dict(me.fields)
    g.fm = fm
    return NS(self=me, probe_positions=pp, fit_method=fm, g=g, case=f"{g.case},measured:{kind},{'positions' if pp is not None else 'no-positions'},{fm}")


def fb_det(spec, ws):
    (x1, y1), (x2, y2), (x3, y3) = (spec(w) for w in ws)
    return (x2 - x1) * (y3 - y1) - (x3 - x1) * (y2 - y1)


def _is_plane_fit_helper(clo):
    import ast

    return any(isinstance(n, ast.Attribute) and n.attr == "eigh" for n in ast.walk(clo.node))


def m_plane_fit_helper(interp, clo, args, kwargs):
    """The nested PCA plane fit of fit_origin_background (`fit_linear_plane(points)`, recognised by its use of torch.linalg.eigh),
    used through its ASSUMED contract (see ASSUMPTIONS): for points (x_p, y_p, z_p) with non-collinear (x_p, y_p) and
    z_p = alpha*x_p + beta*y_p + gamma exactly, the returned (a, b, c, d) satisfy c != 0, a = -alpha*c, b = -beta*c, d = -gamma*c;
    for any other points the four numbers are unspecified.  What IS verified here (named obligations at the call): the points
    handed to the fit are (scan position of pattern p, measured origin of pattern p) for every p."""
    if not _is_plane_fit_helper(clo):
        return NotImplemented
    ctx = interp.ctx
    g = ctx.ghost.get("c18")
    if len(args) != 1 or kwargs or not isinstance(args[0], SymArr) or args[0].ndim != 2:
        raise V.OutOfSubset("plane-fit helper called with something else than one (n, 3) array")
    pts = args[0]
    calls = ctx.ghost.setdefault("c18_plane_fit_calls", [])
    spec = getattr(g, "pos_spec", None)
    if g is None or spec is None or getattr(g, "omfn", None) is None:
        calls.append(None)
        return tuple(ctx.fresh(n, "real") for n in ("plane_a", "plane_b", "plane_c", "plane_d"))
    N = lift(g.N)
    p = I("p")
    inr = AND(p >= 0, p < N)
    z = lambda j: z3.IntVal(j)
    pf = pts.fn
    num = lambda t: V._num(lift(t))
    # which measured coordinate is being fitted: decided from the third column at one arbitrary pattern (order-independent)
    pstar = ctx.fresh("p_fit", "int")
    ctx.assume(z3.And(pstar.t >= 0, pstar.t < N))
    k = None
    for cand in (0, 1):
        if cand not in [c for c in calls if c is not None] and lm.entails(num(pf(pstar.t, z(2))) == num(g.omfn(pstar.t, z(cand)))):
            k = cand
            break
    if k is None:
        k = [c for c in (0, 1) if c not in calls][0] if len([c for c in calls if c is not None]) < 2 else 0
    calls.append(k)
    cname = ("row", "col")[k]
    X, Y = spec(p)
    where = "the caller's probe_positions[p]" if g.pp is not None else "(p div Ry, p mod Ry) of the row-major (Rx, Ry) scan"
    ctx.prove(f"plane-fit[{cname}]:receives-one-point-per-pattern:shape=(num_dps,3)", AND(lift(pts.shape[0]) == N, lift(pts.shape[1]) == 3), kind="pre")
    ctx.prove(f"plane-fit[{cname}]:the-position-paired-with-pattern-p-is-its-scan-position: {where}",
              forall(p, implies(inr, AND(num(pf(p, z(0))) == X, num(pf(p, z(1))) == Y))), kind="pre")
    ctx.prove(f"plane-fit[{cname}]:the-value-paired-with-pattern-p-is-origin_measured[p,{k}]",
              forall(p, implies(inr, num(pf(p, z(2))) == num(g.omfn(p, z(k))))), kind="pre")
    c = ctx.fresh(f"plane_c_{cname}", "real")
    Xs, Ys = spec(pstar.t)
    established = lm.entails(AND(num(pf(pstar.t, z(0))) == Xs, num(pf(pstar.t, z(1))) == Ys, num(pf(pstar.t, z(2))) == num(g.omfn(pstar.t, z(k)))))
    if g.plane is not None and not established:
        # the hypothesis of the assumed contract is not established at an arbitrary pattern (the obligations above fail): the contract
        # gives nothing, and the exact-plane postcondition cannot be concluded (recorded; it is then reported without a solver search)
        ctx.ghost["c18_plane_fit_hypothesis_missing"] = True
    if g.plane is None or not established:
        return (ctx.fresh(f"plane_a_{cname}", "real"), ctx.fresh(f"plane_b_{cname}", "real"), c, ctx.fresh(f"plane_d_{cname}", "real"))
    # hypothesis of the assumed contract: the positions RECEIVED are not collinear (three witnesses)
    got = lambda w: (num(pf(w, z(0))), num(pf(w, z(1))))
    ctx.prove(f"plane-fit[{cname}]:the-positions-received-are-not-collinear", fb_det(got, g.noncollinear) != 0, kind="pre")
    al, be, ga = g.plane[k]
    ctx.assume(c.t != 0)
    return (Sym(-al.t * c.t), Sym(-be.t * c.t), c, Sym(-ga.t * c.t))


def _fb_g(s):
    g = s.get("g")
    if g is None:  # call site
        g = model_view(s.self)
        g.pp = s.probe_positions if isinstance(s.probe_positions, SymArr) else None
        g.const = g.plane = None
        if s.probe_positions is not None and g.pp is None:
            raise V.OutOfSubset("fit_origin_background called with concrete probe positions")
    return g


def fb_modifies(ctx, s):
    g = model_view(s.self)
    if s.fit_method == "constant":
        mean = lm.reduce_mean(SymArr((g.N, 2), g.omfn, "real"), 0)
        mf = mean.fn
        new = SymArr((g.N, 2), lambda p, c: mf(c), "real")
    else:  # 'plane': some (num_dps, 2) surface - its values are outside the deductive reach (bounded stand-in)
        new = ctx.fresh_arr("origin_fitted_plane", (g.N, 2), "real")
    new.as_type = torch.Tensor
    s.self.fields["_origin_fitted"] = new


def fb_value_error(s):
    g = _fb_g(s)
    if g.om is None:
        return True
    if g.pp is None:
        return len(g.lead) + 2 != 4
    return lift(g.pp.shape[0]) != lift(g.N)


def fb_not_implemented(s):
    ve = fb_value_error(s)
    unknown = s.fit_method not in ("plane", "constant")
    if ve is True or not unknown:
        return False
    if ve is False:
        return True
    return z3.Not(ve)


def fb_ensures(s):
    if s.mode == "apply":
        return []
    g = s.g
    f = s.self.fields
    of = f["_origin_fitted"]
    N = lift(g.N)
    p, c = I("p"), I("c")
    inr = AND(p >= 0, p < N, c >= 0, c < 2)
    om = SymArr((g.N, 2), g.omfn, "real")
    mean = lm.reduce_mean(om, 0)
    out = [("origin_fitted-shape=(num_dps,2)", isinstance(of, SymArr) and of.ndim == 2 and AND(lift(of.shape[0]) == N, lift(of.shape[1]) == 2))]
    if g.fm == "constant":
        out.append(("constant-fit:every-row=mean-of-measured-origins", forall([p, c], implies(inr, lift(of.fn(p, c)) == lift(mean.fn(c))))))
    else:
        calls = s.ctx.ghost.get("c18_plane_fit_calls", [])
        out.append(("plane-fit:one-fit-per-origin-coordinate (row and column), each through the plane-fit helper", sorted(calls, key=str) == [0, 1]))
        if g.plane is not None:
            out.append(("plane-fit:origins-lying-exactly-on-planes-over-the-scan-positions-are-returned-exactly (given the assumed eigh plane-fit contract)",
                        False if s.ctx.ghost.get("c18_plane_fit_hypothesis_missing") else
                        forall([p, c], implies(inr, V._num(lift(of.fn(p, c))) == V._num(lift(g.omfn(p, c)))))))
    out += [
        ("returns-self", s.result is s.self),
        ("frame:only-_origin_fitted-changed", set(f) == set(g.fields0) and all(f[k] is g.fields0[k] for k in g.fields0 if k != "_origin_fitted")),
        ("frame:measured-origins/tensor/positions-not-written", g.om.writes == 0 and g.T.writes == 0 and (g.pp is None or g.pp.writes == 0)),
    ] + stored_state_frame(s.self, g, {"_origin_fitted"})
    if g.const is not None and g.fm == "constant":
        v0, v1 = g.const
        out.append(("constant-measured-origins=>fit-returns-that-constant",
                    forall(p, implies(AND(p >= 0, p < N), AND(lift(of.fn(p, z3.IntVal(0))) == lift(v0), lift(of.fn(p, z3.IntVal(1))) == lift(v1))))))
    return out


C_FITBG = Contract(f"{OM}:CenterOfMassOriginModel.fit_origin_background", setup=fb_setup, ensures=fb_ensures,
                   requires=lambda s: forwarded_arguments(s, "fit_origin_background", ["probe_positions", "fit_method"]),
                   modifies=fb_modifies, result=lambda ctx, s: s.self,
                   raises={ValueError: fb_value_error, NotImplementedError: fb_not_implemented})

# ------------------------------------------------------------------------------------------------
# CenterOfMassOriginModel.shift_origin_to : integer (origin - coordinate)  =>  circular roll of every pattern
# ------------------------------------------------------------------------------------------------


def so_setup(ctx, weak=False):
    me, g = com_model(ctx)
    g.weak = weak
    N = g.N
    if ctx.branch(ctx.fresh("origin_fitted_is_set", "bool").t):
        of = ctx.fresh_arr("origin_fitted", (N, 2), "real")
        of.as_type = torch.Tensor
        me.fields["_origin_fitted"] = of
        g.of, g.offn = of, of.fn
    else:
        g.of = None
    cy, cx = ctx.fresh("coord_row", "real"), ctx.fresh("coord_col", "real")
    mode = "bilinear" if ctx.branch(ctx.fresh("mode_is_bilinear", "bool").t) else "nearest"
    # ONE arbitrary pattern p* and ONE arbitrary detector pixel (y*, x*): free symbols, only constrained to be in range
    ps, ys, xs = ctx.fresh("p_star", "int"), ctx.fresh("y_star", "int"), ctx.fresh("x_star", "int")
    ctx.assume(z3.And(ps.t >= 0, ps.t < lift(N), ys.t >= 0, ys.t < g.H.t, xs.t >= 0, xs.t < g.W.t))
    g.ps, g.ys, g.xs = ps, ys, xs
    g.sy, g.sx = ctx.fresh("shift_row", "int"), ctx.fresh("shift_col", "int")
    g.coord = (cy, cx)
    om = ctx.fresh_arr("origin_measured", (N, 2), "real")  # the measured origins of an earlier calculate_origin(): read-only here
    om.as_type = torch.Tensor
    me.fields["_origin_measured"] = om
    # the history pre-state is explored in the any-shift view (frames, shape); the roll view keeps the first-call pre-state
    add_stale_state(ctx, me, g, ["_shifted_tensor", "_detector_transpose", "_detector_rotation_deg"], fork=weak)
    g.fields0 = dict(me.fields)
    g.mode = mode
    return NS(self=me, origin_coordinate=(cy, cx), max_batch_size=opt_int(ctx, "max_batch_size"), param_values={"mode": mode}, g=g,
              case=f"{g.case},{mode}" + ("" if g.of is not None else ",no-fit"))


def so_requires(s):
    g = s.get("g")
    if g is None or g.weak:  # call sites / the any-shift view: no claim about the VALUES of the shifted patterns, so no value precondition
        r = [("max_batch_size>=1", lift(s.max_batch_size) >= 1)] if s.max_batch_size is not None else []
        return r + forwarded_arguments(s, "shift_origin_to", ["origin_coordinate", "max_batch_size", "mode"])
    r = [("detector-larger-than-one-pixel (H,W>1: the grid normalisation divides by H-1, W-1)", AND(g.H.t >= 2, g.W.t >= 2))]
    if s.max_batch_size is not None:
        r.append(("max_batch_size>=1", lift(s.max_batch_size) >= 1))
    if g.of is not None:
        cy, cx = g.coord
        r.append(("integer-valued (fitted origin - target coordinate) for pattern p*",
                  AND(lift(g.offn(g.ps.t, z3.IntVal(0))) - cy.t == z3.ToReal(g.sy.t), lift(g.offn(g.ps.t, z3.IntVal(1))) - cx.t == z3.ToReal(g.sx.t))))
    return r


def so_rolled(g):
    """in[(y* + s_row) mod H, (x* + s_col) mod W] of pattern p*."""
    H, W = g.H.t, g.W.t
    return lift(pattern_of(g.Tfn, g.lead, g.ps.t)((g.ys.t + g.sy.t) % H, (g.xs.t + g.sx.t) % W))


def so_loop_inv(s):
    g = s.ctx.ghost["c18"]
    B = lift(s.batcher.fields["batch_size"])
    done = zmin(lift(s.k) * B, lift(g.N))
    st = s.shifted_tensor_3d
    out = []
    stored = [g.T, g.of, g.me.fields.get("_origin_measured")]
    if g.weak:
        return [("frame:tensor-and-stored-origins-not-written", unwritten_in_loop(s, "shift", stored))]
    sg = s.get("shifted_grid")
    if sg is not None and s.get("batch_idx") is not None:
        # stepping stones (only after the body has run): facts about the sampling grid of the current batch at p*, (y*, x*)
        kB = z3.simplify(lift(s.k) - 1) * B  # the clauses are evaluated for k+1 after iteration k
        b = g.ps.t - kB
        inb = AND(b >= 0, b < lift(s.batch_idx.sym_len()))
        z0, z1 = z3.IntVal(0), z3.IntVal(1)
        out += [
            ("aux:wrapped-row-coordinate-of-p*-is-(y*+s_row)-mod-H", implies(inb, lift(sg.fn(b, g.ys.t, g.xs.t, z0)) == z3.ToReal((g.ys.t + g.sy.t) % g.H.t))),
            ("aux:wrapped-col-coordinate-of-p*-is-(x*+s_col)-mod-W", implies(inb, lift(sg.fn(b, g.ys.t, g.xs.t, z1)) == z3.ToReal((g.xs.t + g.sx.t) % g.W.t))),
        ]
        gr = s.get("grid")
        if gr is not None:
            # align_corners=True un-normalisation ((g+1)/2)*(size-1) of the normalised grid gives back the wrapped pixel coordinate
            ux = (lift(gr.fn(b, g.ys.t, g.xs.t, z0)) + 1) / 2 * z3.ToReal(g.W.t - 1)
            uy = (lift(gr.fn(b, g.ys.t, g.xs.t, z1)) + 1) / 2 * z3.ToReal(g.H.t - 1)
            out += [
                ("aux:un-normalised-x-of-p*-is-the-wrapped-col-coordinate", implies(inb, ux == z3.ToReal((g.xs.t + g.sx.t) % g.W.t))),
                ("aux:un-normalised-y-of-p*-is-the-wrapped-row-coordinate", implies(inb, uy == z3.ToReal((g.ys.t + g.sy.t) % g.H.t))),
            ]
    out += [
        ("pattern-p*-is-rolled-once-its-batch-is-done", implies(g.ps.t < done, lift(st.fn(g.ps.t, z3.IntVal(0), g.ys.t, g.xs.t)) == so_rolled(g))),
        ("frame:tensor-and-stored-origins-not-written", unwritten_in_loop(s, "shift", stored)),
    ]
    return out


def so_after(s):
    g = s.ctx.ghost["c18"]
    B = lift(s.batcher.fields["batch_size"])
    s.ctx.prove("loop-exit:all-rows-done:min(kB,N)=N", zmin(lift(s.k) * B, lift(g.N)) == lift(g.N), kind="hint")


def so_modifies(ctx, s):
    T = s.self.fields["_tensor"]
    st = ctx.fresh_arr("shifted_tensor", tuple(T.shape), "real")
    st.as_type = torch.Tensor
    s.self.fields["_shifted_tensor"] = st


def so_ensures(s):
    if s.mode == "apply":
        return []
    g = s.g
    f = s.self.fields
    st = f["_shifted_tensor"]
    T = g.T
    shape_ok = isinstance(st, SymArr) and st.ndim == T.ndim and AND(*[lift(a) == lift(b) for a, b in zip(st.shape, T.shape)])
    if g.weak:
        value = []
    else:
        got = lift(pattern_of(st.fn, g.lead, g.ps.t)(g.ys.t, g.xs.t))
        value = [("shifted[p*][y*,x*]=input[p*][(y*+s_row) mod H,(x*+s_col) mod W]  (circular roll, origin -> target coordinate)", got == so_rolled(g))]
    return [
        ("shifted_tensor-has-the-dataset-shape", shape_ok),
        *value,
        ("returns-self", s.result is s.self),
        ("frame:only-_shifted_tensor-changed", set(f) == set(g.fields0) and all(f[k] is g.fields0[k] for k in g.fields0 if k != "_shifted_tensor")),
        ("frame:tensor-and-fitted-origins-not-written", g.T.writes == 0 and g.of.writes == 0 and g.A.writes == 0),
    ] + stored_state_frame(s.self, g, {"_shifted_tensor"})


_KEPT = lambda s: None  # NOT havocked: the invariant clause `frame:...-not-written` says the body leaves it alone (a write fails that clause)
_SO_LOOPS = {0: LoopSpec(inv=so_loop_inv, after=so_after, havoc={
    "shifted_tensor_3d": lambda s: havoc_array(s.ctx, s.shifted_tensor_3d, "shifted_tensor_3d"),
    "origin_fitted": _KEPT, "tensor_3d": _KEPT, "self._origin_fitted": _KEPT, "self._origin_measured": _KEPT, "self._tensor": _KEPT})}


def _so_no_fit(s):
    g = s.get("g")
    return (g.of if g is not None else s.self.fields.get("_origin_fitted")) is None


C_SHIFT = Contract(
    f"{OM}:CenterOfMassOriginModel.shift_origin_to", setup=so_setup, requires=so_requires, ensures=so_ensures,
    raises={ValueError: _so_no_fit}, loops=_SO_LOOPS,
)
C_SHIFT.tag = "roll"
# second view of the same function, used at call sites: ANY real shifts, any detector size - shape, frame, raise condition only
C_SHIFT_ANY = KeepsModeArg(
    f"{OM}:CenterOfMassOriginModel.shift_origin_to", setup=lambda ctx: so_setup(ctx, weak=True), requires=so_requires, ensures=so_ensures,
    raises={ValueError: _so_no_fit}, loops=_SO_LOOPS, modifies=so_modifies, result=lambda ctx, s: s.self,
)
C_SHIFT_ANY.tag = "any-shift"

# ------------------------------------------------------------------------------------------------
# CenterOfMassOriginModel.estimate_detector_rotation / _estimate_detector_rotation:
# they only READ the stored origins.  The property says origin_measured IS the intensity-weighted mean coordinate and that a
# later fit is a fit of THOSE origins - so every workflow step that is not calculate_origin must leave them unwritten
# (reshape / view results alias the stored tensor: a write through them is a write into the stored origins).
# ------------------------------------------------------------------------------------------------


def edh_setup(ctx):
    Rx, Ry, A = ctx.fresh("Rx", "int"), ctx.fresh("Ry", "int"), ctx.fresh("A", "int")
    for d in (Rx, Ry, A):
        ctx.assume(d.t >= 1)
    cn = ctx.fresh_arr("com_normalized", (Rx, Ry, 2), "real")
    ang = ctx.fresh_arr("rotation_angles_rad", (A, 1, 1), "real")
    cn.as_type = ang.as_type = torch.Tensor
    return NS(com_normalized=cn, rotation_angles_rad=ang)


def _edh_count(s):
    a = s.rotation_angles_rad
    return a.shape[0]


def edh_ensures(s):
    r = s.result
    return [("one-curl-value-per-angle", isinstance(r, SymArr) and r.ndim == 1 and lift(r.shape[0]) == lift(_edh_count(s)))] + \
        frame_clauses(s, s.old.frame, {"com_normalized": "normalised-origins", "rotation_angles_rad": "angles"})


def edh_result(ctx, s):
    r = ctx.fresh_arr("rotation_curl", (_edh_count(s),), "real")
    r.as_type = torch.Tensor
    return r


C_EDR_HELPER = Contract(f"{OM}:CenterOfMassOriginModel._estimate_detector_rotation", setup=edh_setup, ensures=edh_ensures, result=edh_result,
                        snapshot=lambda s: NS(frame=frame_snapshot(s, ["com_normalized", "rotation_angles_rad"])))


def ed_setup(ctx):
    me, g = com_model(ctx, measured=True, fitted=True)
    ang = None
    if ctx.branch(ctx.fresh("rotation_angles_given", "bool").t):
        A = ctx.fresh("A", "int")
        ctx.assume(A.t >= 1)
        ang = ctx.fresh_arr("rotation_angles_deg", (A,), "real")
        ang.as_type = torch.Tensor
    add_stale_state(ctx, me, g, ["_shifted_tensor", "_detector_transpose", "_detector_rotation_deg"])
    return NS(self=me, rotation_angles_deg=ang, g=g, case=g.case + (",angles" if ang is not None else ",default-angles"))


def ed_requires(s):
    # reshape((Rx, Ry, 2)) of the (num_dps, 2) origins: the scan must be the two leading axes of a 4-D dataset
    g = s.get("g") or model_view(s.self)
    return [("4-D-dataset", len(g.lead) == 2), ("measured-and-fitted-origins-are-set", g.om is not None and g.of is not None)] + \
        forwarded_arguments(s, "estimate_detector_rotation", ["rotation_angles_deg"])


def ed_ensures(s):
    if s.mode == "apply":
        return []
    g = s.g
    f = s.self.fields
    tr, rot = f.get("_detector_transpose"), f.get("_detector_rotation_deg")
    out = [
        ("returns-self", s.result is s.self),
        ("sets-a-boolean-transpose-flag-and-a-real-rotation-angle", isinstance(tr, bool) and (isinstance(rot, Sym) and rot.is_real or isinstance(rot, float))),
        ("origin_measured-still-holds-the-measured-origins (same tensor, unwritten)",
         f["_origin_measured"] is g.om and g.om.writes == 0 and g.om.fn is g.omfn),
        ("origin_fitted-still-holds-the-fitted-origins (same tensor, unwritten)",
         f["_origin_fitted"] is g.of and g.of.writes == 0 and g.of.fn is g.offn),
        ("frame:tensor-and-dataset-not-written", g.T.writes == 0 and g.A.writes == 0),
    ] + stored_state_frame(s.self, g, {"_detector_transpose", "_detector_rotation_deg"})
    if s.rotation_angles_deg is not None:
        out += frame_clauses(s, s.old.frame, {"rotation_angles_deg": "rotation-angles"})
    return out


def ed_modifies(ctx, s):
    s.self.fields["_detector_transpose"] = bool(ctx.branch(ctx.fresh("detector_transpose", "bool").t))
    s.self.fields["_detector_rotation_deg"] = ctx.fresh("detector_rotation_deg", "real")


C_EDR = Contract(f"{OM}:CenterOfMassOriginModel.estimate_detector_rotation", setup=ed_setup, requires=ed_requires, ensures=ed_ensures,
                 modifies=ed_modifies, result=lambda ctx, s: s.self,
                 snapshot=lambda s: NS(frame=frame_snapshot(s, ["rotation_angles_deg"])))

# ------------------------------------------------------------------------------------------------
# CenterOfMassOriginModel.forward : the whole workflow on one object (the four steps are used THROUGH THEIR CONTRACTS).
# Whatever optional steps run after calculate_origin, the stored measured origins are the property's CoM array.
# ------------------------------------------------------------------------------------------------


def fw_setup(ctx):
    # first decision of the setup, defaults first (paths are explored depth-first, so the default-argument paths come first)
    defaults = ctx.branch(ctx.fresh("optional_arguments_left_at_their_defaults", "bool").t)
    me, g = com_model(ctx)
    flags = {}
    for n in ("fit_origin_bkg", "estimate_detector_orientation", "shift_to_origin"):
        flags[n] = bool(ctx.branch(ctx.fresh(n, "bool").t))
    fm = "constant" if ctx.branch(ctx.fresh("fit_method_is_constant", "bool").t) else "plane"
    add_stale_state(ctx, me, g, ["_origin_measured", "_origin_fitted", "_shifted_tensor", "_detector_transpose", "_detector_rotation_deg"])
    g.flags, g.fm = flags, fm
    cy, cx = ctx.fresh("coord_row", "real"), ctx.fresh("coord_col", "real")
    on = "".join(k[0] for k, v in flags.items() if v) or "-"
    pp = ang = None
    mode = "bilinear"
    if not defaults:
        # the caller's own probe positions (any real (num_dps, 2) array - e.g. a rotated, sheared or serpentine scan), angles and mode
        pp = ctx.fresh_arr("probe_positions", (g.N, 2), "real")
        A = ctx.fresh("A", "int")
        ctx.assume(A.t >= 1)
        ang = ctx.fresh_arr("rotation_angles_deg", (A,), "real")
        pp.as_type = ang.as_type = torch.Tensor
        mode = "nearest"
        g.case += ",explicit-args"
    mb = opt_int(ctx, "max_batch_size")
    g.pp, g.ang = pp, ang
    # announced to the steps' call-site preconditions (forwarded_arguments)
    ctx.ghost["c18_expect"] = dict(max_batch_size=mb, probe_positions=pp, fit_method=fm, rotation_angles_deg=ang, origin_coordinate=(cy, cx), mode=mode)
    return NS(self=me, max_batch_size=mb, probe_positions=pp, fit_method=fm, rotation_angles_deg=ang,
              origin_coordinate=(cy, cx), g=g, case=f"{g.case},{fm},steps:{on}",
              param_values=dict(mode=mode, **flags))


def fw_requires(s):
    r = [("4-D-dataset (scan positions inferred from the two leading axes)", len(s.g.lead) == 2)]
    if s.max_batch_size is not None:
        r.append(("max_batch_size>=1", lift(s.max_batch_size) >= 1))
    return r


def fw_ensures(s):
    g = s.g
    f = s.self.fields
    om = f["_origin_measured"]
    N = lift(g.N)
    p, c = I("p"), I("c")
    sr, sc = co_spec(g, p)
    inr = AND(p >= 0, p < N)
    fl = g.flags
    out = [
        ("returns-self", s.result is s.self),
        ("origin_measured-shape=(num_dps,2)", isinstance(om, SymArr) and om.ndim == 2 and AND(lift(om.shape[0]) == N, lift(om.shape[1]) == 2)),
        ("after-the-whole-workflow:origin_measured[p,0]=sum(I*row)/sum(I)", forall(p, implies(inr, lift(om.fn(p, z3.IntVal(0))) == sr))),
        ("after-the-whole-workflow:origin_measured[p,1]=sum(I*col)/sum(I)", forall(p, implies(inr, lift(om.fn(p, z3.IntVal(1))) == sc))),
        ("frame:tensor-and-dataset-not-written", g.T.writes == 0 and g.A.writes == 0 and f["_tensor"] is g.T and f["_dataset"] is g.ds),
    ]
    steps = ["calculate_origin"]
    if fl["fit_origin_bkg"]:
        steps.append("fit_origin_background")
        if fl["estimate_detector_orientation"]:
            steps.append("estimate_detector_rotation")
        if fl["shift_to_origin"]:
            steps.append("shift_origin_to")
    out.append(("runs-exactly-the-requested-steps-in-workflow-order (each with the caller's arguments, see the call-site preconditions)",
                s.ctx.ghost.get("c18_steps_called", []) == steps))
    out.append(("frame:the-caller's-probe-positions-and-angles-are-not-written",
                (g.pp is None or g.pp.writes == 0) and (g.ang is None or g.ang.writes == 0)))
    changed = {"_origin_measured"}
    if fl["fit_origin_bkg"]:
        changed.add("_origin_fitted")
        of = f["_origin_fitted"]
        out.append(("origin_fitted-shape=(num_dps,2)", isinstance(of, SymArr) and of.ndim == 2 and AND(lift(of.shape[0]) == N, lift(of.shape[1]) == 2)))
        if g.fm == "constant":
            mean = lm.reduce_mean(com_array(g), 0)
            out.append(("constant-fit=mean-of-the-CoM-origins (not of anything a later step left behind)",
                        forall([p, c], implies(AND(inr, c >= 0, c < 2), lift(of.fn(p, c)) == lift(mean.fn(c))))))
        if fl["estimate_detector_orientation"]:
            changed |= {"_detector_transpose", "_detector_rotation_deg"}
        if fl["shift_to_origin"]:
            changed.add("_shifted_tensor")
    return out + stored_state_frame(s.self, g, changed)


C_FORWARD = Contract(f"{OM}:CenterOfMassOriginModel.forward", setup=fw_setup, requires=fw_requires, ensures=fw_ensures)

CONTRACTS = [C_VALIDATE_TENSOR, C_VALIDATE_ARRAY, C_SB_INIT, C_SB_ITER, C_SET_MEASURED, C_SET_FITTED, C_CALC, C_FITBG, C_SHIFT, C_SHIFT_ANY, C_EDR_HELPER, C_EDR, C_FORWARD, C_GETCOM, C_FITORIGIN, C_SIC_VEC, C_SIC_LOOP]

# ------------------------------------------------------------------------------------------------
# property-level lemmas (from the contract statements alone)
# ------------------------------------------------------------------------------------------------


def _D():
    return z3.Function("D", z3.IntSort(), z3.IntSort(), z3.IntSort(), z3.IntSort(), z3.RealSort())


def lemma_paths_agree(ctx):
    """vectorised == looped, and origin model == dataset model, for the same 4-D data D (no mask):
    the posts of calculate_origin and of both views of _set_intensities_com name the SAME term for pattern (r, c)."""
    D = _D()
    Rx, Ry, H, W, r, c, p = I("Rx"), I("Ry"), I("H"), I("W"), I("r"), I("c"), I("p")
    Dfn = lambda a, b, i, j: Sym(D(a, b, i, j))
    vec_r, vec_c, loop_r, loop_c, om0, om1 = Rl("vec_r"), Rl("vec_c"), Rl("loop_r"), Rl("loop_c"), Rl("om0"), Rl("om1")
    dims = [Rx >= 1, Ry >= 1, H >= 1, W >= 1, r >= 0, r < Rx, c >= 0, c < Ry]
    g = NS(Ifn=Dfn, Mfn=None, Qr=Sym(H), Qc=Sym(W))
    sr, sc = sic_spec(g, r, c)                       # post of _set_intensities_com at scan position (r, c)
    pr, pc = com_spec(pattern_of(Dfn, (Sym(Rx), Sym(Ry)), p), Sym(H), Sym(W))  # post of calculate_origin at pattern p
    return [
        ("vectorised=looped", dims + [vec_r == sr, vec_c == sc, loop_r == sr, loop_c == sc], AND(vec_r == loop_r, vec_c == loop_c)),
        ("row-major-pattern-number", dims + [p == r * Ry + c], AND(p >= 0, p < Rx * Ry, p / Ry == r, p % Ry == c)),
        ("origin-model=dataset-model", dims + [p == r * Ry + c, p / Ry == r, p % Ry == c, om0 == pr, om1 == pc, vec_r == sr, vec_c == sc], AND(om0 == vec_r, om1 == vec_c)),
    ]


def lemma_batch_independence(ctx):
    """calculate_origin's post does not mention the batch size: two runs with batch sizes B1, B2 agree on every pattern."""
    D = _D()
    H, W, p, Ry = I("H"), I("W"), I("p"), I("Ry")
    Dfn = lambda a, b, i, j: Sym(D(a, b, i, j))
    pr, pc = com_spec(pattern_of(Dfn, (Sym(I("Rx")), Sym(Ry)), p), Sym(H), Sym(W))
    a0, a1, b0, b1 = Rl("runB1_row"), Rl("runB1_col"), Rl("runB2_row"), Rl("runB2_col")
    return [("same-origin-for-every-batch-size", [a0 == pr, a1 == pc, b0 == pr, b1 == pc], AND(a0 == b0, a1 == b1))]


def lemma_roll(ctx):
    """The post of shift_origin_to is torch.roll by (-s_row, -s_col) (trusted roll model), and it moves the pixel at the
    fitted origin to the target coordinate (0, 0)."""
    H, W, y, x, sy, sx = I("H"), I("W"), I("y"), I("x"), I("s_row"), I("s_col")
    inp = z3.Function("inp", z3.IntSort(), z3.IntSort(), z3.RealSort())
    out = z3.Function("out", z3.IntSort(), z3.IntSort(), z3.RealSort())
    src = SymArr((Sym(H), Sym(W)), lambda i, j: Sym(inp(i, j)), "real")
    reg = make_registry()
    rolled = reg.models[torch.roll](None, src, (Sym(-sy), Sym(-sx)), (0, 1))
    dims = [H >= 2, W >= 2, y >= 0, y < H, x >= 0, x < W]
    post = out(y, x) == inp((y + sy) % H, (x + sx) % W)
    post00 = out(0, 0) == inp((0 + sy) % H, (0 + sx) % W)
    return [
        ("post=torch.roll(input,(-s_row,-s_col))", dims + [post], out(y, x) == lift(rolled.fn(y, x))),
        ("origin-pixel-lands-on-the-corner", dims + [post00, sy >= 0, sy < H, sx >= 0, sx < W], out(0, 0) == inp(sy, sx)),
        ("wrapped-index-in-range", dims, AND((y + sy) % H >= 0, (y + sy) % H < H, (x + sx) % W >= 0, (x + sx) % W < W)),
    ]


LEMMAS = [
    Lemma("paths-and-models-agree", lemma_paths_agree, uses=["_set_intensities_com", "calculate_origin"]),
    Lemma("batch-size-independence", lemma_batch_independence, uses=["calculate_origin"]),
    Lemma("integer-shift-is-circular-roll", lemma_roll, uses=["shift_origin_to"]),
]

# ------------------------------------------------------------------------------------------------
# run-time oracles: the same statements evaluated on the REAL functions (replay of counter-models, bounded stand-ins)
# ------------------------------------------------------------------------------------------------


def _com64(a):
    a = np.asarray(a, dtype=np.float64)
    H, W = a.shape[-2:]
    i, j = np.meshgrid(np.arange(H), np.arange(W), indexing="ij")
    s = a.sum((-2, -1))
    return (a * i).sum((-2, -1)) / s, (a * j).sum((-2, -1)) / s


def _data(shape, seed):
    """positive, asymmetric patterns (a bright blob at a pattern-dependent off-centre position on a positive background)"""
    rng = np.random.default_rng(seed)
    H, W = shape[-2:]
    lead = shape[:-2]
    i, j = np.meshgrid(np.arange(H), np.arange(W), indexing="ij")
    out = np.empty(shape, dtype=np.float64)
    for idx in np.ndindex(*lead):
        ci, cj = rng.uniform(0, H - 1), rng.uniform(0, W - 1)
        out[idx] = 0.05 + rng.uniform(0.5, 2.0) * np.exp(-((i - ci) ** 2 / (0.6 + 0.1 * H) + (j - cj) ** 2 / (0.9 + 0.05 * W))) + 0.02 * rng.random((H, W))
    return out


def _dataset(arr):
    from quantem.core.datastructures import Dataset3d, Dataset4dstem

    arr = np.asarray(arr, dtype=np.float32)
    return (Dataset4dstem if arr.ndim == 4 else Dataset3d).from_array(arr)


def _origin_model(arr):
    from quantem.diffractive_imaging.origin_models import CenterOfMassOriginModel

    if torch.get_num_threads() != 1:
        torch.set_num_threads(1)  # tiny tensors: intra-op threads only cost (and the machine is shared)

    return CenterOfMassOriginModel.from_dataset(_dataset(arr), device="cpu")


def _res(problems, expected):
    return dict(violated=bool(problems), observed="; ".join(problems[:3]) or "ok", expected=expected)


def _guard(f):
    def run(inp):
        import warnings

        try:
            with warnings.catch_warnings():
                warnings.simplefilter("ignore")
                return f(inp)
        except Exception as e:  # an exception on an in-domain input is itself a violation of the statement
            k = f"{len(inp['shape'])}-D input: raises {type(e).__name__}" if f.__name__ == "rt_getcom" else f"raises {type(e).__name__}"
            return dict(violated=True, observed=f"raised {type(e).__name__}: {str(e)[:160]}", expected="no exception on in-domain input", klass=k)
    run.__name__ = f.__name__
    return run


@_guard
def rt_calc(inp):
    shape = tuple(inp["shape"])
    arr = _data(shape, inp["seed"]).astype(np.float32)
    m = _origin_model(arr)
    before = m.tensor.clone()
    ret = m.calculate_origin(max_batch_size=inp.get("max_batch_size"))
    got = m.origin_measured.numpy().astype(np.float64)
    er, ec = _com64(arr.reshape((-1,) + shape[-2:]))
    problems = []
    if ret is not m:
        problems.append("does not return self")
    if got.shape != (er.size, 2):
        problems.append(f"origin_measured shape {got.shape} != ({er.size}, 2)")
    else:
        d = max(np.abs(got[:, 0] - er).max(), np.abs(got[:, 1] - ec).max())
        if not d <= 2e-3:
            k = int(np.argmax(np.abs(got[:, 0] - er) + np.abs(got[:, 1] - ec)))
            problems.append(f"pattern {k}: origin_measured={got[k].tolist()} but (sum I*row/sum I, sum I*col/sum I)=({er[k]:.4f}, {ec[k]:.4f})")
    if not bool((m.tensor == before).all()):
        problems.append("input tensor was modified")
    return _res(problems, "origin_measured[p] = (sum I*row / sum I, sum I*col / sum I) for every pattern and every batch size; input untouched")


def fam_calc(tier="quick", seed=0):
    shapes = [(2, 3, 4, 5), (3, 2, 5, 3), (1, 4, 3, 6), (5, 3, 4), (7, 2, 3)] + ([(4, 5, 7, 6), (6, 8, 5)] if tier == "thorough" else [])
    for sh in shapes:
        n = int(np.prod(sh[:-2]))
        for b in [None] + sorted({1, 2, 3, n - 1, n, n + 2} - {0}):
            yield dict(shape=list(sh), max_batch_size=b, seed=seed + n)


def _raster(gpts, roi):
    """A PtychographyDatasetRaster shell with just the state `_set_intensities_com` reads (no preprocessing is run)."""
    from types import SimpleNamespace
    from quantem.diffractive_imaging.dataset_models import PtychographyDatasetRaster

    o = PtychographyDatasetRaster.__new__(PtychographyDatasetRaster)
    torch.nn.Module.__init__(o)
    o._verbose = 0
    o._gpts = np.array(gpts)
    o._dset = SimpleNamespace(shape=(int(np.prod(gpts)),) + tuple(roi))
    return o


def _mask(kind, H, W, seed):
    if kind in ("none", "wrong-shape"):
        return None
    rng = np.random.default_rng(seed + 5)
    if kind == "ones":
        return np.ones((H, W), dtype=np.float32)
    if kind == "half":
        m = np.ones((H, W), dtype=np.float32)
        m[:, W // 2:] = 0.0
        m[0, 0] = 1.0
        return m
    return (0.25 + rng.random((H, W))).astype(np.float32)


@_guard
def rt_sic(inp):
    shape = tuple(inp["shape"])
    Rr, Rc, Qr, Qc = shape
    arr = _data(shape, inp["seed"]).astype(np.float32)
    mask = _mask(inp["mask"], Qr, Qc, inp["seed"])
    fit = inp["fit_function"]
    o = _raster((Rr, Rc), (Qr, Qc))
    a_in, m_in = arr.copy(), None if mask is None else mask.copy()
    if inp["mask"] == "wrong-shape":
        m_in = np.ones((Qr, 1), dtype=np.float32)  # would broadcast silently if the shape test were weakened
        try:
            o._set_intensities_com(a_in, dp_mask=m_in, fit_function=fit, vectorized_calculation=inp["vectorized"])
        except ValueError:
            return _res([] if np.array_equal(a_in, arr) else ["intensities modified before the ValueError"], "ValueError for a mask whose shape is not the detector shape")
        r = _res([f"mask of shape {(Qr, 1)} accepted for detector shape {(Qr, Qc)}"], "ValueError for a mask whose shape is not the detector shape")
        r["klass"] = "wrong-mask-shape-accepted"
        return r
    o._set_intensities_com(a_in, dp_mask=m_in, fit_function=fit, vectorized_calculation=inp["vectorized"])
    eff = arr.astype(np.float64) * (1.0 if mask is None else mask.astype(np.float64))
    er, ec = _com64(eff)
    cm, cf = np.asarray(o.com_measured, dtype=np.float64), np.asarray(o.com_fit, dtype=np.float64)
    problems = []
    if cm.shape != (2, Rr, Rc):
        problems.append(f"com_measured shape {cm.shape}")
    else:
        d0, d1 = np.abs(cm[0] - er).max(), np.abs(cm[1] - ec).max()
        if not (d0 <= 2e-3 and d1 <= 2e-3):
            k = np.unravel_index(int(np.argmax(np.abs(cm[0] - er) + np.abs(cm[1] - ec))), (Rr, Rc))
            problems.append(f"scan position {tuple(int(v) for v in k)}: com_measured=({cm[0][k]:.4f}, {cm[1][k]:.4f}) but (sum I*row/sum I, sum I*col/sum I)=({er[k]:.4f}, {ec[k]:.4f})")
    if not np.array_equal(a_in, arr):
        problems.append(f"caller's intensities array was modified in place (max change {np.abs(a_in - arr).max():.3g})")
    if mask is not None and not np.array_equal(m_in, mask):
        problems.append("caller's mask was modified in place")
    if cm.shape == (2, Rr, Rc) and cf.shape == (2, Rr, Rc):
        if fit == "none" and not np.allclose(cf, cm):
            problems.append("fit_function='none': com_fit != com_measured")
        if fit == "no_shift" and not (np.allclose(cf[0], Qr / 2) and np.allclose(cf[1], Qc / 2)):
            problems.append("fit_function='no_shift': com_fit != detector centre")
        if fit == "constant" and not (np.allclose(cf[0], cm[0].mean(), atol=1e-4) and np.allclose(cf[1], cm[1].mean(), atol=1e-4)):
            problems.append("fit_function='constant': com_fit != mean of com_measured")
    elif cf.shape != (2, Rr, Rc):
        problems.append(f"com_fit shape {cf.shape}")
    res = _res(problems, "com_measured = (sum I*row/sum I, sum I*col/sum I) of the masked pattern on both code paths; caller's arrays untouched; com_fit per fit_function")
    # failure class (for narrow known-finding matching): what exactly is wrong
    flags = []
    if cm.shape == (2, Rr, Rc) and not (np.abs(cm[0] - er).max() <= 2e-3 and np.abs(cm[1] - ec).max() <= 2e-3):
        swapped = np.abs(cm[0] - ec).max() <= 2e-3 and np.abs(cm[1] - er).max() <= 2e-3
        flags.append("row-col-swapped" if swapped else "wrong-com")
    if not np.array_equal(a_in, arr):
        only_mask = mask is not None and np.allclose(a_in, arr * mask)
        flags.append("intensities-multiplied-by-mask-in-place" if only_mask else "intensities-modified")
    if len(flags) < len(problems):
        flags.append("other")
    res["klass"] = "+".join(flags) or "none"
    return res


def fam_sic(vectorized):
    def fam(tier="quick", seed=0):
        shapes = [(2, 3, 4, 6), (3, 2, 5, 4), (1, 1, 3, 5)] + ([(4, 3, 7, 5)] if tier == "thorough" else [])
        for sh in shapes:
            for mask in ("none", "ones", "half", "random"):
                for fit in ("none", "no_shift", "constant", "plane"):
                    if fit == "plane" and sh[0] * sh[1] < 4:
                        continue
                    yield dict(shape=list(sh), mask=mask, fit_function=fit, vectorized=vectorized, seed=seed + sh[2])
        yield dict(shape=[2, 2, 3, 4], mask="wrong-shape", fit_function="none", vectorized=vectorized, seed=seed)
    return fam


@_guard
def rt_getcom(inp):
    from quantem.diffractive_imaging.ptycho_utils import get_com_2d

    shape = tuple(inp["shape"])
    arr = _data(shape, inp["seed"])
    x = torch.tensor(arr) if inp["lib"] == "torch" else arr.copy()
    got = get_com_2d(x)
    got = np.asarray(got.numpy() if inp["lib"] == "torch" else got, dtype=np.float64)
    er, ec = _com64(arr)
    exp = np.stack([er, ec], -1)
    problems = []
    if got.shape != exp.shape:
        problems.append(f"result shape {got.shape} != {exp.shape}")
    elif not np.abs(got - exp).max() <= 1e-6:
        problems.append(f"max |com - (sum I*row/sum I, sum I*col/sum I)| = {np.abs(got - exp).max():.4f}")
    if inp["lib"] == "numpy" and not np.array_equal(x, arr):
        problems.append("input modified")
    res = _res(problems, "com[..., 0] = sum I*row / sum I, com[..., 1] = sum I*col / sum I along the last two axes")
    res["klass"] = f"{len(shape)}-D input: " + ("wrong values" if problems else "ok")
    return res


def fam_getcom(tier="quick", seed=0):
    for lib in ("numpy", "torch"):
        for sh in [(1, 3, 4), (2, 5, 3), (6, 4, 7), (3, 2, 2)]:
            yield dict(shape=list(sh), lib=lib, seed=seed + sh[0])


def fam_getcom_ranks(tier="quick", seed=0):
    for lib in ("numpy", "torch"):
        for sh in [(3, 4), (3, 2, 3, 4), (2, 5, 3, 4), (2, 1, 3, 4), (4, 2, 5, 3)]:
            yield dict(shape=list(sh), lib=lib, seed=seed + len(sh))


def _surface(kind, shape, seed):
    rng = np.random.default_rng(seed)
    r, c = np.indices(shape).astype(np.float64)
    if kind == "constant":
        return np.full(shape, rng.uniform(2, 9)), np.full(shape, rng.uniform(2, 9))
    if kind == "plane":
        f = lambda: rng.uniform(-0.4, 0.4) * r + rng.uniform(-0.4, 0.4) * c + rng.uniform(3, 8)
        return f(), f()
    f = lambda: (rng.uniform(3, 8) + rng.uniform(-0.3, 0.3) * r + rng.uniform(-0.3, 0.3) * c + rng.uniform(-0.05, 0.05) * r * r
                 + rng.uniform(-0.05, 0.05) * c * c + rng.uniform(-0.05, 0.05) * r * c)
    return f(), f()


@_guard
def rt_fit_origin(inp):
    from quantem.diffractive_imaging.ptycho_utils import fit_origin

    shape = tuple(inp["shape"])
    pr, pc = _surface(inp["surface"], shape, inp["seed"])
    mk = inp["mask"]
    rng = np.random.default_rng(inp["seed"] + 3)
    mask = None if mk == "none" else np.ones(shape, bool) if mk == "all" else (rng.random(shape) > 0.25)
    if mask is not None and mk == "partial":
        mask.flat[0] = False
        mask.flat[1:8] = True
    a, b = pr.copy(), pc.copy()
    fr, fc, rr, rc = fit_origin((a, b), mask=None if mask is None else mask.copy(), fit_function=inp["fit_function"])
    problems = []
    tol = 1e-6
    if np.shape(fr) != shape or np.shape(fc) != shape:
        problems.append(f"fit shapes {np.shape(fr)}, {np.shape(fc)} != {shape}")
    else:
        d = max(np.abs(fr - pr).max(), np.abs(fc - pc).max())
        if not d <= tol:
            problems.append(f"fit deviates from the exact {inp['surface']} surface by {d:.3g}")
        if not (np.abs(rr).max() <= tol and np.abs(rc).max() <= tol):
            problems.append(f"residuals not zero ({max(np.abs(rr).max(), np.abs(rc).max()):.3g})")
    if not (np.array_equal(a, pr) and np.array_equal(b, pc)):
        problems.append("input data modified")
    return _res(problems, "fitting a surface of the fitted family to origins lying exactly on it returns that surface (zero residual)")


def _fit_class(inp, res):
    if inp["mask"] == "none" and inp["fit_function"] != "constant":
        return "mask=None"
    if inp["mask"] == "partial" and inp["fit_function"] != "constant":
        return "mask-with-excluded-positions"
    return "other"


def fam_fit_origin(tier="quick", seed=0):
    for sh in [(4, 5), (6, 3)] + ([(7, 8)] if tier == "thorough" else []):
        for mask in ("all", "none", "partial"):
            for surf, ff in (("constant", "constant"), ("constant", "plane"), ("plane", "plane"), ("plane", "parabola"), ("parabola", "parabola")):
                yield dict(shape=list(sh), surface=surf, fit_function=ff, mask=mask, seed=seed + sh[0])


def fam_fit_origin_constant():
    for sh in [(1, 1), (4, 5), (6, 3)]:
        for mask in ("all", "none", "partial"):
            yield dict(shape=list(sh), surface="constant", fit_function="constant", mask=mask, seed=sh[0])


POSITION_KINDS = ("raster", "scaled-offset", "rotated-sheared", "serpentine", "irregular")


def _positions(kind, Rx, Ry, seed):
    """Explicit probe positions (num_dps, 2) for an Rx x Ry scan: the plain raster, an affine copy of it, a rotated AND sheared
    (correlated coordinates) copy, a serpentine / boustrophedon order (not an affine function of the scan indices) and a
    jittered irregular scan."""
    rng = np.random.default_rng(seed + 23)
    r, c = np.indices((Rx, Ry)).astype(np.float64)
    if kind == "serpentine":
        c = np.where(r % 2 == 1, Ry - 1 - c, c)
    P = np.stack([r.ravel(), c.ravel()], -1)
    if kind == "scaled-offset":
        P = P * np.array([0.7, 1.3]) + np.array([2.0, -1.0])
    elif kind == "rotated-sheared":
        t = 0.45
        R = np.array([[np.cos(t), -np.sin(t)], [np.sin(t), np.cos(t)]])
        P = (P * np.array([1.0, 0.8])) @ R.T @ np.array([[1.0, 0.6], [0.0, 1.0]])
    elif kind == "irregular":
        P = P + rng.uniform(-0.4, 0.4, size=P.shape) + 0.3 * P[:, ::-1]
    return P


def _plane_over(P, seed, lo=3.0, hi=6.0):
    """(row, col) origins lying EXACTLY on two planes over the positions P."""
    rng = np.random.default_rng(seed + 31)
    out = []
    for _ in range(2):
        a, b = rng.uniform(-0.35, 0.35, size=2)
        z = a * P[:, 0] + b * P[:, 1]
        out.append(z - z.min() + rng.uniform(lo, hi) * 0 + lo + rng.uniform(0, 0.5))
    return np.stack(out, -1)


@_guard
def rt_fit_background(inp):
    shape = tuple(inp["shape"])
    arr = _data(shape, inp["seed"]).astype(np.float32)
    m = _origin_model(arr)
    pr, pc = _surface(inp["surface"], shape[:2], inp["seed"])
    meas = torch.tensor(np.stack([pr.ravel(), pc.ravel()], -1), dtype=torch.float32)
    m.origin_measured = meas
    pos = None
    if isinstance(inp.get("positions"), str):  # explicit positions of the given kind; the measured origins are planes over THEM
        P = _positions(inp["positions"], shape[0], shape[1], inp["seed"])
        pos = torch.tensor(P, dtype=torch.float32)
        if inp["surface"] == "plane":
            meas = torch.tensor(_plane_over(P, inp["seed"]), dtype=torch.float32)
            m.origin_measured = meas
    elif inp.get("positions"):
        r, c = np.indices(shape[:2])
        pos = torch.tensor(np.stack([r.ravel(), c.ravel()], -1), dtype=torch.float32)
    if inp.get("expect"):
        if inp["expect"] == "ValueError:positions":
            pos = torch.zeros((meas.shape[0] + 1, 2))
        exp_exc = ValueError if inp["expect"].startswith("ValueError") else NotImplementedError
        try:
            m.fit_origin_background(probe_positions=pos, fit_method=inp["fit_method"])
        except exp_exc:
            return _res([] if m.origin_fitted is None else ["origin_fitted set although the call raised"], f"{exp_exc.__name__} and no state change")
        return _res([f"no {exp_exc.__name__} for {inp['expect']}"], f"{exp_exc.__name__}")
    ret = m.fit_origin_background(probe_positions=pos, fit_method=inp["fit_method"])
    got = m.origin_fitted.numpy().astype(np.float64)
    exp = meas.numpy().astype(np.float64)
    what = f"the exact {inp['surface']} surface"
    if inp["fit_method"] == "constant" and inp["surface"] != "constant":
        exp = np.broadcast_to(exp.mean(0), exp.shape)  # whole-view statement of the constant fit: every row = mean of the measured origins
        what = "the mean of the measured origins"
    problems = []
    if ret is not m:
        problems.append("does not return self")
    if got.shape != exp.shape:
        problems.append(f"origin_fitted shape {got.shape} != {exp.shape}")
    elif not np.abs(got - exp).max() <= 2e-3:
        problems.append(f"fit deviates from {what} by {np.abs(got - exp).max():.3g}")
    if not torch.equal(m.origin_measured, meas):
        problems.append("measured origins modified")
    r = _res(problems, "fitting a plane / constant to origins lying exactly on such a surface (over the GIVEN probe positions) returns that surface")
    r["klass"] = ("none" if not problems else f"{inp['fit_method']}-fit-over-{inp['positions'] if isinstance(inp.get('positions'), str) else 'raster'}-positions")
    return r


def fam_fit_background(tier="quick", seed=0):
    for sh in [(3, 4, 2, 2), (5, 2, 3, 2), (4, 4, 2, 3)]:
        for positions in (False, True):
            for surf, fm in (("constant", "constant"), ("plane", "plane"), ("constant", "plane"), ("plane", "constant")):
                yield dict(shape=list(sh), surface=surf, fit_method=fm, positions=positions, seed=seed + sh[0] + (7 if surf == "constant" else 0))
    for sh in [(5, 7, 2, 2), (4, 3, 2, 3)] + ([(6, 9, 2, 2)] if tier == "thorough" else []):
        for kind in POSITION_KINDS:
            for surf, fm in (("plane", "plane"), ("constant", "plane"), ("plane", "constant")):
                yield dict(shape=list(sh), surface=surf, fit_method=fm, positions=kind, seed=seed + sh[1])
    yield dict(shape=[3, 4, 2, 2], surface="constant", fit_method="constant", positions=True, expect="ValueError:positions", seed=seed)
    yield dict(shape=[3, 4, 2, 2], surface="constant", fit_method="parabola", positions=False, expect="NotImplementedError", seed=seed)


def _planar_com_data(shape, origins):
    """Patterns whose intensity-weighted mean coordinate is EXACTLY origins[p]: the four pixels around it with bilinear weights."""
    Rx, Ry, H, W = shape
    arr = np.zeros((Rx * Ry, H, W), dtype=np.float64)
    for p, (r, c) in enumerate(origins):
        i0, j0 = int(np.floor(r)), int(np.floor(c))
        fr, fc = r - i0, c - j0
        for di, wi in ((0, 1 - fr), (1, fr)):
            for dj, wj in ((0, 1 - fc), (1, fc)):
                arr[p, i0 + di, j0 + dj] += 100.0 * wi * wj
    return arr.reshape(shape)


@_guard
def rt_forward_positions(inp):
    """Sibling entry points: forward(...) == calculate_origin(); fit_origin_background(); [estimate]; shift_origin_to() with the SAME
    arguments - in particular with the caller's explicit probe positions, over which the measured origins are exact planes."""
    shape = tuple(inp["shape"])
    Rx, Ry, H, W = shape
    P = _positions(inp["positions"], Rx, Ry, inp["seed"])
    origins = _plane_over(P, inp["seed"], lo=1.2)
    if origins.max() > min(H, W) - 2.2:
        origins = 1.2 + (origins - origins.min()) * (min(H, W) - 3.6) / max(origins.max() - origins.min(), 1e-9)
    arr = _planar_com_data(shape, origins).astype(np.float32)
    pos = None if inp["positions"] == "inferred" else torch.tensor(P, dtype=torch.float32)
    kw = dict(max_batch_size=inp.get("max_batch_size"), fit_method=inp["fit_method"], estimate_detector_orientation=inp.get("estimate", True))
    one = _origin_model(arr)
    one.forward(probe_positions=pos, origin_coordinate=tuple(inp.get("coordinate", (0, 0))), mode=inp.get("mode", "bilinear"), **kw)
    two = _origin_model(arr)
    two.calculate_origin(max_batch_size=kw["max_batch_size"])
    two.fit_origin_background(probe_positions=pos, fit_method=inp["fit_method"])
    if kw["estimate_detector_orientation"]:
        two.estimate_detector_rotation()
    two.shift_origin_to(origin_coordinate=tuple(inp.get("coordinate", (0, 0))), max_batch_size=kw["max_batch_size"], mode=inp.get("mode", "bilinear"))
    problems, flags = [], []
    f1, f2 = one.origin_fitted.numpy().astype(np.float64), two.origin_fitted.numpy().astype(np.float64)
    if not np.abs(f1 - f2).max() <= 1e-4:
        problems.append(f"forward(): origin_fitted differs from the step-by-step call with the same arguments by {np.abs(f1 - f2).max():.3g}")
        flags.append("forward-disagrees-with-the-steps")
    if inp["fit_method"] == "plane" and inp["positions"] != "inferred":
        for nm, f in (("forward", f1), ("fit_origin_background", f2)):
            d = np.abs(f - origins).max()
            if not d <= 5e-3:
                problems.append(f"{nm}: fitted plane deviates by {d:.3g} from the plane (over the given positions) the measured origins lie on")
                flags.append(f"{nm}-plane-not-recovered-over-{inp['positions']}-positions")
    s1, s2 = one.shifted_tensor.numpy(), two.shifted_tensor.numpy()
    if not np.abs(s1 - s2).max() <= 1e-3 * max(1.0, np.abs(s2).max()):
        problems.append("forward(): shifted_tensor differs from the step-by-step result")
        flags.append("forward-disagrees-with-the-steps")
    m1 = one.origin_measured.numpy().astype(np.float64)
    if not np.abs(m1 - origins).max() <= 2e-3:
        problems.append("forward(): origin_measured is not the intensity-weighted mean coordinate")
        flags.append("wrong-com")
    r = _res(problems, "forward(args) == the four steps called one by one with the same args; a plane over the given positions is recovered")
    r["klass"] = "+".join(sorted(set(flags))) or "none"
    return r


def fam_forward_positions(tier="quick", seed=0):
    for sh in [(5, 7, 9, 10), (4, 3, 8, 9)] + ([(6, 5, 10, 9)] if tier == "thorough" else []):
        for kind in ("inferred",) + POSITION_KINDS:
            for fm in ("plane", "constant"):
                yield dict(shape=list(sh), positions=kind, fit_method=fm, max_batch_size=None if kind != "irregular" else 4,
                           estimate=kind not in ("serpentine",), mode="bilinear", coordinate=[0, 0], seed=seed + sh[0])
        yield dict(shape=list(sh), positions="serpentine", fit_method="plane", max_batch_size=3, estimate=True, mode="nearest", coordinate=[1, 2], seed=seed + 1)


@_guard
def rt_shift(inp):
    shape = tuple(inp["shape"])
    H, W = shape[-2:]
    arr = _data(shape, inp["seed"]).astype(np.float32)
    m = _origin_model(arr)
    n = int(np.prod(shape[:-2]))
    rng = np.random.default_rng(inp["seed"] + 11)
    coord = tuple(inp.get("coordinate", (0, 0)))
    if inp.get("per_pattern", True):
        org = np.stack([rng.integers(-H, 2 * H, size=n), rng.integers(-W, 2 * W, size=n)], -1)
    else:
        org = np.array([[int(rng.integers(0, H)), int(rng.integers(0, W))]])
    m.origin_fitted = torch.tensor(org, dtype=torch.float32)
    before = m.tensor.clone()
    ret = m.shift_origin_to(origin_coordinate=coord, max_batch_size=inp.get("max_batch_size"), mode=inp.get("mode", "bilinear"))
    got = m.shifted_tensor.numpy().astype(np.float64).reshape((n, H, W))
    src = arr.astype(np.float64).reshape((n, H, W))
    orgf = np.broadcast_to(org, (n, 2))
    problems = []
    if ret is not m:
        problems.append("does not return self")
    if tuple(m.shifted_tensor.shape) != shape:
        problems.append(f"shifted_tensor shape {tuple(m.shifted_tensor.shape)} != {shape}")
    for p in range(n):
        sy, sx = int(orgf[p, 0] - coord[0]), int(orgf[p, 1] - coord[1])
        exp = np.roll(src[p], (-sy, -sx), axis=(0, 1))
        d = np.abs(got[p] - exp).max()
        if not d <= 1e-5 * max(1.0, np.abs(src[p]).max()):
            problems.append(f"pattern {p}: shift ({sy},{sx}) is not the circular roll (max diff {d:.3g})")
            break
    if not bool((m.tensor == before).all()):
        problems.append("input tensor was modified")
    return _res(problems, "out[p][y,x] = in[p][(y+s_row) mod H, (x+s_col) mod W] with s = origin - coordinate (integer): the circular roll by -s")


def fam_shift(tier="quick", seed=0):
    for sh in [(2, 3, 4, 5), (3, 2, 5, 3), (4, 3, 6), (1, 2, 2, 2)] + ([(3, 4, 7, 6)] if tier == "thorough" else []):
        n = int(np.prod(sh[:-2]))
        for b in (None, 1, 2, n):
            for mode in ("bilinear", "nearest"):
                yield dict(shape=list(sh), max_batch_size=b, mode=mode, per_pattern=True, coordinate=[0, 0], seed=seed + n)
        yield dict(shape=list(sh), max_batch_size=None, mode="bilinear", per_pattern=False, coordinate=[1, 2], seed=seed + n + 1)


@_guard
def rt_models_agree(inp):
    """origin model (torch, batched) vs dataset model (numpy, vectorised and looped) on the same 4-D data."""
    shape = tuple(inp["shape"])
    arr = _data(shape, inp["seed"]).astype(np.float32)
    m = _origin_model(arr)
    m.calculate_origin(max_batch_size=inp.get("max_batch_size"))
    a = m.origin_measured.numpy().astype(np.float64).reshape(shape[:2] + (2,))
    problems = []
    for vec in (True, False):
        o = _raster(shape[:2], shape[2:])
        o._set_intensities_com(arr.copy(), fit_function="none", vectorized_calculation=vec)
        cm = np.asarray(o.com_measured, dtype=np.float64)
        d = max(np.abs(cm[0] - a[..., 0]).max(), np.abs(cm[1] - a[..., 1]).max())
        if not d <= 2e-3:
            problems.append(f"{'vectorised' if vec else 'looped'} dataset-model CoM differs from the origin model by {d:.3g}")
    return _res(problems, "origin model and dataset model (both code paths) agree on the measured origins")


def _klass_res(inp, res):
    return res.get("klass", "other")


def _klass_agree(inp, res):
    return "looped" if "looped" in (res.get("observed") or "") and "vectorised" not in (res.get("observed") or "") else "other"


def fam_models_agree(tier="quick", seed=0):
    for sh in [(2, 3, 4, 6), (3, 3, 5, 4)]:
        for b in (None, 2):
            yield dict(shape=list(sh), max_batch_size=b, seed=seed + sh[2])


@_guard
def rt_workflow(inp):
    """A HISTORY of workflow steps on one model object: after every step the stored measured origins are still the
    intensity-weighted mean coordinates, a step that is not a fit leaves the fitted origins alone, and a repeated / later fit is
    a fit of the measured origins (not of something an intermediate step left behind)."""
    shape = tuple(inp["shape"])
    arr = _data(shape, inp["seed"]).astype(np.float32)
    m = _origin_model(arr)
    er, ec = _com64(arr.reshape((-1,) + shape[-2:]))
    oracle = np.stack([er, ec], -1)
    before = m.tensor.clone()
    problems, klass = [], None
    first_plane, measured = None, False
    for step in inp["steps"]:
        of_prev = None if m.origin_fitted is None else m.origin_fitted.clone()
        name, _, arg = step.partition(":")
        if name == "calc":
            m.calculate_origin(max_batch_size=inp.get("max_batch_size"))
            measured = True
        elif name == "fit":
            m.fit_origin_background(fit_method=arg)
        elif name == "estimate":
            m.estimate_detector_rotation()
        elif name == "shift":
            m.shift_origin_to(max_batch_size=inp.get("max_batch_size"))
        elif name == "forward":
            m.forward(max_batch_size=inp.get("max_batch_size"), fit_method=arg or "plane")
            measured = True
        elif name == "newdata":  # the same object gets OTHER patterns (tensor setter): everything measured so far is stale
            arr = _data(shape, inp["seed"] + 100).astype(np.float32)
            m.tensor = torch.tensor(arr)
            er, ec = _com64(arr.reshape((-1,) + shape[-2:]))
            oracle = np.stack([er, ec], -1)
            before = m.tensor.clone()
            measured, first_plane = False, None
            continue
        got = None if m.origin_measured is None else m.origin_measured.numpy().astype(np.float64)
        if measured and (got is None or got.shape != oracle.shape or not np.abs(got - oracle).max() <= 2e-3):
            d = "missing" if got is None or got.shape != oracle.shape else f"off by {np.abs(got - oracle).max():.3g}"
            problems.append(f"after `{step}`: origin_measured is no longer (sum I*row/sum I, sum I*col/sum I) ({d})")
            klass = klass or f"origin_measured-overwritten-by-{name}"
        of = None if m.origin_fitted is None else m.origin_fitted.numpy().astype(np.float64)
        if name in ("fit", "forward"):
            method = arg or "plane"
            if method == "constant":
                exp = np.broadcast_to(oracle.mean(0), oracle.shape)
                if of is None or not np.abs(of - exp).max() <= 2e-3:
                    problems.append(f"after `{step}`: constant fit is not the mean of the measured origins")
                    klass = klass or "later-fit-not-of-the-measured-origins"
            else:
                if first_plane is None:
                    first_plane = of
                elif of is None or not np.abs(of - first_plane).max() <= 2e-3:
                    problems.append(f"after `{step}`: repeating the plane fit gives a different surface (max diff {np.abs(of - first_plane).max():.3g})")
                    klass = klass or "later-fit-not-of-the-measured-origins"
        elif of_prev is not None and (of is None or not np.array_equal(of, of_prev.numpy().astype(np.float64))):
            problems.append(f"after `{step}`: origin_fitted changed although no fit ran")
            klass = klass or f"origin_fitted-overwritten-by-{name}"
        if not bool((m.tensor == before).all()):
            problems.append(f"after `{step}`: the pattern tensor was modified")
            klass = klass or f"tensor-overwritten-by-{name}"
        if problems:
            break
    r = _res(problems, "stored measured origins survive every later workflow step; later fits are fits of those origins; tensor untouched")
    r["klass"] = klass or "none"
    return r


def fam_workflow(tier="quick", seed=0):
    seqs = [
        ["calc", "fit:plane", "estimate"],
        ["calc", "fit:constant", "estimate", "fit:constant"],
        ["calc", "fit:plane", "estimate", "fit:plane"],
        ["calc", "fit:plane", "shift", "estimate", "shift", "fit:constant"],
        ["forward"],
        ["forward", "fit:constant"],
        ["forward", "forward"],
        ["calc", "fit:constant", "calc", "fit:constant"],
        ["forward:constant", "newdata", "forward:constant"],
        ["calc", "fit:constant", "estimate", "shift", "newdata", "calc", "fit:constant"],
    ]
    for sh in [(3, 4, 4, 5), (4, 3, 5, 4)] + ([(5, 6, 4, 6)] if tier == "thorough" else []):
        for b in (None, 5):
            for q in seqs:
                yield dict(shape=list(sh), steps=q, max_batch_size=b, seed=seed + sh[0])


def fam_workflow_estimate(tier="quick", seed=0):
    for inp in fam_workflow(tier, seed):
        if any(x.startswith(("estimate", "forward")) for x in inp["steps"]):
            yield inp


def with_histories(rt, fam):
    """Run-time oracle of a workflow method = its single-call oracle + the history oracle (inputs carrying `steps`)."""
    def rt2(inp):
        return rt_workflow(inp) if "steps" in inp else rt(inp)

    def fam2(tier="quick", seed=0):
        yield from (fam(tier, seed) if _wants_tier(fam) else fam())
        yield from fam_workflow(tier, seed)
    return rt2, fam2


def _wants_tier(f):
    import inspect

    return len(inspect.signature(f).parameters) >= 2


def rt_batcher(inp):
    from quantem.diffractive_imaging.ptycho_utils import SimpleBatcher

    n, B = inp["num"], inp["batch_size"]
    b = SimpleBatcher(n, batch_size=B, shuffle=False)
    batches = [list(map(int, x)) for x in b]
    eff = B if B is not None else n
    problems = []
    if [i for x in batches for i in x] != list(range(n)):
        problems.append(f"batches {batches[:4]} do not enumerate range({n}) in order")
    if any(len(x) != eff for x in batches[:-1]) or (batches and not 1 <= len(batches[-1]) <= eff):
        problems.append(f"batch sizes {[len(x) for x in batches]}")
    return _res(problems, "unshuffled batches are consecutive slices of range(num) of length batch_size (last one shorter)")


def fam_batcher():
    for n in (1, 2, 5, 6, 9):
        for B in (None, 1, 2, 3, n, n + 1):
            yield dict(num=n, batch_size=B)


def rt_setter(inp):
    scan = tuple(inp.get("scan", (2, 3)))
    n = scan[0] * scan[1]
    arr = _data(scan + (2, 2), 0).astype(np.float32)
    m = _origin_model(arr)
    v = torch.tensor(np.arange(2 * inp["rows"], dtype=np.float32).reshape((inp["rows"], 2))) if inp["rows"] else torch.tensor([1.5, 2.5])
    exp_ok = inp["rows"] in (0, 1, n)
    try:
        setattr(m, inp["field"], v)
    except RuntimeError as e:
        return _res([] if not exp_ok else [f"raised {e}"], "RuntimeError iff rows not in (1, num_dps)")
    got = getattr(m, inp["field"]).numpy()
    want = np.broadcast_to(v.numpy().reshape((-1, 2)), (n, 2))
    return _res([] if exp_ok and np.array_equal(got, want) else [f"assigned {v.numpy().tolist()} to a model of {n} patterns, stored {got.tolist()}"],
                "the stored origin is the assigned array: entry (p, c) = component c of pattern p (value.view(-1,2) broadcast to (num_dps, 2))")


def fam_setter():
    for field in ("origin_measured", "origin_fitted"):
        for rows in (0, 1, 6, 3):
            yield dict(field=field, rows=rows)
        for scan in ((1, 2), (2, 1), (2, 2), (2, 5), (5, 2)):  # exactly two patterns / a scan axis of length 2
            yield dict(field=field, rows=scan[0] * scan[1], scan=list(scan))
            yield dict(field=field, rows=2, scan=list(scan))


def conc_setter(field):
    def conc(ev):
        n = _clip(ev("num_dps"), 1, 6, 2)
        scan = [1, n] if n not in (4, 6) else [2, n // 2]
        return dict(field=field, rows=0 if ev("value_is_one_pair", False) else _clip(ev("rows"), 1, 6, n), scan=scan)
    return conc


def rt_validator(which):
    """The validators' contract statement evaluated on the REAL function."""
    def rt(inp):
        from quantem.core.utils import validators as val

        f = val.validate_tensor if which == "tensor" else val.validate_array
        rng = np.random.default_rng(7)
        shape = tuple(inp["shape"])
        mk = lambda: (rng.integers(-5, 6, size=shape) if inp["kind"] == "int" else rng.uniform(-3, 3, size=shape).astype(np.float64))
        srcs = [mk(), mk()] if inp.get("pair") else [mk()]
        conv = (lambda a: torch.tensor(a)) if inp["lib"] == "torch" else (lambda a: a.copy())
        given = [conv(a) for a in srcs]
        value = tuple(given) if inp.get("pair") else given[0]
        exp = np.stack(srcs) if inp.get("pair") else srcs[0]
        nd, want = inp.get("ndim"), inp.get("want_shape")
        must_raise = (nd is not None and nd != exp.ndim) or (want is not None and tuple(want) != exp.shape)
        dt = torch.float if which == "tensor" else np.float32
        what = "value- and shape-preserving cast; ValueError iff the requested ndim / shape does not match; a pair of arrays is stacked; input unwritten"
        try:
            with __import__("warnings").catch_warnings():
                __import__("warnings").simplefilter("ignore")
                got = f(value, "value", dtype=dt, ndim=nd, shape=None if want is None else tuple(want))
        except ValueError as e:
            return _res([] if must_raise else [f"ValueError on a matching request: {e}"], what)
        except Exception as e:
            return _res([f"raised {type(e).__name__}: {str(e)[:120]}"], what)
        problems = []
        if must_raise:
            problems.append(f"no ValueError although ndim={nd} / shape={want} was requested for an array of shape {exp.shape}")
        want_t = torch.Tensor if which == "tensor" else np.ndarray
        if not isinstance(got, want_t):
            problems.append(f"returns {type(got).__name__}, not {want_t.__name__}")
        g = np.asarray(got.detach().cpu().numpy() if isinstance(got, torch.Tensor) else got, dtype=np.float64)
        if g.shape != exp.shape:
            problems.append(f"result shape {g.shape} != {exp.shape}")
        elif g.size and not np.abs(g - exp).max() <= 1e-5:
            problems.append(f"values changed by up to {np.abs(g - exp).max():.3g}")
        for a, b in zip(given, srcs):
            if not np.array_equal(np.asarray(a), b):
                problems.append("the caller's array was written")
        return _res(problems, what)
    rt.__name__ = f"rt_validate_{which}"
    return rt


def fam_validator(which):
    def fam():
        for lib in ("numpy", "torch"):
            for kind in ("real", "int"):
                for shape in [(3,), (2, 3), (2, 1, 3, 2)]:
                    r = len(shape)
                    for nd in (None, r, r + 1, r - 1):
                        for want in (None, list(shape), list(shape[:-1]) + [shape[-1] + 1], list(shape) + [1]):
                            if nd is not None and want is not None and (nd != r or want != list(shape)):
                                continue
                            yield dict(lib=lib, kind=kind, shape=list(shape), ndim=nd, want_shape=want, pair=False)
        if which == "array":
            for shape in [(3,), (2, 3)]:
                r = len(shape) + 1
                for nd, want in ((None, None), (r, None), (r - 1, None), (None, [2] + list(shape)), (None, list(shape)), (None, [2] + list(shape[:-1]) + [shape[-1] + 1])):
                    yield dict(lib="numpy", kind="real", shape=list(shape), ndim=nd, want_shape=want, pair=True)
    return fam


def conc_validator(ev):
    rank = 1 if ev("value_is_1d", False) else 2 if ev("value_is_2d", False) else 4
    shape = [_clip(ev(f"d{i}"), 0, 3, 2) for i in range(rank)]
    pair = bool(ev("value_is_a_pair_of_arrays", False))
    out_rank = rank + (1 if pair else 0)
    nd = None if ev("ndim_is_none", True) else out_rank if ev("ndim_request_matches", True) else out_rank + 1
    want = None
    if not ev("shape_is_none", True):
        r2 = out_rank if ev("shape_request_has_the_same_rank", True) else out_rank + 1
        want = [_clip(ev(f"want{i}"), 0, 4, 1) for i in range(r2)]
    return dict(lib="torch" if ev("value_is_torch", False) else "numpy", kind="int" if ev("value_holds_integers", False) else "real",
                shape=shape, ndim=nd, want_shape=want, pair=pair)


def _clip(v, lo, hi, default):
    return default if not isinstance(v, int) or isinstance(v, bool) else max(lo, min(hi, v))


def _conc_shape(ev):
    """dataset shape of the counter-model (extents clipped to keep the replay small; contents are the asymmetric test patterns)"""
    H, W = _clip(ev("H"), 2, 7, 4), _clip(ev("W"), 2, 7, 5)
    if H == W:
        W += 1  # row/column mix-ups only show on non-square detectors
    if ev("dataset_is_4d", True):
        return [_clip(ev("Rx"), 1, 4, 2), _clip(ev("Ry"), 1, 4, 3), H, W]
    return [_clip(ev("N"), 1, 9, 5), H, W]


def conc_calc(ev):
    sh = _conc_shape(ev)
    b = None if ev("max_batch_size_is_none", False) else _clip(ev("max_batch_size"), 1, 12, 2)
    return dict(shape=sh, max_batch_size=b, seed=1)


def conc_shift(ev):
    sh = _conc_shape(ev)
    b = None if ev("max_batch_size_is_none", False) else _clip(ev("max_batch_size"), 1, 12, 2)
    return dict(shape=sh, max_batch_size=b, mode="bilinear" if ev("mode_is_bilinear", True) else "nearest", per_pattern=True, coordinate=[0, 0], seed=2)


def conc_sic(vectorized):
    def conc(ev):
        Qr, Qc = _clip(ev("Qr"), 2, 7, 4), _clip(ev("Qc"), 2, 7, 6)
        if Qr == Qc:
            Qc += 1
        fit = "none"
        for f in ("none", "no_shift", "constant", "plane"):
            if ev(f"fit_function_is_{f}", False):
                fit = f
        return dict(shape=[_clip(ev("Rr"), 1, 4, 2), _clip(ev("Rc"), 1, 4, 3), Qr, Qc], mask="random" if ev("dp_mask_given", False) else "none",
                    fit_function=fit, vectorized=vectorized, seed=3)
    return conc


def conc_getcom(ev):
    H, W = _clip(ev("H"), 2, 7, 3), _clip(ev("W"), 2, 7, 4)
    lead = [] if ev("input_is_one_pattern_HW", False) else [_clip(ev("B"), 1, 6, 2)] if ev("input_is_a_stack_BHW", True) else [_clip(ev("A"), 1, 4, 3), _clip(ev("B"), 1, 4, 2)]
    return dict(shape=lead + [H, W + (H == W)], lib="torch" if ev("input_is_torch", False) else "numpy", seed=4)


C_CALC.concretize, C_SHIFT.concretize, C_GETCOM.concretize = conc_calc, conc_shift, conc_getcom
C_SIC_VEC.concretize, C_SIC_LOOP.concretize = conc_sic(True), conc_sic(False)

# tiny helpers / one-line properties interpreted from their source inside the functions under contract (listed in evidence)
_INL_COM = [q for q in INLINE if "CenterOfMassOriginModel" in q or ":Dataset." in q]
C_SB_INIT.inline = {f"{PU}:SimpleBatcher.rng"}
for _c in (C_SET_MEASURED, C_SET_FITTED, C_CALC, C_FITBG, C_SHIFT, C_SHIFT_ANY, C_EDR, C_FORWARD):
    _c.inline = set(_INL_COM)
C_GETCOM.inline = {f"{AF}:sum", f"{AF}:match_device", f"{AF}:validate_arraylike"}
for _c in (C_SIC_VEC, C_SIC_LOOP):
    _c.inline = {q for q in INLINE if "PtychographyDataset" in q or ":Dataset." in q or q.endswith(":tqdmnd")}

C_VALIDATE_TENSOR.concretize = C_VALIDATE_ARRAY.concretize = conc_validator
C_SET_MEASURED.concretize, C_SET_FITTED.concretize = conc_setter("origin_measured"), conc_setter("origin_fitted")
for _c, _rt, _fam in (
    (C_VALIDATE_TENSOR, rt_validator("tensor"), fam_validator("tensor")), (C_VALIDATE_ARRAY, rt_validator("array"), fam_validator("array")),
    (C_SB_INIT, rt_batcher, fam_batcher), (C_SB_ITER, rt_batcher, fam_batcher),
    (C_SET_MEASURED, rt_setter, fam_setter), (C_SET_FITTED, rt_setter, fam_setter),
    (C_CALC, rt_calc, fam_calc), (C_FITBG, rt_fit_background, fam_fit_background), (C_SHIFT, rt_shift, fam_shift), (C_SHIFT_ANY, rt_shift, fam_shift),
    (C_FORWARD, lambda inp: rt_forward_positions(inp) if "positions" in inp else rt_workflow(inp),
     lambda tier="quick", seed=0: (yield from (*fam_forward_positions(tier, seed), *fam_workflow_estimate(tier, seed)))),
    (C_EDR, rt_workflow, fam_workflow_estimate), (C_EDR_HELPER, rt_workflow, fam_workflow_estimate),
    (C_GETCOM, rt_getcom, lambda tier="quick", seed=0: (yield from (*fam_getcom(tier, seed), *fam_getcom_ranks(tier, seed)))), (C_FITORIGIN, rt_fit_origin, fam_fit_origin_constant),
    (C_SIC_VEC, rt_sic, fam_sic(True)), (C_SIC_LOOP, rt_sic, fam_sic(False)),
):
    _c.rt, _c.rt_family = _rt, _fam
for _c in (C_CALC, C_FITBG, C_SHIFT, C_SHIFT_ANY):
    _c.rt, _c.rt_family = with_histories(_c.rt, _c.rt_family)

BOUNDED = [
    Bounded.from_rt("validate_tensor on the real function (replay oracle of its verified contract)", rt_validator("tensor"), fam_validator("tensor"), "numpy/torch x real/int x 3 shapes x ndim / shape requests"),
    Bounded.from_rt("validate_array on the real function (replay oracle of its verified contract)", rt_validator("array"), fam_validator("array"), "numpy/torch x real/int x 3 shapes x ndim / shape requests + pairs of arrays"),
    Bounded.from_rt("calculate_origin vs float64 oracle, every batch size", rt_calc, fam_calc, "5 dataset shapes (3-D and 4-D, non-square), batch sizes None,1,2,3,n-1,n,n+2"),
    Bounded.from_rt("_set_intensities_com vectorised path vs float64 oracle", rt_sic, fam_sic(True), "3 shapes x 4 masks x 4 fit functions", klass=_klass_res),
    Bounded.from_rt("_set_intensities_com looped path vs float64 oracle", rt_sic, fam_sic(False), "3 shapes x 4 masks x 4 fit functions", klass=_klass_res),
    Bounded.from_rt("origin model vs dataset model on the same data", rt_models_agree, fam_models_agree, "2 shapes x 2 batch sizes, both code paths", klass=_klass_agree),
    Bounded.from_rt("get_com_2d on stacks of patterns (B,H,W)", rt_getcom, fam_getcom, "4 shapes, numpy and torch", klass=_klass_res),
    Bounded.from_rt("get_com_2d on other ranks (single pattern, 4-D dataset)", rt_getcom, fam_getcom_ranks, "2-D and 4-D inputs, numpy and torch", klass=_klass_res),
    Bounded.from_rt("PLANE FITS (stand-in for proof): fit_origin on exact constant / plane / parabola surfaces", rt_fit_origin, fam_fit_origin,
                    "2 shapes x {all-True mask, mask=None, partial mask} x 5 surface/function pairs (curve_fit is outside the deductive reach)", klass=_fit_class),
    Bounded.from_rt("PLANE FITS (stand-in for proof): fit_origin_background PCA plane / constant on exact surfaces", rt_fit_background, fam_fit_background,
                    "3 scan shapes x {inferred, explicit raster} + 2 scan shapes x {raster, scaled-offset, rotated-sheared, serpentine, irregular} explicit "
                    "positions x {plane/plane, constant/plane, plane/constant} (torch.linalg.eigh is outside the deductive reach)", klass=_klass_res),
    Bounded.from_rt("forward == step-by-step entry points, explicit probe positions (planes over the given positions)", rt_forward_positions, fam_forward_positions,
                    "2 scan shapes x {inferred, raster, scaled-offset, rotated-sheared, serpentine, irregular} x {plane, constant}, exact-CoM patterns", klass=_klass_res),
    Bounded.from_rt("workflow histories on one model object (calculate / fit / estimate / shift / forward, repeated)", rt_workflow, fam_workflow,
                    "2 scan shapes x 2 batch sizes x 10 step sequences (incl. new data on the same object): measured origins survive every later step, later fits are fits of them", klass=_klass_res),
    Bounded.from_rt("shift_origin_to with integer origins vs numpy.roll", rt_shift, fam_shift, "4 shapes x batch sizes None,1,2,n x bilinear/nearest, origins in [-H,2H)x[-W,2W), one shared origin with non-zero target"),
]

TRUSTED = [
    "pyvc/lib/c18_models.py: numpy/torch index-function semantics of arange, meshgrid(ij/xy), zeros, ones_like, empty, empty_like, as_tensor, tensor, stack, "
    "elementwise broadcasting, basic slicing / None / Ellipsis, isfinite (A1), sum / mean over axes; matrix @ vector = sum over the shared axis; "
    "torch.concatenate = torch.cat; np.array / np.asarray of a tuple of equal-shape arrays = stack; np.array_equal on shape tuples; Tensor.type(dtype) = cast copy; "
    "Tensor.numpy() = ndarray view; isinstance of a tagged array stand-in decided by its library tag; scalar[..., None] = shape (1,)",
    "row-major view / reshape that merges or splits leading axes (pattern p of a 4-D dataset is T[p div Ry, p mod Ry]); torch expand",
    "advanced-index gather a[idx] and scatter a[idx] = v / a[idx, c] = v for an injective index array (ghost inverse), with in-range obligations",
    "floored remainder a % b = a - b*floor(a/b) on reals; for integer-valued operands it is the integer mod (equivalent reformulation)",
    "torch.nn.functional.grid_sample(align_corners=True, mode bilinear|nearest): at un-normalised coordinates ((g+1)/2)*(size-1) that are integers inside the "
    "image the result is that pixel; anywhere else the result is unspecified (uninterpreted)",
    "itertools.product(range(a), range(b)) enumerates (k div b, k mod b) for k < a*b; tqdm(iterable) iterates its argument",
    "finite sums: congruence only (equal bounds and equal summands => equal sums; first-order encoding F_shape(n, parameters)); "
    "sum of a constant summand = max(n,0)*c; NO linearity / reordering facts are used",
    "torch.roll(x, s, d)[i] = x[(i - s) mod n] (pyvc/lib/torch_.py), used only in the roll lemma",
    "estimate_detector_rotation: torch.flip = reversed COPY, deg2rad = x*pi/180, mean over axes, x.min() / torch.argmin / element of a concrete "
    "tensor at a symbolic position = SOME value (unspecified; only frame / shape facts are claimed there); reshape / view results ALIAS their source "
    "(a write through them counts as a write into the stored tensor - torch may copy for non-contiguous sources, so this is the conservative reading)",
    "T2: row-major numbering q = r*cols + c is a bijection between scan positions and [0, rows*cols) (its arithmetic half is proved as a lemma)",
    "pyvc engine (AST interpreter, loop rule with arbitrary-iteration + invariant, path exploration), z3, cvc5",
]
ASSUMPTIONS = [
    "A1 floats are reals: float32/float64 rounding, inf/nan from empty patterns are ignored ('=' means equal over R; tolerances only in bounded checks)",
    "A2 fixed-width integers are mathematical",
    "validators.validate_tensor / validate_array: VERIFIED from source in this module (value- and shape-preserving cast to a float dtype, result "
    "library tag, ValueError iff a requested ndim / shape does not match, a pair of arrays is stacked, caller's array unwritten) for 1-D / 2-D / 4-D "
    "numpy or torch inputs holding reals or integers, dtype = a float dtype, expand_dims=False; call sites must stay inside that domain "
    "(call-site precondition).  Exported as VALIDATE_TENSOR_CONTRACT / VALIDATE_ARRAY_CONTRACT",
    "generic-instance statements: the looped-path CoM post, the roll post and their loop invariants are proved at ONE arbitrary scan position / pattern / pixel "
    "(free symbols constrained only to be in range), which is the universally quantified statement",
    "shift_origin_to is specified for H, W >= 2 and for patterns whose (fitted origin - target coordinate) is integer-valued; other shifts are bilinear "
    "interpolation and outside the claim",
    "PLANE FIT OF THE ORIGIN MODEL (fit_origin_background(fit_method='plane')): the inner PCA helper (nested def using torch.cov + torch.linalg.eigh, "
    "recognised by its eigh call) is used through an ASSUMED contract: for points (x_p, y_p, z_p) with non-collinear (x_p, y_p) and "
    "z_p = alpha*x_p + beta*y_p + gamma exactly it returns (a, b, c, d) with c != 0, a = -alpha*c, b = -beta*c, d = -gamma*c; otherwise four unspecified "
    "numbers (the eigen-decomposition and linearity of finite sums are outside the deductive part; bounded stand-ins on explicit raster / scaled-offset / "
    "rotated-sheared / serpentine / irregular positions cover the helper itself).  Everything AROUND the helper is verified from source with symbolic "
    "Rx, Ry: the points handed to it are (scan position of pattern p, origin_measured[p, k]) for every p - inferred positions are "
    "(p div Ry, p mod Ry), the row-major layout calculate_origin / estimate_detector_rotation / forward use; explicit positions are the caller's rows - one fit "
    "per origin coordinate, and the surface evaluated from the returned coefficients at the same positions is stored: origins lying exactly on planes "
    "over the scan positions (non-collinear: Rx, Ry >= 2 when inferred; three witnesses when explicit) are returned exactly.  forward hands the "
    "caller's probe_positions (and every other argument) to the step that consumes it (call-site preconditions)",
    "plane / parabola fits of ptycho_utils.fit_origin (scipy curve_fit) are NOT proved: bounded stand-ins on exact surfaces only; at call sites "
    "(forward) a plane fit of the origin model is an unspecified (num_dps, 2) array",
    "forward is verified with its four steps used THROUGH their contracts (calculate_origin, fit_origin_background, estimate_detector_rotation and the "
    "any-shift view of shift_origin_to, each verified from source in this module); 4-D datasets, inferred probe positions, default rotation angles",
    "history quantifier: every workflow method is verified from a pre-state in which the fields it does not recompute hold arbitrary other values "
    "(fork `re-run`), with one frame clause per stored field; sequences of calls follow by induction over these per-method contracts (plus the bounded "
    "workflow-history check on the real object)",
    "estimate_detector_rotation / forward with orientation estimate are specified for 4-D datasets only (the reshape to (Rx, Ry, 2) needs the scan axes)",
    "get_com_2d is proved for every rank it accepts up to 4: one pattern (H,W), a stack (B,H,W), a 4-D dataset (A,B,H,W), numpy and torch "
    "(corner_centered=False); the bounded checks on these ranks remain as replay oracles",
    "estimate_detector_rotation / forward beyond 4-D: NOT supported by the code (reshape of the (num_dps, 2) origins to tensor.shape[:2] + (2,) only "
    "type-checks when the scan is exactly the two leading axes), so the 4-D precondition stays",
    "SimpleBatcher is specified only in the configuration the origin model uses (shuffle=False, no validation split); the general batcher is C09",
    "the detector mask of _set_intensities_com is any real array of detector shape; dtype conversion of the mask (np.asarray(..., float32)) is the identity under A1",
]
EXPLANATION = ("VCs generated from the real source of calculate_origin / origin setters / fit_origin_background (constant fit, and the plane fit around its "
               "eigh helper: scan positions, point pairing, evaluation of the fitted surface) / shift_origin_to / _set_intensities_com "
               "(vectorised and looped) / get_com_2d (ranks 2-4) / fit_origin / validators.validate_tensor / validate_array / SimpleBatcher.__init__/__iter__ over index-function arrays with first-order "
               "Sigma-terms; every implementation's result is the term (Sum I*row / Sum I, Sum I*col / Sum I) of the property statement")
