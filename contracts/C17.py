"""C17 - reliability-sorted phase unwrapping: weighted union-find with ghost potentials."""
from __future__ import annotations

import math

import z3

from pyvc import values as V
from pyvc.values import Sym, SymArr, Obj, S, lift
from pyvc.interp import NS, LoopSpec
from pyvc.registry import Contract, resolve
from pyvc.runner import Lemma, Bounded
from pyvc.lib import torch_ as tm
from .common import registry, forall, implies, AND, OR, NOT

LEVEL = "proof"
IU = "quantem.core.utils.imaging_utils"
UF = resolve(f"{IU}:UnionFindPhase")
I, Rl = z3.Int, z3.Real
PI = V.PI


def install_bf_models(reg):
    """TRUSTED torch models used only by unwrap_bf_overlap_phase_torch (contents abstracted: the obligations there are about
    which arguments reach each unwrapping pass, not about values)."""
    import torch

    def m_angle(interp, x):
        if isinstance(x, SymArr):
            r = interp.ctx.fresh_arr("angle", x.shape, "real")
            r.as_type = torch.Tensor
            return r
        return interp.native(torch.angle, x)

    reg.models[torch.angle] = m_angle
    old_zl = reg.models.get(torch.zeros_like)

    def m_zeros_like(interp, x, dtype=None, **kw):
        if isinstance(x, SymArr):
            kind = "bool" if dtype is torch.bool else "real" if dtype in (torch.float32, torch.float64) else x.kind
            r = tm.tensor(x.shape, lambda *i: (False if kind == "bool" else 0.0), kind)
            return r
        return interp.native(torch.zeros_like, x, dtype=dtype, **kw)

    reg.models[torch.zeros_like] = m_zeros_like


class MaskedOps:
    """Boolean-mask get/set on symbolic tensors: contents abstracted (fresh), shapes kept."""


def _masked_getitem(interp, base, key):
    """TRUSTED model of boolean-mask indexing x[m].  1-d: the result enumerates, in increasing order, exactly the positions
    where m is true (selection map c shared by every array indexed with the SAME mask object); n-d: contents abstracted."""
    if isinstance(key, SymArr) and key.kind == "bool" and key.ndim == base.ndim:
        ctx = interp.ctx
        if base.ndim == 1:
            cache = ctx.ghost.setdefault("compress", {})
            if id(key) not in cache:
                m = ctx.fresh("n_selected", "int")
                nm = ctx.fresh_name("sel")
                C = z3.Function(nm, z3.IntSort(), z3.IntSort())
                D = z3.Function(nm + "_inv", z3.IntSort(), z3.IntSort())
                n = lift(key.shape[0])
                t, u, i = I("t!q"), I("u!q"), I("i!q")
                kf = key.fn
                ctx.assume(m.t >= 0)
                ctx.assume(forall(t, implies(AND(t >= 0, t < m.t), AND(C(t) >= 0, C(t) < n, lift(kf(C(t))), D(C(t)) == t)), patterns=[C(t)]))
                ctx.assume(forall([t, u], implies(AND(t >= 0, t < u, u < m.t), C(t) < C(u))))
                ctx.assume(forall(i, implies(AND(i >= 0, i < n, lift(kf(i))), AND(D(i) >= 0, D(i) < m.t, C(D(i)) == i)), patterns=[D(i)]))
                cache[id(key)] = (m, C, key, D)
                ctx.ghost.setdefault("compress_order", []).append((m, C, key, D))
            m, C = cache[id(key)][0], cache[id(key)][1]
            bf = base.fn
            r = SymArr((m,), lambda t: bf(C(lift(t))), base.kind)
            r.as_type = getattr(base, "as_type", None) or __import__("torch").Tensor
            return r
        n = ctx.fresh("n_selected", "int")
        ctx.assume(n.t >= 0)
        return ctx.fresh_arr("selected", (n,), base.kind if base.kind in ("int", "real", "bool") else "real")
    return NotImplemented


def _masked_setitem(interp, base, key, v):
    if isinstance(key, SymArr) and key.kind == "bool" and key.ndim == base.ndim:
        fresh = interp.ctx.fresh_arr("scattered", base.shape, base.kind if base.kind in ("int", "real", "bool") else "real")
        base.fn = fresh.fn
        base.writes += 1
        return True
    return NotImplemented


def make_registry():
    reg = registry()
    tm.install(reg)
    prev_get = reg.getitem_models.get(SymArr)

    def gi(interp, base, key):
        r = _masked_getitem(interp, base, key)
        if r is not NotImplemented:
            return r
        return prev_get(interp, base, key) if prev_get else NotImplemented

    reg.getitem_models[SymArr] = gi
    reg.setitem_models[SymArr] = _masked_setitem
    for c in CONTRACTS + ASSUMED_CONTRACTS:
        reg.add_contract(c)
    install_bf_models(reg)
    reg.abstract_classes.add(f"{IU}:UnionFindPhase")
    return reg


# ------------------------------------------------------------------------------------------------
# representation invariant with ghost R (root), P (sum of offsets to the root), D (depth)
# ------------------------------------------------------------------------------------------------


def inv_clauses(parent, offset, R, P, D, n, Pi):
    v = I("v")
    inr = AND(v >= 0, v < n)
    pv = lift(parent.fn(v))
    ov = lift(offset.fn(v))
    return [
        ("parent-in-range", forall(v, implies(inr, AND(pv >= 0, pv < n)))),
        ("root-in-range", forall(v, implies(inr, AND(R(v) >= 0, R(v) < n, D(v) >= 0)))),
        ("root-nodes", forall(v, implies(AND(inr, pv == v), AND(R(v) == v, P(v) == 0, D(v) == 0)))),
        ("child-nodes", forall(v, implies(AND(inr, pv != v), AND(R(v) == R(pv), P(v) == ov + P(pv), D(v) == D(pv) + 1)))),
        ("root-is-fixed-point", forall(v, implies(inr, lift(parent.fn(R(v))) == R(v)))),
        ("potential-is-integer-valued", forall(v, implies(inr, P(v) == z3.ToReal(Pi(v))))),
    ]


def ghost(ctx, tag=""):
    nm = ctx.fresh_name("g" + tag)
    return NS(R=z3.Function(nm + "_R", z3.IntSort(), z3.IntSort()),
              P=z3.Function(nm + "_P", z3.IntSort(), z3.RealSort()),
              D=z3.Function(nm + "_D", z3.IntSort(), z3.IntSort()),
              Pi=z3.Function(nm + "_Pi", z3.IntSort(), z3.IntSort()))


def uf_obj(ctx):
    n = ctx.fresh("n", "int")
    ctx.assume(n.t >= 1)
    parent = ctx.fresh_arr("parent", (n,), "int")
    offset = ctx.fresh_arr("offset", (n,), "real")
    rank = ctx.fresh_arr("rank", (n,), "int")
    g = ghost(ctx)
    return Obj(UF, dict(parent=parent, offset=offset, rank=rank, **{"$g": g, "$n": n}))


def F(o, name):
    return o.fields[name]


def uf_inv(o, g=None):
    g = g or F(o, "$g")
    return inv_clauses(F(o, "parent"), F(o, "offset"), g.R, g.P, g.D, lift(F(o, "$n")), g.Pi)


def in_range(o, x):
    return AND(lift(x) >= 0, lift(x) < lift(F(o, "$n")))


def snap(s):
    o = s.self if hasattr(s, "self") else s.uf
    return NS(parent=F(o, "parent").copy(), offset=F(o, "offset").copy(), rank=F(o, "rank").copy(),
              writes=(F(o, "parent").writes, F(o, "offset").writes, F(o, "rank").writes), g=F(o, "$g"))


# ---- __init__


def init_setup(ctx):
    n = ctx.fresh("n", "int")
    return NS(self=Obj(UF, {}), n=n)


def init_ensures(s):
    o = s.self
    n = lift(s.n)
    v = I("v")
    o.fields["$n"] = s.n
    g = NS(R=lambda t: t, P=lambda t: z3.RealVal(0), D=lambda t: z3.IntVal(0), Pi=lambda t: z3.IntVal(0))
    o.fields["$g"] = g
    import torch

    # offsets accumulate wrap-count differences between roots (up to the number of pixels in magnitude, any sign) and parents are
    # pixel indices: the engine computes with mathematical numbers (A1/A2), so that the storage dtype can hold them is stated here
    wide = (None, torch.float32, torch.float64, torch.int32, torch.int64, torch.long, torch.int, torch.float, torch.double)
    return [("parent-len", lift(F(o, "parent").sym_len()) == n), ("offset-len", lift(F(o, "offset").sym_len()) == n),
            ("rank-len", lift(F(o, "rank").sym_len()) == n),
            ("offset-dtype-holds-accumulated-wrap-counts(float-or->=32-bit-integer)", getattr(F(o, "offset"), "requested_dtype", None) in wide),
            ("parent-dtype-holds-pixel-indices(default-int64)", getattr(F(o, "parent"), "requested_dtype", None) in (None, torch.int64, torch.long, torch.int32, torch.int))] \
        + [("Inv:" + a, b) for a, b in uf_inv(o)]


def init_modifies(ctx, s):
    o = s.self
    n = s.n
    o.fields["parent"] = ctx.fresh_arr("parent", (n,), "int")
    o.fields["offset"] = ctx.fresh_arr("offset", (n,), "real")
    o.fields["rank"] = ctx.fresh_arr("rank", (n,), "int")


C_INIT = Contract(f"{IU}:UnionFindPhase.__init__", setup=init_setup, requires=lambda s: [("n>=1", s.n >= 1)],
                  ensures=init_ensures, modifies=init_modifies)

# ---- find_root_and_offset


def find_setup(ctx):
    o = uf_obj(ctx)
    return NS(self=o, x=ctx.fresh("x", "int"))


def find_requires(s):
    return [("Inv:" + a, b) for a, b in uf_inv(s.self)] + [("x-in-range", in_range(s.self, s.x))]


def find_ensures(s):
    g = F(s.self, "$g")
    r, t = s.result
    o = s.self
    w = (F(o, "parent").writes, F(o, "offset").writes, F(o, "rank").writes)
    return [("returns-root", lift(r) == g.R(lift(s.x))), ("returns-offset-sum", lift(t) == g.P(lift(s.x))),
            ("frame:no-writes", w == s.old.writes)]


def find_loop_inv(s):
    g = F(s.self, "$g")
    root, x = lift(s.root), lift(s.x)
    return [("root-in-range", in_range(s.self, s.root)), ("same-component", g.R(root) == g.R(x)),
            ("total+P(root)=P(x)", lift(s.total) + g.P(root) == g.P(x))]


C_FIND = Contract(
    f"{IU}:UnionFindPhase.find_root_and_offset", setup=find_setup, requires=find_requires, ensures=find_ensures, snapshot=snap,
    result=lambda ctx, s: (Sym(F(s.self, "$g").R(lift(s.x))), Sym(F(s.self, "$g").P(lift(s.x)))),
    loops={0: LoopSpec(inv=find_loop_inv, variant=lambda s: F(s.self, "$g").D(lift(s.root)), kinds={"total": "real", "root": "int"})},
)

# ---- union


def union_setup(ctx):
    o = uf_obj(ctx)
    return NS(self=o, x=ctx.fresh("x", "int"), y=ctx.fresh("y", "int"), inc_xy=ctx.fresh("inc", "int"))


def union_requires(s):
    return [("Inv:" + a, b) for a, b in uf_inv(s.self)] + [("x-in-range", in_range(s.self, s.x)), ("y-in-range", in_range(s.self, s.y))]


def union_cases(s):
    g = s.old.g
    x, y = lift(s.x), lift(s.y)
    rx, ry = g.R(x), g.R(y)
    delta = g.P(x) - g.P(y) - z3.ToReal(lift(s.inc_xy))
    same = rx == ry
    attach_x = lift(s.old.rank.fn(rx)) < lift(s.old.rank.fn(ry))
    return g, rx, ry, delta, same, attach_x


def union_new_ghost(s):
    """Witness for the new ghost state as a function of the old state (whole view)."""
    g, rx, ry, delta, same, attach_x = union_cases(s)
    R2 = lambda v: z3.If(same, g.R(v), z3.If(attach_x, z3.If(g.R(v) == rx, ry, g.R(v)), z3.If(g.R(v) == ry, rx, g.R(v))))
    P2 = lambda v: z3.If(same, g.P(v), z3.If(attach_x, z3.If(g.R(v) == rx, g.P(v) - delta, g.P(v)), z3.If(g.R(v) == ry, g.P(v) + delta, g.P(v))))
    D2 = lambda v: z3.If(same, g.D(v), z3.If(attach_x, z3.If(g.R(v) == rx, g.D(v) + 1, g.D(v)), z3.If(g.R(v) == ry, g.D(v) + 1, g.D(v))))
    di = g.Pi(lift(s.x)) - g.Pi(lift(s.y)) - lift(s.inc_xy)
    Pi2 = lambda v: z3.If(same, g.Pi(v), z3.If(attach_x, z3.If(g.R(v) == rx, g.Pi(v) - di, g.Pi(v)), z3.If(g.R(v) == ry, g.Pi(v) + di, g.Pi(v))))
    return NS(R=R2, P=P2, D=D2, Pi=Pi2)


def union_ensures(s):
    o = s.self
    n = lift(F(o, "$n"))
    g, rx, ry, delta, same, attach_x = union_cases(s)
    w = union_new_ghost(s)
    if s.mode == "verify":
        g2 = w
    else:
        g2 = F(o, "$g")  # fresh symbols installed by union_modifies
    v, u = I("v"), I("u")
    inr = AND(v >= 0, v < n)
    x, y = lift(s.x), lift(s.y)
    out = [("Inv':" + a, b) for a, b in inv_clauses(F(o, "parent"), F(o, "offset"), g2.R, g2.P, g2.D, n, g2.Pi)]
    out += [
        ("x-and-y-merged", g2.R(x) == g2.R(y)),
        ("offset-difference-is-inc", implies(NOT(same), g2.P(x) - g2.P(y) == z3.ToReal(lift(s.inc_xy)))),
        ("already-merged-changes-nothing", implies(same, forall(v, implies(inr, AND(g2.R(v) == g.R(v), g2.P(v) == g.P(v)))))),
        ("other-components-untouched", forall(v, implies(AND(inr, g.R(v) != rx, g.R(v) != ry), AND(g2.R(v) == g.R(v), g2.P(v) == g.P(v))))),
        ("whole-view:R", forall(v, implies(inr, g2.R(v) == w.R(v)))),
        ("whole-view:P", forall(v, implies(inr, g2.P(v) == w.P(v)))),
        ("relative-offsets-inside-components-preserved", forall([u, v], implies(AND(inr, u >= 0, u < n, g.R(u) == g.R(v)), AND(g2.R(u) == g2.R(v), g2.P(u) - g2.P(v) == g.P(u) - g.P(v))))),
    ]
    if s.mode == "verify":
        o.fields["$g"] = g2
    return out


def union_modifies(ctx, s):
    o = s.self
    n = F(o, "$n")
    o.fields["parent"] = ctx.fresh_arr("parent", (n,), "int")
    o.fields["offset"] = ctx.fresh_arr("offset", (n,), "real")
    o.fields["rank"] = ctx.fresh_arr("rank", (n,), "int")
    o.fields["$g"] = ghost(ctx, "u")


C_UNION = Contract(f"{IU}:UnionFindPhase.union", setup=union_setup, requires=union_requires, ensures=union_ensures,
                   snapshot=snap, modifies=union_modifies)

# ---- _final_offsets


def fo_setup(ctx):
    return NS(uf=uf_obj(ctx))


def fo_requires(s):
    o = s.uf
    n = lift(F(o, "$n"))
    return [("Inv:" + a, b) for a, b in uf_inv(o)] + [("numel=n", lift(F(o, "parent").numel()) == n)]


def fo_outer_inv(s):
    g = F(s.uf, "$g")
    j = I("j")
    return [("N=n", lift(s.N) == lift(F(s.uf, "$n"))),
            ("incs-len", lift(s.incs.sym_len()) == lift(s.N)),
            ("filled-prefix", forall(j, implies(AND(j >= 0, j < lift(s.k)), lift(s.incs.fn(j)) == g.P(j))))]


def fo_inner_inv(s):
    g = F(s.uf, "$g")
    root, i = lift(s.root), lift(s.i)
    return [("root-in-range", in_range(s.uf, s.root)), ("same-component", g.R(root) == g.R(i)),
            ("total+P(root)=P(i)", lift(s.total) + g.P(root) == g.P(i))]


def fo_ensures(s):
    g = F(s.uf, "$g")
    n = lift(F(s.uf, "$n"))
    j = I("j")
    o = s.uf
    w = (F(o, "parent").writes, F(o, "offset").writes, F(o, "rank").writes)
    return [("len", lift(s.result.sym_len()) == n),
            ("incs[j]=P(j)", forall(j, implies(AND(j >= 0, j < n), lift(s.result.fn(j)) == g.P(j)))),
            ("frame:no-writes", w == s.old.writes)]


def fo_result(ctx, s):
    return ctx.fresh_arr("incs", (F(s.uf, "$n"),), "real")


C_FINAL = Contract(
    f"{IU}:_final_offsets", setup=fo_setup, requires=fo_requires, ensures=fo_ensures, snapshot=snap, result=fo_result,
    loops={0: LoopSpec(inv=fo_outer_inv),
           1: LoopSpec(inv=fo_inner_inv, variant=lambda s: F(s.uf, "$g").D(lift(s.root)), kinds={"total": "real", "root": "int"})},
)

# ---- _find_wrap / _wrap_to_pi (pointwise)


def fw_setup(ctx):
    return NS(a=ctx.fresh("a", "real"), b=ctx.fresh("b", "real"))


def fw_spec(a, b):
    d = lift(a) - lift(b)
    return z3.If(d > PI, -1, z3.If(d < -PI, 1, 0))


C_FINDWRAP = Contract(
    f"{IU}:_find_wrap", setup=fw_setup,
    ensures=lambda s: [] if isinstance(s.result, SymArr) else [("value", lift(s.result) == fw_spec(s.a, s.b))],  # arrays: elementwise by construction in `result`
    result=lambda ctx, s: Sym(fw_spec(s.a, s.b)) if not isinstance(s.a, SymArr) else V.elementwise(lambda p, q: Sym(fw_spec(p, q)), s.a, s.b, kind="int"),
)


def wp_setup(ctx):
    return NS(x=ctx.fresh("x", "real"))


def wp_ensures(s):
    if isinstance(s.x, SymArr):  # call sites with tensors: the same two facts for every element (M = ghost wrap count)
        idx = [I(f"i!w{d}") for d in range(s.x.ndim)]
        rng = AND(*[AND(i >= 0, i < lift(d)) for i, d in zip(idx, s.x.shape)])
        r, x = lift(s.result.fn(*idx)), lift(s.x.fn(*idx))
        M = s.result.wraps
        return [("range[-pi,pi)", forall(idx, implies(rng, AND(r >= -PI, r < PI)))),
                ("congruent-mod-2pi", forall(idx, implies(rng, r == x - 2 * PI * z3.ToReal(M(*idx)))))]
    r, x = lift(s.result), lift(s.x)
    m = I("m")
    return [("range[-pi,pi)", AND(r >= -PI, r < PI)),
            ("congruent-mod-2pi", z3.Exists([m], r == x - 2 * PI * z3.ToReal(m)))]


def wp_result(ctx, s):
    if isinstance(s.x, SymArr):
        r = ctx.fresh_arr("wrapped", s.x.shape, "real")
        r.as_type = getattr(s.x, "as_type", None)
        r.wraps = z3.Function(ctx.fresh_name("wraps"), *([z3.IntSort()] * s.x.ndim), z3.IntSort())
        return r
    return ctx.fresh("wrapped", "real")


C_WRAP = Contract(f"{IU}:_wrap_to_pi", setup=wp_setup, ensures=wp_ensures, result=wp_result)

# ---- the reliability-sorting driver: edge loop over union-find, final offsets, output formula
# Ghost: kk(v) = true wrap count of pixel v (phi_true = psi + 2 pi kk); ADJ(p, q) = "(p, q) is an edge the code may process"
# (4-neighbour pair, both valid; periodic if wrap_around) - its concrete meaning is validated by the bounded _build_edges oracle.
KK = z3.Function("kk", z3.IntSort(), z3.IntSort())
ADJ = z3.Function("adj", z3.IntSort(), z3.IntSort(), z3.BoolSort())


def drv_setup(ctx):
    H, W = ctx.fresh("H", "int"), ctx.fresh("W", "int")
    ctx.assume(AND(H.t >= 1, W.t >= 1))
    phi = ctx.fresh_arr("psi", (H, W), "real")
    phi.as_type = __import__("torch").Tensor
    has_mask = ctx.branch(ctx.fresh("has_mask", "bool").t)
    mask = ctx.fresh_arr("mask", (H, W), "bool") if has_mask else None
    wrap = ctx.fresh("wrap_around", "bool")
    ctx.ghost["driver_args"] = dict(phi=phi, mask=mask, wrap_around=wrap)
    return NS(phi=phi, mask=mask, wrap_around=wrap, H=H, W=W)


def psi_flat(s, v):
    rm = V.rowmajor((s.H, s.W))
    return lift(s.phi.fn(rm.unr[0](v), rm.unr[1](v)))


def drv_requires(s):
    """Edge consistency: on every processable edge the code's wrap increment equals the true wrap-count difference.
    Lemma `itoh` proves this from the property's hypothesis (neighbouring true phases differ by < pi; input wrapped into a
    2 pi interval or already smooth); keeping the pi-products out of the loop obligations keeps them linear."""
    p, q = I("p"), I("q")
    N = lift(s.H) * lift(s.W)
    return [("find_wrap-on-edges=true-wrap-difference", forall([p, q], implies(AND(p >= 0, p < N, q >= 0, q < N, ADJ(p, q)),
                                                                               fw_spec(psi_flat(s, p), psi_flat(s, q)) == KK(p) - KK(q))))]


def _frame_snapshot(s):
    """Write counters / content functions of the array arguments at entry (frame clauses: the caller's tensors are read only)."""
    return NS(**{k: (getattr(s, k).writes, getattr(s, k).fn) for k in ("phi", "mask", "reliability")
                 if isinstance(getattr(s, k, None), V.SymArr)})


def _frame_clauses(s):
    out = []
    for k, lab in (("phi", "phase"), ("mask", "mask"), ("reliability", "reliability")):
        a = getattr(s, k, None)
        if isinstance(a, V.SymArr) and hasattr(s.old, k):
            w, fn = getattr(s.old, k)
            out.append((f"frame:the-caller's-{lab}-tensor-is-not-written", a.writes == w and a.fn is fn))
    return out


def be_result(ctx, s):
    E = ctx.fresh("n_edges", "int")
    ctx.assume(E.t >= 0)
    i1, i2, inc = ctx.fresh_arr("i1", (E,), "int"), ctx.fresh_arr("i2", (E,), "int"), ctx.fresh_arr("inc", (E,), "int")
    for a in (i1, i2, inc):
        a.as_type = __import__("torch").Tensor
    return (i1, i2, inc)


def be_ensures(s):
    i1, i2, inc = s.result
    j = I("j")
    H, W = s.phi.shape
    N = lift(H) * lift(W)
    E = lift(i1.sym_len())
    inj = AND(j >= 0, j < E)
    a, b = lift(i1.fn(j)), lift(i2.fn(j))
    rm = V.rowmajor((H, W))
    pf = lambda v: lift(s.phi.fn(rm.unr[0](v), rm.unr[1](v)))
    out = [("same-length", AND(lift(i2.sym_len()) == E, lift(inc.sym_len()) == E)),
           ("endpoints-in-range", forall(j, implies(inj, AND(a >= 0, a < N, b >= 0, b < N)))),
           ("edges-are-adjacent-valid-pairs", forall(j, implies(inj, ADJ(a, b)))),
           ("inc=find_wrap(phi[i1],phi[i2])-of-the-GIVEN-phase", forall(j, implies(inj, lift(inc.fn(j)) == fw_spec(pf(a), pf(b)))))]
    # COMPLETENESS of the edge set: every (right / down) neighbour pair of valid pixels occurs as an edge.
    p, q = I("p"), I("q")
    inpq = AND(p >= 0, p < N, q >= 0, q < N)
    mf = None if s.mask is None else (lambda v: lift(s.mask.fn(rm.unr[0](v), rm.unr[1](v))))
    if s.mode == "verify":
        for kind in ("right", "down"):
            # explicit witnesses: the rows where a straightforward implementation can have put that (undirected) edge -
            # either block of torch.cat, keyed by either endpoint - so that harmless reorderings still verify
            hyp = AND(inpq, _directed_adj_kind(kind, p, q, H, W, s.wrap_around, mf))
            cands = []
            for jw in _edge_witnesses(s, kind, p, q):
                cands.append(AND(jw >= 0, jw < E, OR(AND(lift(i1.fn(jw)) == p, lift(i2.fn(jw)) == q),
                                                     AND(lift(i1.fn(jw)) == q, lift(i2.fn(jw)) == p))))
            out.append((f"edge-set-complete:{kind}-neighbour-pair-is-an-edge", forall([p, q], implies(hyp, OR(*cands)))))
    else:
        J = z3.Function(s.ctx.fresh_name("edge_of"), z3.IntSort(), z3.IntSort(), z3.IntSort())
        jj = J(p, q)
        out.append(("edge-set-complete", forall([p, q], implies(AND(inpq, ADJ(p, q)), AND(jj >= 0, jj < E,
                    OR(AND(lift(i1.fn(jj)) == p, lift(i2.fn(jj)) == q), AND(lift(i1.fn(jj)) == q, lift(i2.fn(jj)) == p)))),
                    patterns=[ADJ(p, q)])))
    return out


def _directed_adj_kind(kind, p, q, H, W, wrap, maskfn):
    rm = V.rowmajor((H, W))
    Hh, Ww = lift(H), lift(W)
    r, c = rm.unr[0](p), rm.unr[1](p)
    w = lift(wrap)
    wrapc = lambda t, n: z3.If(t + 1 >= n, t + 1 - n, t + 1)
    if kind == "right":
        geo = z3.If(w, q == rm.lin(r, wrapc(c, Ww)), AND(c + 1 < Ww, q == rm.lin(r, c + 1)))
    else:
        geo = z3.If(w, q == rm.lin(wrapc(r, Hh), c), AND(r + 1 < Hh, q == rm.lin(r + 1, c)))
    if maskfn is None:
        return geo
    return AND(geo, maskfn(p), maskfn(q))


def _edge_witnesses(s, kind, p, q):
    """Candidate rows of the returned tensors for the `kind` edge {p, q}, read off the ghosts of the library models the real
    code went through: position in a source index vector -> boolean-mask selection (D) -> block offset in torch.cat ->
    inverse of the argsort permutation (tau).  Candidates: either cat block, keyed by either endpoint."""
    g = s.ctx.ghost
    H, W = s.phi.shape
    rm = V.rowmajor((H, W))
    r, c = rm.unr[0](p), rm.unr[1](p)
    wrap = lift(s.wrap_around)
    is_wrap = z3.is_true(z3.simplify(wrap)) or s.ctx.entails(wrap)
    if is_wrap:
        ts = [p, q]
    else:
        shape = (H, S(W) - 1) if kind == "right" else (S(H) - 1, W)
        ts = [V.rowmajor(shape).lin(r, c)]
    comp = g.get("compress_order", [])
    if not g.get("argsort"):
        return []
    SG, TAU, _ = g["argsort"][-1]
    out = []
    for blk in (0, 1):
        for t in ts:
            if s.mask is not None:
                if len(comp) < 2:
                    continue
                first = lift(comp[0][0])
                row = comp[blk][3](t)
            else:
                other = "down" if kind == "right" else "right"
                size = lambda k: (lift(H) * lift(W)) if is_wrap else (lift(H) * (lift(W) - 1) if k == "right" else (lift(H) - 1) * lift(W))
                first = size(kind) if blk == 1 and False else None
                row = t
                # block offset when this kind's edges come second: the size of the other kind's block
                first = size(other)
            out.append(TAU(row if blk == 0 else first + row))
    return out


def concrete_adj(p, q, H, W, wrap, maskfn):
    """p and q are 4-neighbours (periodic if wrap), both valid - in either order (edges are undirected)."""
    return OR(_directed_adj(p, q, H, W, wrap, maskfn), _directed_adj(q, p, H, W, wrap, maskfn))


def _directed_adj(p, q, H, W, wrap, maskfn):
    """q is the right or down neighbour of p; flat indices are row-major."""
    rm = V.rowmajor((H, W))
    Hh, Ww = lift(H), lift(W)
    r, c = rm.unr[0](p), rm.unr[1](p)
    w = lift(wrap)
    wrapc = lambda t, n: z3.If(t + 1 >= n, t + 1 - n, t + 1)  # (t + 1) mod n for 0 <= t < n
    right_w = q == rm.lin(r, wrapc(c, Ww))
    down_w = q == rm.lin(wrapc(r, Hh), c)
    right_b = AND(c + 1 < Ww, q == rm.lin(r, c + 1))
    down_b = AND(r + 1 < Hh, q == rm.lin(r + 1, c))
    geo = z3.If(w, OR(right_w, down_w), OR(right_b, down_b))
    if maskfn is None:
        return geo
    return AND(geo, maskfn(p), maskfn(q))


def be_setup(ctx):
    """The ghost relation ADJ (uninterpreted in the driver's contract, which therefore holds for EVERY relation) is DEFINED
    here as the concrete neighbour relation; the definition is an assumption of this verification only (nothing to prove at
    call sites), which makes the composition driver + _build_edges a statement about the concrete neighbour relation."""
    s = drv_setup(ctx)
    s.reliability = ctx.fresh_arr("reliability", (s.H, s.W), "real")
    s.reliability.as_type = __import__("torch").Tensor
    p, q = I("p"), I("q")
    H, W = s.phi.shape
    N = lift(H) * lift(W)
    rm = V.rowmajor((H, W))
    mf = None if s.mask is None else (lambda v: lift(s.mask.fn(rm.unr[0](v), rm.unr[1](v))))
    ctx.assume(forall([p, q], implies(AND(p >= 0, p < N, q >= 0, q < N), ADJ(p, q) == concrete_adj(p, q, H, W, s.wrap_around, mf)),
                      patterns=[ADJ(p, q)]))
    return s


def be_requires(s):
    """At the driver's call site the edge builder must be given the driver's OWN phase, mask and wrap_around (the meaning
    of the ghost relation ADJ - which pixel pairs the smoothness hypothesis speaks about - is tied to those arguments)."""
    da = s.ctx.ghost.get("driver_args")
    if s.mode != "apply" or da is None:
        return []
    same_wrap = (s.wrap_around is da["wrap_around"]) or (isinstance(s.wrap_around, Sym) and z3.eq(s.wrap_around.t, da["wrap_around"].t))
    return [("phase-is-the-driver's", s.phi is da["phi"]),
            ("mask-is-the-driver's", s.mask is da["mask"]),
            ("wrap_around-is-the-driver's", same_wrap)]


C_BUILD = Contract(f"{IU}:_build_edges", setup=be_setup, requires=be_requires, ensures=lambda s: be_ensures(s) + _frame_clauses(s), result=be_result,
                   snapshot=_frame_snapshot,
                   inline=[], note="edge SET completeness (every neighbour pair is present) is covered by the bounded oracle only")


def rel_setup(ctx):
    s = drv_setup(ctx)
    return NS(phi=s.phi, mask=s.mask, H=s.H, W=s.W)


def rel_ensures(s):
    r = s.result
    ok_shape = isinstance(r, V.SymArr) and len(r.shape) == 2 and AND(lift(r.shape[0]) == lift(s.phi.shape[0]), lift(r.shape[1]) == lift(s.phi.shape[1]))
    return _frame_clauses(s) + [("one-reliability-value-per-pixel", ok_shape)]


C_REL = Contract(f"{IU}:_pixel_reliability", setup=rel_setup, ensures=rel_ensures, snapshot=_frame_snapshot,
                 result=lambda ctx, s: ctx.fresh_arr("reliability", s.phi.shape, "real"),
                 note="only orders the edges (the unwrapping result does not depend on its values); verified: reads its arguments only")


def drv_loop_inv(s):
    uf = s.uf
    g = F(uf, "$g")
    n = lift(F(uf, "$n"))
    v, j = I("v"), I("j")
    s.ctx.ghost["uf"] = uf
    s.ctx.ghost["edges"] = (s.i1, s.i2, s.inc)
    return ([("Inv:" + a, b) for a, b in uf_inv(uf)] +
            [("n=H*W", n == lift(s.N)),
             ("potential=k-k(root)", forall(v, implies(AND(v >= 0, v < n), g.P(v) == z3.ToReal(KK(v) - KK(g.R(v)))))),
             ("processed-edges-merged", forall(j, implies(AND(j >= 0, j < lift(s.k)), g.R(lift(s.i1.fn(j))) == g.R(lift(s.i2.fn(j))))))])


def drv_havoc(s):
    # the loop body mutates the union-find through `union` (by contract): havoc its state for the arbitrary iteration
    uf = s.uf
    n = F(uf, "$n")
    ctx = s.ctx
    uf.fields["parent"] = ctx.fresh_arr("parent", (n,), "int")
    uf.fields["offset"] = ctx.fresh_arr("offset", (n,), "real")
    uf.fields["rank"] = ctx.fresh_arr("rank", (n,), "int")
    uf.fields["$g"] = ghost(ctx, "l")


def drv_ensures(s):
    uf = s.ctx.ghost["uf"]
    i1, i2, inc = s.ctx.ghost["edges"]
    g = F(uf, "$g")
    out = s.result
    H, W = lift(s.H), lift(s.W)
    N = H * W
    u, v, j, m = I("u"), I("v"), I("j"), I("m")
    rm = V.rowmajor((s.H, s.W))
    of = lambda t: lift(out.fn(rm.unr[0](t), rm.unr[1](t)))
    phit = lambda t: psi_flat(s, t) + 2 * PI * z3.ToReal(KK(t))
    inr = lambda t: AND(t >= 0, t < N)
    c = Rl("c")
    return [
        ("shape", AND(lift(out.shape[0]) == H, lift(out.shape[1]) == W)),
        ("same-root=>out-phi_true-is-the-same-constant", forall([u, v], implies(AND(inr(u), inr(v), g.R(u) == g.R(v)), of(u) - phit(u) == of(v) - phit(v)))),
        ("every-edge-is-merged", forall(j, implies(AND(j >= 0, j < lift(i1.sym_len())), g.R(lift(i1.fn(j))) == g.R(lift(i2.fn(j)))))),
        ("adjacent-valid-pixels-share-a-root", forall([u, v], implies(AND(inr(u), inr(v), ADJ(u, v)), g.R(u) == g.R(v)))),
        # "one constant": the residual is the same for every pair of pixels (witness-free form of `exists c`)
        ("out-input-in-2pi*Z+one-constant", forall([u, v], implies(AND(inr(u), inr(v)),
            of(u) - psi_flat(s, u) - 2 * PI * z3.ToReal(g.Pi(u)) == of(v) - psi_flat(s, v) - 2 * PI * z3.ToReal(g.Pi(v))))),
        ("no-wraps-needed=>unchanged-up-to-constant", implies(forall(v, implies(inr(v), KK(v) == 0)),
            forall([u, v], implies(AND(inr(u), inr(v)), of(u) - psi_flat(s, u) == of(v) - psi_flat(s, v))))),
    ]


C_DRIVER = Contract(
    f"{IU}:_unwrap_phase_2d_torch_reliability_sorting", setup=drv_setup, requires=drv_requires, ensures=lambda s: drv_ensures(s) + _frame_clauses(s),
    snapshot=_frame_snapshot,
    loops={0: LoopSpec(inv=drv_loop_inv, havoc={"uf": drv_havoc})},
)

# ---- dispatch and the bright-field embedding: every pass must receive the caller's method / mask / wrap_around
DPU = "quantem.diffractive_imaging.direct_ptycho_utils"


def disp_setup(ctx):
    s = drv_setup(ctx)
    s.phi_wrapped = s.phi
    s.method = "reliability-sorting"
    s.regularization_lambda = None
    return s


def disp_ensures(s):
    r = s.interp.ctx.ghost.get("driver_call")
    return [("dispatches-to-the-reliability-sorting-driver-with-the-same-arguments",
             r is not None and r[0] is s.phi and r[1] is s.mask and (r[2] is s.wrap_around))]


def drvstub_result(ctx, s):
    ctx.ghost["driver_call"] = (s.phi, s.mask, s.wrap_around)
    return ctx.fresh_arr("unwrapped", s.phi.shape, "real")


C_DRIVER_STUB = Contract(f"{IU}:_unwrap_phase_2d_torch_reliability_sorting", setup=None, result=drvstub_result,
                         note="call-site stub used while verifying the dispatcher: records the arguments it was given")


def bf_setup(ctx):
    import torch

    K = ctx.fresh("n_bf", "int")
    H, W = ctx.fresh("H", "int"), ctx.fresh("W", "int")
    ctx.assume(AND(K.t >= 1, H.t >= 1, W.t >= 1))
    data = ctx.fresh_arr("complex_data_bf", (K,), "real")
    mask_bf = ctx.fresh_arr("mask_bf", (K,), "bool")
    bf_mask = ctx.fresh_arr("bf_mask", (H, W), "bool")
    for a in (data, mask_bf, bf_mask):
        a.as_type = torch.Tensor
    wrap = ctx.fresh("wrap_around", "bool")
    two_pass = ctx.fresh("two_pass", "bool")
    ctx.ghost["expected"] = dict(wrap_around=wrap, method="reliability-sorting")
    ctx.ghost["passes"] = []
    return NS(complex_data_bf=data, mask_bf=mask_bf, bf_mask=bf_mask, method="reliability-sorting", two_pass=two_pass,
              kwargs=dict(wrap_around=wrap))


def up_requires(s):
    exp = s.ctx.ghost["expected"]
    wa = s.wrap_around
    same = (wa is exp["wrap_around"]) if not isinstance(wa, bool) else False
    return [("wrap_around-is-the-caller's", same), ("method-is-the-caller's", s.method == exp["method"]),
            ("a-validity-mask-is-passed", s.mask is not None)]


def up_result(ctx, s):
    ctx.ghost["passes"].append(s.mask)
    r = ctx.fresh_arr("unwrapped", s.phi_wrapped.shape, "real")
    r.as_type = __import__("torch").Tensor
    return r


C_UNWRAP_ANY = Contract(f"{IU}:unwrap_phase_2d_torch", setup=disp_setup, requires=None, ensures=disp_ensures,
                        overrides={f"{IU}:_unwrap_phase_2d_torch_reliability_sorting": C_DRIVER_STUB})
C_UNWRAP_CALLEE = Contract(f"{IU}:unwrap_phase_2d_torch", setup=None, requires=up_requires, result=up_result,
                           note="call-site view used while verifying unwrap_bf_overlap_phase_torch")


def bf_ensures(s):
    passes = s.ctx.ghost["passes"]
    return [("all-passes-use-the-same-validity-grid", all(m is passes[0] for m in passes) if passes else True),
            ("at-most-two-passes", len(passes) <= 2),
            ("second-pass-only-when-two_pass", implies(NOT(s.two_pass), len(passes) <= 1))]


C_BFOVERLAP = Contract(f"{DPU}:unwrap_bf_overlap_phase_torch", setup=bf_setup, ensures=bf_ensures,
                       overrides={f"{IU}:unwrap_phase_2d_torch": C_UNWRAP_CALLEE})

CONTRACTS = [C_INIT, C_FIND, C_UNION, C_FINAL, C_FINDWRAP, C_WRAP, C_REL, C_BUILD, C_DRIVER, C_UNWRAP_ANY, C_BFOVERLAP]
ASSUMED_CONTRACTS = []

# ------------------------------------------------------------------------------------------------
# lemmas
# ------------------------------------------------------------------------------------------------


def lemma_itoh(ctx):
    """Itoh: for neighbouring samples of a smooth field the code's wrap increment equals the true wrap-count difference."""
    phip, phiq, psip, psiq = Rl("phi_p"), Rl("phi_q"), Rl("psi_p"), Rl("psi_q")
    kp, kq = I("k_p"), I("k_q")
    hyp = [PI > 3, phip == psip + 2 * PI * z3.ToReal(kp), phiq == psiq + 2 * PI * z3.ToReal(kq), phip - phiq < PI, phip - phiq > -PI]
    wrapped = [psip > -PI, psip <= PI, psiq > -PI, psiq <= PI]
    return [
        ("wrapped-samples-differ-by-at-most-one-wrap", hyp + wrapped, AND(kp - kq <= 1, kp - kq >= -1)),
        ("find_wrap=k_p-k_q", hyp + [kp - kq <= 1, kp - kq >= -1], fw_spec(psip, psiq) == kp - kq),
        ("smooth-unwrapped-input-gives-zero", [PI > 3, psip - psiq < PI, psip - psiq > -PI], fw_spec(psip, psiq) == 0),
    ]


def lemma_main_loop(ctx):
    """One step of the edge loop of _unwrap_phase_2d_torch_reliability_sorting, from the contract of `union` alone:
    the invariant  P(v) = k(v) - k(R(v))  (k = true wrap count) is preserved by union(x, y, k(x)-k(y))."""
    n, x, y = I("n"), I("x"), I("y")
    k = z3.Function("kk", z3.IntSort(), z3.IntSort())
    R, R2 = z3.Function("R", z3.IntSort(), z3.IntSort()), z3.Function("R2", z3.IntSort(), z3.IntSort())
    P, P2 = z3.Function("P", z3.IntSort(), z3.RealSort()), z3.Function("P2", z3.IntSort(), z3.RealSort())
    ax = z3.Bool("attach_x")
    v, t = I("v"), I("t")
    inr = lambda q: AND(q >= 0, q < n)
    rx, ry = R(x), R(y)
    inc = k(x) - k(y)
    delta = P(x) - P(y) - z3.ToReal(inc)
    same = rx == ry
    wR = lambda q: z3.If(same, R(q), z3.If(ax, z3.If(R(q) == rx, ry, R(q)), z3.If(R(q) == ry, rx, R(q))))
    wP = lambda q: z3.If(same, P(q), z3.If(ax, z3.If(R(q) == rx, P(q) - delta, P(q)), z3.If(R(q) == ry, P(q) + delta, P(q))))
    hyp = [n >= 1, inr(x), inr(y),
           forall(v, implies(inr(v), P(v) == z3.ToReal(k(v) - k(R(v))))),
           forall(v, implies(inr(v), AND(R2(v) == wR(v), P2(v) == wP(v)))),
           forall(v, implies(inr(v), inr(R(v))))]
    return [
        ("P=k-k(root)-preserved", hyp + [inr(t)], P2(t) == z3.ToReal(k(t) - k(R2(t)))),
        ("edge-endpoints-share-root-afterwards", hyp, R2(x) == R2(y)),
        ("merged-pairs-stay-merged", hyp + [inr(t), inr(v), R(t) == R(v)], R2(t) == R2(v)),
        ("initially", [n >= 1, inr(t), forall(v, implies(inr(v), AND(R(v) == v, P(v) == 0)))], P(t) == z3.ToReal(k(t) - k(R(t)))),
    ]


def lemma_output(ctx):
    """out = psi + 2 pi P - mean; with P(v) = k(v) - k(R(v)) and phi = psi + 2 pi k:
    out(v) - phi(v) is the same for all v with the same root; out - psi is 2 pi * integer + const."""
    psi = z3.Function("psi", z3.IntSort(), z3.RealSort())
    phi = z3.Function("phi", z3.IntSort(), z3.RealSort())
    k = z3.Function("kk", z3.IntSort(), z3.IntSort())
    R = z3.Function("R", z3.IntSort(), z3.IntSort())
    P = z3.Function("P", z3.IntSort(), z3.RealSort())
    mean = Rl("mean")
    u, v = I("u"), I("v")
    out = lambda q: psi(q) + 2 * PI * P(q) - mean
    hyp = [P(u) == z3.ToReal(k(u) - k(R(u))), P(v) == z3.ToReal(k(v) - k(R(v))),
           phi(u) == psi(u) + 2 * PI * z3.ToReal(k(u)), phi(v) == psi(v) + 2 * PI * z3.ToReal(k(v))]
    m = I("m")
    return [
        ("same-root=>same-constant", hyp + [R(u) == R(v)], out(u) - phi(u) == out(v) - phi(v)),
        ("differs-from-input-by-2pi-multiples", [P(u) == z3.ToReal(I("Pi_u"))], z3.Exists([m], out(u) - psi(u) == 2 * PI * z3.ToReal(m) - mean)),
        ("all-zero-wraps=>unchanged-up-to-constant", [P(u) == 0], out(u) == psi(u) - mean),
    ]


LEMMAS = [Lemma("itoh", lemma_itoh), Lemma("edge-loop-step", lemma_main_loop, uses=["UnionFindPhase.union"]), Lemma("output", lemma_output)]

TRUSTED = [
    "torch 1-D tensor element get/set = array select/store; torch.arange / zeros / where pointwise semantics",
    "path induction (adjacent pixels share a root => one root, hence one constant, per connected region) is lemmas/discrete.lean D2, proved from Mathlib in the thorough tier; trusted: that the Lean statement (equivalence closure of ADJ) is the 'connected region' of the property",
    "pyvc engine, z3, cvc5",
]
ASSUMPTIONS = ["A1 floats are reals", "A2 int64/float32 index stacking in _build_edges exact below 2^24 pixels (not proved)",
               "_build_edges: soundness (in range, 4-neighbours, both valid, increment of the GIVEN phase) AND completeness (every right/down "
               "neighbour pair of valid pixels occurs as an edge, by explicit witnesses through the mask-selection and argsort ghosts) are proved "
               "from the real source; the driver then proves 'adjacent valid pixels share a root'; what remains trusted is path induction from "
               "adjacency to connected regions",
               "_pixel_reliability only orders the edges (result independent of it); its values are not specified",
               "values.RowMajor axioms (row-major bijection for symbolic H x W): proved for lin = i*W+j, unr = (v/W, v%W) in lemmas/discrete.lean D1 (thorough tier); the SMT obligations use them as axioms",
               "boolean-mask indexing x[m] (1-d) = order-preserving enumeration of the true positions, shared selection map per mask object; argsort = bijection (trusted torch contracts)"]
LEAN_FILES = ["discrete.lean"]
EXPLANATION = "VCs from the real source of UnionFindPhase/_final_offsets/_find_wrap/_wrap_to_pi with ghost root/potential/depth functions; property lemmas from the contracts"

# ------------------------------------------------------------------------------------------------
# run-time oracles: the same statements evaluated on the REAL functions (replay + bounded stand-in)
# ------------------------------------------------------------------------------------------------


def _field(kind, H, W, seed, periodic):
    import numpy as np

    rng = np.random.default_rng(seed)
    y, x = np.meshgrid(np.arange(H), np.arange(W), indexing="ij")
    if kind == "ramp-steep":  # 3 rad per pixel along the long axis: ~0.48 wraps per pixel
        return 3.0 * (x if W >= H else y).astype(float) + 0.3 * (y if W >= H else x)
    if kind == "periodic-big":  # several wraps along the longer axis, smooth across the periodic seam
        n = max(H, W)
        t = (y if H >= W else x).astype(float)
        return 9.0 * np.cos(2 * np.pi * (t - rng.integers(0, n)) / n) + (0.6 * np.sin(2 * np.pi * (x if H >= W else y) / max(1, min(H, W))) if min(H, W) > 2 else 0.0)
    if periodic:
        a, b = rng.integers(0, 3), rng.integers(0, 3)
        f = 2.4 * np.sin(2 * np.pi * (a * y / H + b * x / W) + rng.uniform(0, 6)) + 1.7 * np.cos(2 * np.pi * y / H) * (H > 2)
        scale = 1.0
        for _ in range(40):
            g = f * scale
            d = max(np.abs(g - np.roll(g, 1, 0)).max(), np.abs(g - np.roll(g, 1, 1)).max())
            if d < 3.0:
                break
            scale *= 0.8
        return f * scale * rng.choice([1.0, 3.0, 6.0]) if False else _rescale(f, True)
    if kind == "ramp":
        f = rng.uniform(-2.9, 2.9) * y + rng.uniform(-2.9, 2.9) * x
    elif kind == "quadratic":
        f = 0.35 * ((y - H / 2.3) ** 2 + 0.6 * (x - W / 1.7) ** 2)
    elif kind == "bump":
        f = 14.0 * np.exp(-((y - H / 2) ** 2 + (x - W / 2) ** 2) / (0.18 * (H * W) + 1))
    else:
        f = rng.normal(size=(H, W)).cumsum(0).cumsum(1)
    return _rescale(f, False)


def _rescale(f, periodic):
    import numpy as np

    def maxd(g):
        d = 0.0
        if g.shape[0] > 1:
            d = max(d, np.abs(np.diff(g, axis=0)).max())
        if g.shape[1] > 1:
            d = max(d, np.abs(np.diff(g, axis=1)).max())
        if periodic:
            d = max(d, np.abs(g - np.roll(g, 1, 0)).max(), np.abs(g - np.roll(g, 1, 1)).max())
        return d

    d = maxd(f)
    if d >= 3.0:
        f = f * (3.0 / d) * 0.98
    return f


def _mask(kind, H, W, seed):
    import numpy as np

    if kind == "none":
        return None
    rng = np.random.default_rng(seed + 17)
    m = np.ones((H, W), bool)
    if kind == "hole" and H > 2 and W > 2:
        m[H // 2, W // 2] = False
        m[H // 2 - 1, W // 2] = False
    elif kind == "two":
        m[:, W // 2] = False
    elif kind == "random":
        m = rng.random((H, W)) > 0.3
    elif kind == "corner-disk":  # fft-ordered disk: four quadrants at the array corners, connected only periodically
        yy, xx = np.meshgrid(np.fft.fftfreq(H) * H, np.fft.fftfreq(W) * W, indexing="ij")
        m = (yy / max(1.0, H / 3.0)) ** 2 + (xx / max(1.0, W / 3.0)) ** 2 <= 1.0
    elif kind == "stripe":       # one masked-out column: the two sides touch only across the periodic seam
        m[:, W // 2] = False
    elif kind == "gap":          # a few masked-out lines across the LONGER axis (works for 1 x N and N x 1 grids)
        n = max(H, W)
        a = int(rng.integers(2, max(3, n - 4)))
        if H >= W:
            m[a:a + 3, :] = False
        else:
            m[:, a:a + 3] = False
    return m


def _components(m, periodic):
    import numpy as np

    H, W = m.shape
    lab = -np.ones((H, W), int)
    c = 0
    for i in range(H):
        for j in range(W):
            if m[i, j] and lab[i, j] < 0:
                st = [(i, j)]
                lab[i, j] = c
                while st:
                    a, b = st.pop()
                    for da, db in ((1, 0), (-1, 0), (0, 1), (0, -1)):
                        u, v = a + da, b + db
                        if periodic:
                            u, v = u % H, v % W
                        if 0 <= u < H and 0 <= v < W and m[u, v] and lab[u, v] < 0:
                            lab[u, v] = c
                            st.append((u, v))
                c += 1
    return lab, c


def rt_unwrap(inp):
    import numpy as np
    import torch
    from quantem.core.utils.imaging_utils import unwrap_phase_2d_torch

    H, W, periodic = inp["H"], inp["W"], inp["wrap_around"]
    phi = _field(inp["field"], H, W, inp["seed"], periodic).astype(np.float64)
    m = _mask(inp["mask"], H, W, inp["seed"])
    problems = []
    for label, src in (("wrapped", (phi + np.pi) % (2 * np.pi) - np.pi), ("already-unwrapped", phi)):
        t = torch.tensor(src, dtype=torch.float32)
        mt = None if m is None else torch.tensor(m)
        t0, m0 = t.clone(), (None if mt is None else mt.clone())
        out = unwrap_phase_2d_torch(t, method="reliability-sorting", mask=mt, wrap_around=periodic).numpy().astype(np.float64)
        if not torch.equal(t, t0) or (mt is not None and not torch.equal(mt, m0)):
            problems.append(f"{label}: the caller's input tensor was modified by the call ({int((t != t0).sum())} pixels differ)")
        mm = np.ones((H, W), bool) if m is None else m
        lab, nc = _components(mm, periodic)
        for c in range(nc):
            d = (out - phi)[lab == c]
            if d.size and d.max() - d.min() > 2e-3:
                problems.append(f"{label}: out-phi varies by {d.max() - d.min():.3f} on component {c}")
                break
        q = (out - src) / (2 * np.pi)
        q = q - q.flat[0]
        if np.abs(q - np.round(q)).max() > 2e-3:
            problems.append(f"{label}: out-input is not 2pi*integer + const (max frac {np.abs(q - np.round(q)).max():.3f})")
    return dict(violated=bool(problems), observed="; ".join(problems[:3]) or "ok",
                expected="out = phi + const on every connected mask region; out - input in 2pi*Z + const")


def fam_unwrap(tier="quick", seed=0):
    shapes = [(1, 4), (2, 2), (3, 3), (3, 5), (4, 4), (5, 4), (6, 7)] + ([(8, 8), (9, 12), (16, 11)] if tier == "thorough" else [])
    for (H, W) in shapes:
        for field in ("ramp", "quadratic", "bump", "random"):
            for mask in ("none", "hole", "two", "random"):
                yield dict(H=H, W=W, field=field, mask=mask, wrap_around=False, seed=seed + H * 31 + W)
        for mask in ("none", "hole", "corner-disk", "stripe"):
            yield dict(H=H, W=W, field="periodic", mask=mask, wrap_around=True, seed=seed + H * 7 + W)
    # more than 128 / 256 wraps inside one region (a narrow integer dtype for the accumulated offsets would overflow)
    yield dict(H=2, W=700, field="ramp-steep", mask="none", wrap_around=False, seed=seed)
    yield dict(H=5, W=400, field="ramp-steep", mask="two", wrap_around=False, seed=seed + 1)
    # grids with a length-1 axis and long periodic profiles (several wraps, valid arc connected only across the seam)
    for (H, W) in [(1, 24), (24, 1), (1, 48), (3, 30)] + ([(48, 1), (2, 40)] if tier == "thorough" else []):
        for mask in ("none", "gap"):
            for k in range(3):
                yield dict(H=H, W=W, field="periodic-big", mask=mask, wrap_around=True, seed=seed + 100 * k + H * 7 + W)


def rt_edges(inp):
    import numpy as np
    import torch
    from quantem.core.utils import imaging_utils as iu

    H, W, periodic = inp["H"], inp["W"], inp["wrap_around"]
    rng = np.random.default_rng(inp["seed"])
    phi = torch.tensor(rng.uniform(-inp["amp"], inp["amp"], size=(H, W)), dtype=torch.float32)
    m = _mask(inp["mask"], H, W, inp["seed"])
    mt = None if m is None else torch.tensor(m)
    rel = iu._pixel_reliability(phi, mt)
    i1, i2, inc = iu._build_edges(phi, rel, mt, wrap_around=periodic)
    i1, i2, inc = i1.numpy(), i2.numpy(), inc.numpy()
    mm = np.ones((H, W), bool) if m is None else m
    exp = []
    for a in range(H):
        for b in range(W):
            for da, db in ((0, 1), (1, 0)):
                u, v = a + da, b + db
                if periodic:
                    u, v = u % H, v % W
                elif u >= H or v >= W:
                    continue
                if mm[a, b] and mm[u, v]:
                    exp.append((a * W + b, u * W + v))
    problems = []
    und = lambda pairs: sorted(tuple(sorted(pq)) for pq in pairs)  # edges are undirected
    if und(zip(i1.tolist(), i2.tolist())) != und(exp):
        problems.append(f"edge set differs: got {len(i1)} edges, expected {len(exp)}")
    pf = phi.flatten().numpy().astype(np.float64)
    d = pf[i1] - pf[i2]
    want = np.where(d > np.pi, -1, np.where(d < -np.pi, 1, 0))
    if len(i1) == len(want) and (inc != want).any():
        j = int(np.nonzero(inc != want)[0][0])
        problems.append(f"edge {j} ({i1[j]},{i2[j]}): inc={inc[j]} but find_wrap(phi[i1],phi[i2])={want[j]} (d={d[j]:.3f})")
    rf = rel.flatten().numpy()
    key = rf[i1] + rf[i2]
    if len(key) > 1 and (np.diff(key) < -1e-4).any():
        problems.append("edges not sorted by reliability")
    return dict(violated=bool(problems), observed="; ".join(problems) or "ok",
                expected="edges = all valid 4-neighbour pairs (periodic if wrap_around); inc = find_wrap of the GIVEN phase values; sorted by summed reliability")


def fam_edges(tier="quick", seed=0):
    for (H, W) in [(1, 3), (2, 2), (2, 3), (3, 3), (3, 4), (4, 5), (5, 5)]:
        for periodic in (False, True):
            for mask in ("none", "hole", "random"):
                for amp in (3.1, 9.0):
                    yield dict(H=H, W=W, wrap_around=periodic, mask=mask, amp=amp, seed=seed + H * 13 + W)


def rt_unionfind(inp):
    """Random consistent union sequences on the real UnionFindPhase: offsets must reproduce the hidden potential."""
    import numpy as np
    from quantem.core.utils.imaging_utils import UnionFindPhase, _final_offsets

    rng = np.random.default_rng(inp["seed"])
    n = inp["n"]
    k = rng.integers(-3, 4, size=n)
    uf = UnionFindPhase(n)
    comp = list(range(n))
    for _ in range(inp["steps"]):
        x, y = int(rng.integers(n)), int(rng.integers(n))
        uf.union(x, y, int(k[x] - k[y]))
        cx, cy = comp[x], comp[y]
        comp = [cx if c == cy else c for c in comp]
    incs = _final_offsets(uf).numpy()
    problems = []
    for c in set(comp):
        idx = [i for i in range(n) if comp[i] == c]
        d = incs[idx] - k[idx]
        if d.max() - d.min() > 1e-6:
            problems.append(f"component {idx[:6]}: offsets-k = {d.tolist()[:6]} not constant")
            break
        r0, _ = uf.find_root_and_offset(idx[0])
        if any(int(uf.find_root_and_offset(i)[0]) != int(r0) for i in idx):
            problems.append(f"component {idx[:6]} has several roots")
            break
    return dict(violated=bool(problems), observed="; ".join(problems) or "ok", expected="final offsets = hidden potential + const per merged component")


def fam_unionfind(tier="quick", seed=0):
    for n in (1, 2, 3, 5, 8):
        for steps in (0, 1, 3, 7, 15):
            for sd in range(3):
                yield dict(n=n, steps=steps, seed=seed + sd + 10 * n)



def rt_bf_overlap(inp):
    """unwrap_bf_overlap_phase_torch: masked embedding, one/two passes, kwargs forwarded to every pass."""
    import numpy as np
    import torch
    from quantem.diffractive_imaging.direct_ptycho_utils import unwrap_bf_overlap_phase_torch

    H, W, periodic = inp["H"], inp["W"], inp["wrap_around"]
    phi = _field(inp["field"], H, W, inp["seed"], periodic).astype(np.float64)
    rng = np.random.default_rng(inp["seed"])
    bf = _mask(inp["bf"], H, W, inp["seed"])
    bf = np.ones((H, W), bool) if bf is None else bf
    valid = np.ones(int(bf.sum()), bool)
    if inp["drop"]:
        valid[rng.integers(0, len(valid), size=max(1, len(valid) // 6))] = False
    data = np.exp(1j * phi[bf])
    out = unwrap_bf_overlap_phase_torch(torch.tensor(data, dtype=torch.complex64), torch.tensor(valid), torch.tensor(bf),
                                        method="reliability-sorting", two_pass=inp["two_pass"], wrap_around=periodic).numpy().astype(np.float64)
    grid = np.zeros((H, W)); grid[bf] = out
    mgrid = np.zeros((H, W), bool); mgrid[bf] = valid
    lab, nc = _components(mgrid, periodic)
    problems = []
    for c in range(nc):
        sel = lab == c
        d = (grid - phi)[sel]
        q = d / (2 * np.pi)
        # each pass subtracts a mean and re-masks, so the constant is arbitrary but must be ONE constant per region
        if d.size and d.max() - d.min() > 5e-3:
            problems.append(f"region {c}: unwrapped-true varies by {d.max() - d.min():.3f} (expected one constant)")
            break
    return dict(violated=bool(problems), observed="; ".join(problems) or "ok", expected="one additive constant per connected valid region, for one and two passes, bounded and periodic")


def fam_bf_overlap(tier="quick", seed=0):
    for (H, W) in [(4, 4), (5, 6), (7, 7), (8, 6)]:
        for field in ("ramp", "quadratic", "bump", "random"):
            for bf in ("none", "hole", "two"):
                for two_pass in (False, True):
                    for drop in (False, True):
                        yield dict(H=H, W=W, field=field, bf=bf, two_pass=two_pass, drop=drop, wrap_around=False, seed=seed + H + 3 * W)
        for two_pass in (False, True):
            yield dict(H=H, W=W, field="periodic", bf="none", two_pass=two_pass, drop=False, wrap_around=True, seed=seed + H)


for _c in (C_INIT, C_FIND, C_UNION, C_FINAL):
    _c.rt, _c.rt_family = rt_unionfind, fam_unionfind
for _c in (C_FINDWRAP, C_WRAP, C_REL, C_DRIVER, C_UNWRAP_ANY):
    _c.rt, _c.rt_family = rt_unwrap, fam_unwrap
C_BFOVERLAP.rt, C_BFOVERLAP.rt_family = rt_bf_overlap, fam_bf_overlap
C_BUILD.rt, C_BUILD.rt_family = rt_edges, fam_edges

BOUNDED = [
    Bounded.from_rt("union-find random consistent union sequences", rt_unionfind, fam_unionfind, "n<=8, <=15 unions, 3 seeds"),
    Bounded.from_rt("_build_edges/_pixel_reliability contract on small grids", rt_edges, fam_edges, "grids <=5x5, 3 masks, bounded+periodic, wrapped and unwrapped amplitudes"),
    Bounded.from_rt("unwrap_bf_overlap_phase_torch one/two pass on masked bright-field grids", rt_bf_overlap, fam_bf_overlap, "grids <=8x6, 5 field kinds, 3 bright-field masks, dropped pixels, bounded+periodic"),
    Bounded.from_rt("end-to-end unwrap of smooth fields", rt_unwrap, fam_unwrap, "grids <=6x7 (<=16x11 thorough), 5 field kinds, 4 masks, bounded+periodic"),
]
