"""C03 - Dataset containers stay coherent under any history of operations.

Contracts on the REAL functions of quantem.core.datastructures.dataset* and quantem.core.utils.validators:
representation invariant  Inv(ds):  len(origin) = len(sampling) = len(units) = array.ndim  and  class(ds) matches ndim,
frame ("source untouched": no write reaches a buffer reachable from old(self), no field of the source is rebound),
in-place == copying variant (self-composition: the real body is executed twice on twin objects and the final views compared),
and the __getitem__ bookkeeping (result data = numpy-indexed data, every result axis carries the calibration of the source
axis it came from, sampling multiplied by the slice step, class chosen by dimensionality).
"""
from __future__ import annotations

import itertools

import numpy as np
import z3

from pyvc import values as V
from pyvc.values import Sym, SymArr, Obj, S, lift, contains_sym
from pyvc.interp import NS, RaiseSig, PathEnd
from pyvc.registry import Contract, resolve
from pyvc.runner import Lemma, Bounded
from pyvc.lib import c03_models as cm
from pyvc.lib.c03_models import fresh_nd, fresh_seq, nd, mark_nd, OptInt, LenSym
from .common import registry, AND, OR, NOT, implies

LEVEL = "proof"
DS = "quantem.core.datastructures.dataset"
VA = "quantem.core.utils.validators"
MODS = {"Dataset": DS, "Dataset2d": DS + "2d", "Dataset3d": DS + "3d", "Dataset4d": DS + "4d", "Dataset4dstem": DS + "4dstem"}
CLS = {n: resolve(f"{m}:{n}") for n, m in MODS.items()}
Dataset = CLS["Dataset"]
FIXED = {"Dataset2d": 2, "Dataset3d": 3, "Dataset4d": 4, "Dataset4dstem": 4}
# (class name, ndim) configurations of a coherent dataset object: the generic class for ndim 1..5 plus every subclass
CONFIGS = [("Dataset", d) for d in range(1, 6)] + [(n, k) for n, k in FIXED.items()]
STD = ("_array", "_name", "_origin", "_sampling", "_units", "_signal_units")
TRUE, FALSE = z3.BoolVal(True), z3.BoolVal(False)

GETTERS = ["array", "name", "origin", "sampling", "units", "signal_units", "shape", "ndim", "dtype", "metadata", "file_path", "device"]


def B(x):
    """python bool / Sym / z3 -> z3 Bool"""
    if isinstance(x, bool):
        return z3.BoolVal(x)
    return lift(x)


CANARY = [False]


def pick(ctx, name, options):
    """Enumerate `options` by forking on a fresh integer (so a counter-model records the choice as pk_<name>).
    During the runner's vacuity canary (a second exploration with falsified postconditions, of which only the first two live
    paths are inspected) only the first two options of every choice are explored."""
    options = list(options)
    if CANARY[0]:
        options = options[:2]
    v = ctx.fresh("pk_" + name, "int")
    ctx.assume(z3.And(v.t >= 0, v.t < len(options)))
    for i in range(len(options) - 1):
        if ctx.branch(v.t == i):
            return options[i]
    return options[-1]


# ------------------------------------------------------------------------------------------------
# abstract dataset objects, the invariant, frames, view equality
# ------------------------------------------------------------------------------------------------


def fresh_vec(ctx, name, n, kind="real"):
    a = ctx.fresh_arr(name, (n,), kind)
    return mark_nd(a)


def mk_ds(ctx, clsname, ndim, tag="ds", custom=True):
    """An arbitrary dataset object of class `clsname` satisfying Inv (this IS the precondition Inv(self))."""
    f = dict(
        _array=fresh_nd(ctx, tag + "_a", ndim),
        _name=tag,
        _origin=fresh_vec(ctx, tag + "_o", ndim),
        _sampling=fresh_vec(ctx, tag + "_s", ndim),
        _units=[ctx.fresh(f"{tag}_u{i}", "str") for i in range(ndim)],
        _signal_units=ctx.fresh(tag + "_su", "str"),
        _file_path=None,
        _metadata={"r_to_q_rotation_cw_deg": None, "ellipticity": None} if clsname == "Dataset4dstem" else {"k": 1},
    )
    if clsname == "Dataset4dstem":
        f["_virtual_images"] = {}
        f["_virtual_detectors"] = {}
    if custom:
        f["custom_arr"] = fresh_vec(ctx, tag + "_c", 3)
        f["custom_num"] = ctx.fresh(tag + "_cn", "real")
    return Obj(CLS[clsname], f)


def class_ok(cls, ndim):
    """class <-> dimensionality, read from the REAL registry: a (subclass of a) class registered for k has ndim == k."""
    ok = True
    for k, c in Dataset._registry.items():
        if isinstance(cls, type) and issubclass(cls, c):
            ok = ok and (ndim == k)
    return ok


def seq_len(v):
    if isinstance(v, SymArr):
        if v.ndim != 1:
            return None
        return v.shape[0]
    if isinstance(v, (list, tuple)):
        return len(v)
    return None


def seq_at(v, i):
    if isinstance(v, SymArr):
        return v.fn(z3.IntVal(i))
    return v[i]


def inv_terms(o, what="Inv"):
    """Inv(ds) as labelled z3 Bools."""
    f = o.fields
    out = []
    a = f.get("_array")
    if not isinstance(a, SymArr) or a.pylist:
        return [(f"{what}:array-is-ndarray", FALSE)]
    ndim = a.ndim
    for nm in ("_origin", "_sampling"):
        x = f.get(nm)
        L = seq_len(x) if isinstance(x, SymArr) and not x.pylist else None
        out.append((f"{what}:len({nm[1:]})=ndim", FALSE if L is None else B(lift(L) == ndim)))
    u = f.get("_units")
    L = seq_len(u) if isinstance(u, (list, SymArr)) else None
    out.append((f"{what}:len(units)=ndim", FALSE if L is None else B(lift(L) == ndim)))
    out.append((f"{what}:class-matches-ndim", B(class_ok(o.cls, ndim))))
    return out


def stamp(x):
    if isinstance(x, SymArr):
        return ("arr", x, x.base, x.base.writes, x.writes)
    if isinstance(x, list):
        return ("list", x, tuple(x))
    if isinstance(x, dict):
        return ("dict", x, dict(x))
    return ("val", x)


def unwritten(st):
    if st[0] == "arr":
        _, x, b, bw, w = st
        return b.writes == bw and x.writes == w
    if st[0] == "list":
        return len(st[1]) == len(st[2]) and all(p is q for p, q in zip(st[1], st[2]))
    if st[0] == "dict":
        return st[1].keys() == st[2].keys() and all(st[1][k] is st[2][k] for k in st[2])
    return True


def snapshot_ds(o):
    return {k: stamp(v) for k, v in o.fields.items()}


def untouched_terms(o, snap, what="frame"):
    """`o` is exactly as in `snap`: no field added / removed / rebound, no reachable buffer, list or dict written."""
    f = o.fields
    same_keys = set(f) == set(snap)
    rebound = [k for k in snap if k in f and f[k] is not snap[k][1]]
    written = [k for k in snap if not unwritten(snap[k])]
    return [(f"{what}:no-field-added-or-removed", B(same_keys)),
            (f"{what}:no-field-rebound{'(' + ','.join(rebound) + ')' if rebound else ''}", B(not rebound)),
            (f"{what}:no-buffer-written{'(' + ','.join(written) + ')' if written else ''}", B(not written))]


OWN_CALIBRATION = ("_origin", "_sampling", "_units")


def buffers_unwritten_terms(snap, what="frame"):
    """in-place variants may rebind fields and may update their OWN calibration containers (these are never shared between datasets:
    clauses `calibration-containers-not-shared-with-source`), but must not write a data buffer that existed before the call:
    __getitem__/crop results are numpy views, so such a write would change another dataset of the history."""
    written = [k for k in snap if k not in OWN_CALIBRATION and not unwritten(snap[k])]
    return [(f"{what}:no-preexisting-buffer-written{'(' + ','.join(written) + ')' if written else ''}", B(not written))]


def is_fresh(x, snap):
    """x shares no buffer with anything recorded in snap."""
    if isinstance(x, SymArr):
        return all(not (st[0] == "arr" and (x.base is st[2] or x.base is st[1] or x is st[1])) for st in snap.values())
    if isinstance(x, (list, dict)):
        return all(not (st[0] in ("list", "dict") and x is st[1]) for st in snap.values())
    return True


def _num(t):
    t = lift(t)
    return z3.ToReal(t) if z3.is_int(t) else t


def val_eq(a, b):
    if a is None or b is None:
        return B(a is b)
    if isinstance(a, str) or isinstance(b, str):
        if isinstance(a, str) and isinstance(b, str):
            return B(a == b)
        ta = a.t if isinstance(a, Sym) else z3.StringVal(a)
        tb = b.t if isinstance(b, Sym) else z3.StringVal(b)
        return ta == tb
    ta, tb = lift(a), lift(b)
    if z3.is_string(ta) or z3.is_string(tb) or z3.is_bool(ta) or z3.is_bool(tb):
        if ta.sort() != tb.sort():
            return FALSE
        return ta == tb
    ta, tb = _num(ta), _num(tb)
    return TRUE if ta.eq(tb) else ta == tb


def arr_eq(a, b):
    """same shape and same elements (for all indices)."""
    if not (isinstance(a, SymArr) and isinstance(b, SymArr)) or a.ndim != b.ndim:
        return FALSE
    idx = [z3.Int(f"e!{d}") for d in range(a.ndim)]
    shp = [lift(x) == lift(y) for x, y in zip(a.shape, b.shape) if not lift(x).eq(lift(y))]
    fa, fb = _num(a.fn(*idx)), _num(b.fn(*idx))
    fa, fb = V.simp(fa), V.simp(fb)
    if fa.eq(fb):
        body = TRUE
    else:
        rng = [z3.And(i >= 0, i < lift(d)) for i, d in zip(idx, a.shape)]
        body = z3.ForAll(idx, z3.Implies(z3.And(*rng), fa == fb)) if idx else fa == fb
    return z3.And(*shp, body) if shp else body


def vec_eq(a, b):
    """1-D sequences (calibration vectors / unit lists) of concrete common length, element by element."""
    la, lb = seq_len(a), seq_len(b)
    if la is None or lb is None:
        return FALSE
    la, lb = V._dim_lit(la), V._dim_lit(lb)
    if la is None or lb is None or la != lb:
        return FALSE
    cs = [val_eq(seq_at(a, i), seq_at(b, i)) for i in range(la)]
    cs = [c for c in cs if not z3.is_true(c)]
    return z3.And(*cs) if cs else TRUE


def view_eq_terms(o1, o2, what):
    """The observable view named by the property: array, origin, sampling, units (+ class)."""
    f1, f2 = o1.fields, o2.fields
    a1, a2 = f1.get("_array"), f2.get("_array")
    dt_same = cm.dtk(a1) == cm.dtk(a2) if isinstance(a1, SymArr) and isinstance(a2, SymArr) else FALSE
    dt_lab = f"{what}(dtype)" if what == "in-place==copying" else what
    return [(f"{what}:array", arr_eq(a1, a2)),
            (f"{dt_lab}:array-dtype (value kind of the result: float / integer / unsigned / complex)", dt_same),
            (f"{what}:origin", vec_eq(f1.get("_origin"), f2.get("_origin"))),
            (f"{what}:sampling", vec_eq(f1.get("_sampling"), f2.get("_sampling"))),
            (f"{what}:units", vec_eq(f1.get("_units"), f2.get("_units"))),
            (f"{what}:class", B(o1.cls is o2.cls))]


FINE = bool(__import__("os").environ.get("C03_FINE"))  # C03_FINE=1: one obligation per clause (debugging a failing group)


def tagged(terms, case):
    """Label the clauses with the enumerated case.  Clauses named `group:detail` are discharged as ONE obligation per
    group and case (the enumerated families would otherwise produce tens of thousands of mostly literal obligations);
    names are stable, set C03_FINE=1 to see the individual clauses."""
    if FINE:
        return [(f"{lab}[{case}]", t) for lab, t in terms]
    groups = {}
    for lab, t in terms:
        groups.setdefault(lab.split(":")[0], []).append(t)
    return [(f"{g}[{case}]", z3.And(*ts) if len(ts) > 1 else ts[0]) for g, ts in groups.items()]


def conj(terms, label):
    """One obligation for a group of clauses (keeps the obligation count of the enumerated families manageable)."""
    ts = [t for _, t in terms]
    bad = [lab for lab, t in terms if z3.is_false(V.simp(t))]
    return [(label + (":" + "+".join(bad) if bad else ""), z3.And(*ts) if ts else TRUE)]


# ------------------------------------------------------------------------------------------------
# registry
# ------------------------------------------------------------------------------------------------


def make_registry():
    reg = registry()
    cm.install(reg)
    for c in REGISTERED:
        reg.add_contract(c)
    # property setters share their qualname with the getter: they are reached through a model that applies the contract
    for c in SETTER_CONTRACTS:
        reg.models[c.real] = (lambda interp, self_, value, _c=c: _c.apply(interp, [self_, value], {}))
    for g in GETTERS:
        reg.inline.add(f"{DS}:Dataset.{g}")  # one-line property getters (the setters never reach this: see above)
    for n in ("virtual_images", "virtual_detectors"):
        reg.inline.add(f"{MODS['Dataset4dstem']}:Dataset4dstem.{n}")
    reg.inline.add(f"{DS}:Dataset._normalize_axes")  # axis normalisation helper (added by the C06 fix: commit), interpreted in place
    for n in CLS:
        reg.abstract_classes.add(f"{MODS[n]}:{n}")
    return reg


class C(Contract):
    """Contract with a display name (several contracts may cover disjoint input classes of the same real function)."""

    def __init__(self, func, label=None, **kw):
        super().__init__(func, **kw)
        if label:
            self.frame_name = label
        self.canary_path_limit = 60  # vacuity canary: a sample of the enumerated cases is enough

    def verify(self, reg, mutate_goal=None, **kw):
        CANARY[0] = mutate_goal is not None
        try:
            return super().verify(reg, mutate_goal, **kw)
        finally:
            CANARY[0] = False


# ------------------------------------------------------------------------------------------------
# validators
# ------------------------------------------------------------------------------------------------

# value forms of a calibration argument: scalars, flat ndarray / list of symbolic length, and the forms that np.array(...).flatten()
# turns into a vector: a 2-d ndarray and a nested list of rows with symbolic extents r x c (covers (ndim,k), (ndim,1), (1,ndim)), a 0-d ndarray
NDINFO_KINDS = ("real", "int", "ndarray", "list", "ndarray2d", "nested", "ndarray0d")


def ndinfo_value(ctx, kind, name):
    if kind == "real":
        return ctx.fresh(name, "real")
    if kind == "int":
        return ctx.fresh(name, "int")
    if kind == "ndarray":
        return fresh_seq(ctx, name, "real", pylist=False)
    if kind == "list":
        return fresh_seq(ctx, name, "real", pylist=True)
    if kind == "ndarray2d":
        return cm.fresh_table(ctx, name, "real", pylist=False)
    if kind == "nested":
        return cm.fresh_table(ctx, name, "real", pylist=True)
    if kind == "ndarray0d":
        return fresh_nd(ctx, name, 0, complex_flag=False)
    raise ValueError(kind)


def is_scalar(v):
    return isinstance(v, (Sym, int, float, np.number)) and not isinstance(v, bool) and not (isinstance(v, Sym) and z3.is_string(v.t))


def flat_size(value):
    """number of entries of a calibration argument after numpy's conversion + flattening (None for scalars)"""
    if isinstance(value, SymArr):
        return cm.flat_size(value)
    if isinstance(value, (list, tuple)):
        if any(isinstance(x, (list, tuple, SymArr)) for x in value):
            raise V.OutOfSubset("concrete nested calibration argument")
        return len(value)
    return None


def ndinfo_bad(value, ndim):
    """property-level meaning of a calibration argument: a scalar is broadcast, anything else must denote exactly one entry per axis
    (flat, nested and 2-d values are flattened by the validator, so what counts is the TOTAL number of entries)"""
    if is_scalar(value):
        return False
    L = flat_size(value)
    if L is None:
        raise V.OutOfSubset(f"calibration argument of type {type(value).__name__}")
    if not contains_sym(L):
        return L != ndim
    return lift(L) != ndim


def ndinfo_spec(value, ndim):
    """the vector of `ndim` calibration values the argument denotes (row-major order for nested / 2-d values)"""
    if is_scalar(value):
        return [value] * ndim
    if isinstance(value, SymArr):
        return [cm.flat_at(value, i) for i in range(ndim)]
    return [seq_at(value, i) for i in range(ndim)]


def ndinfo_result(value, ndim):
    vals = ndinfo_spec(value, ndim)
    kind = "int" if all((isinstance(v, Sym) and v.is_int) or (isinstance(v, (int, np.integer)) and not isinstance(v, bool)) for v in vals) and vals else "real"
    r = V.from_list(vals, kind=kind, pylist=False)
    return mark_nd(r)


def vn_setup(ctx):
    ndim = pick(ctx, "ndim", range(0, 6))
    kind = pick(ctx, "kind", NDINFO_KINDS)
    return NS(value=ndinfo_value(ctx, kind, "value"), ndim=ndim, name="origin", dtype=None, case=f"ndim={ndim},{kind}")


def vn_ensures(s):
    r = s.result
    out = [("result:is-1d-ndarray", B(isinstance(r, SymArr) and not r.pylist and r.ndim == 1))]
    if not (isinstance(r, SymArr) and r.ndim == 1):
        return tagged(out, s.case)
    out.append(("result:len=ndim", B(lift(r.shape[0]) == s.ndim)))
    out.append(("result:values", vec_eq(r, ndinfo_spec(s.value, s.ndim)) if V._dim_lit(r.shape[0]) == s.ndim else FALSE))
    if isinstance(s.value, SymArr):
        out.append(("frame:result-is-a-new-array", B(r is not s.value and r.base is not s.value.base)))
        out.append(("frame:argument-not-written", B(unwritten(s.old))))
    return tagged(out, getattr(s, "case", "call"))


C_NDINFO = C(f"{VA}:validate_ndinfo", setup=vn_setup, ensures=vn_ensures,
             snapshot=lambda s: stamp(s.value),
             raises={ValueError: lambda s: ndinfo_bad(s.value, s.ndim)},
             result=lambda ctx, s: ndinfo_result(s.value, s.ndim))


def units_value(ctx, kind, name):
    if kind == "str":
        return ctx.fresh(name, "str")
    return fresh_seq(ctx, name, "str", pylist=True)


def units_bad(value, ndim):
    if isinstance(value, str) or (isinstance(value, Sym) and z3.is_string(value.t)):
        return False
    L = seq_len(value)
    if L is None:
        raise V.OutOfSubset(f"units argument of type {type(value).__name__}")
    if not contains_sym(L):
        return L != ndim
    return lift(L) != ndim


def units_spec(value, ndim):
    if isinstance(value, str) or (isinstance(value, Sym) and z3.is_string(value.t)):
        return [value] * ndim
    return [seq_at(value, i) for i in range(ndim)]


def vu_setup(ctx):
    ndim = pick(ctx, "ndim", range(0, 6))
    kind = pick(ctx, "kind", ("str", "list"))
    return NS(value=units_value(ctx, kind, "value"), ndim=ndim, case=f"ndim={ndim},{kind}")


def vu_ensures(s):
    r = s.result
    out = [("result:is-a-list", B(isinstance(r, list)))]
    if isinstance(r, list):
        out.append(("result:len=ndim", B(len(r) == s.ndim)))
        out.append(("result:values", vec_eq(r, units_spec(s.value, s.ndim)) if len(r) == s.ndim else FALSE))
        out.append(("frame:result-is-a-new-list", B(r is not s.value)))
    return tagged(out, getattr(s, "case", "call"))


C_UNITS = C(f"{VA}:validate_units", setup=vu_setup, ensures=vu_ensures,
            raises={ValueError: lambda s: units_bad(s.value, s.ndim)},
            result=lambda ctx, s: list(units_spec(s.value, s.ndim)))


def ev_setup(ctx):
    d = pick(ctx, "d", range(0, 6))
    ndim = pick(ctx, "ndim", [None] + list(range(0, 6)))
    dtype = pick(ctx, "dtype", (None, float))
    return NS(array=fresh_nd(ctx, "arr", d), dtype=dtype, ndim=ndim, case=f"array.ndim={d},ndim={ndim},dtype={'None' if dtype is None else 'float'}")


def ev_result(array, ndim, dtype=None):
    """ensure_valid_array on an ndarray: without dtype the array ITSELF, with a dtype a converted COPY (astype); then a leading-1-padded
    VIEW of that when it has fewer axes than requested"""
    if dtype is not None:
        array = cm.nd_copy(array)
    d = array.ndim
    if ndim is None or d >= ndim:
        return array
    g = cm._guarded(array, view=True)
    k = ndim - d
    r = nd((1,) * k + tuple(array.shape), lambda *idx: g(*idx[k:]), array.kind, base=array.base, like=array)
    return cm._carry_guards(r, array, g)


def ev_requires(s):
    ok = isinstance(s.array, SymArr) and not s.array.pylist
    return [("array-is-an-ndarray (deductive domain; array-likes are covered by the bounded check)", B(ok))]


def ev_ensures(s):
    r, a = s.result, s.array
    want = a.ndim if (s.ndim is None or a.ndim >= s.ndim) else s.ndim
    out = [("result:is-ndarray", B(isinstance(r, SymArr) and not r.pylist))]
    if isinstance(r, SymArr):
        out.append(("result:ndim", B(r.ndim == want)))
        if s.dtype is None:
            out.append(("result:same-object-when-ndim-fits", B(r is a) if want == a.ndim else B(r.base is a.base)))
        else:
            out.append(("result:converted-copy-when-a-dtype-is-given", B(r is not a and r.base is not a.base)))
        out.append(("result:values", arr_eq(r, ev_result(a, s.ndim)) if r.ndim == want else FALSE))
        out.append(("frame:argument-not-written", B(unwritten(s.old))))
    return tagged(out, getattr(s, "case", "call"))


C_ENSURE = C(f"{VA}:ensure_valid_array", setup=ev_setup, requires=ev_requires, ensures=ev_ensures,
             snapshot=lambda s: stamp(s.array),
             raises={ValueError: lambda s: s.ndim is not None and s.array.ndim > s.ndim},
             result=lambda ctx, s: ev_result(s.array, s.ndim, s.dtype))


VALIDATORS = [C_NDINFO, C_UNITS, C_ENSURE]

# ------------------------------------------------------------------------------------------------
# property setters
# ------------------------------------------------------------------------------------------------


def others_untouched(s, field):
    snap = {k: v for k, v in s.old.items() if k != field}
    o = s.self
    sub = Obj(o.cls, {k: v for k, v in o.fields.items() if k != field})
    return untouched_terms(sub, snap, "frame:other-fields")


# the setters are inherited by every class: generic Dataset with ndim 0..5 and each subclass at its own ndim
SETTER_CFGS = [("Dataset", d) for d in range(0, 6)] + list(FIXED.items())


def cal_setter(prop, field, kinds):
    def setup(ctx):
        clsname, d = pick(ctx, "cfg", SETTER_CFGS)
        kind = pick(ctx, "kind", kinds)
        # values are arbitrary reals / integers: NEGATIVE and zero calibration values are in the domain (a reversed axis has negative sampling)
        return NS(self=mk_ds(ctx, clsname, d), value=ndinfo_value(ctx, kind, "value"), case=f"{clsname},ndim={d},{kind}")

    def ndim_of(s):
        return s.self.fields["_array"].ndim

    def ensures(s):
        x = s.self.fields.get(field)
        out = [(f"{prop}:is-1d-ndarray-of-length-ndim", B(isinstance(x, SymArr) and not x.pylist and x.ndim == 1 and V._dim_lit(x.shape[0]) == ndim_of(s)))]
        if z3.is_true(out[0][1]):
            out.append((f"{prop}:values-stored-exactly-as-given (sign included)", vec_eq(x, ndinfo_spec(s.value, ndim_of(s)))))
            out.append((f"frame:{prop}-is-a-new-array", B(is_fresh(x, s.old) and not (isinstance(s.value, SymArr) and x.base is s.value.base))))
        out += others_untouched(s, field)
        if isinstance(s.value, SymArr):
            out.append(("frame:argument-not-written", B(unwritten(s.old_value))))
        return tagged(out, getattr(s, "case", "call"))

    def snapshot(s):
        s.old_value = stamp(s.value)
        return snapshot_ds(s.self)

    def modifies(ctx, s):
        s.self.fields[field] = ndinfo_result(s.value, ndim_of(s))

    return C(f"{DS}:Dataset.{prop}.fset", label=f"Dataset.{prop}.setter", setup=setup, ensures=ensures, snapshot=snapshot, modifies=modifies,
             raises={ValueError: lambda s: ndinfo_bad(s.value, ndim_of(s))}, on_raise=lambda s, E: unchanged_after_raise(s, E))


C_SET_ORIGIN = cal_setter("origin", "_origin", NDINFO_KINDS)
C_SET_SAMPLING = cal_setter("sampling", "_sampling", NDINFO_KINDS)


def us_setup(ctx):
    clsname, d = pick(ctx, "cfg", SETTER_CFGS)
    # a single string, or a list / tuple of (symbolic) strings whose LENGTH is enumerated around ndim: empty, too short, exact, too long
    lens = sorted({0, max(d - 1, 0), d, d + 1, d + 2})
    kind = pick(ctx, "kind", ["str"] + [f"list[{n}]" for n in lens] + [f"tuple[{d}]", f"tuple[{d + 1}]"])
    if kind == "str":
        value = ctx.fresh("value", "str")
    else:
        n = int(kind[kind.index("[") + 1:-1])
        value = [ctx.fresh(f"value{i}", "str") for i in range(n)]
        value = tuple(value) if kind.startswith("tuple") else value
    return NS(self=mk_ds(ctx, clsname, d), value=value, case=f"{clsname},ndim={d},{kind}")


def us_ensures(s):
    x = s.self.fields.get("_units")
    ndim = s.self.fields["_array"].ndim
    out = [("units:is-a-list-of-length-ndim", B(isinstance(x, list) and len(x) == ndim))]
    if z3.is_true(out[0][1]):
        out.append(("units:values", vec_eq(x, units_spec(s.value, ndim))))
        out.append(("frame:units-is-a-new-list", B(x is not s.value and is_fresh(x, s.old))))
    out += others_untouched(s, "_units")
    return tagged(out, getattr(s, "case", "call"))


def us_modifies(ctx, s):
    s.self.fields["_units"] = list(units_spec(s.value, s.self.fields["_array"].ndim))


C_SET_UNITS = C(f"{DS}:Dataset.units.fset", label="Dataset.units.setter", setup=us_setup, ensures=us_ensures, modifies=us_modifies,
                snapshot=lambda s: snapshot_ds(s.self), on_raise=lambda s, E: unchanged_after_raise(s, E),
                raises={ValueError: lambda s: units_bad(s.value, s.self.fields["_array"].ndim)})


def as_setup(ctx):
    clsname, d = pick(ctx, "cfg", [c for c in SETTER_CFGS if c[1] >= 1])
    e = pick(ctx, "e", range(0, 6))
    return NS(self=mk_ds(ctx, clsname, d), value=fresh_nd(ctx, "value", e), case=f"{clsname},ndim={d},value.ndim={e}")


def as_ensures(s):
    o = s.self
    d = s.old["_array"][1].ndim
    x = o.fields.get("_array")
    out = [("array:is-ndarray-with-unchanged-ndim", B(isinstance(x, SymArr) and not x.pylist and x.ndim == d))]
    if z3.is_true(out[0][1]):
        out.append(("array:is-the-given-array", B(x is s.value) if s.value.ndim == d else B(x.base is s.value.base)))
        out.append(("array:values", arr_eq(x, ev_result(s.value, d))))
    out += inv_terms(o)
    out += others_untouched(s, "_array")
    out.append(("frame:argument-not-written", B(unwritten(s.old_value))))
    out.append(("frame:old-array-not-written", B(unwritten(s.old["_array"]))))
    return tagged(out, getattr(s, "case", "call"))


def as_snapshot(s):
    s.old_value = stamp(s.value)
    return snapshot_ds(s.self)


def as_modifies(ctx, s):
    s.self.fields["_array"] = ev_result(s.value, s.self.fields["_array"].ndim)


C_SET_ARRAY = C(f"{DS}:Dataset.array.fset", label="Dataset.array.setter", setup=as_setup, ensures=as_ensures, modifies=as_modifies, snapshot=as_snapshot,
                requires=lambda s: [("value-is-an-ndarray (deductive domain)", B(isinstance(s.value, SymArr) and not s.value.pylist))],
                raises={ValueError: lambda s: s.value.ndim > s.self.fields["_array"].ndim}, on_raise=lambda s, E: unchanged_after_raise(s, E))


def str_setter(prop, field):
    def setup(ctx):
        d = pick(ctx, "d", (1, 3))
        kind = pick(ctx, "kind", ("sym", "const"))
        return NS(self=mk_ds(ctx, "Dataset", d), value=ctx.fresh("value", "str") if kind == "sym" else "a name", case=f"ndim={d},{kind}")

    def ensures(s):
        out = [(f"{prop}:value", val_eq(s.self.fields.get(field), s.value))] + others_untouched(s, field)
        return tagged(out, getattr(s, "case", "call"))

    def modifies(ctx, s):
        s.self.fields[field] = s.value

    return C(f"{DS}:Dataset.{prop}.fset", label=f"Dataset.{prop}.setter", setup=setup, ensures=ensures, modifies=modifies,
             snapshot=lambda s: snapshot_ds(s.self),
             requires=lambda s: [("value-is-a-str (deductive domain)", B(isinstance(s.value, str) or (isinstance(s.value, Sym) and z3.is_string(s.value.t))))])


C_SET_NAME = str_setter("name", "_name")
C_SET_SU = str_setter("signal_units", "_signal_units")
SETTER_CONTRACTS = [C_SET_ARRAY, C_SET_ORIGIN, C_SET_SAMPLING, C_SET_UNITS, C_SET_NAME, C_SET_SU]

# ------------------------------------------------------------------------------------------------
# construction: __init__ (5 classes), from_array (5 classes)
# ------------------------------------------------------------------------------------------------


def default_metadata(clsname, metadata):
    if clsname in ("Dataset", "Dataset2d", "Dataset3d"):
        return {} if metadata is None else dict(metadata)
    md = dict(metadata) if metadata is not None else {}
    if clsname == "Dataset4dstem":
        for k in ("r_to_q_rotation_cw_deg", "ellipticity"):
            md.setdefault(k, None)
    return md


def init_fields(clsname, array, name, origin, sampling, units, signal_units, metadata):
    """The state the constructor must establish (property-level: one calibration entry per axis, values as given)."""
    ndim = array.ndim
    f = dict(_array=array, _name=name, _origin=ndinfo_result(origin, ndim), _sampling=ndinfo_result(sampling, ndim),
             _units=list(units_spec(units, ndim)), _signal_units=signal_units, _file_path=None,
             _metadata=default_metadata(clsname, metadata))
    if clsname == "Dataset4dstem":
        f["_virtual_images"] = {}
        f["_virtual_detectors"] = {}
    return f


def fields_match(o, want, what="state"):
    f = o.fields
    out = [(f"{what}:field-set", B(set(f) == set(want)))]
    if set(f) != set(want):
        return out
    a, w = f["_array"], want["_array"]
    out.append((f"{what}:array-is-the-given-array", B(a is w) if not getattr(w, "_expanded", False) else arr_eq(a, w)))
    for k in ("_origin", "_sampling", "_units"):
        out.append((f"{what}:{k[1:]}-has-one-entry-per-axis-with-the-given-values", vec_eq(f[k], want[k])))
    for k in ("_name", "_signal_units", "_file_path"):
        out.append((f"{what}:{k[1:]}", val_eq(f[k], want[k])))
    for k in ("_metadata", "_virtual_images", "_virtual_detectors"):
        if k in want:
            out.append((f"{what}:{k[1:]}", B(isinstance(f[k], dict) and f[k] == want[k])))
    return out


def fresh_calibration_terms(o, snaps, what="frame"):
    """the calibration containers of `o` are new objects (no aliasing with any argument / source object)"""
    f = o.fields
    out = []
    for k in ("_origin", "_sampling", "_units"):
        out.append((f"{what}:{k[1:]}-not-aliased", B(all(is_fresh(f.get(k), sn) for sn in snaps))))
    return out


INIT_VARIANTS = [("real", "int", "str"), ("ndarray", "list", "list"), ("list", "ndarray", "list"), ("int", "real", "list"), ("ndarray2d", "nested", "list")]


def init_setup_for(clsname, with_metadata):
    def setup(ctx):
        d = pick(ctx, "d", range(0, 6))
        ok, sk, uk = pick(ctx, "variant", INIT_VARIANTS)
        token = pick(ctx, "token", ("token", "none"))
        s = NS(self=Obj(CLS[clsname], {}), array=fresh_nd(ctx, "arr", d), name="nm", origin=ndinfo_value(ctx, ok, "origin"),
               sampling=ndinfo_value(ctx, sk, "sampling"), units=units_value(ctx, uk, "units"), signal_units=ctx.fresh("su", "str"),
               _token=Dataset._token if token == "token" else None, case=f"ndim={d},{ok},{sk},{uk},{token}")
        if with_metadata:
            s.metadata = pick(ctx, "md", (None, {"a": 1})) if clsname == "Dataset" else pick(ctx, "md", ({}, {"a": 1}))
        return s
    return setup


def init_args(s):
    return s.array, s.name, s.origin, s.sampling, s.units, s.signal_units, s.get("metadata", None)


def init_bad(s):
    ndim = s.array.ndim
    cs = [ndinfo_bad(s.origin, ndim), ndinfo_bad(s.sampling, ndim), units_bad(s.units, ndim)]
    if any(c is True for c in cs):
        return True
    cs = [lift(c) for c in cs if c is not False]
    return z3.Or(*cs) if cs else False


def init_contract(clsname):
    mod = MODS[clsname]
    with_md = clsname in ("Dataset", "Dataset4d", "Dataset4dstem")

    def ensures(s):
        want = init_fields(clsname if s.mode == "verify" else s.self.cls.__name__, *init_args(s))
        out = fields_match(s.self, want) + fresh_calibration_terms(s.self, [s.old])
        out.append(("frame:arguments-not-written", B(all(unwritten(st) for st in s.old.values()))))
        return tagged(out, getattr(s, "case", "call"))

    def snapshot(s):
        return {k: stamp(v) for k, v in (("array", s.array), ("origin", s.origin), ("sampling", s.sampling), ("units", s.units))}

    def modifies(ctx, s):
        s.self.fields.clear()
        s.self.fields.update(init_fields(s.self.cls.__name__, *init_args(s)))

    def requires(s):
        return [("array-is-an-ndarray (deductive domain)", B(isinstance(s.array, SymArr) and not s.array.pylist))]

    return C(f"{mod}:{clsname}.__init__", setup=init_setup_for(clsname, with_md), requires=requires, ensures=ensures, snapshot=snapshot, modifies=modifies,
             raises={RuntimeError: lambda s: s._token is not Dataset._token,
                     ValueError: lambda s: False if s._token is not Dataset._token else init_bad(s)})


INIT_CONTRACTS = [init_contract(n) for n in CLS]

FA_VARIANTS = [(None, None, None, None), ("nm", "real", "list", "str"), ("nm", "ndarray", "int", "list"), (None, "list", None, "list"), ("nm", None, "ndarray", None),
               ("nm", "nested", "ndarray2d", "list"), ("nm", "ndarray0d", None, None)]


def fa_contract(clsname):
    mod = MODS[clsname]
    K = FIXED.get(clsname)

    def setup(ctx):
        d = pick(ctx, "d", range(0, 6))
        name, ok, sk, uk = pick(ctx, "variant", FA_VARIANTS)
        return NS(cls=CLS[clsname], array=fresh_nd(ctx, "arr", d), name=name,
                  origin=None if ok is None else ndinfo_value(ctx, ok, "origin"),
                  sampling=None if sk is None else ndinfo_value(ctx, sk, "sampling"),
                  units=None if uk is None else units_value(ctx, uk, "units"),
                  signal_units=ctx.fresh("su", "str"), case=f"ndim={d},{name},{ok},{sk},{uk}")

    def k_of(s):
        kk = FIXED.get(s.cls.__name__)
        if kk is None:
            for c in s.cls.__mro__:
                if c.__name__ in FIXED:
                    kk = FIXED[c.__name__]
                    break
        return kk

    def target_ndim(s):
        kk = k_of(s)
        return s.array.ndim if kk is None else max(kk, s.array.ndim)

    def bad(s):
        kk = k_of(s)
        if kk is not None and s.array.ndim > kk:
            return True
        n = target_ndim(s)
        cs = [ndinfo_bad(s.origin, n) if s.origin is not None else False, ndinfo_bad(s.sampling, n) if s.sampling is not None else False,
              units_bad(s.units, n) if s.units is not None else False]
        if any(c is True for c in cs):
            return True
        cs = [lift(c) for c in cs if c is not False]
        return z3.Or(*cs) if cs else False

    def want_fields(s, units_default):
        n = target_ndim(s)
        arr = ev_result(s.array, n)
        if arr is not s.array:
            arr._expanded = True
        return init_fields(s.cls.__name__, arr, s.name, s.origin if s.origin is not None else 0.0, s.sampling if s.sampling is not None else 1.0,
                           s.units if s.units is not None else units_default, s.signal_units, None)

    def ensures(s):
        r = s.result
        if not isinstance(r, Obj):
            return tagged([("result-is-a-dataset", FALSE)], getattr(s, "case", "call"))
        n = target_ndim(s)
        ud = r.fields.get("_units") if s.units is None else None
        out = [("class:result-class-is-cls", B(r.cls is s.cls))] + inv_terms(r, "Inv(result)")
        if isinstance(ud, list) and len(ud) != n:
            return tagged(out, getattr(s, "case", "call"))
        want = want_fields(s, ud)
        if s.name is None:
            want["_name"] = r.fields.get("_name")  # default names are not part of the property
        out += fields_match(r, want) + fresh_calibration_terms(r, [s.old])
        out.append(("frame:arguments-not-written", B(all(unwritten(st) for st in s.old.values()))))
        return tagged(out, getattr(s, "case", "call"))

    def snapshot(s):
        return {k: stamp(v) for k, v in (("array", s.array), ("origin", s.origin), ("sampling", s.sampling), ("units", s.units))}

    def result(ctx, s):
        n = target_ndim(s)
        ud = [ctx.fresh("default_unit", "str") for _ in range(n)] if s.units is None else None
        f = want_fields(s, ud)
        if s.name is None:
            f["_name"] = "default name"
        return Obj(s.cls, f)

    def requires(s):
        return [("array-is-an-ndarray (deductive domain)", B(isinstance(s.array, SymArr) and not s.array.pylist))]

    return C(f"{mod}:{clsname}.from_array", setup=setup, requires=requires, ensures=ensures, snapshot=snapshot, result=result,
             raises={ValueError: bad})


FA_CONTRACTS = [fa_contract(n) for n in CLS]

# ------------------------------------------------------------------------------------------------
# copy / _copy_custom_attributes
# ------------------------------------------------------------------------------------------------


def cfg_setup(ctx, tag="ds"):
    clsname, d = pick(ctx, "cfg", CONFIGS)
    return clsname, d, mk_ds(ctx, clsname, d, tag)


def copy_value(v):
    """what `_copy_custom_attributes` does to one attribute value: `.copy()` when there is one, else the same object"""
    if isinstance(v, SymArr):
        return cm.nd_copy(v) if not v.pylist else SymArr(v.shape, v.fn, v.kind, True)
    if isinstance(v, (dict, list, set)):
        return v.copy()
    return v


def copy_fields(o, custom=True):
    """state of a copy of `o` (property-level: equal view, nothing shared)."""
    f = o.fields
    clsname = o.cls.__name__
    out = init_fields(clsname, cm.nd_copy(f["_array"]), f["_name"], cm.nd_copy(f["_origin"]), cm.nd_copy(f["_sampling"]), list(f["_units"]),
                      f["_signal_units"], None)
    if custom:
        for k, v in f.items():
            if k not in STD and not k.startswith("$"):
                out[k] = copy_value(v)
        if clsname == "Dataset4dstem":
            out["_virtual_detectors"] = {n: {"mask": None, "mode": d["mode"], "geometry": d["geometry"]} for n, d in f["_virtual_detectors"].items()}
            out["_virtual_images"] = {}
    return out


def copy_post(src, r, snap, custom, what="copy"):
    out = [(f"{what}:result-is-a-dataset-of-the-same-class", B(isinstance(r, Obj) and r.cls is src.cls))]
    if not z3.is_true(out[0][1]):
        return out
    out += inv_terms(r, "Inv(result)")
    out += view_eq_terms(src, r, f"{what}:same-view")[:5]
    out.append((f"{what}:name-and-signal-units", z3.And(val_eq(r.fields.get("_name"), src.fields["_name"]), val_eq(r.fields.get("_signal_units"), src.fields["_signal_units"]))))
    shared = [k for k in ("_array", "_origin", "_sampling", "_units") if not is_fresh(r.fields.get(k), snap)]
    out.append((f"{what}:shares-no-buffer-with-source{'(' + ','.join(shared) + ')' if shared else ''}", B(not shared)))
    if custom:
        ca = r.fields.get("custom_arr")
        out.append((f"{what}:custom-array-attribute-copied", B(isinstance(ca, SymArr) and is_fresh(ca, snap)) if "custom_arr" in src.fields else TRUE))
        if "custom_arr" in src.fields and isinstance(ca, SymArr):
            out.append((f"{what}:custom-array-attribute-values", vec_eq(ca, src.fields["custom_arr"])))
        md = r.fields.get("_metadata")
        out.append((f"{what}:metadata-copied", B(isinstance(md, dict) and md == src.fields["_metadata"] and md is not src.fields["_metadata"])))
    return out


def copy_setup(ctx):
    clsname, d, o = cfg_setup(ctx)
    cc = pick(ctx, "custom", (True, False))
    return NS(self=o, copy_custom_attributes=cc, case=f"{clsname},ndim={d},custom={cc}")


def copy_ensures(s):
    out = copy_post(s.self, s.result, s.old, bool(s.copy_custom_attributes)) + untouched_terms(s.self, s.old, "frame:source")
    return tagged(out, getattr(s, "case", "call"))


def copy_result(ctx, s):
    return Obj(s.self.cls, copy_fields(s.self, bool(s.copy_custom_attributes)))


def ds_requires(s):
    return tagged(inv_terms(s.self, "Inv(self)"), "requires")


C_COPY = C(f"{DS}:Dataset.copy", setup=copy_setup, requires=ds_requires, ensures=copy_ensures, result=copy_result, snapshot=lambda s: snapshot_ds(s.self))


def copy4_setup(ctx):
    d = 4
    cc = pick(ctx, "custom", (True, False))
    return NS(self=mk_ds(ctx, "Dataset4dstem", d), copy_custom_attributes=cc, case=f"Dataset4dstem,ndim=4,custom={cc}")


C_COPY4 = C(f"{MODS['Dataset4dstem']}:Dataset4dstem.copy", setup=copy4_setup, requires=ds_requires, ensures=copy_ensures, result=copy_result,
            snapshot=lambda s: snapshot_ds(s.self))


def cca_setup_for(clsnames):
    def setup(ctx):
        clsname, d = pick(ctx, "cfg", [c for c in CONFIGS if c[0] in clsnames])
        src = mk_ds(ctx, clsname, d, "ds")
        new = Obj(CLS[clsname], copy_fields(src, custom=False))
        return NS(self=src, new_dataset=new, case=f"{clsname},ndim={d}")
    return setup


def cca_snapshot(s):
    s.old_new = snapshot_ds(s.new_dataset)
    return snapshot_ds(s.self)


def cca_ensures(s):
    new, src = s.new_dataset, s.self
    out = untouched_terms(src, s.old, "frame:source")
    std_snap = {k: v for k, v in s.old_new.items() if k in STD}
    sub = Obj(new.cls, {k: v for k, v in new.fields.items() if k in STD})
    out += untouched_terms(sub, std_snap, "frame:standard-attributes-of-the-new-dataset")
    out += inv_terms(new, "Inv(new_dataset)")
    want = copy_fields(src, custom=True)
    for k in want:
        if k in STD:
            continue
        got = new.fields.get(k)
        if isinstance(want[k], SymArr):
            ok = z3.And(B(isinstance(got, SymArr) and is_fresh(got, s.old)), vec_eq(got, want[k]) if isinstance(got, SymArr) else FALSE)
        elif isinstance(want[k], (dict, list)):
            ok = B(type(got) is type(want[k]) and got == want[k] and all(got is not v for v in src.fields.values()))
        else:
            ok = val_eq(got, want[k])
        out.append((f"custom-attribute-copied:{k}", ok))
    out.append(("custom-attribute-copied:no-other-attribute-appears", B(set(new.fields) == set(want))))
    return tagged(out, getattr(s, "case", "call"))


def cca_modifies(ctx, s):
    want = copy_fields(s.self, custom=True)
    for k, v in want.items():
        if k not in STD:
            s.new_dataset.fields[k] = v


C_CCA = C(f"{DS}:Dataset._copy_custom_attributes", setup=cca_setup_for(set(CLS) - {"Dataset4dstem"}), ensures=cca_ensures, modifies=cca_modifies, snapshot=cca_snapshot)
C_CCA4 = C(f"{MODS['Dataset4dstem']}:Dataset4dstem._copy_custom_attributes", setup=cca_setup_for({"Dataset4dstem"}), ensures=cca_ensures, modifies=cca_modifies,
           snapshot=cca_snapshot)

CONSTRUCTION = INIT_CONTRACTS + FA_CONTRACTS + [C_COPY, C_COPY4, C_CCA, C_CCA4]

# ------------------------------------------------------------------------------------------------
# operations with an in-place and a copying variant: pad, crop, bin, fourier_resample
# (one contract object per (class, ndim) configuration so that the runner can verify them in parallel)
# ------------------------------------------------------------------------------------------------


def op_base_setup(ctx, cfg):
    clsname, d = cfg
    o = mk_ds(ctx, clsname, d)
    twin = Obj(o.cls, dict(o.fields))  # same initial state (shares the source's buffers; legal because no variant writes them - proved)
    return clsname, d, o, twin


def run_variant(s, con, obj, **override):
    """Execute the REAL body once more on `obj` (self-composition for the relational clause in-place == copying)."""
    interp = s.interp
    args = []
    for n in con.param_names():
        if n == "self":
            args.append(obj)
        elif n in override:
            args.append(override[n])
        elif hasattr(s, n):
            args.append(getattr(s, n))
    clo = interp.closure_of(con.real)
    try:
        env = interp.bind_args(clo, args, dict(getattr(s, "kwargs", {})))
        return "return", interp.run_body(clo, env)
    except RaiseSig as r:
        return "raise", r.exc


def op_snapshot(s):
    return snapshot_ds(s.self)


def op_ensures_for(calibration_kept):
    def ensures(s):
        src = s.self
        mip = bool(s.modify_in_place)
        d = s.old["_array"][1].ndim
        out = []
        if mip:
            out.append(("Inv(self):in-place-returns-None", B(s.result is None)))
            out += inv_terms(src, "Inv(self)")
            out.append(("Inv(self):ndim-unchanged", B(isinstance(src.fields.get("_array"), SymArr) and src.fields["_array"].ndim == d)))
            out += buffers_unwritten_terms(s.old, "frame(in-place)")
            if calibration_kept:
                out.append(("frame(in-place):calibration-objects-kept", B(all(src.fields.get(k) is s.old[k][1] for k in ("_origin", "_sampling", "_units")))))
            keep = [k for k in s.old if k not in ("_array", "_origin", "_sampling")]
            out.append(("frame(in-place):other-attributes-kept", B(set(src.fields) == set(s.old) and all(src.fields[k] is s.old[k][1] for k in keep))))
            return tagged(out, s.case)
        r = s.result
        out.append(("Inv(result):result-is-a-dataset-of-the-same-class", B(isinstance(r, Obj) and r.cls is src.cls)))
        if not z3.is_true(out[0][1]):
            return tagged(out, s.case)
        # a copying variant that hands back the source object itself makes every later setter / in-place op on the "new" dataset rewrite the source
        out.append(("frame(source):result-is-a-new-object-not-the-source-itself", B(r is not src)))
        out += inv_terms(r, "Inv(result)")
        out.append(("Inv(result):ndim-unchanged", B(r.fields["_array"].ndim == d)))
        out += untouched_terms(src, s.old, "frame(source)")
        shared = [k for k in ("_origin", "_sampling", "_units") if not is_fresh(r.fields.get(k), s.old)]
        out.append((f"frame(source):calibration-containers-not-shared-with-source{'(' + ','.join(shared) + ')' if shared else ''}", B(not shared)))
        if calibration_kept:
            out += [(f"calibration:carried-over:{k}", vec_eq(r.fields[k], src.fields[k])) for k in ("_origin", "_sampling", "_units")]
        # relational clause: run the in-place variant of the REAL body on the twin and compare the final views
        twin = s.twin
        tsnap = snapshot_ds(twin)
        how, val = run_variant(s, s.contract, twin, modify_in_place=True)
        if how == "raise":
            out.append((f"in-place==copying:in-place-variant-raises-{type(val).__name__}-where-copying-returns", FALSE))
            return tagged(out, s.case)
        out.append(("in-place==copying:in-place-returns-None", B(val is None)))
        out += view_eq_terms(twin, r, "in-place==copying")
        out += buffers_unwritten_terms(tsnap, "in-place==copying:twin-frame")
        return tagged(out, s.case)
    return ensures


def unchanged_after_raise(s, E):
    """a call that raises leaves the object exactly as it was (so Inv survives failing operations in a history)"""
    return tagged(untouched_terms(s.self, s.old, "unchanged") + inv_terms(s.self, "unchanged:Inv(self)-still-holds"), getattr(s, "case", "call"))


def per_config(func, name, setup_for, raises, calibration_kept, max_paths=20000, configs=CONFIGS):
    out = []
    for cfg in configs:
        c = C(func, label=f"{name}[{cfg[0]},ndim={cfg[1]}]", setup=setup_for(cfg), requires=ds_requires, ensures=op_ensures_for(calibration_kept),
              snapshot=op_snapshot, raises=raises, max_paths=max_paths, on_raise=unchanged_after_raise)
        c.cfg = cfg
        out.append(c)
    return out


def variant(mip):
    return "in-place" if mip else "copying"


# ---- pad

PAD_FORMS = ("int", "pair", "per-axis", "int,mode=edge", "output_shape", "output_shape-wrong-length", "both", "neither")


def pad_setup_for(cfg):
    def setup(ctx):
        clsname, d, o, twin = op_base_setup(ctx, cfg)
        form = pick(ctx, "form", PAD_FORMS)
        mip = pick(ctx, "mip", (False, True))
        pw, osh, kwargs = None, None, {}
        if form.startswith("int") or form == "both":
            pw = ctx.fresh("pw", "int")
        if form == "int,mode=edge":
            kwargs = {"mode": "edge"}
        if form == "pair":
            pw = (ctx.fresh("pw_b", "int"), ctx.fresh("pw_a", "int"))
        if form == "per-axis":
            pw = tuple((ctx.fresh(f"pw_b{i}", "int"), ctx.fresh(f"pw_a{i}", "int")) for i in range(d))
        if form in ("output_shape", "both"):
            osh = tuple(ctx.fresh(f"osh{i}", "int") for i in range(d))
        if form == "output_shape-wrong-length":
            osh = tuple(ctx.fresh(f"osh{i}", "int") for i in range(d + 1))
        return NS(self=o, twin=twin, pad_width=pw, output_shape=osh, modify_in_place=mip, kwargs=kwargs, form=form, contract=C_PAD[0],
                  case=f"{form},{variant(mip)}")
    return setup


def flat_syms(x):
    if isinstance(x, Sym):
        return [x]
    if isinstance(x, (tuple, list)):
        return [y for e in x for y in flat_syms(e)]
    return []


def pad_bad(s):
    if s.form in ("both", "neither", "output_shape-wrong-length"):
        return True
    if s.pad_width is not None:
        return z3.Or(*[w.t < 0 for w in flat_syms(s.pad_width)])
    return False


C_PAD = per_config(f"{DS}:Dataset.pad", "Dataset.pad", pad_setup_for, {ValueError: pad_bad}, True)

# ---- crop

CROP_FORMS = ("all-axes", "all-axes-wrong-length", "axis-int", "axes-tuple", "axes-length-mismatch")


def crop_setup_for(cfg):
    def setup(ctx):
        clsname, d, o, twin = op_base_setup(ctx, cfg)
        form = pick(ctx, "form", CROP_FORMS)
        mip = pick(ctx, "mip", (False, True))
        pair = lambda i: (ctx.fresh(f"cw_b{i}", "int"), ctx.fresh(f"cw_a{i}", "int"))
        axes = None
        if form == "all-axes":
            cw = tuple(pair(i) for i in range(d))
        elif form == "all-axes-wrong-length":
            cw = tuple(pair(i) for i in range(d + 1))
        elif form == "axis-int":
            axes = pick(ctx, "axis", sorted({0, d - 1}))
            cw = (pair(0),)
        elif form == "axes-tuple":
            axes = tuple(sorted({0, d - 1}))
            cw = tuple(pair(i) for i in range(len(axes)))
        else:
            axes = (0,)
            cw = (pair(0), pair(1))
        return NS(self=o, twin=twin, crop_widths=cw, axes=axes, modify_in_place=mip, form=form, contract=C_CROP[0],
                  case=f"{form}{'' if not isinstance(axes, int) else '=' + str(axes)},{variant(mip)}")
    return setup


C_CROP = per_config(f"{DS}:Dataset.crop", "Dataset.crop", crop_setup_for,
                    {ValueError: lambda s: s.form in ("all-axes-wrong-length", "axes-length-mismatch")}, True)

# ---- bin

BIN_FORMS = ("int,all-axes", "tuple,all-axes", "tuple-wrong-length", "int,axis-int", "tuple,axes-tuple")


def bin_setup_for(cfg):
    def setup(ctx):
        clsname, d, o, twin = op_base_setup(ctx, cfg)
        form = pick(ctx, "form", BIN_FORMS)
        reducer = pick(ctx, "reducer", ("sum", "mean", "MEAN", "median") if form == "int,all-axes" else ("sum", "mean") if form == "tuple,all-axes" else ("sum",))
        mip = pick(ctx, "mip", (False, True))
        axes = None
        if form == "int,all-axes":
            bf = ctx.fresh("bf", "int")
        elif form == "tuple,all-axes":
            bf = tuple(ctx.fresh(f"bf{i}", "int") for i in range(d))
        elif form == "tuple-wrong-length":
            bf = tuple(ctx.fresh(f"bf{i}", "int") for i in range(d + 1))
        elif form == "int,axis-int":
            axes = pick(ctx, "axis", sorted({0, d - 1}))
            bf = ctx.fresh("bf", "int")
        else:
            axes = tuple(sorted({0, d - 1}))
            bf = tuple(ctx.fresh(f"bf{i}", "int") for i in range(len(axes)))
        return NS(self=o, twin=twin, bin_factors=bf, axes=axes, modify_in_place=mip, reducer=reducer, form=form, contract=C_BIN[0],
                  case=f"{form}{'' if not isinstance(axes, int) else '=' + str(axes)},{reducer},{variant(mip)}")
    return setup


def bin_bad(s):
    if s.reducer == "median" or s.form == "tuple-wrong-length":
        return True
    return z3.Or(*[w.t <= 0 for w in flat_syms(s.bin_factors)])


C_BIN = per_config(f"{DS}:Dataset.bin", "Dataset.bin", bin_setup_for, {ValueError: bin_bad}, False)

# ---- fourier_resample

FR_FORMS = ("out_shape,axes=(0,)", "factors-scalar,axes=(last,)", "factors-tuple,axis-int", "both", "neither", "out_shape-wrong-length",
            "factors-wrong-length", "out_shape,all-axes")


def fr_setup_for(cfg):
    def setup(ctx):
        clsname, d, o, twin = op_base_setup(ctx, cfg)
        # every resampled axis multiplies the number of paths by 12 (parity of both lengths x shrink/grow/equal): one resampled
        # axis for every configuration, all axes only for ndim == 1; the remaining axis sets are covered by the bounded check
        generic = clsname == "Dataset"
        forms = [f for f in FR_FORMS if (f != "out_shape,all-axes" or d == 1) and (f != "factors-tuple,axis-int" or cfg in (("Dataset", 2), ("Dataset3d", 3)))
                 and (f != "factors-scalar,axes=(last,)" or cfg in (("Dataset", 1), ("Dataset", 3), ("Dataset", 5), ("Dataset4dstem", 4)))
                 and (generic or f not in ("both", "neither", "out_shape-wrong-length", "factors-wrong-length"))]
        form = pick(ctx, "form", forms)
        mip = pick(ctx, "mip", (False, True))
        osh, fac, axes = None, None, None
        m = lambda i: ctx.fresh(f"out{i}", "int")
        f = lambda i: ctx.fresh(f"fac{i}", "real")
        if form == "out_shape,axes=(0,)":
            osh, axes = (m(0),), (0,)
        elif form == "factors-scalar,axes=(last,)":
            fac, axes = f(0), (d - 1,)
        elif form == "factors-tuple,axis-int":
            fac, axes = (f(0),), d - 1
        elif form == "both":
            osh, fac, axes = (m(0),), f(0), (0,)
        elif form == "neither":
            axes = (0,)
        elif form == "out_shape-wrong-length":
            osh, axes = (m(0), m(1)), (0,)
        elif form == "factors-wrong-length":
            fac, axes = (f(0), f(1)), (0,)
        else:
            osh = tuple(m(i) for i in range(d))
        return NS(self=o, twin=twin, out_shape=osh, factors=fac, axes=axes, modify_in_place=mip, form=form, contract=C_FR[0],
                  case=f"{form},{variant(mip)}")
    return setup


def fr_bad(s):
    if s.form in ("both", "neither", "out_shape-wrong-length", "factors-wrong-length"):
        return True
    if s.out_shape is not None:
        return z3.Or(*[w.t < 1 for w in flat_syms(s.out_shape)])
    return False


C_FR = per_config(f"{DS}:Dataset.fourier_resample", "Dataset.fourier_resample", fr_setup_for, {ValueError: fr_bad}, False)

OPS = C_PAD + C_CROP + C_BIN + C_FR

# ------------------------------------------------------------------------------------------------
# __getitem__: index-kind vectors are enumerated (property's own range), all values symbolic
#   i = integer, s = slice without step, t = slice with a symbolic step, l = list of integers (symbolic length), ... = Ellipsis
# ------------------------------------------------------------------------------------------------


def gi_entry(ctx, kind, p, n, edge):
    """one explicit index entry for an axis of length n.  Main family: integers in range, steps outside {0, 1} (value classes
    that the code / numpy treat specially are proved on the `edge` family, where nothing is assumed)."""
    if kind == "i":
        ix = ctx.fresh(f"ix{p}", "int")
        if not edge:
            ctx.assume(z3.And(ix.t >= -lift(n), ix.t < lift(n)))
        return ix
    if kind in ("s", "t", "u"):
        a = OptInt(ctx.fresh(f"sa{p}_none", "bool").t, ctx.fresh(f"sa{p}", "int").t)
        b = OptInt(ctx.fresh(f"sb{p}_none", "bool").t, ctx.fresh(f"sb{p}", "int").t)
        if kind == "s":
            return slice(a, b, None)
        if kind == "u":
            return slice(a, b, 1)
        st = ctx.fresh(f"st{p}", "int")
        if not edge:
            ctx.assume(z3.And(st.t != 0, st.t != 1))
        return slice(a, b, st)
    if kind == "l":
        return fresh_seq(ctx, f"li{p}", "int", pylist=True)
    raise ValueError(kind)


def gi_forms(d, k, reduced):
    """index forms for k explicit entries: a tuple, an Ellipsis at the start / after the first entry / at the end, a bare (non-tuple) index"""
    if reduced:
        return ["tuple"] + (["bare"] if k <= 1 else [])
    pos = sorted({0, min(1, k), k})
    if d >= 4 and k > 2:
        pos = []  # ndim 4, 5: Ellipsis forms with at most 2 explicit entries (the rest: bounded check)
    return ["tuple"] + [f"ellipsis@{p}" for p in pos] + (["bare"] if k <= 1 else [])


ALPHABETS = {"A1": ("i", "s", "l"), "A2": ("i", "t", "l"), "E": ("i", "t", "u")}


def gi_setup_for(cfg, ks, alphabets, reduced, edge=False):
    """Enumeration budget (everything else symbolic): per explicit position one of i / s / l (alphabet A1) or i / t / l (alphabet A2,
    at least one t), at most one list; slices without and with step are not mixed in one index (they meet through the
    slice(None) entries produced by Ellipsis / short-index padding).  Edge family (alphabet E: i / t / u = literal step 1, at most
    two explicit entries): integers and steps unconstrained - IndexError / ValueError exactly when numpy raises them, step 1."""
    def setup(ctx):
        clsname, d = cfg
        o = mk_ds(ctx, clsname, d)
        shape = o.fields["_array"].shape
        k = pick(ctx, "k", ks)
        form = pick(ctx, "form", gi_forms(d, k, reduced or edge))
        alpha = (pick(ctx, "alphabet", alphabets) if len(alphabets) > 1 else alphabets[0]) if k >= 1 else alphabets[0]
        allowed = ALPHABETS[alpha]
        kinds = []
        for p in range(k):
            kinds.append(pick(ctx, f"kind{p}", [x for x in allowed if not (x == "l" and "l" in kinds)]))
        if k == d and all(x == "i" for x in kinds):
            raise PathEnd("index leaves no axis (outside the property's range)")
        if alpha == "A2" and "t" not in kinds:
            raise PathEnd("already enumerated under alphabet A1")
        if reduced and alpha == "A2" and k > 2:
            raise PathEnd("subclass configurations: stepped slices with at most two explicit entries")
        ell = int(form.split("@")[1]) if form.startswith("ellipsis") else None
        axis_of = lambda p: p if (ell is None or p < ell) else p + (d - k)
        entries = [gi_entry(ctx, kd, p, shape[axis_of(p)], edge) for p, kd in enumerate(kinds)]
        if form == "tuple":
            index = tuple(entries)
        elif form == "bare":
            index = entries[0] if k == 1 else Ellipsis
        else:
            index = tuple(entries[:ell]) + (Ellipsis,) + tuple(entries[ell:])
        s = NS(self=o, index=index, kinds=kinds, form=form, edge=edge, case=f"{form}:{','.join(kinds) or '-'}")
        # the property's reference: numpy's own indexing rule (trusted model) applied to the source array with the index AS GIVEN
        try:
            s.spec, s.spec_exc = cm.np_index(o.fields["_array"], index), None
        except RaiseSig as r:
            s.spec, s.spec_exc = None, r.exc
        if s.spec_exc is None and not isinstance(s.spec, SymArr):
            raise PathEnd("scalar result")
        return s
    return setup


def gi_requires(s):
    out = inv_terms(s.self, "Inv(self)")
    a = s.self.fields["_array"]
    idx = s.index if isinstance(s.index, tuple) else (s.index,)
    j = z3.Int("j!li")
    pos = 0
    n_ell = sum(1 for e in idx if e is Ellipsis)
    for e in idx:
        if e is Ellipsis:
            pos += a.ndim - (len(idx) - n_ell)
            continue
        if isinstance(e, SymArr):
            n = lift(a.shape[pos])
            out.append(("domain:list-entries-in-range", z3.ForAll([j], z3.Implies(z3.And(j >= 0, j < lift(e.shape[0])), z3.And(lift(e.fn(j)) >= -n, lift(e.fn(j)) < n)))))
        pos += 1
    return tagged(out, "requires")


def gi_ensures(s):
    src, r = s.self, s.result
    d = s.old["_array"][1].ndim
    out = [("Inv(result):result-is-a-new-dataset", B(isinstance(r, Obj) and r is not src))]
    if not z3.is_true(out[0][1]):
        return tagged(out, s.case)
    spec = s.spec
    a = r.fields.get("_array")
    nd_out = spec.ndim
    reg_cls = Dataset._registry.get(nd_out, Dataset)
    out.append(("Inv(result):same-class-when-ndim-is-kept / registered-class-of-the-new-ndim-otherwise", B(r.cls is (src.cls if nd_out == d else reg_cls))))
    out += inv_terms(r, "Inv(result)")
    out.append(("data:result-array-is-the-numpy-indexed-array", arr_eq(a, spec) if isinstance(a, SymArr) else FALSE))
    out.append(("data:result-dtype-is-the-source-dtype", cm.dtk(a) == cm.dtk(s.old["_array"][1]) if isinstance(a, SymArr) else FALSE))
    # calibration: result axis j carries the calibration of the source axis it came from; sampling multiplied by the slice step
    amap = spec.axis_map
    moved = list(amap) != sorted(amap)
    lab = "calibration(list-axis-moved-first-by-numpy)" if moved else "calibration"
    fo, fs, fu = r.fields.get("_origin"), r.fields.get("_sampling"), r.fields.get("_units")
    so, ss, su = src.fields["_origin"], src.fields["_sampling"], src.fields["_units"]
    if seq_len(fo) is not None and V._dim_lit(seq_len(fo)) == nd_out and V._dim_lit(seq_len(fs)) == nd_out and isinstance(fu, list) and len(fu) == nd_out:
        for jx, ax in enumerate(amap):
            st = spec.axis_steps.get(ax)
            want_s = seq_at(ss, ax) if st is None else seq_at(ss, ax) * st
            out.append((f"{lab}:origin[{jx}]=source-origin[{ax}]", val_eq(seq_at(fo, jx), seq_at(so, ax))))
            out.append((f"{lab}:sampling[{jx}]=source-sampling[{ax}]*step", val_eq(seq_at(fs, jx), want_s)))
            out.append((f"{lab}:units[{jx}]=source-units[{ax}]", val_eq(fu[jx], su[ax])))
    else:
        out.append((f"{lab}:one-entry-per-result-axis", FALSE))
    out += untouched_terms(src, s.old, "frame(source)")
    shared = [k for k in ("_origin", "_sampling") + (("_units",) if d > 0 else ()) if not is_fresh(r.fields.get(k), s.old)]
    out.append((f"frame(source):calibration-containers-not-shared-with-source{'(' + ','.join(shared) + ')' if shared else ''}", B(not shared)))
    return tagged(out, s.case)


def gi_contracts():
    out = []
    rz = {IndexError: lambda s: isinstance(s.spec_exc, IndexError), ValueError: lambda s: isinstance(s.spec_exc, ValueError)}
    for cfg in CONFIGS:
        clsname, d = cfg
        reduced = clsname != "Dataset"  # subclasses run the same body: tuple / bare forms only (class selection is what differs)
        if d <= 4 or reduced:
            parts = [(tuple(range(0, d + 1)), ("A1", "A2"), "")]
        else:
            parts = [(tuple(range(0, 5)), ("A1", "A2"), ",k<5"), ((5,), ("A1",), ",k=5,A1"), ((5,), ("A2",), ",k=5,A2")]
        for ks, alphabets, tag in parts:
            # main family: indices are in range and steps non-zero (assumed in setup), so ANY exception is a failed no-raise obligation
            c = C(f"{DS}:Dataset.__getitem__", label=f"Dataset.__getitem__[{clsname},ndim={d}{tag}]", setup=gi_setup_for(cfg, ks, alphabets, reduced),
                  requires=gi_requires, ensures=gi_ensures, snapshot=op_snapshot, max_paths=100000, on_raise=lambda s, E: unchanged_after_raise(s, E))
            c.cfg = cfg
            c.enum = (cfg, ks, alphabets, reduced, False)
            out.append(c)
        c = C(f"{DS}:Dataset.__getitem__", label=f"Dataset.__getitem__[{clsname},ndim={d},edge-values]",
              setup=gi_setup_for(cfg, tuple(range(1, min(d, 2) + 1)), ("E",), True, edge=True),
              requires=gi_requires, ensures=gi_ensures, snapshot=op_snapshot, max_paths=100000, raises=rz, on_raise=lambda s, E: unchanged_after_raise(s, E))
        c.cfg = cfg
        c.enum = (cfg, tuple(range(1, min(d, 2) + 1)), ("E",), True, True)
        out.append(c)
    return out


C_GETITEM = gi_contracts()

REGISTERED = VALIDATORS + SETTER_CONTRACTS + CONSTRUCTION
CONTRACTS = REGISTERED + OPS + C_GETITEM

# ------------------------------------------------------------------------------------------------
# run-time oracles: the same statements evaluated on the REAL classes with concrete inputs
# (replay of counter-models, fallback search for a failing input, bounded stand-ins)
# ------------------------------------------------------------------------------------------------


def _real_cls(name):
    import importlib

    return getattr(importlib.import_module(MODS[name]), name)


def _mk_real(clsname, shape, seed=0, dtype="float64"):
    rng = np.random.default_rng(seed + 7)
    if dtype.startswith(("int", "uint")):
        a = rng.integers(0 if dtype.startswith("u") else -5, 50, size=shape).astype(dtype)
    elif dtype.startswith("complex"):
        a = (rng.normal(size=shape) + 1j * rng.normal(size=shape)).astype(dtype)
    else:
        a = rng.normal(size=shape).astype(dtype)
    nd_ = len(shape)
    return _real_cls(clsname).from_array(a, name="ds", origin=[10.0 * (i + 1) + 0.5 for i in range(nd_)], sampling=[1.5 + i for i in range(nd_)],
                                         units=[f"u{i}" for i in range(nd_)], signal_units="e")


def _digest(ds):
    return (type(ds).__name__, ds.array.shape, str(ds.array.dtype), ds.array.tobytes(), tuple(np.asarray(ds.origin, dtype=float).tolist()),
            tuple(np.asarray(ds.sampling, dtype=float).tolist()), tuple(ds.units), ds.name, ds.signal_units)


def _view_diff(a, b, tol=0.0):
    """differences between the observable views (array, origin, sampling, units, class) of two datasets"""
    out = []
    if type(a) is not type(b):
        out.append(f"class {type(a).__name__} vs {type(b).__name__}")
    if a.array.shape != b.array.shape or not np.allclose(a.array, b.array, rtol=tol, atol=tol, equal_nan=True):
        out.append(f"array differs (shapes {a.array.shape} vs {b.array.shape})")
    if a.array.dtype != b.array.dtype:
        out.append(f"array dtype {a.array.dtype} vs {b.array.dtype}")
    for nm in ("origin", "sampling"):
        x, y = np.asarray(getattr(a, nm), dtype=float), np.asarray(getattr(b, nm), dtype=float)
        if x.shape != y.shape or not np.allclose(x, y, rtol=1e-12, atol=0):
            out.append(f"{nm} {x.tolist()} vs {y.tolist()}")
    if list(a.units) != list(b.units):
        out.append(f"units {a.units} vs {b.units}")
    return out


def _inv_problems(ds):
    out = []
    nd_ = ds.array.ndim
    for nm in ("origin", "sampling"):
        x = getattr(ds, nm)
        if not isinstance(x, np.ndarray) or x.ndim != 1 or len(x) != nd_:
            out.append(f"{nm} has {np.size(x)} entries for ndim {nd_}")
    if not isinstance(ds.units, list) or len(ds.units) != nd_:
        out.append(f"units has {len(ds.units)} entries for ndim {nd_}")
    if not class_ok(type(ds), nd_):
        out.append(f"class {type(ds).__name__} holds a {nd_}-d array")
    return out


def _clone(ds):
    """independent clone that does not go through Dataset.copy"""
    c = type(ds).from_array(np.array(ds.array, copy=True), name=ds.name, origin=np.array(ds.origin, copy=True), sampling=np.array(ds.sampling, copy=True),
                            units=list(ds.units), signal_units=ds.signal_units)
    return c


def _py_index(spec, bare=False):
    out = []
    for e in spec:
        if e == "...":
            out.append(Ellipsis)
        elif "i" in e:
            out.append(int(e["i"]))
        elif "s" in e:
            out.append(slice(*e["s"]))
        elif "l" in e:
            out.append([int(v) for v in e["l"]])
    if bare and len(out) == 1:
        return out[0]
    return tuple(out)


def _expand(spec, ndim):
    """per source axis the index entry (Ellipsis / missing entries -> full slices); plain list logic, independent of the code under test"""
    n_real = sum(1 for e in spec if e != "...")
    full = {"s": [None, None, None]}
    out = []
    seen = False
    for e in spec:
        if e == "...":
            out += [full] * (ndim - n_real)
            seen = True
        else:
            out.append(e)
    if not seen:
        out += [full] * (ndim - n_real)
    return out


def _getitem_problems(ds, spec, bare, res):
    """result data = numpy-indexed data; every result axis carries the calibration of the source axis it came from (found by
    indexing coordinate arrays with numpy itself), sampling multiplied by the slice step; class chosen by dimensionality."""
    out = []
    idx = _py_index(spec, bare)
    want = ds.array[idx]
    if res.array.shape != want.shape or not np.array_equal(res.array, want, equal_nan=True):
        out.append(f"data is not array[index]: shape {res.array.shape} vs {want.shape}")
        return out
    nd_ = ds.array.ndim
    ent = _expand(spec, nd_)
    reg_cls = type(ds)._registry.get(want.ndim, _real_cls("Dataset"))
    want_cls = type(ds) if want.ndim == nd_ else reg_cls
    if type(res) is not want_cls:
        out.append(f"class {type(res).__name__}, expected {want_cls.__name__} for ndim {nd_}->{want.ndim}")
    if len(res.origin) != want.ndim or len(res.sampling) != want.ndim or len(res.units) != want.ndim:
        return out + [f"calibration lengths {len(res.origin)},{len(res.sampling)},{len(res.units)} for ndim {want.ndim}"]
    coords = np.indices(ds.array.shape)
    for j in range(want.ndim):
        if want.shape[j] < 2 or 0 in want.shape:
            continue
        src = [k for k in range(nd_) if np.any(np.diff(coords[k][idx], axis=j) != 0)]
        if len(src) != 1:
            continue
        k = src[0]
        step = 1
        if "s" in ent[k]:
            step = int(np.diff(coords[k][idx], axis=j).flat[0])
        exp_o, exp_s, exp_u = float(ds.origin[k]), float(ds.sampling[k]) * step, ds.units[k]
        if float(res.origin[j]) != exp_o or res.units[j] != exp_u or abs(float(res.sampling[j]) - exp_s) > 1e-12 * max(1, abs(exp_s)):
            out.append(f"result axis {j} (length {want.shape[j]}) comes from source axis {k} but carries origin={float(res.origin[j])}, sampling={float(res.sampling[j])}, "
                       f"units={res.units[j]!r}; expected origin={exp_o}, sampling={exp_s}, units={exp_u!r}")
    return out


def _op_call(ds, op, mip=None):
    """apply one op of the alphabet to the real dataset; returns the returned object"""
    kind = op[0]
    a = dict(op[1]) if len(op) > 1 and isinstance(op[1], dict) else {}
    if mip is not None:
        a["modify_in_place"] = mip
    nd_ = ds.array.ndim
    if kind == "copy":
        return ds.copy()
    if kind == "set":
        attr, val = op[1], op[2]
        if val == "scalar":
            val = 2.5
        elif val == "list":
            val = [0.25 * (i + 1) for i in range(nd_)]
        elif val == "ndarray":
            val = np.arange(nd_, dtype=float) + 3
        elif val == "too-long":
            val = [1.0] * (nd_ + 1)
        elif val == "units":
            val = [f"v{i}" for i in range(nd_)]
        elif val == "unit":
            val = "nm"
        elif val == "units-short":
            val = ["x"] * max(0, nd_ - 1)
        elif val == "array":
            val = np.asarray(ds.array) * 2 + 1
        elif val == "array-1d-less":
            val = np.asarray(ds.array)[0] if nd_ > 1 else np.asarray(ds.array)
        elif val == "array-1d-more":
            val = np.asarray(ds.array)[None]
        setattr(ds, attr, val)
        return None
    if kind == "pad":
        if "output_shape" in a and a["output_shape"] == "plus":
            a["output_shape"] = tuple(n + 1 + (i % 2) for i, n in enumerate(ds.shape))
        return ds.pad(**a)
    if kind == "crop":
        if a.get("crop_widths") == "all":
            a["crop_widths"] = tuple((1, -1) if n >= 3 else (0, 0) for n in ds.shape)
        return ds.crop(**a)
    if kind == "bin":
        return ds.bin(**a)
    if kind == "resample":
        if a.get("out_shape") == "plus":
            a["out_shape"] = tuple(n + 1 for n in ds.shape)
        return ds.fourier_resample(**a)
    if kind == "getitem":
        return ds[_py_index(op[1], op[2] if len(op) > 2 else False)]
    raise ValueError(kind)


HAS_VARIANTS = ("pad", "crop", "bin", "resample")
EXPECTED_ERRORS = (ValueError, TypeError, IndexError)


def rt_history(inp):
    """Replay a history of public operations on the real classes and evaluate the property after every step."""
    import warnings

    warnings.simplefilter("ignore")
    ds = _mk_real(inp["cls"], tuple(inp["shape"]), inp.get("seed", 0), inp.get("dtype", "float64"))
    problems = _inv_problems(ds)
    live = [ds]
    for step, op in enumerate(inp["ops"]):
        op = tuple(op)
        kind = op[0]
        if 0 in ds.array.shape:
            break  # zero-length axes are outside the property's range (shapes incl. length-1 axes)
        before = [_digest(x) for x in live]
        # relational clause on independent clones (does not disturb the history)
        if kind in HAS_VARIANTS:
            c1, c2 = _clone(ds), _clone(ds)
            d1 = _digest(c1)
            try:
                r = _op_call(c1, op, mip=False)
                _op_call(c2, op, mip=True)
            except EXPECTED_ERRORS:
                r = None
            if r is not None:
                if _digest(c1) != d1:
                    problems.append(f"step {step} {op}: copying variant changed its source")
                dv = _view_diff(r, c2, tol=1e-9 if kind == "resample" else 0.0)
                if dv:
                    problems.append(f"step {step} {op}: in-place variant differs from copying variant: {'; '.join(dv)}")
        mip = bool(dict(op[1]).get("modify_in_place")) if kind in HAS_VARIANTS and len(op) > 1 else False
        old_array, old = ds.array, ds
        try:
            res = _op_call(ds, op)
        except EXPECTED_ERRORS as e:
            after = [_digest(x) for x in live]
            if after != before:
                problems.append(f"step {step} {op}: raised {type(e).__name__} and left a modified object")
            if inp.get("no_raise"):
                problems.append(f"step {step} {op}: raised {type(e).__name__}: {e}")
            problems += [f"step {step} {op} (after {type(e).__name__}): {p}" for x in live for p in _inv_problems(x)]
            continue
        mutating = kind == "set" or mip
        target = ds if (mutating or res is None) else res
        if not mutating:
            after = [_digest(x) for x in live]
            bad = [i for i, (x, y) in enumerate(zip(before, after)) if x != y]
            if bad:
                problems.append(f"step {step} {op}: {len(bad)} existing dataset(s) changed although a new dataset was returned (source not bit-identical)")
            if res is ds:
                problems.append(f"step {step} {op}: returned the source object")
        else:
            after = [_digest(x) for x in live[:-1]]
            if after != before[:-1]:
                problems.append(f"step {step} {op}: an earlier dataset of the history changed")
        problems += [f"step {step} {op}: {p}" for p in _inv_problems(target)]
        if kind == "getitem":
            problems += [f"step {step} {op}: {p}" for p in _getitem_problems(old, op[1], op[2] if len(op) > 2 else False, res)]
        if kind == "copy":
            dv = _view_diff(old, res)
            if dv or np.shares_memory(old.array, res.array) or np.shares_memory(old.origin, res.origin) or np.shares_memory(old.sampling, res.sampling) or old.units is res.units:
                problems.append(f"step {step} copy: {'; '.join(dv) or 'shares memory with the source'}")
        if kind in ("pad", "crop") and (before[-1][4], before[-1][5], before[-1][6]) != _digest(target)[4:7]:
            problems.append(f"step {step} {op}: calibration changed by {kind}")
        if target is not ds:
            live.append(target)
            ds = target
        if len(problems) > 6:
            break
    return dict(violated=bool(problems), observed="; ".join(problems[:4]) or "ok",
                expected="after every step: one calibration entry per axis, class matches ndim, indexing = numpy data with the kept axes' calibration, "
                         "sources bit-identical, in-place == copying")


# ---- families

IDX_SMALL = [
    ([{"i": 0}], True), ([{"i": -1}], False), ([{"s": [1, None, None]}], True), ([{"s": [None, None, 2]}], False), ([{"s": [None, None, -1]}], False),
    ([{"l": [0, 0]}], True), (["..."], True), ([], False), (["...", {"i": 0}], False), ([{"i": 0}, "..."], False), (["...", {"s": [None, None, 2]}], False),
    ([{"s": [0, 2, 1]}, {"s": [None, None, 3]}], False), ([{"l": [1, 0]}, {"s": [None, None, 2]}], False), ([{"i": 0}, {"l": [0, 1]}], False),
    ([{"i": 0}, {"s": [None, None, None]}, {"l": [1, 0]}], False), ([{"l": [0, 1]}, {"s": [None, None, 2]}, {"i": 0}], False),
    ([{"s": [None, None, 2]}, {"i": 0}, {"s": [1, None, None]}], False), ([{"s": [None, None, None]}, {"l": [0, 1]}, {"s": [None, None, 2]}, {"i": 1}], False),
]


def _shape(ndim, base=3):
    return [base + (i % 2) for i in range(ndim)]


def fam_getitem(tier="quick", seed=0):
    for clsname, d in CONFIGS:
        for spec, bare in IDX_SMALL:
            k = sum(1 for e in spec if e != "...")
            if k > d or (k == d and all(e != "..." and "i" in e for e in spec)):
                continue
            yield dict(cls=clsname, shape=_shape(d), ops=[["getitem", spec, bare]], no_raise=True)


OPS_ALPHABET = [
    ["copy"],
    ["set", "origin", "list"],
    ["set", "sampling", "scalar"],
    ["set", "units", "units"],
    ["pad", {"pad_width": 1}],
    ["pad", {"output_shape": "plus", "modify_in_place": True}],
    ["crop", {"crop_widths": "all"}],
    ["crop", {"crop_widths": ((1, 0),), "axes": (0,), "modify_in_place": True}],
    ["bin", {"bin_factors": 2}],
    ["bin", {"bin_factors": 2, "axes": 0, "reducer": "mean", "modify_in_place": True}],
    ["resample", {"factors": 0.5}],
    ["resample", {"out_shape": "plus", "modify_in_place": True}],
    ["getitem", [{"s": [None, None, 2]}], False],
    ["getitem", ["...", {"s": [1, None, None]}], False],
]
OPS_ERRORS = [
    ["set", "origin", "too-long"], ["set", "units", "units-short"], ["set", "array", "array-1d-more"], ["pad", {}], ["pad", {"pad_width": 1, "output_shape": (9,)}],
    ["crop", {"crop_widths": ((0, 0),) * 7}], ["bin", {"bin_factors": 0}], ["bin", {"bin_factors": 2, "reducer": "max"}], ["resample", {}],
    ["resample", {"out_shape": (0,), "axes": (0,)}], ["set", "array", "array"], ["set", "array", "array-1d-less"],
]


def fam_ops(tier="quick", seed=0):
    """depth-1 histories: every op of the alphabet (both variants where they exist) and the argument errors, every configuration"""
    for clsname, d in CONFIGS:
        for op in OPS_ALPHABET + OPS_ERRORS:
            yield dict(cls=clsname, shape=_shape(d, 4), ops=[op])
            if op[0] in HAS_VARIANTS and len(op) > 1:
                a = dict(op[1])
                a["modify_in_place"] = not a.get("modify_in_place", False)
                yield dict(cls=clsname, shape=_shape(d, 4), ops=[[op[0], a]])
                # data types whose operation result has ANOTHER dtype (mean / resample of integers, sums of narrow integers, float32):
                # both variants must agree on values AND dtype
                for dt in ("int32", "uint16", "float32"):
                    yield dict(cls=clsname, shape=_shape(d, 4), ops=[op], dtype=dt)


def fam_histories(tier="quick", seed=0):
    """all histories of depth <= 2 over the op alphabet for every configuration; depth 3: quick = 2-d generic dataset and the 4D-STEM class
    over the 9 non-setter ops + one setter, thorough = every configuration; then random histories of depth 12 (incl. failing operations)"""
    rng = np.random.default_rng(seed + 11)
    alpha = OPS_ALPHABET
    for clsname, d in CONFIGS:
        depth3 = tier == "thorough" or (clsname, d) in (("Dataset", 2),)
        for a in alpha:
            for b in alpha:
                yield dict(cls=clsname, shape=_shape(d, 4), ops=[a, b])
        if depth3:
            core = [o for o in alpha if o[0] != "set"][::1] + [alpha[1]]
            core = core if tier == "thorough" else [core[i] for i in (0, 1, 2, 4, 5, 7, 8, 9, 10)]
            for a in core:
                for b in core:
                    for c in core:
                        yield dict(cls=clsname, shape=_shape(d, 5), ops=[a, b, c])
        for r in range(4 if tier == "quick" else 60):
            ops = [(alpha + OPS_ERRORS)[int(i)] for i in rng.integers(0, len(alpha) + len(OPS_ERRORS), size=12)]
            yield dict(cls=clsname, shape=_shape(d, 6), ops=ops, seed=int(seed + r), dtype=("float64", "int32", "float32", "int64")[r % 4])


def fam_index_vectors(tier="quick", seed=0):
    """every index-kind vector (int / slice / stepped slice / negative-step slice / list, at most one list) for every tuple length, bare
    and Ellipsis form: ndim 1..4 (quick), 1..5 (thorough) - this includes the forms outside the deductive enumeration budget"""
    ent = {"i": {"i": 1}, "s": {"s": [1, None, None]}, "t": {"s": [None, None, 2]}, "n": {"s": [None, None, -1]}, "l": {"l": [1, 0, 1]}, "j": {"i": -1}}
    for d in range(1, 5 if tier == "quick" else 6):
        kinds = "istnl" if d <= 3 else "istl"
        for k in range(0, d + 1):
            for vec in itertools.product(kinds, repeat=k):
                if vec.count("l") > 1 or (k == d and all(v in "ij" for v in vec)):
                    continue
                base = [ent[v] for v in vec]
                forms = [(base, False)] + ([(base, True)] if k == 1 else [])
                for p in range(k + 1):
                    forms.append((base[:p] + ["..."] + base[p:], False))
                for spec, bare in forms:
                    yield dict(cls="Dataset", shape=_shape(d), ops=[["getitem", spec, bare]], no_raise=True)
        for clsname, dd in CONFIGS[5:]:
            if dd == d:
                for vec in itertools.product("itl", repeat=min(d, 3)):
                    if vec.count("l") > 1 or (len(vec) == d and all(v == "i" for v in vec)):
                        continue
                    yield dict(cls=clsname, shape=_shape(d), ops=[["getitem", [ent[v] for v in vec], False]], no_raise=True)


SHAPED_FORMS = ("nested(ndim,k)", "2d(ndim,k)", "2d(ndim,1)", "2d(1,ndim)", "nested(1,ndim)", "nested(ndim,1)", "tuple-of-tuples(ndim,k)", "2d(k,ndim)", "0d")


def _shaped_value(form, nd_, k):
    tab = lambda r, c: (np.arange(float(r * c)).reshape(r, c) + 0.5)
    if form == "nested(ndim,k)":
        return tab(nd_, k).tolist()
    if form == "2d(ndim,k)":
        return tab(nd_, k)
    if form == "2d(ndim,1)":
        return tab(nd_, 1)
    if form == "2d(1,ndim)":
        return tab(1, nd_)
    if form == "nested(1,ndim)":
        return tab(1, nd_).tolist()
    if form == "nested(ndim,1)":
        return tab(nd_, 1).tolist()
    if form == "tuple-of-tuples(ndim,k)":
        return tuple(tuple(r) for r in tab(nd_, k).tolist())
    if form == "2d(k,ndim)":
        return tab(k, nd_)
    if form == "0d":
        return np.array(4.5)
    raise ValueError(form)


def rt_shaped_calibration(inp):
    """nested / 2-d / 0-d calibration arguments (the validator flattens them): accepted => exactly one stored entry per axis with the
    flattened values; otherwise ValueError/TypeError and the object unchanged - validate_ndinfo, both setters, all five constructors"""
    import warnings
    from quantem.core.utils.validators import validate_ndinfo

    warnings.simplefilter("ignore")
    nd_, form, k = inp["ndim"], inp["form"], inp.get("k", 2)
    value = _shaped_value(form, nd_, k)
    size = int(np.size(value))
    flat = np.asarray(value, dtype=float).ravel()
    problems = []
    try:
        r = validate_ndinfo(value, nd_, "origin")
        if not isinstance(r, np.ndarray) or r.shape != (nd_,):
            problems.append(f"validate_ndinfo({form}, ndim={nd_}) returned shape {np.shape(r)} ({size} entries in the argument)")
        elif not np.array_equal(r, flat) or (isinstance(value, np.ndarray) and np.shares_memory(r, value)):
            problems.append(f"validate_ndinfo({form}) changed the values / aliases its argument")
    except (ValueError, TypeError) as e:
        if size == nd_:
            problems.append(f"validate_ndinfo({form}, ndim={nd_}) raised {type(e).__name__} although the argument has exactly {nd_} entries")
    ds = _mk_real("Dataset", tuple(_shape(nd_)), 0) if nd_ else _real_cls("Dataset").from_array(np.array(1.0))
    for attr in ("origin", "sampling"):
        before = _digest(ds)
        try:
            setattr(ds, attr, value)
        except (ValueError, TypeError):
            if _digest(ds) != before:
                problems.append(f"{attr} setter raised and left a modified object")
            if size == nd_:
                problems.append(f"{attr} setter rejected {form} with exactly {nd_} entries")
            continue
        problems += [f"after ds.{attr} = <{form}> on a {nd_}-d dataset: {p}" for p in _inv_problems(ds)]
        if not _inv_problems(ds) and not np.array_equal(getattr(ds, attr), flat):
            problems.append(f"{attr} setter stored other values than the flattened argument")
    arr = np.arange(float(np.prod(_shape(nd_)))).reshape(_shape(nd_)) if nd_ else np.array(1.0)
    for clsname, kk in [("Dataset", None)] + list(FIXED.items()):
        if kk is not None and nd_ > kk:
            continue
        tgt = nd_ if kk is None else kk
        try:
            d2 = _real_cls(clsname).from_array(arr, origin=value, sampling=value)
        except (ValueError, TypeError):
            if size == tgt:
                problems.append(f"{clsname}.from_array rejected {form} with exactly {tgt} entries")
            continue
        problems += [f"{clsname}.from_array(origin=<{form}>) on a {nd_}-d array: {p}" for p in _inv_problems(d2)]
    return dict(violated=bool(problems), observed="; ".join(problems[:4]) or "ok",
                expected="a nested / 2-d / 0-d calibration argument is accepted iff it holds exactly one entry per axis in total; never stored with another length")


def rt_validators(inp):
    """validate_ndinfo / validate_units / ensure_valid_array and the constructors on array-likes of every accepted type"""
    import warnings
    from quantem.core.utils.validators import validate_ndinfo, validate_units, ensure_valid_array

    if "form" in inp:
        return rt_shaped_calibration(inp)
    warnings.simplefilter("ignore")
    problems = []
    nd_, L, kind = inp["ndim"], inp["len"], inp["kind"]
    vals = [0.5 + i for i in range(L)]
    value = {"scalar": 2.5, "int": 3, "list": vals, "tuple": tuple(vals), "ndarray": np.array(vals), "int-ndarray": np.arange(L), "nested": [vals]}[kind]
    expect_raise = kind not in ("scalar", "int") and L != nd_
    try:
        r = validate_ndinfo(value, nd_, "origin")
        if expect_raise:
            problems.append(f"validate_ndinfo accepted {L} entries for ndim {nd_}")
        elif not isinstance(r, np.ndarray) or r.shape != (nd_,):
            problems.append(f"validate_ndinfo returned shape {np.shape(r)} for ndim {nd_}")
        elif isinstance(value, np.ndarray) and np.shares_memory(r, value):
            problems.append("validate_ndinfo result shares memory with its argument")
        elif not np.array_equal(r, np.full(nd_, value) if kind in ("scalar", "int") else np.asarray(value).ravel()):
            problems.append("validate_ndinfo changed the values")
    except (ValueError, TypeError) as e:
        if not expect_raise:
            problems.append(f"validate_ndinfo raised {type(e).__name__} for a valid argument ({kind}, len {L}, ndim {nd_})")
    uv = "nm" if kind in ("scalar", "int") else [f"u{i}" for i in range(L)] if kind != "tuple" else tuple(f"u{i}" for i in range(L))
    try:
        r = validate_units(uv, nd_)
        if expect_raise:
            problems.append(f"validate_units accepted {L} entries for ndim {nd_}")
        elif not isinstance(r, list) or len(r) != nd_ or r is uv or (r != list(uv) if not isinstance(uv, str) else r != [uv] * nd_):
            problems.append(f"validate_units returned {r!r}")
    except (ValueError, TypeError) as e:
        if not expect_raise:
            problems.append(f"validate_units raised {type(e).__name__} for a valid argument")
    # construction from an array-like with this calibration
    arr = np.arange(float(np.prod(_shape(nd_)))).reshape(_shape(nd_)) if nd_ else np.array(1.0)
    for src in ([arr, arr.tolist()] if nd_ else [arr]):
        for clsname, k in [("Dataset", None)] + list(FIXED.items()):
            ov = value if kind != "nested" else vals
            sv = 7 if kind in ("scalar", "int") else type(ov)(np.asarray(ov) * 2 + 1) if not isinstance(ov, np.ndarray) else np.asarray(ov) * 2 + 1
            tgt = nd_ if k is None else max(k, nd_)
            try:
                ds = _real_cls(clsname).from_array(src, origin=ov, sampling=sv, units=uv)
            except (ValueError, TypeError):
                if not (expect_raise or (k is not None and nd_ > k) or (kind not in ("scalar", "int") and L != tgt)):
                    problems.append(f"{clsname}.from_array raised for a valid {nd_}-d input ({kind})")
                continue
            problems += [f"{clsname}.from_array({nd_}-d, {kind}, len {L}): {p}" for p in _inv_problems(ds)]
            if (k is not None and nd_ > k) or (kind not in ("scalar", "int") and L != tgt):
                problems.append(f"{clsname}.from_array accepted {L} calibration entries / a {nd_}-d array for ndim {tgt}")
            elif not (np.array_equal(ds.origin, np.full(tgt, ov) if np.isscalar(ov) else np.asarray(ov)) and np.array_equal(ds.sampling, np.full(tgt, sv) if np.isscalar(sv) else np.asarray(sv))
                      and ds.units == ([uv] * tgt if isinstance(uv, str) else list(uv))):
                problems.append(f"{clsname}.from_array({kind}): stored calibration origin={ds.origin.tolist()} sampling={ds.sampling.tolist()} units={ds.units} differs from the arguments")
    x = np.zeros(_shape(nd_)) if nd_ else np.array(0.0)
    for want in (None, 0, 1, 2, 3, 4, 5):
        try:
            r = ensure_valid_array(x, ndim=want)
            if want is not None and nd_ > want:
                problems.append(f"ensure_valid_array accepted ndim {nd_} > {want}")
            elif r.ndim != (nd_ if want is None else max(nd_, want)) or not np.shares_memory(r, x) and x.size:
                problems.append(f"ensure_valid_array(ndim={want}) returned ndim {r.ndim} / a copy for a {nd_}-d array")
        except ValueError:
            if want is None or nd_ <= want:
                problems.append(f"ensure_valid_array raised for ndim {nd_} <= {want}")
    return dict(violated=bool(problems), observed="; ".join(problems[:4]) or "ok",
                expected="a calibration argument is accepted iff it is a scalar or has one entry per axis; results are new objects with the given values")


def fam_validators(tier="quick", seed=0):
    for nd_ in range(0, 6):
        for form in SHAPED_FORMS:
            for k in ((2, 3) if "k" in form else (2,)):
                yield dict(ndim=nd_, form=form, k=k)
    for nd_ in range(0, 6):
        for kind in ("scalar", "int", "list", "tuple", "ndarray", "int-ndarray"):
            for L in ([nd_] if kind in ("scalar", "int") else range(0, 7)):
                yield dict(ndim=nd_, len=L, kind=kind)


def fam_construct(tier="quick", seed=0):
    yield from fam_validators(tier, seed)


def rt_numpy_model(inp):
    """conformance of the TRUSTED numpy indexing model (pyvc/lib/c03_models.np_index) with numpy itself: shape, element map, source axis
    of every result axis, view-vs-copy"""
    from pyvc.path import PathCtx

    shape = tuple(inp["shape"])
    spec, bare = inp["ops"][0][1], inp["ops"][0][2]
    idx = _py_index(spec, bare)
    a = np.arange(int(np.prod(shape))).reshape(shape)
    want = a[idx]
    strides = [int(np.prod(shape[i + 1:])) for i in range(len(shape))]
    problems = []
    with PathCtx() as ctx:
        sa = nd(shape, lambda *ix: Sym(sum((lift(i) * st for i, st in zip(ix, strides)), z3.IntVal(0))), "int")
        r = cm.np_index(sa, idx)
        got_shape = tuple(V._dim_lit(x) for x in r.shape)
        if got_shape != want.shape:
            problems.append(f"model shape {got_shape}, numpy {want.shape}")
        else:
            pts = list(itertools.islice(np.ndindex(*want.shape), 0, None, max(1, want.size // 7)))
            for pt in pts:
                v = V.simp(lift(r.fn(*[z3.IntVal(int(c)) for c in pt])))
                if not (z3.is_int_value(v) and v.as_long() == int(want[pt])):
                    problems.append(f"model element {pt} = {v}, numpy {int(want[pt])}")
                    break
            if r.is_view != np.shares_memory(want, a) and want.size:
                problems.append(f"model says view={r.is_view}, numpy shares_memory={np.shares_memory(want, a)}")
            coords = np.indices(shape)
            for j in range(want.ndim):
                if want.shape[j] < 2:
                    continue
                src = [k for k in range(len(shape)) if np.any(np.diff(coords[k][idx], axis=j) != 0)]
                if len(src) == 1 and r.axis_map[j] != src[0]:
                    problems.append(f"model: result axis {j} <- source axis {r.axis_map[j]}, numpy: {src[0]}")
    return dict(violated=bool(problems), observed="; ".join(problems[:3]) or "ok", expected="model of numpy indexing agrees with numpy")


# ---- concretisation of counter-models


def _cap(v, lo, hi, default):
    if not isinstance(v, int):
        return default
    return max(lo, min(hi, v))


def gi_concretize_for(cfg, ks, alphabets, reduced, edge):
    def conc(ev):
        clsname, d = cfg
        k = ks[_cap(ev("pk_k", 0), 0, len(ks) - 1, 0)]
        forms = gi_forms(d, k, reduced or edge)
        form = forms[_cap(ev("pk_form", 0), 0, len(forms) - 1, 0)]
        alpha = alphabets[_cap(ev("pk_alphabet", 0), 0, len(alphabets) - 1, 0)] if k >= 1 else alphabets[0]
        kinds = []
        for p in range(k):
            opts = [x for x in ALPHABETS[alpha] if not (x == "l" and "l" in kinds)]
            kinds.append(opts[_cap(ev(f"pk_kind{p}", 0), 0, len(opts) - 1, 0)])
        shape = [_cap(ev(f"ds_a_n{i}", 3), 2, 5, 3) for i in range(d)]
        ell = int(form.split("@")[1]) if form.startswith("ellipsis") else None
        spec = []
        for p, kd in enumerate(kinds):
            n = shape[p if (ell is None or p < ell) else p + (d - k)]
            if kd == "i":
                v = ev(f"ix{p}", 0)
                v = v if isinstance(v, int) else 0
                spec.append({"i": v if (edge and not (-n <= v < n)) else ((v + n) % (2 * n)) - n})
            elif kd in ("s", "t", "u"):
                a = None if ev(f"sa{p}_none", True) else _cap(ev(f"sa{p}", 0), -n - 1, n + 1, 0)
                b = None if ev(f"sb{p}_none", True) else _cap(ev(f"sb{p}", n), -n - 1, n + 1, n)
                st = None if kd == "s" else 1 if kd == "u" else _cap(ev(f"st{p}", 2), -3, 3, 2)
                spec.append({"s": [a, b, st]})
            else:
                L = _cap(ev(f"li{p}_len", 2), 2, 3, 2)
                spec.append({"l": [(j * (n - 1)) % n for j in range(L)]})
        if ell is not None:
            spec = spec[:ell] + ["..."] + spec[ell:]
        bare = form == "bare"
        if bare and k == 0:
            spec = ["..."]
        return dict(cls=clsname, shape=shape, ops=[["getitem", spec, bare]], no_raise=not edge)
    return conc


SETTER_KINDS = {"origin": ("negative-scalar", "zero", "mixed-sign-list", "negative-ndarray", "int-tuple", "too-long", "too-short", "empty"),
                "sampling": ("negative-scalar", "zero", "mixed-sign-list", "negative-ndarray", "int-tuple", "too-long", "too-short", "empty"),
                "units": ("str", "list", "tuple", "too-long", "too-short", "empty")}


def rt_setters(inp):
    """origin / sampling / units setters on the real classes: an accepted value is stored EXACTLY (sign and zeros included, one entry per axis);
    a rejected value raises ValueError/TypeError and leaves the object bit-identical (Inv still holds); the same through from_array"""
    import warnings

    warnings.simplefilter("ignore")
    clsname, nd_, attr, kind = inp["cls"], inp["ndim"], inp["attr"], inp["kind"]
    ds = _mk_real(clsname, tuple(_shape(nd_)), 0) if nd_ else _real_cls(clsname).from_array(np.array(1.0))
    vals = [(-1.5 - i) if i % 2 == 0 else (2.25 + i) for i in range(nd_)]
    if attr == "units":
        value = {"str": "nm", "list": [f"v{i}" for i in range(nd_)], "tuple": tuple(f"w{i}" for i in range(nd_)), "too-long": ["x"] * (nd_ + 1),
                 "too-short": ["x"] * (nd_ - 1) if nd_ else None, "empty": [] if nd_ else None}[kind]
        want = None if kind in ("too-long", "too-short", "empty") else ([value] * nd_ if isinstance(value, str) else list(value))
    else:
        value = {"negative-scalar": -2.5, "zero": 0.0, "mixed-sign-list": vals, "negative-ndarray": -np.abs(np.array(vals, dtype=float)) - 0.5,
                 "int-tuple": tuple(-(i + 1) for i in range(nd_)), "too-long": [-1.0] * (nd_ + 1), "too-short": [-1.0] * (nd_ - 1) if nd_ else None,
                 "empty": [] if nd_ else None}[kind]
        want = None if kind in ("too-long", "too-short", "empty") else (np.full(nd_, value, dtype=float) if np.isscalar(value) else np.asarray(value, dtype=float))
    if value is None:
        return dict(violated=False, observed="n/a", expected="")
    problems = []
    before = _digest(ds)
    try:
        setattr(ds, attr, value)
        raised = None
    except (ValueError, TypeError) as e:
        raised = e
    if want is None:
        if raised is None:
            problems.append(f"ds.{attr} = <{kind}> accepted on a {nd_}-d {clsname}")
        if _digest(ds) != before:
            problems.append(f"rejected ds.{attr} = <{kind}> left a modified object: {attr} is now {getattr(ds, attr)!r}")
    else:
        if raised is not None:
            problems.append(f"ds.{attr} = <{kind}> raised {type(raised).__name__}: {raised}")
        else:
            got = getattr(ds, attr)
            same = (list(got) == want) if attr == "units" else (np.shape(got) == np.shape(want) and np.array_equal(np.asarray(got, dtype=float), want))
            if not same:
                problems.append(f"ds.{attr} = {value!r} stored {got!r} (expected exactly {want!r})")
            d2 = list(_digest(ds))
            b2 = list(before)
            idx = {"origin": 4, "sampling": 5, "units": 6}[attr]
            d2[idx] = b2[idx] = None
            if d2 != b2:
                problems.append(f"ds.{attr} setter changed another part of the object")
    problems += [f"after ds.{attr} = <{kind}>: {p}" for p in _inv_problems(ds)]
    # the same value through the constructor
    if attr != "units" and want is not None and nd_:
        try:
            d3 = _real_cls(clsname).from_array(np.zeros(_shape(nd_)), **{attr: value})
            if not np.array_equal(np.asarray(getattr(d3, attr), dtype=float), want):
                problems.append(f"{clsname}.from_array({attr}={value!r}) stored {getattr(d3, attr)!r}")
        except (ValueError, TypeError) as e:
            problems.append(f"{clsname}.from_array({attr}=<{kind}>) raised {type(e).__name__}")
    return dict(violated=bool(problems), observed="; ".join(problems[:4]) or "ok",
                expected="accepted calibration is stored exactly as given (negative / zero values keep their sign); a rejected assignment changes nothing")


def fam_setters(tier="quick", seed=0):
    for clsname, d in SETTER_CFGS:
        for attr, kinds in SETTER_KINDS.items():
            for kind in kinds:
                yield dict(cls=clsname, ndim=d, attr=attr, kind=kind)


def safe_rt(rt):
    """an oracle never crashes: an unexpected exception from the REAL code is a failure it reports"""
    def run(inp):
        try:
            return rt(inp)
        except Exception as e:  # noqa: BLE001
            import traceback

            where = traceback.extract_tb(e.__traceback__)[-1]
            return dict(violated=True, observed=f"unexpected {type(e).__name__}: {e} (at {where.filename.rsplit('/', 1)[-1]}:{where.lineno} {where.name})",
                        expected="the operations of a history either succeed or raise ValueError/TypeError/IndexError from the call itself and leave every object coherent")
    run.__name__ = rt.__name__
    run.__doc__ = rt.__doc__
    return run


rt_history, rt_validators, rt_numpy_model, rt_setters = safe_rt(rt_history), safe_rt(rt_validators), safe_rt(rt_numpy_model), safe_rt(rt_setters)


def _attach():
    for c in VALIDATORS + SETTER_CONTRACTS + INIT_CONTRACTS + FA_CONTRACTS:
        c.rt, c.rt_family = rt_validators, fam_validators
    for c, a in ((C_SET_ORIGIN, "origin"), (C_SET_SAMPLING, "sampling"), (C_SET_UNITS, "units")):
        c.rt = rt_setters
        c.rt_family = (lambda tier="quick", seed=0, _a=a: (x for x in fam_setters(tier, seed) if x["attr"] == _a))
    for c in (C_SET_ARRAY, C_SET_NAME, C_SET_SU, C_COPY, C_COPY4, C_CCA, C_CCA4):
        c.rt, c.rt_family = rt_history, fam_ops
    for c in OPS:
        kind = {"pad": "pad", "crop": "crop", "bin": "bin", "fourier_resample": "resample"}[c.func.rsplit(".", 1)[1]]
        cfg = c.cfg

        def fam(tier="quick", seed=0, _k=kind, _cfg=cfg):
            for x in fam_ops(tier, seed):
                if x["ops"][0][0] == _k and (x["cls"], len(x["shape"])) == _cfg:
                    yield x
            for op in OPS_ALPHABET:
                if op[0] == _k:
                    yield dict(cls=_cfg[0], shape=_shape(_cfg[1], 5), ops=[["getitem", [{"s": [1, None, None]}], False], op, ["copy"]])

        c.rt, c.rt_family = rt_history, fam
    for c in C_GETITEM:
        cfg = c.cfg

        def fam(tier="quick", seed=0, _cfg=cfg):
            for x in fam_getitem(tier, seed):
                if (x["cls"], len(x["shape"])) == _cfg:
                    yield x

        c.rt, c.rt_family = rt_history, fam
        c.concretize = gi_concretize_for(*c.enum)


_attach()

LEMMAS = []
def fam_model(tier="quick", seed=0):
    return itertools.islice(fam_index_vectors(tier, seed), seed % 6 if tier == "quick" else 0, None, 6 if tier == "quick" else 1)


def _moved(inp):
    """input class of the known finding: an integer index and a list index separated by a slice (numpy moves the list axis first)"""
    spec = inp["ops"][0][1]
    adv = [i for i, e in enumerate(spec) if e != "..." and ("i" in e or "l" in e)]
    return any(e != "..." and "l" in e for e in spec) and adv != list(range(adv[0], adv[-1] + 1))


BOUNDED = [
    Bounded.from_rt("index-kind vectors incl. forms outside the deductive enumeration budget", rt_history, fam_index_vectors,
                    "ndim 1..4 (thorough 1..5); per position int / slice / stepped / negative-step slice / list (<=1 list); every tuple length, bare and every Ellipsis position; shapes 3-4 per axis",
                    klass=lambda inp, res: "list-axis-moved-first" if "comes from source axis" in (res.get("observed") or "") and _moved(inp) else "any"),
    Bounded.from_rt("operation histories (replay of the contracts on the real classes)", rt_history, fam_histories,
                    "all histories of depth <=2 over a 14-op alphabet for every (class, ndim) configuration, depth 3 for ndim<=2 (thorough: all), 6 (60) random histories of depth 12 incl. failing operations"),
    Bounded.from_rt("single operations, both variants, argument errors", rt_history, fam_ops, "every op of the alphabet + 12 invalid calls, every (class, ndim) configuration"),
    Bounded.from_rt("property setters on the real classes: exact values incl. sign, atomic rejection", rt_setters, fam_setters,
                    "every class at its ndim (generic: ndim 0..5) x origin / sampling / units x negative, zero, mixed-sign, integer, wrong-length and empty values; setter and from_array"),
    Bounded.from_rt("conformance of the trusted numpy indexing model with numpy", rt_numpy_model, fam_model,
                    "every 6th (thorough: every) index form of the family above: result shape, sampled elements, source axis of every result axis, view vs copy"),
    Bounded.from_rt("validators / constructors on array-likes", rt_validators, fam_validators,
                    "ndim 0..5 x lengths 0..6 x scalar/int/list/tuple/ndarray/int-ndarray, plus nested lists / tuples of rows, 2-d ndarrays of shape (ndim,k), (k,ndim), (ndim,1), (1,ndim) and 0-d arrays through validate_ndinfo, both setters and all five constructors; ndarray and nested-list data"),
]


# ------------------------------------------------------------------------------------------------
# property-level lemmas: the history quantifier
# ------------------------------------------------------------------------------------------------

OP_ALPHABET_CONTRACTS = ["from_array", "copy", "array/origin/sampling/units/name/signal_units setters", "pad", "crop", "bin", "fourier_resample", "__getitem__"]


def lemma_history(ctx):
    """Induction step over an arbitrary operation sequence, from the contract statements alone.  State of one dataset: lengths of the three
    calibration containers, ndim, and the dimension k its class is registered for (0 = generic Dataset).  Every op contract REQUIRES exactly
    Inv(self) and ENSURES Inv of every dataset it returns or modifies (clauses Inv(result) / Inv(self) above); setters and failing calls
    keep ndim.  Hence Inv holds after every finite history that starts with from_array."""
    Lo, Ls, Lu, n, k = z3.Ints("len_origin len_sampling len_units ndim registered_dim")
    Lo2, Ls2, Lu2, n2, k2 = z3.Ints("len_origin' len_sampling' len_units' ndim' registered_dim'")
    inv = lambda a, b, c, d, e: z3.And(a == d, b == d, c == d, z3.Or(e == 0, e == d))
    reg = sorted(Dataset._registry)
    out = [
        ("base:from_array-establishes-Inv", [Lo == n, Ls == n, Lu == n, z3.Or(k == 0, k == n)], inv(Lo, Ls, Lu, n, k)),
        ("step:op-ensures-Inv-of-its-target", [inv(Lo, Ls, Lu, n, k), Lo2 == n2, Ls2 == n2, Lu2 == n2, z3.Or(k2 == 0, k2 == n2)], inv(Lo2, Ls2, Lu2, n2, k2)),
        ("step:calibration-setter-keeps-Inv", [inv(Lo, Ls, Lu, n, k), Lo2 == n, Ls2 == Ls, Lu2 == Lu, n2 == n, k2 == k], inv(Lo2, Ls2, Lu2, n2, k2)),
        ("step:array-setter-keeps-ndim-hence-Inv", [inv(Lo, Ls, Lu, n, k), Lo2 == Lo, Ls2 == Ls, Lu2 == Lu, n2 == n, k2 == k], inv(Lo2, Ls2, Lu2, n2, k2)),
        ("step:failed-call-changes-nothing", [inv(Lo, Ls, Lu, n, k), Lo2 == Lo, Ls2 == Ls, Lu2 == Lu, n2 == n, k2 == k], inv(Lo2, Ls2, Lu2, n2, k2)),
        ("getitem:class-rule-implies-class-matches-ndim",
         [inv(Lo, Ls, Lu, n, k), z3.If(n2 == n, k2 == k, z3.If(z3.Or(*[n2 == r for r in reg]), k2 == n2, k2 == 0))], z3.Or(k2 == 0, k2 == n2)),
    ]
    return out


def lemma_frames(ctx):
    """`source bit-identical` over a history although __getitem__/crop results are numpy VIEWS of older datasets: every op contract states that
    no pre-existing buffer is written (write counters unchanged), so the contents of every buffer alive before step j are the same after step j."""
    w = z3.Function("writes_after_step", z3.IntSort(), z3.IntSort(), z3.IntSort())  # (buffer id, step) -> number of writes so far
    b, j, m = z3.Ints("buffer step m")
    hyp = [z3.ForAll([b, j], z3.Implies(j >= 0, w(b, j + 1) == w(b, j))), m >= 0, w(b, m) == w(b, 0)]
    return [("no-write-per-step=>no-write-over-the-history (induction step)", hyp, w(b, m + 1) == w(b, 0))]


LEMMAS = [Lemma("history-induction", lemma_history, uses=OP_ALPHABET_CONTRACTS), Lemma("frames-compose", lemma_frames, uses=OP_ALPHABET_CONTRACTS)]

TRUSTED = [
    "pyvc engine (AST interpreter, path exploration, Obj/SymArr value domain, write counters on array buffers), z3, cvc5",
    "numpy indexing model pyvc/lib/c03_models.np_index (A6): slice semantics = CPython PySlice_AdjustIndices for any start/stop/step sign; integer + 1-D list "
    "indices; the list axis replaces adjacent advanced indices in place and comes FIRST when a slice or Ellipsis separates them; basic indexing = view, "
    "list indexing = copy.  Validated against numpy by the bounded check `conformance of the trusted numpy indexing model with numpy` (not proved)",
    "numpy provenance rules: np.array / astype / copy / flatten / np.pad / np.sum / fft results are new buffers; np.asarray(x) IS x for an ndarray; "
    "x.real, expand_dims, reshape, basic slices are views of x; np.zeros/ones/full are new",
    "np.pad / np.sum / reshape / fftn / ifftn / fftshift / ifftshift / .real are deterministic functions of (contents, parameters) with numpy's shape rule; "
    "their VALUES are uninterpreted (C06 owns the conservation laws); round() is a function of its argument within 1/2 of it (A3)",
    "builtin models: zero-argument super() resolved along the real MRO, dir() of an abstract object = dir(class) + instance fields, dict()/list methods store "
    "symbolic values natively",
    "induction over the operation sequence (lemma history-induction / frames-compose give the step; the schema itself is trusted)",
]
ASSUMPTIONS = [
    "A1 floats are reals; A2 machine integers are mathematical; A6 numpy contracts as listed under trusted_base",
    "ndim 1..5 (0..5 for validators/constructors) and the five classes Dataset, Dataset2d, Dataset3d, Dataset4d, Dataset4dstem are enumerated; axis lengths >= 1 "
    "(zero-length axes are outside the property's range: fourier_resample divides by the axis length), contents, calibration values, widths, factors, "
    "slice bounds and steps, list lengths and entries are symbolic",
    "deductive domain of the array argument: a numpy ndarray (lists / nested lists / scalars go through np.array natively: bounded check "
    "`validators / constructors on array-likes`); names are concrete strings (not part of the property); dtype only as `is complex` flag",
    "__getitem__ enumeration budget: per explicit position int | slice | slice with symbolic step (not in {0,1}) | list of symbolic length, at most ONE list "
    "(with two lists numpy merges axes, the statement's `kept axes` is undefined there; the real code raises ValueError - observed, not covered); slices with and "
    "without step are not mixed inside one index; Ellipsis at the start / after the first entry / at the end; ndim 4-5: Ellipsis forms with <= 2 explicit "
    "entries; subclasses: tuple and bare forms, stepped slices with <= 2 entries.  Steps 0 / 1 and out-of-range integers are proved on the edge family "
    "(<= 2 explicit entries).  Every form left out is covered by the bounded check `index-kind vectors ...` (not proved)",
    "pad/crop/bin/fourier_resample argument forms: scalar / pair / per-axis widths, output_shape, int / tuple factors, axes None / int / (0, last); "
    "fourier_resample deductively with ONE resampled axis (all axes for ndim 1) because every resampled axis multiplies the paths by 12; other axis sets: "
    "bounded check `operation histories`",
    "custom attributes are represented by one array-valued and one scalar attribute plus _metadata/_file_path (and the two virtual-image dicts, empty, for "
    "Dataset4dstem); nested mutable metadata is shallow-copied by the real code (not part of `data and calibration`)",
]
EXPLANATION = ("VCs generated from the real source of Dataset.* / Dataset{2d,3d,4d,4dstem}.{__init__,from_array} / validators by symbolic execution over abstract "
               "dataset objects (array = index function + buffer identity + write counter); callees through their contracts; in-place == copying by executing "
               "the real body twice on twin objects; z3 discharges every obligation")
