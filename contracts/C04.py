"""C04 - direct ptychography: batch-invariant, linear in the stack, sub-masks recombine, exact on analytic parallax cases.

Deductive part (level "other"): a dependence / linearity / mask-provenance TYPING of the REAL statements of
DirectPtychography.reconstruct and the functions it depends on.  The real AST is interpreted by pyvc.interp over the abstract
tensor domain of pyvc/lib/c04_models.py (per-operation typing rules: trusted).  Obligations (stable names) say:
every statement typable; every row-buffer write is `buffer[batch rows] = row-wise value`; accumulators only `+= row sum`;
every sub-mask-relative index is applied to a tensor built from the SAME mask; nothing partial flows into a global;
the data path is linear with data-free multipliers; single-pass results are (mask-free row value)/(additive aperture weight).
Batch streaming: SimpleBatcher's partition contract is proved in contracts/C09.py and reused here (lemmas below).
Bounded deciding part: the property's statements evaluated on the real code on small stacks (run-time oracles).
"""
from __future__ import annotations

import operator
import os
import sys

import z3

from pyvc import values as V
from pyvc.values import Sym, Obj, S, lift
from pyvc.interp import NS, LoopSpec, GhostGen
from pyvc.registry import Contract, resolve
from pyvc.runner import Lemma, Bounded
from pyvc.lib import torch_ as tm
from pyvc.lib import c04_models as cm
from pyvc.lib.c04_models import TT, DimInt, Mask, ONE, scan_dim, dim_eq
from .common import registry, ceil_div, zmin, forall, implies, AND, OR, NOT
from . import C09
from . import C12

LEVEL = "other"
DP = "quantem.diffractive_imaging.direct_ptychography"
CP = "quantem.diffractive_imaging.complex_probe"
PU = "quantem.diffractive_imaging.ptycho_utils"
DPC = resolve(f"{DP}:DirectPtychography")
BFC = resolve(f"{DP}:BrightFieldContext")
HPS = resolve(f"{DP}:HyperparameterState")
SBC = resolve(f"{PU}:SimpleBatcher")
I, Rl = z3.Int, z3.Real

POINTWISE_HELPERS = [
    f"{CP}:polar_coordinates", f"{CP}:evaluate_probe", f"{CP}:aperture", f"{CP}:soft_aperture", f"{CP}:hard_aperture",
    f"{CP}:aberration_surface", f"{CP}:aberration_surface_polar_gradients", f"{CP}:aberration_surface_cartesian_gradients",
]   # spatial_frequencies / _passively_rotate_grid are NOT interpreted inline: the grid set-up goes through the contract of contracts/C12.py (C_SF_USE below)
DP_PROPS = [f"{DP}:DirectPtychography.{p}" for p in ("verbose", "vbf_stack", "bf_mask", "semiangle_cutoff", "device", "scan_sampling",
                                                      "corrected_stack", "reciprocal_sampling")]


class Opaque:
    """Progress bar: every attribute is a no-op callable (output only)."""

    _pyvc_value = True
    _sym_ok = True

    def __getattr__(self, k):
        if k.startswith("__"):
            raise AttributeError(k)
        return Opaque()

    def __call__(self, *a, **k):
        return None


def make_registry():
    import quantem.diffractive_imaging.direct_ptychography as M
    from quantem.core.utils import validators

    reg = registry()
    tm.install(reg)
    cm.install(reg)
    cm.install_crop(reg)
    for c in CONTRACTS:
        reg.add_contract(c)
    for c in C12_GRADIENTS + C12_GRIDS + C12_ALIASES:   # value contracts of C12 (own registry); the typing of reconstruct interprets these functions inline (grids: C_SF_USE)
        reg.contracts.pop(c.func, None)
    for c in (C_CURAB, C_CURROT):   # verified on their own AND interpreted inline inside reconstruct (its frame clause sees their effects)
        reg.contracts.pop(c.func, None)
    reg.contracts[C_ITER_USE.func] = C_ITER_USE   # at call sites: the statement; the body of __iter__ is verified below (C09.C_ITER)
    reg.contracts[C_SF_USE.func] = C_SF_USE       # at call sites: the typing of C12's statement; the bodies are verified below (C12_GRIDS)
    C09._REG_HOLDER["reg"] = reg
    reg.inline.add(f"{PU}:SimpleBatcher.rng")
    for q in DP_PROPS + [f"{DP}:HyperparameterState.current_aberrations", f"{DP}:HyperparameterState.current_rotation_angle",
                         "quantem.core.utils.rng:RNGMixin.rng", f"{DP}:DirectPtychography._return_upsampled_qgrid"]:
        reg.inline.add(q)
    reg.noop_calls = set(reg.noop_calls) - {"tqdm"}
    reg.models[M.tqdm] = lambda interp, *a, **k: Opaque()
    # dataclass constructor (generated code): stores its keyword arguments as fields
    reg.ctor_models[BFC] = lambda interp, **kw: Obj(BFC, dict(kw))
    reg.ctor_models[SBC] = ctor_batcher
    reg.ctor_models[dict] = lambda interp, *a, **k: dict(*a, **k)
    reg.method_models[(dict, "update")] = lambda interp, d, *a, **k: d.update(*a, **k)
    reg.method_models[(dict, "get")] = lambda interp, d, *a: d.get(*a)
    # validate_tensor returns its (tensor) argument or raises on a type mismatch; alias canonicalisation is C12's subject
    reg.models[validators.validate_tensor] = lambda interp, value, name, **kw: value
    reg.models[M.validate_tensor] = reg.models[validators.validate_tensor]
    reg.models[M.validate_aberration_coefficients] = lambda interp, d: dict(d)
    prev_len = reg.models.get(len)

    def m_len(interp, x):
        if isinstance(x, TT):
            rd = x.row_dim()
            if len(x.shape_) == 1 and rd is not None:
                sp = rd[1]
                if isinstance(sp, cm.Space):
                    return sp.count
                return TT((), "R", "C", "free")  # the size of the current batch = sum over its rows of 1
            raise V.OutOfSubset("len() of an abstract tensor that is not a row vector")
        return prev_len(interp, x)

    reg.models[len] = m_len

    def kind_is(interp, a, b):
        for x in (a, b):
            if isinstance(x, cm.Stale):
                x.touch("identity test")
        return a is b

    reg.kind_is = kind_is
    return reg


# ------------------------------------------------------------------------------------------------
# abstract objects
# ------------------------------------------------------------------------------------------------
ABERRATION_KEYS = ("C10", "C12", "phi12", "C21", "phi21", "C23", "phi23", "C30", "C32", "phi32", "C34", "phi34",
                   "C41", "phi41", "C43", "phi43", "C45", "phi45", "C50", "C52", "phi52", "C54", "phi54", "C56", "phi56")


def real(ctx, name, positive=False):
    v = ctx.fresh(name, "real")
    if positive:
        ctx.assume(v.t > 0)
    return v


def aber_dict(ctx, tag=""):
    return {k: real(ctx, f"{tag}{k}") for k in ABERRATION_KEYS}


def det_grid(lin="C"):
    return TT((("det", 0), ("det", 1)), "G", lin, "free")


def scan_grid(m=1):
    return TT((scan_dim(0, m), scan_dim(1, m)), "G", "C", "free")


def stale(msg):
    return cm.Stale(msg)


def dp_obj(ctx):
    """Abstract DirectPtychography after __init__/_preprocess: construction mask S, stack rows in row-major order of S."""
    Smask = Mask("S")
    sp = cm.space_of(Smask)
    rows = ("rows", sp)
    state = Obj(HPS, dict(initial_aberrations=aber_dict(ctx, "init_"), initial_rotation_angle=real(ctx, "init_rot"),
                          optimized_aberrations={"C10": real(ctx, "opt_C10"), "C12": real(ctx, "opt_C12")},
                          optimized_rotation_angle=None, optimized_keys=set(), study=None))
    o = Obj(DPC, dict(
        _device="cpu", _verbose=0, _rng=Opaque(),
        _bf_mask=TT((("det", 0), ("det", 1)), "G", "C", "free", kind="mask", ref=Smask),
        _vbf_stack=TT((rows, scan_dim(0), scan_dim(1)), "B", "L", "free"),
        _vbf_fourier=TT((rows, scan_dim(0), scan_dim(1)), "B", "L", "free"),       # representation invariant established by _preprocess
        _dc_per_image=TT((), "G", "L", "M"),
        _q_signal_power=TT((scan_dim(0), scan_dim(1)), "G", "N", "M"),
        _corrected_stack=stale("the previous reconstruction (self._corrected_stack) is read: the result is not a function of stack, mask and hyper-parameters only"),
        wavelength=real(ctx, "wavelength", True), _semiangle_cutoff=real(ctx, "semiangle", True), soft_edges=ctx.fresh("soft_edges", "bool"),
        angular_sampling=(real(ctx, "ang0", True), real(ctx, "ang1", True)), sampling=(real(ctx, "samp0", True), real(ctx, "samp1", True)),
        _scan_sampling=(real(ctx, "ss0", True), real(ctx, "ss1", True)), scan_units=("A", "A"), detector_units=("A^-1", "A^-1"),
        gpts=(DimInt(("det", 0)), DimInt(("det", 1))), scan_gpts=(DimInt(scan_dim(0)), DimInt(scan_dim(1))),
        num_bf=sp.count, hyperparameter_state=state))
    o.fields["$S"] = Smask
    return o
# ================================================================================================
# run-time oracles: the property's statements evaluated on the REAL DirectPtychography (bounded deciding part)
# ================================================================================================
_RT = {}


def _rt_env():
    """torch single-threaded; the two gc.collect() calls of reconstruct (0.3 s each in this process, no semantic
    effect) are replaced by a no-op through the module global `gc` (monkey-patch inside the checker, /repo untouched)."""
    if "mod" in _RT:
        return _RT["mod"]
    import torch
    import quantem.diffractive_imaging.direct_ptychography as M

    torch.set_num_threads(1)

    class _NoGC:
        @staticmethod
        def collect(*a, **k):
            return 0

    M.gc = _NoGC
    _RT["mod"] = M
    return M


def _disc_mask(det, radius):
    import numpy as np

    ky = np.fft.fftfreq(det[0]) * det[0]
    kx = np.fft.fftfreq(det[1]) * det[1]
    return (np.sqrt(ky[:, None] ** 2 + kx[None, :] ** 2) <= radius)


def _stack_for(cfg, nbf, which=0):
    import numpy as np

    rng = np.random.default_rng(1000 * cfg.get("seed", 0) + which)
    return (rng.normal(size=(nbf,) + tuple(cfg["scan"])) + 1.0).astype(np.float32)


def _build(cfg, stack=None):
    """DirectPtychography.from_virtual_bfs on a small synthetic stack described by the JSON-able dict cfg."""
    import numpy as np
    from quantem.core.datastructures import Dataset2d, Dataset3d

    M = _rt_env()
    det = tuple(cfg["det"])
    if "pixels" in cfg:
        mask = np.zeros(det, dtype=bool)
        for i, j in cfg["pixels"]:
            mask[i % det[0], j % det[1]] = True
    else:
        mask = _disc_mask(det, cfg.get("radius", 1.5))
    nbf = int(mask.sum())
    if stack is None:
        stack = _stack_for(cfg, nbf)
    ss = cfg.get("scan_sampling", [0.5, 0.5])
    ds = cfg.get("det_sampling", [9.0, 9.0])
    vb = Dataset3d.from_array(np.array(stack, dtype=np.float32), name="vbf", units=("index", "A", "A"), sampling=(1, ss[0], ss[1]))
    md = Dataset2d.from_array(mask, name="mask", units=("mrad", "mrad"), sampling=(ds[0], ds[1]))
    dp = M.DirectPtychography.from_virtual_bfs(
        vb, md, energy=cfg.get("energy", 80e3), rotation_angle=cfg.get("built_rot", cfg.get("rot", 0.0)),
        aberration_coefs=dict(cfg.get("built_abers", cfg.get("abers", {}))),
        semiangle_cutoff=cfg.get("semi", 20.0), soft_edges=cfg.get("soft", True), crop_bf_mask=cfg.get("crop", False),
        bf_mask_padding_px=cfg.get("pad", 1), verbose=False, device="cpu", rng=0)
    return dp, np.asarray(stack, dtype=np.float64), mask


def _submask(dp, keep):
    """Sub-mask of the construction mask keeping the BF pixels at the given row-major positions."""
    import torch

    if keep is None:
        return None
    ii, jj = torch.nonzero(dp.bf_mask, as_tuple=True)
    m = torch.zeros_like(dp.bf_mask)
    for p in keep:
        m[ii[p], jj[p]] = True
    return m


def _as_kind(v, kind):
    """The same number as another value kind (python int / numpy scalar): exact zeros must not be treated as 'not given'."""
    import numpy as np

    return {"int": int, "np64": np.float64, "np32": np.float32}.get(kind, lambda x: x)(v)


def _recon(dp, cfg, sub=None, batch=None, kernel=None, u=None):
    o = cfg.get("opts", {})
    kw = {}
    if "built_rot" in cfg:     # object built with another rotation: the requested one is passed as a one-off override
        kw["override_rotation_angle"] = _as_kind(cfg.get("rot", 0.0), cfg.get("rot_kind"))
    if "built_abers" in cfg:   # requested coefficients override the stored ones key by key (canonical keys)
        kw["override_aberration_coefs"] = dict(cfg.get("abers", {}))
    dp.reconstruct(bf_mask=_submask(dp, sub), upsampling_factor=u if u is not None else cfg.get("u"), max_batch_size=batch,
                   deconvolution_kernel=kernel or cfg.get("kernel", "ssb"), q_highpass=o.get("hp"), q_lowpass=o.get("lp"),
                   parallax_flip_phase=o.get("flip", True), verbose=False, **kw)
    return dp.corrected_stack.detach().clone().double().numpy()


def _dev(a, b):
    import numpy as np

    if a.shape != b.shape:
        return float("inf"), 1.0
    if not (np.isfinite(a).all() and np.isfinite(b).all()):
        return float("inf"), 1.0
    return float(np.abs(a - b).max()), float(max(np.abs(a).max(), np.abs(b).max(), 1e-30))


def _guard(rt):
    """An exception of the real code on a valid input is a violation (no result), not a checker fault."""
    import functools

    @functools.wraps(rt)
    def w(inp):
        try:
            return rt(inp)
        except Exception as e:  # noqa: BLE001
            import traceback

            tb = traceback.extract_tb(e.__traceback__)
            where = next((f"{f.filename.rsplit('/', 1)[-1]}:{f.lineno}" for f in reversed(tb) if "/quantem/" in f.filename), "?")
            return dict(violated=True, observed=f"raised {type(e).__name__}: {str(e)[:200]} at {where}", expected="a reconstruction (no exception on a valid input)")
    return w


RTOL = 2e-4  # float32 pipelines; A1: summation order differs between batchings


@_guard
def rt_batch(cfg):
    """Batch independence: for every max_batch_size 1..num_bf the corrected stack equals the unbatched one."""
    dp, stack, mask = _build(cfg)
    sub = cfg.get("sub")
    ref = _recon(dp, cfg, sub, None)
    n = ref.shape[0]
    exp_shape = (len(sub) if sub is not None else dp.num_bf,) + tuple(int(cfg.get("u") or 1) * s for s in cfg["scan"])
    problems = []
    if tuple(ref.shape) != exp_shape:
        problems.append(f"corrected_stack shape {tuple(ref.shape)} != {exp_shape}")
    for b in range(1, n + 1):
        out = _recon(dp, cfg, sub, b)
        d, sc = _dev(out, ref)
        if not d <= RTOL * sc:
            problems.append(f"max_batch_size={b}: max|diff|={d:.3g} at scale {sc:.3g}")
    again = _recon(dp, cfg, sub, None)
    d, sc = _dev(again, ref)
    if d != 0.0:
        problems.append(f"second identical call differs by {d:.3g} (hidden state)")
    return dict(violated=bool(problems), observed="; ".join(problems[:4]) or "ok",
                expected="corrected_stack identical (rel 2e-4) for every max_batch_size 1..num_bf, shape (num_bf, u*Ny, u*Nx), repeat call identical")


@_guard
def rt_linear(cfg):
    """Linearity in the stack: recon(a X + b Y) = a recon(X) + b recon(Y) (same mask and hyper-parameters)."""
    import numpy as np

    dp0, X, mask = _build(cfg)
    Y = _stack_for(cfg, X.shape[0], which=1).astype(np.float64)
    a, b = cfg.get("ab", [1.5, -0.75])
    dpx, dpy = dp0, _build(cfg, stack=Y)[0]
    dpz = _build(cfg, stack=a * X + b * Y)[0]
    sub, bs = cfg.get("sub"), cfg.get("batch")
    rx, ry, rz = _recon(dpx, cfg, sub, bs), _recon(dpy, cfg, sub, bs), _recon(dpz, cfg, sub, bs)
    d, sc = _dev(rz, a * rx + b * ry)
    sc = max(sc, float(np.abs(rx).max()), float(np.abs(ry).max()))
    bad = not d <= 5e-4 * sc
    return dict(violated=bad, observed=f"max|recon(aX+bY) - a recon(X) - b recon(Y)| = {d:.3g} at scale {sc:.3g}",
                expected="equal to float32 tolerance (rel 5e-4)")


def aperture_weight(dp_cfg, gpts, pixels_mask):
    """SPEC: total aperture weight of a detector mask = sum over its pixels of |A(k)|^2, A the (soft-edged) aperture:
    A = clip((alpha0 - alpha)/sqrt((cos(phi) da_x)^2 + (sin(phi) da_y)^2) + 1/2, 0, 1), alpha = lambda |k| on the rotated detector grid."""
    import numpy as np
    from quantem.core.utils.utils import electron_wavelength_angstrom

    lam = electron_wavelength_angstrom(dp_cfg.get("energy", 80e3))
    ds = dp_cfg.get("det_sampling", [9.0, 9.0])  # mrad per detector pixel
    kx = np.fft.fftfreq(gpts[0], 1.0 / (gpts[0] * ds[0] / lam / 1e3))
    ky = np.fft.fftfreq(gpts[1], 1.0 / (gpts[1] * ds[1] / lam / 1e3))
    KX, KY = np.meshgrid(kx, ky, indexing="ij")
    th = -dp_cfg.get("rot", 0.0)
    KXr, KYr = KX * np.cos(th) + KY * np.sin(th), -KX * np.sin(th) + KY * np.cos(th)
    alpha = np.hypot(KXr, KYr) * lam
    phi = np.arctan2(KYr, KXr)
    den = np.sqrt((np.cos(phi) * ds[0] * 1e-3) ** 2 + (np.sin(phi) * ds[1] * 1e-3) ** 2)
    A = np.clip((dp_cfg.get("semi", 20.0) * 1e-3 - alpha) / den + 0.5, 0, 1)
    return float((A[pixels_mask] ** 2).sum()), (KXr, KYr, lam)


def _orig_mask_of_rows(mask, rows):
    """Boolean mask (ORIGINAL detector coordinates, before any cropping by the constructor) of the pixels recorded in the given stack rows;
    stack row r <-> r-th pixel of the construction mask in row-major order."""
    import numpy as np

    pix = np.argwhere(mask)
    m = np.zeros_like(mask)
    for r in (range(len(pix)) if rows is None else rows):
        m[tuple(pix[r])] = True
    return m


@_guard
def rt_recombine(cfg):
    """Single-pass kernels: W_A bf_A + W_B bf_B = W bf_full for complementary sub-masks A, B of the construction mask."""
    import numpy as np

    dp, stack, mask = _build(cfg)
    n = stack.shape[0]
    A = sorted(cfg["sub"])
    B = [p for p in range(n) if p not in A]

    def W(keep):
        return aperture_weight(cfg, tuple(mask.shape), _orig_mask_of_rows(mask, keep))[0]

    bs = cfg.get("batch")
    rf = _recon(dp, cfg, None, bs).sum(0)
    ra = _recon(dp, cfg, A, bs).sum(0)
    rb = _recon(dp, cfg, B, bs).sum(0)
    lhs = W(A) * ra + W(B) * rb
    rhs = W(None) * rf
    d, sc = _dev(lhs, rhs)
    bad = not d <= 5e-4 * sc
    return dict(violated=bad, observed=f"max|W_A bf_A + W_B bf_B - W bf| = {d:.3g} at scale {sc:.3g} (W_A={W(A):.4g}, W_B={W(B):.4g}, W={W(None):.4g})",
                expected="equal (rel 5e-4)")


def _grad_chi_over_2pi(abers, KX, KY, lam):
    """SPEC: geometric shift (Angstrom) = grad_k chi / 2 pi for chi = (2 pi / lambda) * 1/2 alpha^2 (C10 + C12 cos 2(phi - phi12)),
    alpha = lambda k; `defocus` is the alias C10 = -defocus."""
    import numpy as np

    C10 = abers.get("C10", 0.0) - abers.get("defocus", 0.0)
    C12 = abers.get("C12", abers.get("astigmatism", 0.0))
    p12 = abers.get("phi12", abers.get("astigmatism_angle", 0.0))
    c, s = np.cos(2 * p12), np.sin(2 * p12)
    dx = lam * (C10 * KX + C12 * (KX * c + KY * s))
    dy = lam * (C10 * KY + C12 * (KX * s - KY * c))
    return dx, dy


@_guard
def rt_parallax(cfg):
    """Analytic parallax (no CTF sign flipping): corrected_bf = sum_i translate(image_i - mean(image_i), grad chi(k_i)/2pi) / W_mask
    (zero aberration: no translation).  Upsampled grids: images are placed on the fine grid (zero interleaved) before translating.
    Integer-pixel shifts are applied with np.roll (pure geometry); others with the band-limited Fourier shift."""
    import numpy as np

    cfg = dict(cfg, kernel=cfg.get("kernel", "prlx"), opts=dict(cfg.get("opts", {}), flip=False))
    dp, stack, mask = _build(cfg)
    sub = cfg.get("sub")
    u = int(cfg.get("u") or 1)
    got = _recon(dp, cfg, sub, cfg.get("batch")).sum(0)
    # everything below is stated in the ORIGINAL detector coordinates of the mask handed to the constructor:
    # stack row r was recorded at the r-th pixel (row-major) of that mask, whatever the constructor does to the mask internally
    pix = np.argwhere(mask).tolist()
    rows = list(range(len(pix))) if sub is None else list(sub)
    Wm, (KX, KY, lam) = aperture_weight(cfg, tuple(mask.shape), _orig_mask_of_rows(mask, rows))
    dx, dy = _grad_chi_over_2pi({**cfg.get("built_abers", {}), **cfg.get("abers", {})}, KX, KY, lam)
    ss = cfg.get("scan_sampling", [0.5, 0.5])
    Ny, Nx = cfg["scan"]
    acc = np.zeros((u * Ny, u * Nx))
    how = set()
    for r in rows:
        i, j = pix[r]
        img = stack[r]
        img = img - img.mean()
        fine = np.zeros((u * Ny, u * Nx))
        fine[::u, ::u] = img
        sy, sx = dx[i, j] / (ss[0] / u), dy[i, j] / (ss[1] / u)  # shift in fine pixels along axis 0 / 1
        if abs(sy - round(sy)) < 1e-6 and abs(sx - round(sx)) < 1e-6:
            fine = np.roll(fine, (int(round(sy)), int(round(sx))), axis=(0, 1))
            how.add("roll")
        else:
            qy, qx = np.fft.fftfreq(u * Ny), np.fft.fftfreq(u * Nx)
            fine = np.fft.ifft2(np.fft.fft2(fine) * np.exp(-2j * np.pi * (qy[:, None] * sy + qx[None, :] * sx))).real
            how.add("fourier")
        acc += fine
    exp = acc / Wm
    d, sc = _dev(got, exp)
    bad = not d <= 1e-3 * sc
    return dict(violated=bad, observed=f"max|corrected_bf - expected| = {d:.3g} at scale {sc:.3g} (W={Wm:.4g}, shifts by {sorted(how)})",
                expected="sum of translated mean-subtracted virtual images / aperture weight (rel 1e-3)")


@_guard
def rt_bf_context(cfg):
    """_return_bf_context: vbf_index_mapping[r] is the stack row of detector pixel (bf_inds_i[r], bf_inds_j[r]); the pixels enumerate the sub-mask."""
    import numpy as np

    dp, stack, mask = _build(dict(cfg, stack_marks=True), stack=_marked_stack(cfg))
    sub = cfg.get("sub")
    bm = _submask(dp, sub) if sub is not None else dp.bf_mask
    bf = dp._return_bf_context(bm)
    Wd = dp.bf_mask.shape[1]
    problems = []
    pix = list(zip(bf.bf_inds_i.tolist(), bf.bf_inds_j.tolist()))
    want = [tuple(p) for p in np.argwhere(bm.numpy()).tolist()]
    if sorted(pix) != sorted(want) or len(set(pix)) != len(pix):
        problems.append(f"pixels {pix} do not enumerate the sub-mask {want}")
    if bf.num_bf != len(want):
        problems.append(f"num_bf {bf.num_bf} != {len(want)}")
    if len(bf.vbf_index_mapping) != len(pix):
        problems.append(f"mapping has {len(bf.vbf_index_mapping)} entries for {len(pix)} pixels")
    else:
        for r, (i, j) in enumerate(pix):
            mark = float(dp.vbf_stack[int(bf.vbf_index_mapping[r])][0, 0])
            if mark != float(i * Wd + j):
                problems.append(f"row {r}: pixel ({i},{j}) mapped to the image of pixel {divmod(int(mark), Wd)}")
                break
    return dict(violated=bool(problems), observed="; ".join(problems[:3]) or "ok", expected="mapping selects the image recorded at each sub-mask pixel")


def _marked_stack(cfg):
    """Image of detector pixel (i,j) is the constant i*W+j (stack order = row-major over the construction mask)."""
    import numpy as np

    det = tuple(cfg["det"])
    mask = np.zeros(det, dtype=bool)
    for i, j in cfg["pixels"]:
        mask[i % det[0], j % det[1]] = True
    return np.stack([np.full(tuple(cfg["scan"]), float(i * det[1] + j), dtype=np.float32) for i, j in np.argwhere(mask).tolist()])



@_guard
def rt_history(cfg):
    """No hidden state across calls: after any sequence of reconstructions (other kernels, sub-masks, upsampling, ONE-OFF overrides of the
    aberrations / rotation) a plain reconstruct() equals the first one and equals that of a freshly built object; the stored hyper-parameters
    and the caller's override dictionary are unchanged."""
    import copy

    dp, stack, mask = _build(cfg)
    st = dp.hyperparameter_state
    if cfg.get("optimized"):
        st.optimized_aberrations.update(cfg["optimized"])
    before = copy.deepcopy((st.initial_aberrations, st.optimized_aberrations, st.initial_rotation_angle, st.optimized_rotation_angle, sorted(st.optimized_keys)))
    first = _recon(dp, cfg, cfg.get("sub"), cfg.get("batch"))
    problems = []
    for step in cfg["steps"]:
        kw = dict(step)
        ovr = kw.get("override_aberration_coefs")
        ovr_copy = copy.deepcopy(ovr)
        dp.reconstruct(bf_mask=_submask(dp, kw.pop("sub", None)), verbose=False, **kw)
        if ovr != ovr_copy:
            problems.append(f"the caller's override dictionary was changed: {ovr_copy} -> {ovr}")
    later = _recon(dp, cfg, cfg.get("sub"), cfg.get("batch"))
    after = (st.initial_aberrations, st.optimized_aberrations, st.initial_rotation_angle, st.optimized_rotation_angle, sorted(st.optimized_keys))
    if after != before:
        problems.append(f"stored hyper-parameters changed: {before} -> {after}")
    d, sc = _dev(later, first)
    if d != 0.0:
        problems.append(f"the same call after {len(cfg['steps'])} other reconstructions differs from the first by {d:.3g} (scale {sc:.3g})")
    fresh = _build(cfg)[0]
    if cfg.get("optimized"):
        fresh.hyperparameter_state.optimized_aberrations.update(cfg["optimized"])
    d, sc = _dev(_recon(fresh, cfg, cfg.get("sub"), cfg.get("batch")), later)
    if d != 0.0:
        problems.append(f"differs from a freshly constructed object by {d:.3g} (scale {sc:.3g})")
    return dict(violated=bool(problems), observed="; ".join(problems[:3]) or "ok",
                expected="later plain call == first call == fresh object (bitwise); stored hyper-parameters and override dictionaries unchanged")


def fam_history(tier="quick", seed=0):
    k = 0
    seqs = [
        [dict(override_aberration_coefs={"C10": 600.0})],
        [dict(override_aberration_coefs={"defocus": 300.0, "C12": 50.0}, override_rotation_angle=0.4)],
        [dict(override_rotation_angle=-0.7), dict(deconvolution_kernel="obf", upsampling_factor=2)],
        [dict(deconvolution_kernel="mf", max_batch_size=2), dict(sub=[0, 2], deconvolution_kernel="parallax", override_aberration_coefs={"C30": 1.0e5}), dict(use_initial_state=True)],
        [dict(q_lowpass=0.7, q_highpass=0.1), dict(override_aberration_coefs={"C10": -250.0}, deconvolution_kernel="icom")],
    ]
    for gi, g in enumerate(_GEOMS[:3] if tier == "quick" else _GEOMS):
        for kernel in ("ssb", "prlx", "obf") if tier == "quick" else ("ssb", "obf", "mf", "prlx", "icom"):
            for si, steps in enumerate(seqs):
                for optimized in ({}, {"C12": 35.0, "phi12": 0.2}):
                    k += 1
                    if tier == "quick" and (k + si) % 2:
                        continue
                    yield dict(g, kernel=kernel, u=1 + k % 2, sub=None, abers=_ABERS[1 + k % 3], rot=[0.0, 0.3][k % 2], seed=seed + k, batch=[None, 2][k % 2],
                               steps=steps, optimized=optimized, opts=dict(flip=bool(k % 2)))


@_guard
def rt_mask_reuse(cfg):
    """The result is determined by the VALUE of the mask handed to each call: one work tensor is refilled in place between calls
    (copy_ / item assignment); every reconstruction (and every BrightFieldContext) must equal that of a fresh object given a fresh copy."""
    import torch

    dp, stack, mask = _build(cfg)
    fresh = _build(cfg)[0]
    work = torch.zeros_like(dp.bf_mask)
    problems = []
    for step, rows in enumerate(cfg["masks"]):
        m = _submask(dp, rows)
        if step % 2 == 0:
            work.copy_(m)
        else:
            work[:] = m
        bf = dp._return_bf_context(work)
        want = torch.nonzero(m, as_tuple=True)
        if bf.num_bf != len(rows) or not (torch.equal(bf.bf_inds_i, want[0]) and torch.equal(bf.bf_inds_j, want[1])):
            problems.append(f"call {step + 1}: context lists pixels {list(zip(bf.bf_inds_i.tolist(), bf.bf_inds_j.tolist()))} for mask pixels {list(zip(want[0].tolist(), want[1].tolist()))}")
        o = cfg.get("opts", {})
        kw = dict(upsampling_factor=cfg.get("u"), max_batch_size=cfg.get("batch"), deconvolution_kernel=cfg.get("kernel", "ssb"),
                  parallax_flip_phase=o.get("flip", True), verbose=False)
        dp.reconstruct(bf_mask=work, **kw)
        got = dp.corrected_stack.detach().clone().double().numpy()
        fresh.reconstruct(bf_mask=m.clone(), **kw)
        ref = fresh.corrected_stack.detach().clone().double().numpy()
        d, sc = _dev(got, ref)
        if d != 0.0:
            problems.append(f"call {step + 1} (mask rows {rows}, tensor refilled in place): differs from a fresh copy of the same mask by {d:.3g} (scale {sc:.3g})")
    return dict(violated=bool(problems), observed="; ".join(problems[:3]) or "ok", expected="every call equals the call with a fresh tensor of the same value (bitwise)")


def fam_mask_reuse(tier="quick", seed=0):
    k = 0
    for gi, g in enumerate(_GEOMS[:3] if tier == "quick" else _GEOMS):
        n = _nbf(g)
        A = _proper_sub(n, 0)
        B = [p for p in range(n) if p not in A]
        C = _proper_sub(n, 2)
        for kernel in ("ssb", "prlx", "mf") if tier == "quick" else ("ssb", "obf", "mf", "prlx", "icom"):
            for masks in ([A, B], [B, A, list(range(n))], [C, A, C]):
                k += 1
                yield dict(g, kernel=kernel, u=1 + k % 2, abers=_ABERS[1 + k % 3], rot=[0.0, 0.3][k % 2], seed=seed + k, batch=[None, 2][k % 2],
                           masks=[sorted(set(m)) for m in masks], opts=dict(flip=bool(k % 2)))


def rt_getter(inp):
    """HyperparameterState.current_aberrations / current_rotation_angle on the real class: fresh mapping, specified contents, state untouched."""
    import copy

    M = _rt_env()
    st = M.HyperparameterState(initial_aberrations=dict(inp["initial"]), initial_rotation_angle=inp.get("rot0"))
    st.optimized_aberrations.update(inp.get("optimized", {}))
    st.optimized_rotation_angle = inp.get("rot1")
    before = copy.deepcopy((st.initial_aberrations, st.optimized_aberrations, st.initial_rotation_angle, st.optimized_rotation_angle))
    ovr = None if inp.get("override") is None else dict(inp["override"])
    ovr0 = copy.deepcopy(ovr)
    problems = []
    for rep in range(2):
        out = st.current_aberrations(ovr)
        want = {**before[0], **before[1], **(ovr0 or {})}
        if out != want:
            problems.append(f"call {rep + 1}: {out} != {want}")
        if out is st.initial_aberrations or out is st.optimized_aberrations or (ovr is not None and out is ovr):
            problems.append("the returned mapping is one of the stored / passed dictionaries")
        out["C56"] = 1.0  # a caller may edit what it got
        rot = st.current_rotation_angle(inp.get("rot_override"))
        wr = next((v for v in (inp.get("rot_override"), before[3], before[2]) if v is not None), 0.0)
        if rot != wr:
            problems.append(f"rotation {rot} != {wr}")
    after = (st.initial_aberrations, st.optimized_aberrations, st.initial_rotation_angle, st.optimized_rotation_angle)
    if after != before:
        problems.append(f"stored state changed: {before} -> {after}")
    if ovr != ovr0:
        problems.append(f"override dictionary changed: {ovr0} -> {ovr}")
    if st.current_aberrations() != {**before[0], **before[1]}:
        problems.append(f"a later plain call returns {st.current_aberrations()}")
    return dict(violated=bool(problems), observed="; ".join(problems[:3]) or "ok", expected="fresh mapping = initial + optimized + override; state unchanged")


def fam_getter():
    for initial in ({}, {"C10": 100.0, "C12": 20.0, "phi12": 0.1}):
        for optimized in ({}, {"C10": 120.0, "C21": 300.0}):
            for override in (None, {}, {"C10": 600.0}, {"C30": 1.0e4, "C12": 5.0}):
                for rots in ((None, None, None), (0.1, None, None), (0.1, 0.2, None), (None, 0.2, 0.3), (0.1, None, 0.3),
                             (0.35, None, 0.0), (0.35, 0.0, None), (0.1, 0.2, 0), (0.0, None, None), (0.35, 0.0, 0.0)):   # exact zeros outrank non-zero lower priorities
                    yield dict(initial=initial, optimized=optimized, override=override, rot0=rots[0], rot1=rots[1], rot_override=rots[2])


def _signed(idx, n):
    """Signed frequency index of corner-centred position idx on an axis of length n (np.fft.fftfreq convention)."""
    return idx if idx < (n + 1) // 2 else idx - n


def rt_cropfn(inp):
    """_crop_corner_centered_mask on the real function: the set of (signed row frequency, signed column frequency) of the True pixels is unchanged."""
    import numpy as np
    import torch
    from quantem.diffractive_imaging.direct_ptycho_utils import _crop_corner_centered_mask

    H, W = inp["det"]
    mask = np.zeros((H, W), dtype=bool)
    for i, j in inp["pixels"]:
        mask[i % H, j % W] = True
    try:
        out = _crop_corner_centered_mask(torch.tensor(mask), inp.get("pad", 1)).numpy()
    except Exception as e:  # noqa: BLE001
        return dict(violated=True, observed=f"raised {type(e).__name__}: {e}", expected="a cropped mask")
    want = sorted((_signed(i, H), _signed(j, W)) for i, j in np.argwhere(mask).tolist())
    got = sorted((_signed(i, out.shape[0]), _signed(j, out.shape[1])) for i, j in np.argwhere(out).tolist())
    bad = got != want or out.shape[0] > H or out.shape[1] > W
    return dict(violated=bad, observed=f"shape {out.shape}, pixels {got}" if bad else "ok", expected=f"pixels {want}")


def fam_cropfn():
    import itertools

    for H, W in ((4, 4), (5, 4), (6, 7), (7, 7), (8, 8), (8, 5), (1, 3), (2, 2)):
        exts = [e for e in ([0], [-1, 0, 1], [0, 1], [-1, 0], [-1, 0, 1, 2], [-2, -1, 0, 1], [1, 2], [-(H // 2)], list(range(-(H // 2), (H + 1) // 2)))]
        for rows, cols in itertools.product(exts, [[0], [-1, 0, 1], [0, 1, 2], [-2, -1], list(range(-(W // 2), (W + 1) // 2))]):
            pix = sorted({(r % H, c % W) for r in rows for c in cols if -(H // 2) <= r < (H + 1) // 2 and -(W // 2) <= c < (W + 1) // 2})
            if not pix:
                continue
            for pad in (0, 1, 2):
                yield dict(det=[H, W], pixels=[list(p) for p in pix], pad=pad)


@_guard
def rt_crop(cfg):
    """Constructor with crop_bf_mask=True: the internal mask must keep every pixel of the given mask at its signed detector frequency, in the
    same row-major order (stack row r <-> r-th pixel), and the analytic parallax statement must hold in the ORIGINAL detector coordinates."""
    import numpy as np

    cfg = dict(cfg, crop=True)
    dp, stack, mask = _build(cfg)
    H, W = mask.shape
    want = [(_signed(i, H), _signed(j, W)) for i, j in np.argwhere(mask).tolist()]
    h, w = tuple(dp.bf_mask.shape)
    got = [(_signed(i, h), _signed(j, w)) for i, j in np.argwhere(dp.bf_mask.numpy()).tolist()]
    problems = []
    if got != want:
        problems.append(f"mask pixels (signed frequency indices) {want} became {got} (internal mask shape {(h, w)})")
    r = rt_parallax(cfg)
    if r["violated"]:
        problems.append("parallax: " + r["observed"])
    return dict(violated=bool(problems), observed="; ".join(problems) or "ok", expected="pixels keep their frequencies and order; " + r["expected"])


def crop_class(inp, res=None):
    """Failure class from the GEOMETRY of the input mask (fftshifted extent per axis), not from the outcome."""
    import numpy as np

    det = tuple(inp["det"])
    pad = inp.get("pad", 1)
    mask = np.zeros(det, dtype=bool)
    for i, j in inp["pixels"]:
        mask[i % det[0], j % det[1]] = True
    sh = np.fft.fftshift(mask)
    cls = "extent-centred-on-the-zero-frequency"
    for ax in (0, 1):
        pos = np.where(sh.any(axis=1 - ax))[0]
        lo, hi, c = int(pos.min()), int(pos.max()), det[ax] // 2
        if lo - pad < 0:
            return "mask-within-padding-of-the-low-array-edge"
        if (c - lo) - (hi - c) not in (0, 1):
            cls = "mask-extent-not-centred-on-the-zero-frequency"
    return cls


def fam_crop(tier="quick", seed=0):
    k = 0
    for det in ([8, 8], [7, 7], [6, 9]):
        for rows, cols in (([-1, 0, 1], [-1, 0, 1]), ([-1, 0, 1, 2], [-1, 0, 1]), ([-2, -1, 0, 1], [-1, 0, 1]), ([-1, 0, 1], [0, 1, 2]),
                           ([-1, 0, 1], [-2, -1, 0]), ([0, 1], [0]), ([-3, -2, -1, 0, 1, 2], [-1, 0, 1])):
            for pad in (0, 1, 2):
                k += 1
                pix = sorted({(r % det[0], c % det[1]) for r in rows for c in cols if abs(r) + abs(c) <= 3})
                yield dict(scan=[5, 4], det=det, pixels=[list(p) for p in pix], pad=pad, abers=[{"C10": 120.0}, {"defocus": -90.0, "C12": 40.0, "phi12": 0.3}, {}][k % 3],
                           u=1 + (k % 2), seed=seed + k, rot=[0.0, 0.4][k % 2], sub=None, batch=[None, 2][k % 2])


KERNEL_ALIASES = {
    "ssb": ["ssb", "single-sideband", "acbf", "aberration-corrected-bright-field"],
    "obf": ["obf", "optimum-bright-field"],
    "mf": ["mf", "matched-filter"],
    "prlx": ["prlx", "parallax", "tcbf", "tilt-corrected-bright-field"],
    "icom": ["icom", "center-of-mass"],
}
SINGLE_PASS = ("ssb", "prlx", "icom")


def rt_kernel_name(inp):
    M = _rt_env()
    name = inp["kernel"]
    want = None
    for canon, al in KERNEL_ALIASES.items():
        if name.lower() in al:
            want = canon
    dp = object.__new__(M.DirectPtychography)
    try:
        got = dp._normalize_kernel_name(name)
    except ValueError as e:
        return dict(violated=want is not None, observed=f"ValueError: {e}", expected=f"{want!r}" if want else "ValueError")
    except Exception as e:
        return dict(violated=True, observed=f"{type(e).__name__}: {e}", expected=f"{want!r}" if want else "ValueError")
    return dict(violated=got != want, observed=repr(got), expected=repr(want) if want else "ValueError")


def fam_kernel_name():
    for canon, al in KERNEL_ALIASES.items():
        for a in al:
            yield dict(kernel=a)
            yield dict(kernel=a.upper())
            yield dict(kernel=a.title())
    for bad in ("", "ssb ", "wdd", "obf2", "parallax-", "single_sideband"):
        yield dict(kernel=bad)


@_guard
def rt_aliases(cfg):
    """Every alias of a kernel gives exactly the result of the canonical name."""
    dp, stack, mask = _build(cfg)
    problems = []
    for canon, al in KERNEL_ALIASES.items():
        ref = _recon(dp, cfg, cfg.get("sub"), cfg.get("batch"), kernel=canon)
        for a in al[1:] + [al[-1].upper()]:
            out = _recon(dp, cfg, cfg.get("sub"), cfg.get("batch"), kernel=a)
            d, sc = _dev(out, ref)
            if d != 0.0:
                problems.append(f"{a!r} differs from {canon!r} by {d:.3g}")
    return dict(violated=bool(problems), observed="; ".join(problems[:3]) or "ok", expected="identical results for aliases")


# ---- bounded families (scan <= 7x5 incl. non-square / odd, <= 13 BF pixels) -------------------------------------------

_GEOMS = [
    dict(scan=[7, 5], det=[6, 6], radius=1.5),                                   # 9 BF pixels, odd non-square scan
    dict(scan=[4, 6], det=[5, 7], radius=1.0, det_sampling=[9.0, 7.0]),          # 5 BF pixels, even non-square, anisotropic detector
    dict(scan=[5, 5], det=[6, 6], radius=2.0, scan_sampling=[0.4, 0.6]),         # 13 BF pixels, anisotropic scan sampling
    dict(scan=[3, 4], det=[8, 8], pixels=[[0, 0], [0, 1], [7, 0], [1, 1], [7, 7], [0, 6]], crop=True),  # cropped mask
    dict(scan=[6, 3], det=[4, 4], pixels=[[0, 0], [1, 0], [0, 3]]),              # 3 BF pixels
]
_ABERS = [{}, {"C10": 150.0}, {"defocus": -200.0, "C12": 60.0, "phi12": 0.4}, {"C10": 80.0, "C30": 2.0e5, "C21": 500.0, "phi21": 1.0}]


def _nbf(g):
    import numpy as np

    return len({(i % g["det"][0], j % g["det"][1]) for i, j in g["pixels"]}) if "pixels" in g else int(_disc_mask(tuple(g["det"]), g.get("radius", 1.5)).sum())


def _proper_sub(n, variant):
    if n < 2:
        return None
    if variant == 0:
        return [p for p in range(n) if p % 2 == 0]
    if variant == 1:
        return [p for p in range(n) if p % 3 != 1][::-1][::-1][: max(1, n - 1)]
    return [n - 1] + [p for p in range(0, n - 1, 3)]


def fam_batch(tier="quick", seed=0):
    k = 0
    thorough = tier != "quick"
    for gi, g in enumerate(_GEOMS):
        n = _nbf(g)
        for kernel in ("ssb", "obf", "mf", "prlx", "icom"):
            for u in (1, 2, 3):
                combos = [(None, {}), (_proper_sub(n, (gi + u) % 3), dict(lp=0.8, hp=0.1))]
                if thorough:
                    combos += [(_proper_sub(n, (gi + u + 1) % 3), dict(lp=0.5)), (None, dict(hp=0.2, flip=False))]
                for sub, opts in combos:
                    if not thorough and (k % 2 == 1) and u == 2:
                        k += 1
                        continue
                    k += 1
                    ab = _ABERS[(k + gi) % len(_ABERS)]
                    if kernel == "prlx" and not ab:
                        opts = dict(opts, flip=False)  # sign(sin(chi)) = 0 for zero aberrations: the flipped result is identically 0
                    yield dict(g, kernel=KERNEL_ALIASES[kernel][k % len(KERNEL_ALIASES[kernel])], u=u, sub=sorted(sub) if sub else None,
                               abers=ab, rot=[0.0, 0.3, -1.1][k % 3], opts=opts, seed=seed + k, soft=(k % 4 != 0))


def fam_linear(tier="quick", seed=0):
    k = 0
    for gi, g in enumerate(_GEOMS):
        n = _nbf(g)
        for kernel in ("ssb", "obf", "mf", "prlx", "icom"):
            for u in ((1, 2) if tier == "quick" else (1, 2, 3)):
                k += 1
                sub = _proper_sub(n, k % 3) if k % 2 else None
                ab = _ABERS[k % len(_ABERS)]
                opts = dict(lp=0.9) if k % 3 == 0 else {}
                if kernel == "prlx" and not ab:
                    opts = dict(opts, flip=False)
                yield dict(g, kernel=kernel, u=u, sub=sorted(sub) if sub else None, abers=ab, rot=[0.0, 0.5][k % 2],
                           opts=opts, seed=seed + k, batch=[None, 2, 1][k % 3], ab=[1.5, -0.75])


def fam_recombine(tier="quick", seed=0):
    k = 0
    for gi, g in enumerate(_GEOMS):
        n = _nbf(g)
        for kernel in SINGLE_PASS:
            for u in (1, 2, 3):
                for variant in ((0, 1, 2) if tier != "quick" else ((k % 3),)):
                    k += 1
                    sub = _proper_sub(n, variant)
                    if not sub or len(set(sub)) == n:
                        continue
                    ab = _ABERS[(k + 1) % len(_ABERS)]
                    yield dict(g, kernel=kernel, u=u, sub=sorted(set(sub)), abers=ab, rot=[0.0, 0.7][k % 2],
                               opts=dict(flip=(k % 2 == 0) and bool(ab)), seed=seed + k, batch=[None, 3][k % 2])


def _int_shift_defocus(g, pixels=1):
    """C10 such that the geometric shift of the first detector pixel off the axis is exactly `pixels` scan pixels (u=1)."""
    from quantem.core.utils.utils import electron_wavelength_angstrom

    lam = electron_wavelength_angstrom(g.get("energy", 80e3))
    ds = g.get("det_sampling", [9.0, 9.0])
    ss = g.get("scan_sampling", [0.5, 0.5])
    dk = ds[0] / lam / 1e3
    return pixels * ss[0] / (lam * dk)


def fam_parallax(tier="quick", seed=0):
    k = 0
    for gi, g in enumerate(_GEOMS):
        n = _nbf(g)
        iso = g.get("det_sampling", [9.0, 9.0])[0] == g.get("det_sampling", [9.0, 9.0])[1] and g.get("scan_sampling", [.5, .5])[0] == g.get("scan_sampling", [.5, .5])[1]
        c_int = _int_shift_defocus(g, 1)
        abers = [{}, {"C10": c_int} if iso else {"C10": 90.0}, {"defocus": 2 * c_int} if iso else {"defocus": 120.0},
                 {"C10": 0.5 * c_int, "C12": 0.5 * c_int, "phi12": 0.0} if iso else {"C12": 70.0, "phi12": 0.3},
                 {"C10": 110.0, "C12": 45.0, "phi12": 0.8}, {"astigmatism": 60.0, "astigmatism_angle": -0.5}]
        for ai, ab in enumerate(abers):
            for u in (1, 2, 3):
                for submode in (0, 1):
                    k += 1
                    if tier == "quick" and u == 3 and (k % 2):
                        continue
                    sub = _proper_sub(n, k % 3) if submode else None
                    rot = 0.0 if ai in (0, 1, 2, 3) and (k % 2 == 0) else [0.0, 0.35, -0.9][k % 3]
                    yield dict(g, u=u, sub=sorted(set(sub)) if sub else None, abers=ab, rot=rot, seed=seed + k, batch=[None, 2, 1][k % 3],
                               kernel=["prlx", "parallax", "tcbf", "tilt-corrected-bright-field"][k % 4])
        # presence patterns of the coefficient keys (a missing angle means angle 0, a missing magnitude means 0) and exact zeros
        for ab in ({"C12": 45.0}, {"astigmatism": 30.0}, {"C10": 80.0, "C12": 40.0}, {"phi12": 0.4}, {"C12": 0.0, "phi12": 0.3}, {"C10": 0.0}, {"defocus": 0.0, "C12": 35.0}):
            k += 1
            sub = _proper_sub(n, k % 3) if k % 2 else None
            yield dict(g, u=1 + k % 2, sub=sorted(set(sub)) if sub else None, abers=ab, rot=[0.0, 0.35][k % 2], seed=seed + k, batch=[None, 2][k % 2], kernel="prlx")
        # requested hyper-parameters given as one-off overrides of OTHER stored values, incl. exact zeros in several value kinds
        stored = {"C10": 150.0, "C12": 40.0, "phi12": 0.2}
        for built_rot, rot, kind, ab in ((0.35, 0.0, None, {"C10": 90.0}), (0.35, 0.0, "int", {"C10": 90.0}), (-0.6, 0.0, "np64", {"C12": 50.0}), (0.35, 0.0, "np32", {}),
                                         (0.0, 0.35, None, {"C10": 90.0}), (0.2, 0.2, None, {"C10": 0.0, "C12": 0.0}), (0.0, 0.0, None, {"C12": 0.0}),
                                         (0.3, -0.3, None, {"phi12": 0.0})):
            k += 1
            sub = _proper_sub(n, k % 3) if k % 2 else None
            yield dict(g, u=1 + k % 2, sub=sorted(set(sub)) if sub else None, built_abers=stored, abers=ab, built_rot=built_rot, rot=rot, rot_kind=kind,
                       seed=seed + k, batch=[None, 2][k % 2], kernel="prlx")


def fam_bf_context(tier="quick", seed=0):
    import itertools

    shapes = [dict(scan=[2, 2], det=[4, 5], pixels=[[0, 0], [0, 1], [1, 0], [3, 4], [3, 0]]),
              dict(scan=[2, 2], det=[3, 3], pixels=[[0, 0], [0, 2], [1, 1], [2, 0], [2, 2], [1, 0]])]
    for g in shapes:
        n = len(g["pixels"])
        yield dict(g, sub=None)
        for r in range(1, n + 1):
            for sub in itertools.combinations(range(n), r):
                yield dict(g, sub=list(sub))


def fam_aliases(tier="quick", seed=0):
    for gi, g in enumerate(_GEOMS[:2] if tier == "quick" else _GEOMS):
        yield dict(g, u=1 + gi % 2, sub=None, abers=_ABERS[(1 + gi) % len(_ABERS)], rot=0.2, seed=seed + gi, batch=2)


# ------------------------------------------------------------------------------------------------
# obligations derived from the typing journal
# ------------------------------------------------------------------------------------------------
def stash(s):
    """Make the interpreter reachable from the typing rules (line numbers in the journal)."""
    s.ctx.ghost["interp"] = s.interp
    return []


def msg_goal(ok, msg):
    """True, or an unprovable goal whose text is the reason (shown in the evidence / replay file)."""
    if ok:
        return z3.BoolVal(True)
    return z3.Bool("TYPING-FAILS: " + str(msg)[:400])


def journal_obligations(s):
    j = s.ctx.ghost.get("c04") or dict(untypable=[], writes=[], accs=[], prov=[])
    out = []
    for cat, label in (("stale", "no-read-of-the-previous-result"), ("untypable", "every-statement-typable"), ("writes", "row-buffer-writes-are-rowwise-at-the-batch-rows"),
                       ("accs", "partial-sums-only-accumulate"), ("prov", "mask-relative-indices-meet-tensors-of-the-same-mask")):
        bad = [m for ok, m in j.get(cat, []) if not ok]
        out.append((f"typing:{label}", msg_goal(not bad, "; ".join(bad[:3]))))
    return out


def describe(t):
    if isinstance(t, TT) and t.dep == "T":
        return f"untypable value ({'; '.join(t.why[:2])})"
    return repr(t)


def is_tt(t, dep=None, lin=None, mk=None, shape=None):
    if not isinstance(t, TT) or t.dep == "T":
        return False
    if t.buf is not None:
        if t.buf["state"] != "full":
            return False
        t = t._use()
    if dep is not None and t.dep not in (dep if isinstance(dep, tuple) else (dep,)):
        return False
    if lin is not None and t.lin not in (lin if isinstance(lin, tuple) else (lin,)):
        return False
    if mk is not None and t.mk not in (mk if isinstance(mk, tuple) else (mk,)):
        return False
    if shape is not None:
        if len(shape) != len(t.shape_) or not all(dim_eq(a, b) for a, b in zip(shape, t.shape_)):
            return False
    return True


def stage_of(k):
    """Which evaluation of a loop invariant this is: 'entry' (k = 0), 'assumed' (arbitrary k), 'after-body' (k + 1)."""
    t = lift(k)
    if z3.is_int_value(t):
        return "entry"
    return "after-body" if t.num_args() > 0 else "assumed"


# ------------------------------------------------------------------------------------------------
# _normalize_kernel_name  (strings; the alias table is the property's list of kernels)
# ------------------------------------------------------------------------------------------------
def canonical_kernel(name):
    for canon, al in KERNEL_ALIASES.items():
        if name.lower() in al:
            return canon
    return None


NAME_SAMPLES = [a for al in KERNEL_ALIASES.values() for a in al] + ["SSB", "Parallax", "Optimum-Bright-Field", "MATCHED-FILTER", "iCOM", "wdd", "", "ssb "]


def nk_setup(ctx):
    # one path per spelling (concrete strings: str.lower / dict lookup are executed by CPython on the real AST)
    for nm in NAME_SAMPLES[:-1]:
        if ctx.branch(ctx.fresh("kernel_is_" + "".join(c if c.isalnum() else "_" for c in nm), "bool").t):
            return NS(self=Obj(DPC, {}), kernel=nm)
    return NS(self=Obj(DPC, {}), kernel=NAME_SAMPLES[-1])


C_KERNELNAME = Contract(
    f"{DP}:DirectPtychography._normalize_kernel_name", setup=nk_setup,
    ensures=lambda s: [("canonical-name-of-the-alias", s.result == canonical_kernel(s.kernel)),
                       ("one-of-the-five-kernels", s.result in KERNEL_ALIASES)],
    raises={ValueError: lambda s: canonical_kernel(s.kernel) is None},
    result=lambda ctx, s: canonical_kernel(s.kernel),
)


# ------------------------------------------------------------------------------------------------
# _preprocess : the Fourier stack keeps "row i <- image i", is linear in the stack, DC zeroed by a constant
# ------------------------------------------------------------------------------------------------
def pre_setup(ctx):
    o = dp_obj(ctx)
    for f in ("_vbf_fourier", "_dc_per_image", "_q_signal_power"):
        del o.fields[f]
    return NS(self=o, stack=o.fields["_vbf_stack"])


def pre_ensures(s):
    o = s.self
    sp = cm.space_of(o.fields["$S"])
    F = o.fields.get("_vbf_fourier")
    return journal_obligations(s) + [
        ("fourier-stack: row i depends only on image i, linear in the stack",
         msg_goal(is_tt(F, dep="B", lin="L", mk="free", shape=(("rows", sp), scan_dim(0), scan_dim(1))), describe(F))),
        ("previous-result-cleared", o.fields.get("_corrected_stack", "missing") is None),
        ("stack-not-rebound", o.fields["_vbf_stack"] is s.stack),
        ("returns-self", s.result is o),
    ]


C_PREPROCESS = Contract(f"{DP}:DirectPtychography._preprocess", setup=pre_setup, requires=stash, ensures=pre_ensures, inline=DP_PROPS)


# ------------------------------------------------------------------------------------------------
# _return_bf_context : sub-mask -> pixel coordinates, count, and the map from sub-mask order to stack order
# ------------------------------------------------------------------------------------------------
def sub_mask(ctx, o, name="M"):
    """None (use the construction mask) or a declared sub-mask of it."""
    if ctx.branch(ctx.fresh("bf_mask_is_none", "bool").t):
        return None
    return TT((("det", 0), ("det", 1)), "G", "C", "free", kind="mask", ref=Mask(name, sub_of=o.fields["$S"]))


def bfc_setup(ctx):
    """Pre-state: a fresh object, OR an object on which this very function already ran - with another tensor object, or with the SAME
    tensor object that then held an arbitrary other mask value and was refilled in place by the caller (copy_, m[:] = ...)."""
    o = dp_obj(ctx)
    m = sub_mask(ctx, o)
    history = pick(ctx, "history", ["fresh-object", "earlier-call-other-tensor"] + (["earlier-call-same-tensor-refilled-in-place"] if m is not None else []))
    return NS(self=o, bf_mask=m if m is not None else o.fields["_bf_mask"], history=history)


def bfc_earlier_call(s):
    """Run the real function once (interpreted) to obtain the pre-state 'already served an earlier call'."""
    from pyvc.interp import RaiseSig

    o, S = s.self, s.self.fields["$S"]
    other = Mask("M_earlier", sub_of=S)
    if s.history == "earlier-call-other-tensor":
        arg = TT((("det", 0), ("det", 1)), "G", "C", "free", kind="mask", ref=other)
    else:
        arg = s.bf_mask
        s.now = arg.ref
        arg.ref = other               # the same tensor object held another value then ...
    try:
        s.interp.call_closure(s.interp.closure_of(C_BFCONTEXT.real), [o, arg], {})
    except RaiseSig as r:
        cm.note("untypable", False, f"the earlier call raised {type(r.exc).__name__}")
    if s.history != "earlier-call-other-tensor":
        arg.ref = s.now               # ... and was refilled in place with the value of THIS call


def bfc_post(o, bf, mask_tt):
    """The index-mapping statement: rows of every field enumerate the pixels of the GIVEN mask (row-major); the mapping sends
    position r of that enumeration to the stack row (row-major position in the construction mask S) of the same pixel."""
    S_sp = cm.space_of(o.fields["$S"])
    M_sp = cm.space_of(mask_tt.ref)
    rows = (("rows", M_sp),)
    f = bf.fields if isinstance(bf, Obj) else {}
    ii, jj, mp = f.get("bf_inds_i"), f.get("bf_inds_j"), f.get("vbf_index_mapping")

    def coord(t, ax):
        return is_tt(t, shape=rows) and t.tkind == "coord" and t.ref == ax

    return [
        ("bf_inds_i: row coordinate of pixel r of the given mask", msg_goal(coord(ii, 0), describe(ii))),
        ("bf_inds_j: column coordinate of pixel r of the given mask", msg_goal(coord(jj, 1), describe(jj))),
        ("vbf_index_mapping: position of pixel r of the given mask in the stack order",
         msg_goal(is_tt(mp, shape=rows) and mp.tkind == "pos" and isinstance(mp.ref, cm.Space) and mp.ref.mask is S_sp.mask, describe(mp))),
        ("num_bf = number of pixels of the given mask", msg_goal(isinstance(f.get("num_bf"), Sym) and z3.is_true(z3.simplify(f["num_bf"].t == M_sp.count.t)), f.get("num_bf"))),
        ("bf_mask field is the given mask", msg_goal(isinstance(f.get("bf_mask"), TT) and f["bf_mask"].tkind == "mask" and f["bf_mask"].ref is mask_tt.ref, describe(f.get("bf_mask")))),
    ]


def bfc_result(ctx, s):
    o, m = s.self, s.bf_mask
    S_sp, M_sp = cm.space_of(o.fields["$S"]), cm.space_of(m.ref)
    rows = (("rows", M_sp),)
    return Obj(BFC, dict(bf_mask=m, bf_inds_i=TT(rows, "B", "C", "free", kind="coord", ref=0), bf_inds_j=TT(rows, "B", "C", "free", kind="coord", ref=1),
                         num_bf=M_sp.count, vbf_index_mapping=TT(rows, "B", "C", "free", kind="pos", ref=S_sp)))


def bfc_requires(s):
    stash(s)
    m = s.bf_mask
    ok = isinstance(m, TT) and m.tkind == "mask" and m.ref.within(s.self.fields["$S"])
    if s.mode == "verify" and s.get("history", "fresh-object") != "fresh-object":
        bfc_earlier_call(s)
    return [("bf_mask is the construction mask or a sub-mask of it", msg_goal(ok, describe(m)))]


def bfc_snapshot(s):
    m = s.bf_mask
    return NS(fields=container_snapshot(s.self.fields), mask=(m, getattr(m, "ref", None)))


def bfc_frame(s):
    ch = container_changes(s.self.fields, s.old.fields, "self.")
    m0, ref0 = s.old.mask
    if s.bf_mask is not m0 or getattr(s.bf_mask, "ref", None) is not ref0:
        ch.append("the caller's mask tensor was written")
    return [("frame: no attribute of self is created or changed (no state outlives the call), the mask argument is not written", msg_goal(not ch, ch))]


C_BFCONTEXT = Contract(
    f"{DP}:DirectPtychography._return_bf_context", setup=bfc_setup, requires=bfc_requires, snapshot=bfc_snapshot,
    ensures=lambda s: (journal_obligations(s) if s.mode == "verify" else []) + bfc_post(s.self, s.result, s.bf_mask) + bfc_frame(s),
    result=bfc_result, inline=DP_PROPS)


# ------------------------------------------------------------------------------------------------
# complex_probe.gamma_factor : pointwise in its arguments, data-free
# ------------------------------------------------------------------------------------------------
def gf_setup(ctx):
    o = dp_obj(ctx)
    sp = cm.space_of(o.fields["$S"])
    bidx = cm.batches_of(sp)
    r = bidx.row_dim()
    u = ctx.fresh("u", "int")
    ctx.assume(u.t >= 1)
    q = lambda: TT((r, scan_dim(0, u), scan_dim(1, u)), "B", "C", "free")
    return NS(qmks=(q(), q()), qpks=(q(), q()), cmplx_probe_at_k=TT((r, ONE, ONE), "B", "C", "free"),
              wavelength=real(ctx, "wavelength", True), semiangle_cutoff=real(ctx, "semiangle", True), soft_edges=ctx.fresh("soft_edges", "bool"),
              aberration_coefs=aber_dict(ctx), angular_sampling=(real(ctx, "ang0", True), real(ctx, "ang1", True)),
              asymmetric_version=ctx.fresh("asymmetric", "bool"), normalize=ctx.fresh("normalize", "bool"), rows=r, u=u)


def gf_requires(s):
    stash(s)
    ts = list(s.qmks) + list(s.qpks) + [s.cmplx_probe_at_k]
    return [("arguments are data-free tensors", msg_goal(all(is_tt(t, lin="C", dep=("B", "G")) for t in ts), [describe(t) for t in ts]))]


def gf_result(ctx, s):
    r = s.qmks[0]
    for t in list(s.qmks[1:]) + list(s.qpks) + [s.cmplx_probe_at_k]:
        r = cm.binary(operator.mod, r, t)
    return r


def gf_ensures(s):
    ts = list(s.qmks) + list(s.qpks) + [s.cmplx_probe_at_k]
    want = gf_result(s.ctx, s)
    g = s.result
    return (journal_obligations(s) if s.mode == "verify" else []) + [
        ("gamma is pointwise in its arguments (same rows, no mixing), data-free and mask-free",
         msg_goal(is_tt(g, dep=want.dep, lin="C", mk="free", shape=want.shape_), describe(g)))]


C_GAMMA = Contract(f"{CP}:gamma_factor", setup=gf_setup, requires=gf_requires, ensures=gf_ensures, result=gf_result, inline=POINTWISE_HELPERS)


# ------------------------------------------------------------------------------------------------
# _return_kernel_contributions : per batch, per kernel
# ------------------------------------------------------------------------------------------------
CANON = ("ssb", "obf", "mf", "prlx", "icom")


def pick_kernel(ctx, names=CANON):
    for nm in names[:-1]:
        if ctx.branch(ctx.fresh("kernel_" + nm, "bool").t):
            return nm
    return names[-1]


def kc_setup(ctx):
    o = dp_obj(ctx)
    m = sub_mask(ctx, o)
    mask_tt = m if m is not None else o.fields["_bf_mask"]
    bf = bfc_result(ctx, NS(self=o, bf_mask=mask_tt))
    M_sp = cm.space_of(mask_tt.ref)
    bidx = cm.batches_of(M_sp)
    r = bidx.row_dim()
    u = ctx.fresh("u", "int")
    ctx.assume(u.t >= 1)
    kernel = pick_kernel(ctx)
    return NS(self=o, bf=bf, deconvolution_kernel=kernel, vbf_fourier=TT((r, scan_dim(0, u), scan_dim(1, u)), "B", "L", "free"),
              kxa=det_grid(), kya=det_grid(), qxa=scan_grid(u), qya=scan_grid(u), cmplx_probe_k=det_grid(),
              grad_k=TT((("rows", M_sp), ("c", 2)), "B", "C", "free") if kernel == "prlx" else None,
              sign_sin_chi_q=scan_grid(u) if kernel == "prlx" else None, aberration_coefs=aber_dict(ctx), batch_idx=bidx, u=u)


def kc_requires(s):
    stash(s)
    b, v = s.batch_idx, s.vbf_fourier
    ok_idx = isinstance(b, TT) and b.tkind == "pos" and b.row_dim() is not None and isinstance(b.ref, cm.Space) and b.ref.mask is s.bf.fields["bf_mask"].ref
    rows = b.row_dim() if ok_idx else None
    out = [
        ("batch_idx holds positions into the rows of bf's mask", msg_goal(ok_idx, describe(b))),
        ("vbf_fourier: row r is the (tiled) Fourier image of the batch's r-th pixel, linear in the stack",
         msg_goal(ok_idx and is_tt(v, dep="B", lin="L", mk="free") and len(v.shape_) == 3 and dim_eq(v.shape_[0], rows), describe(v))),
        ("k grids / probe are global detector-grid tensors", msg_goal(all(is_tt(t, dep="G", lin="C", shape=(("det", 0), ("det", 1))) for t in (s.kxa, s.kya, s.cmplx_probe_k)),
                                                                       [describe(t) for t in (s.kxa, s.kya, s.cmplx_probe_k)])),
        ("q grids are global scan-grid tensors matching the tiled images",
         msg_goal(ok_idx and isinstance(v, TT) and len(v.shape_) == 3 and all(is_tt(t, dep="G", lin="C", shape=v.shape_[1:]) for t in (s.qxa, s.qya)), [describe(t) for t in (s.qxa, s.qya)])),
    ]
    if s.deconvolution_kernel == "prlx":
        g, sg = s.grad_k, s.sign_sin_chi_q
        out += [
            ("grad_k: one row per pixel of bf's mask (same mask as the batch positions)",
             msg_goal(ok_idx and is_tt(g, dep="B", lin="C", mk="free") and len(g.shape_) == 2 and dim_eq(g.shape_[0], ("rows", b.ref)), describe(g))),
            ("sign factor is a global scan-grid tensor", msg_goal(isinstance(v, TT) and len(v.shape_) == 3 and is_tt(sg, dep="G", lin="C", mk="free", shape=v.shape_[1:]), describe(sg))),
        ]
    return out


def kc_result(ctx, s):
    v = s.vbf_fourier
    num = TT(v.shape_, "B", "L", "free")
    if s.deconvolution_kernel in ("obf", "mf"):
        return (num, TT(v.shape_[1:], "R", "C", "free"))
    return (num, None)


def kc_ensures(s):
    v = s.vbf_fourier
    res = s.result
    num, pw = (res if isinstance(res, tuple) and len(res) == 2 else (None, "missing"))
    out = journal_obligations(s) if s.mode == "verify" else []
    out.append(("numerator: row r depends only on pixel r, linear in the stack, free of mask-global quantities",
                msg_goal(is_tt(num, dep="B", lin="L", mk="free", shape=v.shape_), describe(num))))
    if s.deconvolution_kernel in ("obf", "mf"):
        out.append(("power: sum over the batch rows of a per-pixel, data-free quantity (additive over batches)",
                    msg_goal(is_tt(pw, dep="R", lin="C", mk="free", shape=v.shape_[1:]), describe(pw))))
    else:
        out.append(("single-pass kernels return no power", pw is None))
    return out


C_KERNEL = Contract(f"{DP}:DirectPtychography._return_kernel_contributions", setup=kc_setup, requires=kc_requires, ensures=kc_ensures,
                    result=kc_result, inline=DP_PROPS)


# ------------------------------------------------------------------------------------------------
# SimpleBatcher at the call site: constructor and __iter__ used through the statements proved in contracts/C09.py
# ------------------------------------------------------------------------------------------------
def ctor_batcher(interp, num, batch_size=None, shuffle=True, rng=None, val_ratio=0.0, val_mode="grid", train_indices=None, val_indices=None):
    ctx = interp.ctx
    for lab, t in C09.C_INIT.requires(NS(num=num)):
        ctx.prove(f"call SimpleBatcher.__init__: pre:{lab}", lift(t), kind="call-pre")
    ok = (val_ratio == 0.0) and train_indices is None and val_indices is None
    ctx.prove("call SimpleBatcher.__init__: no validation split (all rows are streamed)", z3.BoolVal(bool(ok)), kind="call-pre")
    # C09 init_ensures: train/val partition range(num), val empty for ratio 0, batch_size defaults to num
    o = Obj(SBC, dict(batch_size=num if batch_size is None else batch_size, shuffle=shuffle, _rng=rng))
    o.fields["$num"] = num
    o.fields["$space"] = cm.space_with_count(num)
    return o


def iter_use_result(ctx, s):
    o = s.self
    sp = o.fields.get("$space")
    if sp is None:  # a batcher over something that is not a known pixel set
        sp = cm.space_of(Mask(f"range({o.fields.get('$num')})"))
    n, B = lift(o.fields["$num"]), lift(o.fields["batch_size"])
    N = ctx.fresh("n_batches", "int")
    ctx.assume(N.t == ceil_div(n, B))  # C09 __iter__: number-of-batches = ceil(n/B)
    kk = ctx.fresh("ky", "int")
    return GhostGen([("family", N, kk, cm.batches_of(sp), "SimpleBatcher.__iter__")])


C_ITER_USE = Contract(C09.C_ITER.func, setup=C09.it_setup, requires=C09.C_ITER.requires, result=iter_use_result,
                      note="statement proved in contracts/C09.py (partition of the training positions into consecutive batches)")



# ------------------------------------------------------------------------------------------------
# HyperparameterState getters: "a function of the hyper-parameters only" needs them to be PURE - a fresh mapping is returned and
# no stored container (initial / optimized aberrations, keys, the caller's override dict) is rebound or mutated
# ------------------------------------------------------------------------------------------------
def hps_obj(ctx, opt_empty, opt_rot=None, init_rot="sym"):
    return Obj(HPS, dict(initial_aberrations={k: real(ctx, f"init_{k}") for k in ("C10", "C12", "phi12", "C30")},
                         initial_rotation_angle=real(ctx, "init_rot") if init_rot == "sym" else None,
                         optimized_aberrations={} if opt_empty else {"C10": real(ctx, "opt_C10"), "C21": real(ctx, "opt_C21")},
                         optimized_rotation_angle=opt_rot, optimized_keys=set() if opt_empty else {"C10", "C21"}, study=None))


def ca_setup(ctx):
    opt_empty = ctx.branch(ctx.fresh("optimized_is_empty", "bool").t)
    init_empty = ctx.branch(ctx.fresh("initial_is_empty", "bool").t)
    o = hps_obj(ctx, opt_empty)
    if init_empty:
        o.fields["initial_aberrations"] = {}
    ovr = None if ctx.branch(ctx.fresh("override_is_none", "bool").t) else {"C10": real(ctx, "ovr_C10"), "C23": real(ctx, "ovr_C23")}
    return NS(self=o, override_fixed=ovr)


def ca_spec(s):
    st = s.self.fields
    return {**st["initial_aberrations"], **st["optimized_aberrations"], **(dict(s.override_fixed) if s.override_fixed is not None else {})}


def getter_snapshot(s):
    return NS(state=container_snapshot(s.self.fields), args=container_snapshot({"override_fixed": s.get("override_fixed")}))


def getter_frame(s):
    ch = container_changes(s.self.fields, s.old.state) + container_changes({"override_fixed": s.get("override_fixed")}, s.old.args, "argument ")
    return ("frame: no stored hyper-parameter container (nor the caller's override) is rebound or mutated", msg_goal(not ch, ch))


def ca_ensures(s):
    r, st = s.result, s.self.fields
    want = ca_spec(s) if s.mode == "apply" else s.old.want
    aliases = [n for n, d in (("initial_aberrations", st["initial_aberrations"]), ("optimized_aberrations", st["optimized_aberrations"]),
                              ("override_fixed", s.override_fixed)) if r is d]
    same = type(r) is dict and set(r) == set(want) and all(r[k] is want[k] for k in want)
    return [("returns a FRESH mapping (not one of the stored / passed dictionaries)", msg_goal(type(r) is dict and not aliases, f"result aliases {aliases}")),
            ("contents = initial, overridden by optimized, overridden by the one-off override", msg_goal(same, f"{sorted(r) if type(r) is dict else r} vs {sorted(want)}")),
            getter_frame(s)]


def ca_snapshot(s):
    o = getter_snapshot(s)
    o.want = ca_spec(s)   # the specified mapping is computed from the state BEFORE the call
    return o


C_CURAB = Contract(f"{DP}:HyperparameterState.current_aberrations", setup=ca_setup, requires=stash, ensures=ca_ensures, snapshot=ca_snapshot,
                   result=lambda ctx, s: ca_spec(s))


def cr_setup(ctx):
    def opt(name):
        return None if ctx.branch(ctx.fresh(name + "_is_none", "bool").t) else real(ctx, name)
    o = hps_obj(ctx, True, opt_rot=opt("optimized_rotation"))
    o.fields["initial_rotation_angle"] = opt("initial_rotation")
    return NS(self=o, override_fixed=opt("override_rotation"))


def cr_spec(s):
    st = s.self.fields
    for v in (s.override_fixed, st["optimized_rotation_angle"], st["initial_rotation_angle"]):
        if v is not None:
            return v
    return 0.0


def cr_ensures(s):
    want = cr_spec(s)
    ok = (s.result is want) if isinstance(want, Sym) else (s.result == 0.0 and not isinstance(s.result, Sym))
    return [("override, else optimized, else initial, else 0", msg_goal(ok, f"{s.result} vs {want}")), getter_frame(s)]


C_CURROT = Contract(f"{DP}:HyperparameterState.current_rotation_angle", setup=cr_setup, requires=stash, ensures=cr_ensures, snapshot=getter_snapshot,
                    result=lambda ctx, s: cr_spec(s))


# ------------------------------------------------------------------------------------------------
# direct_ptycho_utils._crop_corner_centered_mask : integer index arithmetic (z3, all sizes / masks / paddings)
# ------------------------------------------------------------------------------------------------
DU = "quantem.diffractive_imaging.direct_ptycho_utils"


def zsf(i, n):
    """signed frequency index of corner-centred position i on an axis of length n (fftfreq convention)."""
    return z3.If(i < (n + 1) / 2, i, i - n)


def zidx(f, n):
    return z3.If(f >= 0, f, f + n)


def crop_setup(ctx):
    H, W, px = ctx.fresh("H", "int"), ctx.fresh("W", "int"), ctx.fresh("padding", "int")
    ctx.assume(AND(H.t >= 1, W.t >= 1, px.t >= 0))
    mask = ctx.fresh_arr("mask", (H, W), "bool")
    a, b = ctx.fresh("true_row", "int"), ctx.fresh("true_col", "int")
    ctx.assume(AND(a.t >= 0, a.t < H.t, b.t >= 0, b.t < W.t, lift(mask.fn(a.t, b.t))))   # the mask is not empty
    return NS(mask=mask, bf_mask_padding_px=px, H=H, W=W)


def crop_ensures(s):
    res, mask = s.result, s.mask
    H, W = lift(s.H), lift(s.W)
    if not (isinstance(res, V.SymArr) and res.ndim == 2):
        return [("returns a 2-D mask", False)]
    h, w = lift(res.shape[0]), lift(res.shape[1])
    i, j = I("i"), I("j")
    fi, fj = zsf(i, h), zsf(j, w)
    Ii, Jj = zidx(fi, H), zidx(fj, W)
    keep = implies(AND(i >= 0, i < h, j >= 0, j < w, lift(res.fn(i, j))),
                   AND(Ii >= 0, Ii < H, Jj >= 0, Jj < W, zsf(Ii, H) == fi, zsf(Jj, W) == fj, lift(mask.fn(Ii, Jj))))
    gi, gj = zsf(i, H), zsf(j, W)
    ci, cj = zidx(gi, h), zidx(gj, w)
    lose = implies(AND(i >= 0, i < H, j >= 0, j < W, lift(mask.fn(i, j))),
                   AND(ci >= 0, ci < h, cj >= 0, cj < w, zsf(ci, h) == gi, zsf(cj, w) == gj, lift(res.fn(ci, cj))))
    return [
        ("shape: not larger than the input, not empty", AND(h >= 1, h <= H, w >= 1, w <= W)),
        ("every pixel of the result is a mask pixel at the SAME signed detector frequency", forall([i, j], keep)),
        ("every mask pixel is kept, at the SAME signed detector frequency", forall([i, j], lose, patterns=[mask.func(i, j)])),
        ("the zero frequency stays at index [0, 0]", lift(res.fn(z3.IntVal(0), z3.IntVal(0))) == lift(mask.fn(z3.IntVal(0), z3.IntVal(0)))),
    ]


C_CROP = Contract(f"{DU}:_crop_corner_centered_mask", setup=crop_setup, ensures=crop_ensures)

# ------------------------------------------------------------------------------------------------
# reconstruct
# ------------------------------------------------------------------------------------------------
KERNEL_SPELLING = {"ssb": "single-sideband", "obf": "Optimum-Bright-Field", "mf": "mf", "prlx": "parallax", "icom": "center-of-mass"}


# Independent options of reconstruct (sequential `if`s that do not interact): the quick tier explores a strength-2 covering array of them
# for every (kernel, mask, flip) combination (6 rows instead of 48); the thorough tier explores the full product (1344 paths, ~4 min).
#            hyper-parameter source, upsampling None/int, max_batch_size None/int, low-pass on, high-pass on
OPTION_ROWS = [("initial", 0, 0, 0, 0), ("initial", 1, 1, 1, 1), ("current", 0, 1, 1, 0), ("current", 1, 0, 0, 1), ("override", 0, 1, 0, 1), ("override", 1, 0, 1, 0)]
FULL_PRODUCT = ("thorough" in sys.argv) or os.environ.get("VERIF_TIER") == "thorough"


def pick(ctx, name, values):
    for i, v in enumerate(values[:-1]):
        if ctx.branch(ctx.fresh(f"{name}_{i}", "bool").t):
            return v
    return values[-1]


def rc_setup(ctx):
    o = dp_obj(ctx)
    kernel = pick_kernel(ctx)
    m = sub_mask(ctx, o)
    if FULL_PRODUCT:
        hyper, has_u, has_mbs, has_lp, has_hp = (pick(ctx, "hyper", ["initial", "current", "override"]), pick(ctx, "has_u", [0, 1]), pick(ctx, "has_mbs", [0, 1]),
                                                 pick(ctx, "has_lp", [0, 1]), pick(ctx, "has_hp", [0, 1]))
    else:
        hyper, has_u, has_mbs, has_lp, has_hp = pick(ctx, "options_row", OPTION_ROWS)
    u = ctx.fresh("u", "int") if has_u else None
    mbs = ctx.fresh("max_batch_size", "int") if has_mbs else None
    if (pick(ctx, "optimized_empty", [0, 1]) if FULL_PRODUCT else hyper == "override"):
        o.fields["hyperparameter_state"].fields["optimized_aberrations"] = {}   # nothing optimised yet (getter contracts cross this fully)
    return NS(self=o, bf_mask=m, override_aberration_coefs={"C10": real(ctx, "ovr_C10"), "C30": real(ctx, "ovr_C30")} if hyper == "override" else None,
              upsampling_factor=u, override_rotation_angle=real(ctx, "ovr_rot") if hyper == "override" else None, max_batch_size=mbs,
              deconvolution_kernel=KERNEL_SPELLING[kernel], q_highpass=real(ctx, "q_highpass", True) if has_hp else None,
              q_lowpass=real(ctx, "q_lowpass", True) if has_lp else (0.0 if has_hp else None),
              butterworth_order=12, matched_filter_norm_epsilon=real(ctx, "mf_eps", True), parallax_flip_phase=ctx.fresh("flip", "bool"),
              verbose=False, use_initial_state=(hyper == "initial"), kernel=kernel,
              mask_tt=m if m is not None else o.fields["_bf_mask"])


def rc_requires(s):
    stash(s)
    r = []
    if s.upsampling_factor is not None:
        r.append(("upsampling_factor >= 1", s.upsampling_factor >= 1))
    if s.max_batch_size is not None:
        r.append(("max_batch_size >= 1", s.max_batch_size >= 1))
    return r


def container_snapshot(fields):
    """identity + contents of every stored value (python dicts / sets / lists are real containers in the interpreter)."""
    return {k: (v, dict(v) if type(v) is dict else set(v) if type(v) is set else list(v) if type(v) is list else None) for k, v in fields.items()}


def container_changes(fields, snap, prefix=""):
    ch = []
    for k, (v0, c0) in snap.items():
        v = fields.get(k, "<deleted>")
        if v is not v0:
            ch.append(f"{prefix}{k} rebound")
        elif type(v0) is dict and (list(v.keys()) != list(c0.keys()) or any(v[x] is not c0[x] for x in c0)):
            diff = sorted(set(v) ^ set(c0)) + sorted(x for x in c0 if x in v and v[x] is not c0[x])
            ch.append(f"{prefix}{k} mutated in place (keys {diff})")
        elif type(v0) in (set, list) and v != c0:
            ch.append(f"{prefix}{k} mutated in place")
    ch += [f"{prefix}{k} added" for k in fields if k not in snap]
    return ch


def rc_snapshot(s):
    o = s.self
    ovr = s.override_aberration_coefs
    return NS(fields=container_snapshot(o.fields), state=container_snapshot(o.fields["hyperparameter_state"].fields),
              args=container_snapshot({"override_aberration_coefs": ovr}))


PASS_ELEM = {0: ("L", "free"), 1: ("L", "M")}   # declared row type of the buffer after pass 1 / pass 2 (invariant annotation)


def _elem_le(a, b):
    order = {"free": 0, "free/AF": 1, "AF": 1, "M": 2}
    return cm._LIN_ORDER[a[0]] <= cm._LIN_ORDER[b[0]] and order[a[1]] <= order[b[1]]


def pass_inv(which):
    def inv(s):
        st = stage_of(s.k)
        buf = s.get("fourier_factor")
        pw = s.get("power")
        out = []
        okb = isinstance(buf, TT) and buf.buf is not None
        if st == "entry":
            ok = okb and buf.buf["state"] == ("none" if which == 0 else "full")
            out.append(("rows-of-finished-batches-are-final", msg_goal(ok, f"buffer before the pass: {describe(buf)} state {buf.buf['state'] if okb else '?'}")))
        elif st == "after-body":
            cur = buf.buf.get("iter") if okb else None
            ok = bool(cur) and cur["written"] and cur.get("n_writes", 0) == 1 and _elem_le(cur["elem"], PASS_ELEM[which])
            why = "no well-typed write of the batch rows" if not (cur and cur["written"]) else f"{cur.get('n_writes')} writes, row type {cur['elem']} (declared {PASS_ELEM[which]})"
            out.append(("rows-of-finished-batches-are-final", msg_goal(ok, why)))
        else:
            out.append(("rows-of-finished-batches-are-final", z3.BoolVal(True)))
        if which == 0:
            if st == "entry":
                ok = pw is None or is_tt(pw, dep="G", lin="C", mk="free") and pw.zero
                out.append(("power-is-the-row-sum-over-finished-batches", msg_goal(ok, f"before the pass: {describe(pw)} (must be zeros)")))
            elif st == "after-body":
                ok = pw is None or is_tt(pw, dep="A", lin="C", mk="free")
                out.append(("power-is-the-row-sum-over-finished-batches", msg_goal(ok, describe(pw))))
            else:
                out.append(("power-is-the-row-sum-over-finished-batches", z3.BoolVal(True)))
        return out
    return inv


def pass_havoc(which):
    def h(s):
        buf = s.get("fourier_factor")
        if isinstance(buf, TT) and buf.buf is not None:
            buf.buf["iter"] = dict(entry=buf.buf["state"], written=False, elem=None, n_writes=0)
            buf.buf["state"] = "in-pass"
    return h


def pass_after(which):
    def a(s):
        buf = s.get("fourier_factor")
        if isinstance(buf, TT) and buf.buf is not None:
            buf.buf.pop("iter", None)
            buf.buf["state"], buf.buf["elem"] = "full", PASS_ELEM[which]   # k = #batches: C09 partition => every row written exactly once
        pw = s.get("power")
        if which == 0 and isinstance(pw, TT) and pw.dep == "A":
            pw.dep, pw.mk = "G", "AF"                                       # sum over ALL rows (regrouping lemma): a global, additive in the mask
            pw.af = buf.buf["space"].mask if isinstance(buf, TT) and buf.buf is not None else None
    return a


def acc_havoc(ctx, old):
    if not isinstance(old, TT):
        return old
    return TT(old.shape_, "A", "C", "free")


def rc_loops():
    return {
        0: LoopSpec(inv=pass_inv(0), havoc={"buffer": pass_havoc(0)}, after=pass_after(0), kinds={"power": acc_havoc, "pow": lambda ctx, old: old}),
        1: LoopSpec(inv=pass_inv(1), havoc={"buffer": pass_havoc(1)}, after=pass_after(1)),
    }


def rc_ensures(s):
    o = s.self
    res = o.fields.get("_corrected_stack")
    M_sp = cm.space_of(s.mask_tt.ref)
    u = s.upsampling_factor if s.upsampling_factor is not None else 1
    shape = (("rows", M_sp), scan_dim(0, u), scan_dim(1, u))
    out = journal_obligations(s)
    out += [
        ("corrected_stack: one row per pixel of the requested mask, on the upsampled scan grid", msg_goal(is_tt(res, shape=shape), describe(res))),
        ("corrected_stack: row i depends only on BF pixel i and on globals (batch independent)", msg_goal(is_tt(res, dep="B"), describe(res))),
        ("corrected_stack: linear in the vBF stack", msg_goal(is_tt(res, lin="L"), describe(res))),
        ("returns-self", s.result is o),
    ]
    if s.kernel in SINGLE_PASS:
        out.append(("single-pass: corrected_stack = (mask-free row value) / (additive weight of the requested mask)",
                    msg_goal(is_tt(res, mk="free/AF") and res.af is s.mask_tt.ref, f"{describe(res)} weight summed over {getattr(res, 'af', None)!r}")))
    # frame: nothing but the result is written
    snap = dict(s.old.fields)
    snap.pop("_corrected_stack", None)
    changed = [c for c in container_changes({k: v for k, v in o.fields.items() if k != "_corrected_stack"}, snap)]
    changed += container_changes(o.fields["hyperparameter_state"].fields, s.old.state, "hyperparameter_state.")
    changed += container_changes({"override_aberration_coefs": s.override_aberration_coefs}, s.old.args, "argument ")
    out.append(("frame: only corrected_stack is written (identity and contents of every stored hyper-parameter container unchanged)",
                msg_goal(not changed, f"also written: {changed}")))
    return out


C_RECONSTRUCT = Contract(
    f"{DP}:DirectPtychography.reconstruct", setup=rc_setup, requires=rc_requires, ensures=rc_ensures, snapshot=rc_snapshot, loops=rc_loops(),
    inline=DP_PROPS + POINTWISE_HELPERS + [f"{DP}:HyperparameterState.current_aberrations", f"{DP}:HyperparameterState.current_rotation_angle",
                                          f"{DP}:DirectPtychography._return_upsampled_qgrid", "quantem.core.utils.rng:RNGMixin.rng"],
    max_paths=6000)

class ForeignContract:
    """A contract of another property module, re-verified in THIS check with that module's own registry (its models / value domain)."""

    def __init__(self, mod, con):
        self.__dict__.update(con.__dict__)
        self._mod, self._con = mod, con

    def verify(self, reg, *a, **kw):
        return self._con.verify(self._mod.make_registry(), *a, **kw)

    def __getattr__(self, k):
        return getattr(self.__dict__["_con"], k)


# "translating each image by the geometric shift given by the aberration-surface gradient at its detector pixel": the gradient functions the
# parallax kernel uses are verified against the derivative of the REAL aberration_surface by the contracts of contracts/C12.py (all presence
# patterns of the coefficient keys, e.g. C12 without phi12); they are re-verified here, together with the sibling entry point
# _return_lateral_shifts (shift = wavelength * grad chi / 2 pi at the pixel).  Inside reconstruct's typing they stay interpreted inline.
C12_GRADIENTS = [ForeignContract(C12, c) for c in (C12.C_POLGRAD, C12.C_CARTGRAD, C12.C_SHIFTS)]

# "... at its detector pixel": the detector / scan frequency grids every kernel is evaluated on.  contracts/C12.py states and verifies from source
# that spatial_frequencies(gpts, sampling, angle)[i, j] is the PROPER passive rotation (an isometry; None / 0 = unrotated) of
# (fftfreq(gpts[0], sampling[0])[i], fftfreq(gpts[1], sampling[1])[j]) and that (k, phi) are its polar coordinates; these contracts are
# re-verified here, and reconstruct / gamma_factor / _return_upsampled_qgrid obtain their grids through that statement (C_SF_USE), whose
# typing reads: a pair of globals of shape gpts, data-free and mask-free (each element a function of gpts, sampling, angle and its index).
C12_GRIDS = [ForeignContract(C12, c) for c in (C12.C_ROTATE, C12.C_SPATIAL, C12.C_POLARCOORD, C12.C_POLARSF)]


def sf_use_requires(s):
    rot = s.get("rotation_angle")
    return [("rotation_angle is a hyper-parameter (None or a real number), not a tensor", z3.BoolVal(rot is None or isinstance(rot, (int, float, Sym)))),
            ("gpts are two grid dimensions", z3.BoolVal(len(tuple(s.gpts)) == 2 and all(cm.as_dim(n) is not None for n in s.gpts)))]


def sf_use_result(ctx, s):
    dims = tuple(cm.as_dim(n) for n in s.gpts)
    if any(d is None for d in dims):
        raise V.OutOfSubset("spatial_frequencies on sizes that are not abstract grid dimensions")
    return TT(dims, "G", "C", "free"), TT(dims, "G", "C", "free")


# "the hyper-parameters (aberrations / rotation) the reconstruction is a function of": the one-off override passes through validate_aberration_coefficients
# (typed here as "returns a fresh dict").  Its alias-table contract of contracts/C12.py - every given non-None coefficient, EXACT ZEROS INCLUDED (0, 0.0 are
# in the value domain: all values are arbitrary reals), appears under its canonical symbol with the tabulated value - is re-verified in this check, so an
# override such as {'C10': 0.0} cannot be dropped silently (the stored non-zero value would survive).
C12_ALIASES = [ForeignContract(C12, C12.C_VALIDATE)]

C_SF_USE = Contract(C12.C_SPATIAL.func, setup=C12.sf_setup, requires=sf_use_requires, result=sf_use_result,
                    note="statement proved in contracts/C12.py (rotated fftfreq grid), typed: two data-free, mask-free globals of shape gpts")

# SimpleBatcher.__iter__ / __len__: the contracts of contracts/C09.py, re-verified in this check because reconstruct relies on the partition
CONTRACTS = [C_KERNELNAME, C_PREPROCESS, C_BFCONTEXT, C_GAMMA, C_KERNEL, C_CURAB, C_CURROT, C_CROP, C_RECONSTRUCT, C09.C_ITER, C09.C_LEN] + C12_GRADIENTS + C12_GRIDS + C12_ALIASES


# ------------------------------------------------------------------------------------------------
# property-level lemmas (SMT): from the typing judgements + the C09 batcher contract to the property's statements
# ------------------------------------------------------------------------------------------------
def lemma_batch_invariance(ctx):
    """Typing gives: in the pass, iteration k writes buffer[row] = f(row) for exactly the rows of batch k (f: the per-row function,
    independent of k).  C09 (__iter__, shuffle=False, no validation split) gives: batch k = positions kB .. min(kB+B,n)-1.
    Hence after the pass buffer[p] = f(p) for EVERY row p, whatever B is."""
    n, B, p = I("n"), I("B"), I("p")
    f = z3.Function("row_value", z3.IntSort(), z3.RealSort())
    buf = z3.Function("buffer", z3.IntSort(), z3.RealSort())
    cnt = ceil_div(n, B)
    k, i = p / B, p % B
    write_instance = implies(AND(k >= 0, k < cnt, i >= 0, i < zmin(B, n - k * B)), buf(k * B + i) == f(k * B + i))
    items = [(f"C09-{lab}", hyps, goal) for lab, hyps, goal in C09.lemma_positions_partition(ctx)]
    items.append(("every-row-holds-its-rowwise-value-for-every-batch-size", [n >= 1, B >= 1, p >= 0, p < n, write_instance], buf(p) == f(p)))
    return items


def lemma_power_regrouping(ctx):
    """power after the pass = sum over ALL rows, for every batch size.  With prefix sums P(m) = sum_{p<m} g(p) (T1) the row sum of
    batch k is P(end_k) - P(start_k); the accumulator invariant acc_k = P(min(kB, n)) is inductive and gives P(n) at exit."""
    n, B, k = I("n"), I("B"), I("k")
    P = z3.Function("prefix_sum", z3.IntSort(), z3.RealSort())
    acc = z3.Function("acc", z3.IntSort(), z3.RealSort())
    cnt = ceil_div(n, B)
    start, end = k * B, zmin(k * B + B, n)
    step = acc(k + 1) == acc(k) + (P(end) - P(start))
    hyp = [n >= 1, B >= 1, k >= 0, k < cnt]
    return [
        ("init", [n >= 1, B >= 1, P(0) == 0, acc(0) == 0], acc(0) == P(zmin(0 * B, n))),
        ("step", hyp + [acc(k) == P(zmin(k * B, n)), step], acc(k + 1) == P(zmin((k + 1) * B, n))),
        ("exit-is-the-full-sum", [n >= 1, B >= 1, k == cnt, acc(k) == P(zmin(k * B, n))], acc(k) == P(n)),
    ]


def lemma_recombination(ctx):
    """Single-pass kernels: typing gives corrected_stack[i] = x_i / W_mask with x_i mask-free and W additive over disjoint masks,
    so with X_M = sum_{i in M} x_i:  W_A bf_A + W_B bf_B = W bf_full for complementary A, B."""
    XA, XB, WA, WB = Rl("X_A"), Rl("X_B"), Rl("W_A"), Rl("W_B")
    W, X = WA + WB, XA + XB       # additivity of the row sum / of the aperture weight over the disjoint union (T1)
    return [("weighted-recombination", [WA != 0, WB != 0, W != 0], WA * (XA / WA) + WB * (XB / WB) == W * (X / W)),
            ("linear-in-the-stack", [WA != 0], (2 * XA + 3 * XB) / WA == 2 * (XA / WA) + 3 * (XB / WA))]


def lemma_index_mapping(ctx):
    """_return_bf_context: with e_S the row-major enumeration of the construction mask S (stack row r <-> pixel e_S(r)) and
    w = where(M[S]) (increasing enumeration of {r : M(e_S(r))}), j -> e_S(w(j)) is THE increasing enumeration of the sub-mask M:
    stack[w(j)] is the image of the j-th pixel of M in nonzero(M) order."""
    Is, Bs = z3.IntSort(), z3.BoolSort()
    eS, rankS, w, rankW = (z3.Function(nm, Is, Is) for nm in ("e_S", "rank_S", "w", "rank_w"))
    inS, inM = z3.Function("in_S", Is, Bs), z3.Function("in_M", Is, Bs)
    nS, nM = I("n_S"), I("n_M")
    r, r2, p, j, j2 = I("r"), I("r2"), I("p"), I("j"), I("j2")
    ax = [
        forall(r, implies(AND(r >= 0, r < nS), AND(inS(eS(r)), rankS(eS(r)) == r)), patterns=[eS(r)]),
        forall(p, implies(inS(p), AND(rankS(p) >= 0, rankS(p) < nS, eS(rankS(p)) == p)), patterns=[rankS(p)]),
        forall([r, r2], implies(AND(r >= 0, r < r2, r2 < nS), eS(r) < eS(r2)), patterns=[z3.MultiPattern(eS(r), eS(r2))]),
        forall(p, implies(inM(p), inS(p)), patterns=[inM(p)]),
        forall(j, implies(AND(j >= 0, j < nM), AND(w(j) >= 0, w(j) < nS, inM(eS(w(j))), rankW(w(j)) == j)), patterns=[w(j)]),
        forall(r, implies(AND(r >= 0, r < nS, inM(eS(r))), AND(rankW(r) >= 0, rankW(r) < nM, w(rankW(r)) == r)), patterns=[rankW(r)]),
        forall([j, j2], implies(AND(j >= 0, j < j2, j2 < nM), w(j) < w(j2)), patterns=[z3.MultiPattern(w(j), w(j2))]),
    ]
    jj = rankW(rankS(p))
    return [
        ("mapped-pixels-increase", ax + [j >= 0, j < j2, j2 < nM], eS(w(j)) < eS(w(j2))),
        ("mapped-pixels-lie-in-the-sub-mask", ax + [j >= 0, j < nM], inM(eS(w(j)))),
        ("every-sub-mask-pixel-is-mapped", ax + [inM(p)], AND(jj >= 0, jj < nM, eS(w(jj)) == p)),
    ]


LEMMAS = [
    Lemma("batch-invariance", lemma_batch_invariance, uses=["SimpleBatcher.__iter__ (C09)", "reconstruct typing"]),
    Lemma("power-regrouping", lemma_power_regrouping, uses=["SimpleBatcher.__iter__ (C09)", "reconstruct typing"]),
    Lemma("recombination", lemma_recombination, uses=["reconstruct typing (single-pass: free/AF)"]),
    Lemma("sub-mask-index-mapping", lemma_index_mapping, uses=["_return_bf_context typing", "torch.nonzero / where row-major contract"]),
]

# ------------------------------------------------------------------------------------------------
# run-time oracle attached to the contracts (replay of failed obligations on the real code; first failing input is cached)
# ------------------------------------------------------------------------------------------------
_CHECKS = {"reuse": (rt_mask_reuse, fam_mask_reuse), "history": (rt_history, fam_history), "crop": (rt_crop, fam_crop), "batch": (rt_batch, fam_batch), "linear": (rt_linear, fam_linear), "recombine": (rt_recombine, fam_recombine),
           "parallax": (rt_parallax, fam_parallax), "context": (rt_bf_context, fam_bf_context), "aliases": (rt_aliases, fam_aliases)}
_REPLAY_CACHE = {}


def rt_any(inp):
    inp = dict(inp)
    which = inp.pop("check", "batch")
    return _CHECKS[which][0](inp)


def fam_any_cached(names):
    key = tuple(names)

    def fam():
        c = _REPLAY_CACHE.get(key)
        if c is not None:
            if c.get("fail") is not None:
                yield c["fail"]
            return
        c = _REPLAY_CACHE.setdefault(key, {"fail": None})
        for nm in names:
            rt, f = _CHECKS[nm]
            for inp in f("quick", 0):
                full = dict(inp, check=nm)
                if rt(inp).get("violated"):
                    c["fail"] = full
                    yield full
                    return
    return fam


for _c, _names in ((C_RECONSTRUCT, ["batch", "recombine", "parallax", "linear", "history"]), (C_KERNEL, ["batch", "parallax", "linear", "recombine"]),
                   (C_GAMMA, ["batch", "linear"]), (C_BFCONTEXT, ["context", "reuse", "parallax"]), (C_PREPROCESS, ["parallax", "linear"])):
    _c.rt, _c.rt_family = rt_any, fam_any_cached(_names)
C_KERNELNAME.rt, C_KERNELNAME.rt_family = rt_kernel_name, fam_kernel_name
C_CROP.rt, C_CROP.rt_family, C_CROP.concretize = rt_cropfn, fam_cropfn, (lambda ev: None)
for _c in (C_CURAB, C_CURROT):
    _c.rt, _c.rt_family, _c.concretize = rt_getter, fam_getter, (lambda ev: None)
C_KERNELNAME.concretize = lambda ev: None

TRUSTED = [
    "per-operation typing rules of pyvc/lib/c04_models.py (dependence G/B/R/A, linearity C/L/N, mask dependence free/AF/M, mask provenance of index tensors) "
    "for torch arithmetic with broadcasting, pointwise functions, sum/mean/max, view/unsqueeze/broadcast_to, stack/cat/einsum, fft2/ifft2 (act along the last two axes, linear), "
    "basic / boolean-mask / integer-array indexing, torch.nonzero(as_tuple=True) and torch.where(cond) enumerate True entries in row-major order",
    "meta-theorem of the typing (not mechanised): a value typed B is a function of its row's BF pixel and of globals; R/A values are additive over rows",
    "T1: finite sums regroup over a partition / telescope over prefix sums",
    "SimpleBatcher contract (partition into consecutive batches; shuffle=False, val_ratio=0): proved in contracts/C09.py, used here at the call site",
    "spatial_frequencies at call sites (reconstruct, gamma_factor, _return_upsampled_qgrid): used through the statement proved from source in contracts/C12.py and "
    "re-verified in this check (proper passive rotation of the fftfreq grid), typed as two data-free, mask-free globals of shape gpts; its body is no longer interpreted inline",
    "dataclass BrightFieldContext stores its keyword arguments; validate_tensor returns its tensor argument; tqdm progress bar has no effect",
    "torch.fft.fftshift / ifftshift = the index maps out[i] = in[(i -/+ n//2) mod n] on every axis; torch.where(mask) returns coordinate vectors whose min / max are the "
    "extremes of the True entries (both attained); python slice clipping semantics of the engine (mask cropping contract)",
    "validate_aberration_coefficients returns a fresh dict (alias canonicalisation itself is C12's subject); python dict / set `|=` mutates the left operand",
    "loop annotations PASS_ELEM (row type of the buffer after pass 1 / pass 2) are invariants checked on the arbitrary iteration",
    "pyvc engine (AST interpreter), z3, cvc5",
]
ASSUMPTIONS = [
    "A1 floats are reals: batch invariance / linearity are exact over the reals; floating-point summation order differs (bounded checks use rel. tol. 2e-4 .. 1e-3)",
    "A5 the DFT is linear and acts independently on each leading-axis row (fft2/ifft2 over the last two axes)",
    "A6 torch indexing / nonzero / where semantics as typed in c04_models",
    "masks are non-empty (num_bf >= 1), sub-masks are subsets of the construction mask (docstring of reconstruct), max_batch_size >= 1, upsampling_factor >= 1 integer",
    "object invariant ASSUMED by the typing of reconstruct (established by __init__, whose body is NOT under contract): stack row r was recorded at the r-th pixel "
    "(row-major) of self.bf_mask and _vbf_fourier has the type proved for _preprocess; the one non-trivial step of __init__ for this invariant, "
    "_crop_corner_centered_mask, IS under a deductive contract (every mask pixel kept at its signed detector frequency, for all sizes / masks / paddings >= 0)",
    "quick tier: the five independent options of reconstruct (hyper-parameter source, upsampling None/int, max_batch_size None/int, low-pass, high-pass) are explored as a "
    "strength-2 covering array (6 rows) for every kernel x mask x flip combination; the thorough tier explores their full product (same obligation names, 14158 instances)",
    "analytic parallax limits (zero aberration, defocus / astigmatism shift) are NOT proved: they need the DFT shift theorem inside the tensor code; bounded run-time contracts only",
    "aperture weight in the bounded checks = sum over mask pixels of the squared soft-edged aperture (reconstruct always uses the soft-edged aperture for the weights, also when soft_edges=False)",
]
EXPLANATION = ("dependence/linearity/mask-provenance typing of the real reconstruct / _return_kernel_contributions / gamma_factor / _return_bf_context / _preprocess bodies "
               "(abstract interpretation of the real AST, typing rules trusted), SMT lemmas from typing + C09 partition to batch invariance, regrouping, recombination, index mapping; "
               "the property's numerical statements are decided on small stacks by run-time contracts (bounded)")

BOUNDED = [
    Bounded.from_rt("kernel names and aliases", rt_kernel_name, fam_kernel_name, "all 14 documented spellings x 3 capitalisations + 6 unknown names"),
    Bounded.from_rt("sub-mask index mapping (_return_bf_context)", rt_bf_context, fam_bf_context, "every non-empty sub-mask of two construction masks with 5 and 6 pixels"),
    Bounded.from_rt("batch-size sweep 1..num_bf", rt_batch, fam_batch, "scan <= 7x5 (odd, even, non-square), 3..13 BF pixels, 5 kernels + aliases, upsampling 1..3, full mask and proper sub-masks, low/high-pass on/off"),
    Bounded.from_rt("linearity in the stack", rt_linear, fam_linear, "same geometries, 5 kernels, upsampling 1..2 (3 in thorough), batch None/1/2"),
    Bounded.from_rt("complementary sub-masks recombine (single-pass kernels)", rt_recombine, fam_recombine, "same geometries, ssb/prlx/icom, upsampling 1..3"),
    Bounded.from_rt("analytic parallax: zero aberration and defocus/astigmatism shifts", rt_parallax, fam_parallax,
                    "same geometries, 6 aberration sets incl. integer-pixel shifts, rotation 0/0.35/-0.9, upsampling 1..3, full mask and proper sub-masks"),
    Bounded.from_rt("aliases give identical reconstructions", rt_aliases, fam_aliases, "2 geometries (all 5 in thorough)"),
    Bounded.from_rt("call histories: one-off overrides / other kernels / sub-masks leave no trace", rt_history, fam_history,
                    "3 geometries (5 in thorough) x 3 kernels (5) x 5 call sequences x optimised aberrations empty / present; later call == first == fresh object, bitwise"),
    Bounded.from_rt("_crop_corner_centered_mask keeps the signed frequencies of all pixels (function level)", rt_cropfn, fam_cropfn,
                    "8 detector shapes 1x3 .. 8x8, 45 mask extents each incl. Nyquist rows / full axes, padding 0..2"),
    Bounded.from_rt("mask tensor refilled in place between calls: the result follows the mask VALUE", rt_mask_reuse, fam_mask_reuse,
                    "3 geometries (5 in thorough) x 3 kernels (5) x 3 mask sequences through one work tensor (copy_ / item assignment); context and reconstruction vs a fresh object"),
    Bounded.from_rt("HyperparameterState getters are pure", rt_getter, fam_getter, "initial/optimized empty or not x 4 overrides x 5 rotation settings, two calls each"),
    Bounded.from_rt("construction mask cropping (crop_bf_mask=True) keeps pixels at their detector frequencies", rt_crop, fam_crop,
                    "detectors 8x8, 7x7, 6x9; 7 mask extents (symmetric, heavier to either side, touching the array edge); padding 0..2", klass=crop_class),
]
REPLAY = {}
