"""C06 - Dataset binning / Fourier resampling / pad-crop conservation laws.

Contracts on the REAL `Dataset.bin`, `Dataset.fourier_resample` (with its nested `_shift_center_index`), `Dataset.pad`,
`Dataset.crop` of quantem/core/datastructures/dataset.py.  The number of dimensions (1..4), the axis selection and the
argument *forms* are enumerated (the property's own range); every length, factor, output length, pad width, origin,
sampling value and array element is symbolic.
"""
from __future__ import annotations

import itertools

import z3

from pyvc import values as V
from pyvc.values import Sym, SymArr, Obj, S, lift
from pyvc.interp import NS
from pyvc.registry import Contract, resolve
from pyvc.runner import Lemma, Bounded
from pyvc.lib import c06_models as cm
from .common import registry, forall, implies, AND, OR, NOT

# The runner pretty-prints every goal for the evidence file (then keeps 300 characters); the resampling goals are large
# conditional index expressions whose full infix rendering costs ~1 s each.  Bound the pretty-printer, not the goals.
z3.set_option(max_visited=80, max_depth=6, max_args=8, max_lines=8)

LEVEL = "proof"
DS = "quantem.core.datastructures.dataset"
VA = "quantem.core.utils.validators"
Dataset = resolve(f"{DS}:Dataset")
I, Rl = z3.Int, z3.Real
HALF = z3.RealVal("1/2")

INLINED = [f"{DS}:Dataset.{p}" for p in ("array", "ndim", "shape", "sampling", "origin", "name", "units", "signal_units", "metadata", "dtype")] + [
    f"{VA}:ensure_valid_array", f"{VA}:validate_ndinfo", f"{VA}:validate_units",
    f"{DS}:Dataset._normalize_axes"]  # (the last one exists only with proposed_fixes/C06_1.diff applied)


def make_registry():
    reg = registry()
    cm.install(reg)
    for c in CONTRACTS:
        reg.add_contract(c)
    reg.add_contract(C_COPY)
    for q in INLINED:
        reg.inline.add(q)
    return reg


# ------------------------------------------------------------------------------------------------
# abstract Dataset instances
# ------------------------------------------------------------------------------------------------

FIELDS = ("_array", "_origin", "_sampling", "_units", "_name", "_signal_units", "_file_path", "_metadata")


def ds_obj(ctx, d, min_len=0, is_real=True):
    import numpy as np

    shape = tuple(ctx.fresh(f"n{i}", "int") for i in range(d))
    for n in shape:
        ctx.assume(n.t >= min_len)
    arr = ctx.fresh_arr("a", shape, "real")
    arr.as_type = np.ndarray
    arr.is_real = is_real
    origin = ctx.fresh_arr("origin", (d,), "real")
    sampling = ctx.fresh_arr("sampling", (d,), "real")
    origin.as_type = sampling.as_type = np.ndarray
    return Obj(Dataset, dict(_array=arr, _origin=origin, _sampling=sampling, _units=[f"u{i}" for i in range(d)], _name="ds",
                             _signal_units="arb. units", _file_path=None, _metadata={}))


def snap(s):
    """Whole view of `self` before the call (objects, write counters, index functions)."""
    f = s.self.fields
    return NS(fields=dict(f), keys=tuple(f), arr=f["_array"], shape=tuple(f["_array"].shape), afn=f["_array"].fn,
              origin=f["_origin"].fn, sampling=f["_sampling"].fn,
              writes={k: v.writes for k, v in f.items() if isinstance(v, SymArr)},
              fns={k: v.fn for k, v in f.items() if isinstance(v, SymArr)}, units=list(f["_units"]))


def self_untouched(s):
    """Frame for the copying form: every field of `self` is the same object, never written."""
    f, o = s.self.fields, s.old
    ok = tuple(f) == o.keys and all(f[k] is o.fields[k] for k in o.keys)
    ok = ok and all(f[k].writes == w for k, w in o.writes.items()) and all(f[k].fn is fn for k, fn in o.fns.items())
    return bool(ok) and list(f["_units"]) == o.units


def other_fields_untouched(s, changed):
    f, o = s.self.fields, s.old
    ok = tuple(f) == o.keys and all(f[k] is o.fields[k] for k in o.keys if k not in changed)
    ok = ok and all(f[k].writes == w and f[k].fn is o.fns[k] for k, w in o.writes.items() if k not in changed)
    return bool(ok) and list(f["_units"]) == o.units


def fresh_result_ok(s):
    r = s.result
    if not isinstance(r, Obj) or r is s.self or r.cls is not s.self.cls:
        return False
    a = r.fields.get("_array")
    if not isinstance(a, SymArr):
        return False
    if a is s.old.arr or a.base is s.old.arr.base:
        return False
    for k in ("_origin", "_sampling"):
        if r.fields.get(k) is s.old.fields[k]:
            return False
    return list(r.fields.get("_units", ())) == s.old.units and r.fields.get("_signal_units") == s.old.fields["_signal_units"]


_CANARY = [False]


class CaseContract(Contract):
    """Contract whose setup enumerates argument forms.  The runner's vacuity canary (falsified postconditions must fail on a
    live path) re-explores the function; for that second pass the enumeration is cut to the two cheapest alternatives of each
    choice - the obligations that count are all generated in the first, full pass."""

    canary_path_limit = 60  # runner option: the canary pass also stops after this many paths

    def verify(self, reg, mutate_goal=None, **kw):
        _CANARY[0] = mutate_goal is not None
        try:
            return super().verify(reg, mutate_goal, **kw)
        finally:
            _CANARY[0] = False


def choose(ctx, name, options, cost=None):
    """Fork over a finite list of alternatives (decision recorded in the integer `name` for counter-model replay)."""
    v = ctx.fresh(name, "int")
    if _CANARY[0]:
        options = sorted(options, key=cost)[:2] if cost else options[:2]
    n = len(options)
    for i in range(n - 1):
        if ctx.branch(v.t == i):
            return i, options[i]
    ctx.assume(v.t == n - 1)
    return n - 1, options[-1]


def axes_options(d, negative=True):
    """(form, value passed as `axes`, the axes it denotes in order).  Negative indices denote axes counted from the end."""
    opts = [("none", None, tuple(range(d)))]
    for r in range(1, d + 1):
        for sub in itertools.combinations(range(d), r):
            opts.append(("tuple", sub, sub))
    for i in range(d):
        opts.append(("int", i, (i,)))
    if d >= 2:
        rev = tuple(reversed(range(d)))
        opts.append(("tuple", rev, rev))
    opts.append(("tuple", (), ()))
    if negative:
        opts.append(("negative", -1, (d - 1,)))
        opts.append(("negative", (-1,) if d == 1 else (0, -1), (0,) if d == 1 else (0, d - 1)))
    return opts


# ---- Dataset.copy: used through this statement at the call sites inside bin / resample / pad / crop (not verified here)


def copy_result(ctx, s):
    o = s.self
    f = o.fields
    new = {}
    for k, v in f.items():
        if isinstance(v, SymArr):
            c = v.copy()
            for a in ("is_real", "as_type"):
                if hasattr(v, a):
                    setattr(c, a, getattr(v, a))
            new[k] = c
        elif isinstance(v, (list, dict)):
            new[k] = type(v)(v)
        else:
            new[k] = v
    new["_file_path"] = None
    return Obj(o.cls, new)


C_COPY = Contract(f"{DS}:Dataset.copy", setup=lambda ctx: NS(self=ds_obj(ctx, 1)), result=copy_result,
                  note="stated, used at call sites; its body (from_array/__init__/_copy_custom_attributes reflection) is C03's subject")


# ------------------------------------------------------------------------------------------------
# Dataset.bin
# ------------------------------------------------------------------------------------------------

BIN_SCENARIOS = ["normal", "bad-reducer", "length-mismatch", "float-factor", "float-in-tuple"]


def bin_setup(d, inplace):
    aopts = axes_options(d, negative=False)
    # the scalar form of bin_factors is normalised before any axis loop; from 3-D on it is exercised on the
    # None / int / full-tuple axis forms only (all forms x all subsets for 1-D and 2-D)
    scalar_ok = lambda form, axes: d <= 2 or form in ("none", "int") or (axes is not None and len(axes) == d)

    def setup(ctx):
        o = ds_obj(ctx, d)
        si, scenario = choose(ctx, "scenario", BIN_SCENARIOS if d <= 2 else ["normal"])
        if scenario == "normal":
            ai, (aform, axes, denoted) = choose(ctx, "axes_opt", aopts, cost=_axes_cost)
            fi, fform = choose(ctx, "factor_form", ["tuple", "scalar"] if scalar_ok(aform, axes) else ["tuple"])
            ri, reducer = choose(ctx, "reducer_opt", ["sum", "mean"])
        else:
            aform, axes, denoted = aopts[0]
            fform, reducer = "tuple", "sum"
        if scenario == "bad-reducer":
            reducer = "median"
        if fform == "scalar":
            f = ctx.fresh("f", "int")
            bin_factors, flist = f, [f] * len(denoted)
        else:
            flist = [ctx.fresh(f"f{k}", "int") for k in range(len(denoted))]
            bin_factors = tuple(flist)
        if scenario == "length-mismatch":
            bin_factors = bin_factors + (ctx.fresh("f_extra", "int"),)
        if scenario == "float-factor":
            bin_factors = ctx.fresh("f_real", "real")
        if scenario == "float-in-tuple":
            bin_factors = (ctx.fresh("f_real", "real"),) + bin_factors[1:]
        label = f"{d}D axes={axes!r} factors={fform} {reducer} {'in-place' if inplace else 'copy'}" + ("" if scenario == "normal" else f" {scenario}")
        cfg = NS(d=d, inplace=inplace, scenario=scenario, aform=aform, axes=axes, denoted=denoted, fform=fform, reducer=reducer,
                 flist=flist, fac=dict(zip(denoted, flist)), label=label)
        return NS(self=o, bin_factors=bin_factors, axes=axes, modify_in_place=inplace, reducer=reducer, cfg=cfg, case=label)

    return setup


def block_sum(afn, fac, nd):
    """The property's data law: out[j] = sum over the block  { j_i*f_i + t_i : 0 <= t_i < f_i }  (i binned)."""
    order = sorted(fac)

    def fn(*j):
        def rec(ai, bound):
            if ai == len(order):
                return afn(*[bound[i] if i in bound else j[i] for i in range(nd)])
            ax = order[ai]
            f = lift(fac[ax])
            return cm.sigma_n(f, lambda t, _ax=ax, _ai=ai: rec(_ai + 1, {**bound, _ax: j[_ax] * f + t}), level=ai)

        return rec(0, {})

    return fn


def bin_ensures(s):
    c = s.cfg
    d = c.d
    L = lambda t: f"[{c.label}] {t}"
    tgt = s.self if c.inplace else s.result
    out = frame_post(s, c, L)
    if not isinstance(tgt, Obj):
        return out
    arr, org, smp = (tgt.fields.get(k) for k in ("_array", "_origin", "_sampling"))
    if not (isinstance(arr, SymArr) and arr.ndim == d and isinstance(org, SymArr) and isinstance(smp, SymArr) and org.shape == (d,) and smp.shape == (d,)):
        out.append((L("array is d-dimensional, origin and sampling have d entries"), False))
        return out
    n = [lift(x) for x in s.old.shape]
    fac = {i: lift(f) for i, f in c.fac.items()}
    new_n = [n[i] / fac[i] if i in fac else n[i] for i in range(d)]
    shape_ok = AND(*[lift(arr.shape[i]) == new_n[i] for i in range(d)])
    out.append((L("shape: binned axes have length n // f, the others keep theirs"), shape_ok))
    if c.scenario == "negative-axis" and not s.ctx.entails(shape_ok):
        # the data law is only meaningful where the shape is right (keeps the finding narrow)
        return out + bin_metadata_posts(s, c, L, fac, org, smp)
    j = [I(f"j{i}") for i in range(d)]
    inr = AND(*[AND(j[i] >= 0, j[i] < new_n[i]) for i in range(d)])
    spec = S(block_sum(s.old.afn, fac, d)(*j))
    if c.reducer == "mean":
        vol = z3.IntVal(1)
        for i in sorted(fac):
            vol = vol * fac[i]
        spec = spec / Sym(z3.ToReal(vol))
    exact = not s.ctx.ghost.get("c06_inexact")  # no reduction with an accumulator that may be narrower than numpy's default (any input dtype)
    out.append((L("out[j] = block sum" + (" / block volume" if c.reducer == "mean" else "") + " (blocks start at 0: only the trailing remainder is dropped)"),
                AND(exact, implies(inr, lift(S(arr.fn(*j))) == lift(spec)))))
    return out + bin_metadata_posts(s, c, L, fac, org, smp)


def bin_metadata_posts(s, c, L, fac, org, smp):
    samp, orig = [], []
    for i in range(c.d):
        s_old, o_old = lift(S(s.old.sampling(z3.IntVal(i)))), lift(S(s.old.origin(z3.IntVal(i))))
        s_new, o_new = lift(S(smp.fn(z3.IntVal(i)))), lift(S(org.fn(z3.IntVal(i))))
        if i in fac:
            fr = z3.ToReal(fac[i])
            samp.append(s_new == fr * s_old)
            orig.append(o_new == o_old + (fr - 1) * HALF * s_old)
        else:
            samp.append(s_new == s_old)
            orig.append(o_new == o_old)
    return [(L("sampling: multiplied by the factor on binned axes, unchanged elsewhere"), AND(*samp)),
            (L("origin: o + (f-1)/2*s (mean coordinate of the first block) on binned axes, unchanged elsewhere"), AND(*orig))]


def bin_value_error(s):
    c = s.cfg
    if c.scenario in ("bad-reducer", "length-mismatch"):
        return True
    if c.scenario not in ("normal", "negative-axis") or not c.flist:
        return False
    return OR(*[lift(f) <= 0 for f in c.flist])


def bin_type_error(s):
    return s.cfg.scenario in ("float-factor", "float-in-tuple")


def bin_contract(d, inplace):
    c = CaseContract(f"{DS}:Dataset.bin", setup=bin_setup(d, inplace), ensures=bin_ensures, snapshot=snap,
                 raises={ValueError: bin_value_error, TypeError: bin_type_error}, max_paths=6000,
                 note=f"{d}-D, modify_in_place={inplace}")
    c.concretize, c.rt, c.rt_family = bin_conc(d, inplace), rt_bin, fam_bin_small
    return c


NEG_OPTS = [(d, o, (d + k) % 2 == 0) for d in (1, 2, 3, 4) for k, o in enumerate(axes_options(d)[-2:])]


def bin_neg_setup(ctx):
    k, (d, (aform, axes, denoted), inplace) = choose(ctx, "neg_opt", NEG_OPTS)
    o = ds_obj(ctx, d)
    flist = [ctx.fresh(f"f{q}", "int") for q in range(len(denoted))]
    cfg = NS(d=d, inplace=inplace, scenario="negative-axis", aform=aform, axes=axes, denoted=denoted, fform="tuple", reducer="sum",
             flist=flist, fac=dict(zip(denoted, flist)), label="negative axis index = axis counted from the end")
    return NS(self=o, bin_factors=tuple(flist), axes=axes, modify_in_place=inplace, reducer="sum", cfg=cfg, case="negative axis index")


def bin_neg_conc(ev):
    k = ev("neg_opt")
    if k is None or not (0 <= k < len(NEG_OPTS)):
        return None
    d, (aform, axes, denoted), inplace = NEG_OPTS[k]
    shape = [ev(f"n{i}", 2) for i in range(d)]
    fs = [ev(f"f{q}", 1) for q in range(len(denoted))]
    if any(not (0 <= n <= 40) for n in shape) or any(abs(f) > 40 for f in fs):
        return None
    return dict(shape=shape, dtype="float64", axes=list(axes) if isinstance(axes, tuple) else axes, factors=fs, reducer="sum", inplace=inplace, seed=1)


def bin_conc(d, inplace):
    aopts = axes_options(d, negative=False)

    def conc(ev):
        sc = BIN_SCENARIOS[ev("scenario", 0)] if d <= 2 else "normal"
        shape = [ev(f"n{i}", 2) for i in range(d)]
        if any(not (0 <= n <= 40) for n in shape):
            return None
        aform, axes, denoted = aopts[ev("axes_opt", 0)] if sc == "normal" else aopts[0]
        fform = ["tuple", "scalar"][ev("factor_form", 0)] if sc == "normal" else "tuple"
        reducer = ["sum", "mean"][ev("reducer_opt", 0)] if sc == "normal" else "sum"
        if sc == "bad-reducer":
            reducer = "median"
        if fform == "scalar":
            factors = ev("f", 1)
        else:
            factors = [ev(f"f{k}", 1) for k in range(len(denoted))]
        if sc == "length-mismatch":
            factors = factors + [ev("f_extra", 1)]
        if sc == "float-factor":
            factors = float(ev("f_real", 1.5) or 1.5) + 0.25
        if sc == "float-in-tuple":
            factors = [1.5] + factors[1:]
        fl = [factors] if not isinstance(factors, list) else factors
        if any(abs(f) > 40 for f in fl):
            return None
        return dict(shape=shape, dtype="float64", axes=list(axes) if isinstance(axes, tuple) else axes, factors=factors, reducer=reducer,
                    inplace=inplace, seed=1)

    return conc


# ---- run-time oracle for bin: the same statement evaluated on the REAL function against an int64 / float64 / complex128 block oracle


def _mk_array(shape, dtype, seed):
    import numpy as np

    rng = np.random.default_rng(seed)
    dt = np.dtype(dtype)
    if dt.kind == "b":
        return rng.integers(0, 2, size=shape).astype(bool)
    if dt.kind in "ui":
        info = np.iinfo(dt)
        hi = min(int(info.max), 2 ** 31 - 1)
        lo = max(int(info.min), -(2 ** 31))
        a = rng.integers(lo, hi, size=shape, endpoint=True)
        # make sure narrow types are saturated somewhere: the block sums then exceed the input dtype's range
        if a.size:
            a.flat[:: max(1, a.size // 7)] = hi
        return a.astype(dt)
    if dt.kind == "c":
        return (rng.normal(size=shape) + 1j * rng.normal(size=shape)).astype(dt) * 50
    return (rng.normal(size=shape) * 50 + 10).astype(dt)


def _wide(a):
    import numpy as np

    if a.dtype.kind in "bui":
        return a.astype(np.int64)
    if a.dtype.kind == "c":
        return a.astype(np.complex128)
    return a.astype(np.float64)


def _norm_axes(axes, d):
    if axes is None:
        return tuple(range(d))
    if isinstance(axes, (int, float)):
        axes = (int(axes),)
    return tuple(int(a) % d for a in axes)


def _mk_dataset(inp):
    import numpy as np
    from quantem.core.datastructures.dataset import Dataset

    a = _mk_array(tuple(inp["shape"]), inp.get("dtype", "float64"), inp.get("seed", 0))
    d = a.ndim
    rng = np.random.default_rng(inp.get("seed", 0) + 99)
    origin = np.round(rng.uniform(-5, 5, size=d), 3)
    sampling = np.round(rng.uniform(0.1, 3, size=d), 3)
    ds = Dataset.from_array(a.copy(), name="ds", origin=origin.copy(), sampling=sampling.copy(), units=[f"u{i}" for i in range(d)])
    return ds, a, origin, sampling


def _tol(dtype, scale, terms=1):
    import numpy as np

    dt = np.dtype(dtype)
    if dt.kind in "bui":
        return 0.0
    eps = np.finfo(dt).eps
    return float(eps) * 16 * max(1, terms) * max(1.0, scale)


def _frame_problems(ds, a, origin, sampling, before_ids, changed):
    import numpy as np

    pr = []
    if "array" not in changed and (ds.array is not before_ids[0] or not np.array_equal(ds.array, a)):
        pr.append("self.array was modified/replaced")
    if "meta" not in changed and (not np.array_equal(ds.origin, origin) or not np.array_equal(ds.sampling, sampling)):
        pr.append(f"self origin/sampling changed to {ds.origin.tolist()}/{ds.sampling.tolist()}")
    if list(ds.units) != [f"u{i}" for i in range(a.ndim)] or ds.signal_units != "arb. units":
        pr.append("units changed")
    return pr


def rt_bin(inp):
    import itertools as it

    import numpy as np

    ds, a, origin, sampling = _mk_dataset(inp)
    d = a.ndim
    axes = inp.get("axes")
    axes_arg = tuple(axes) if isinstance(axes, list) else axes
    factors = inp["factors"]
    fac_arg = tuple(factors) if isinstance(factors, list) else factors
    reducer, inplace = inp.get("reducer", "sum"), bool(inp.get("inplace", False))
    denoted = _norm_axes(axes_arg, d)
    flist = list(fac_arg) if isinstance(fac_arg, tuple) else [fac_arg] * len(denoted)
    exp_exc = None
    if str(reducer).lower() not in ("sum", "mean"):
        exp_exc = ValueError
    elif isinstance(fac_arg, tuple) and len(fac_arg) != len(denoted):
        exp_exc = ValueError
    elif any(not isinstance(f, (int, np.integer)) for f in flist):
        exp_exc = TypeError
    elif any(f <= 0 for f in flist):
        exp_exc = ValueError
    ids = (ds.array,)
    try:
        res = ds.bin(fac_arg, axes=axes_arg, modify_in_place=inplace, reducer=reducer)
    except Exception as e:
        ok = exp_exc is not None and isinstance(e, exp_exc)
        return dict(violated=not ok, observed=f"raised {type(e).__name__}: {e}", expected=exp_exc.__name__ if exp_exc else "no exception")
    if exp_exc is not None:
        return dict(violated=True, observed="returned normally", expected=f"raise {exp_exc.__name__}")
    pr = []
    if inplace:
        if res is not None:
            pr.append("in-place form returned a value")
        out = ds
        pr += _frame_problems(ds, a, origin, sampling, ids, ("array", "meta"))
    else:
        out = res
        if out is None or out is ds or type(out) is not type(ds):
            return dict(violated=True, observed=f"returned {type(out).__name__}", expected="a new Dataset")
        pr += _frame_problems(ds, a, origin, sampling, ids, ())
        if np.shares_memory(out.array, a) or np.shares_memory(out.array, ds.array):
            pr.append("result shares memory with the input")
    fac = dict(zip(denoted, [int(f) for f in flist]))
    f_of = [fac.get(i, 1) for i in range(d)]
    nb = [a.shape[i] // f_of[i] for i in range(d)]
    w = _wide(a)
    acc = np.zeros(nb, dtype=w.dtype)
    for t in it.product(*[range(f) for f in f_of]):
        acc = acc + w[tuple(slice(t[i], nb[i] * f_of[i], f_of[i]) for i in range(d))]
    vol = int(np.prod([f_of[i] for i in range(d)]))
    want = acc / vol if str(reducer).lower() == "mean" else acc
    got = np.asarray(out.array)
    if tuple(got.shape) != tuple(nb):
        pr.append(f"shape {tuple(got.shape)} != {tuple(nb)} (n // f on binned axes)")
    else:
        scale = float(np.abs(w).max()) * vol if w.size else 1.0
        tol = _tol(a.dtype if a.dtype.kind in "fc" else np.float64, scale, vol) if (a.dtype.kind in "fc" or str(reducer).lower() == "mean") else 0.0
        err = float(np.abs(got.astype(want.dtype if want.dtype.kind == "c" else np.float64) - want).max()) if want.size else 0.0
        if a.dtype.kind in "bui" and str(reducer).lower() == "sum":
            if got.dtype.kind not in "ui" or not np.array_equal(got.astype(object), want.astype(object)):
                j = np.argwhere(got.astype(object) != want.astype(object))
                pr.append(f"block sums differ from the int64 oracle (dtype {got.dtype}; first at {j[0].tolist() if len(j) else '?'}: {got[tuple(j[0])] if len(j) else ''} != {want[tuple(j[0])] if len(j) else ''})")
        elif err > tol:
            pr.append(f"block {'means' if vol and str(reducer).lower() == 'mean' else 'sums'} differ from the wide oracle by {err:.3g} (tol {tol:.3g})")
        if str(reducer).lower() == "sum" and want.size:
            cov = w[tuple(slice(0, nb[i] * f_of[i]) for i in range(d))].sum()
            tot = got.astype(object).sum() if got.dtype.kind in "ui" else got.sum()
            if abs(complex(tot) - complex(cov)) > max(tol * want.size, 0.0):
                pr.append(f"counts over the covered region not preserved: {tot} != {cov}")
    for i in range(d):
        f = f_of[i] if i in fac else None
        s_exp = sampling[i] * f if f else sampling[i]
        o_exp = origin[i] + 0.5 * (f - 1) * sampling[i] if f else origin[i]
        if not np.isclose(out.sampling[i], s_exp, rtol=1e-12, atol=1e-12):
            pr.append(f"sampling[{i}]={out.sampling[i]} expected {s_exp}")
        if not np.isclose(out.origin[i], o_exp, rtol=1e-12, atol=1e-12):
            pr.append(f"origin[{i}]={out.origin[i]} expected {o_exp}")
        if f:
            for j in range(min(nb[i], 3)):
                centre = np.mean([origin[i] + (j * f + t) * sampling[i] for t in range(f)])
                if not np.isclose(out.origin[i] + j * out.sampling[i], centre, rtol=1e-10, atol=1e-10):
                    pr.append(f"axis {i} block {j}: new coordinate {out.origin[i] + j * out.sampling[i]} != mean of old coordinates {centre}")
                    break
    return dict(violated=bool(pr), observed="; ".join(pr[:4]) or "ok",
                expected="out[j] = sum/mean of block j (blocks from 0, trailing remainder dropped); sampling*f; origin+(f-1)/2*sampling; self untouched unless in place")


def fam_bin_small(negative=False):
    for shape in ([5], [6], [4, 5], [5, 6], [3, 4, 5], [2, 3, 4, 5]):
        d = len(shape)
        for form, axes, denoted in (axes_options(d)[-2:] if negative else axes_options(d, negative=False)):
            for fs in ([2] * len(denoted), [3] * len(denoted), list(range(1, len(denoted) + 1))):
                for reducer in ("sum", "mean"):
                    yield dict(shape=shape, dtype="float64", axes=list(axes) if isinstance(axes, tuple) else axes, factors=fs, reducer=reducer,
                               inplace=(len(shape) + fs[0] if fs else 0) % 2 == 0, seed=3)
    if negative:
        for dt in ("uint8", "int16"):
            yield dict(shape=[8], dtype=dt, axes=-1, factors=[4], reducer="sum", inplace=False, seed=2)
            yield dict(shape=[4, 6], dtype=dt, axes=[0, -1], factors=[2, 3], reducer="sum", inplace=True, seed=4)
        return
    for dt in ("uint8", "uint16", "int16", "bool"):  # saturated narrow integers: block sums exceed the input type's range
        yield dict(shape=[8], dtype=dt, axes=None, factors=4, reducer="sum", inplace=False, seed=2)
        yield dict(shape=[4, 6], dtype=dt, axes=[1], factors=[3], reducer="mean", inplace=True, seed=4)
    yield dict(shape=[6], dtype="float64", axes=None, factors=[0], reducer="sum", inplace=False, seed=1)
    yield dict(shape=[6], dtype="float64", axes=None, factors=2, reducer="median", inplace=False, seed=1)
    yield dict(shape=[6, 4], dtype="float64", axes=None, factors=[2], reducer="sum", inplace=False, seed=1)
    yield dict(shape=[6], dtype="float64", axes=None, factors=1.5, reducer="sum", inplace=False, seed=1)


BIN_CONTRACTS = [bin_contract(d, ip) for d in (1, 2, 3, 4) for ip in (False, True)]
C_BIN_NEG = CaseContract(f"{DS}:Dataset.bin", setup=bin_neg_setup, ensures=bin_ensures, snapshot=snap, raises={ValueError: bin_value_error},
                     concretize=bin_neg_conc, rt=rt_bin, rt_family=lambda: fam_bin_small(True), note="negative axis indices (1..4-D)")


# ------------------------------------------------------------------------------------------------
# Dataset.fourier_resample
# ------------------------------------------------------------------------------------------------
#
# Statement proved from the code (per axis selection, for all lengths n >= 1 and output lengths m):
#   result = (prod m / prod n) * [Re] ifftn_A( H ),      G = fftn_A(self.array),
#   H[q] = G[k]  where k is the input bin with the same SIGNED frequency as output bin q, and 0 if the input has no such bin
#          (signed frequency of bin q of a length-m DFT:  nu = ((q + m//2) mod m) - m//2,  range [-(m//2), m - m//2) ),
#   m*sampling' = n*sampling (extent), origin' + (m-1)/2*sampling' = origin + (n-1)/2*sampling (centre), other axes untouched.
# The conservation laws of the property follow from this statement and the DFT axioms A5 (lemmas below).

FR_SCENARIOS = ["normal", "both-given", "neither-given", "length-mismatch"]


def signed_freq(q, m):
    r = q + m / 2
    r = z3.If(r >= m, r - m, r)
    return r - m / 2


FR_FORMS = [("factors-tuple", False), ("factors-scalar", True), ("out_shape", True), ("factors-scalar", False), ("factors-tuple", True)]


def fr_axes_options(d):
    """Axis selections explored with every <, =, > relation between old and new length on every selected axis.
    4-D: the explicit full tuple and its reversal are left to the None form (same selection; 81 relation patterns each)."""
    opts = axes_options(d, negative=False)
    if d == 4:
        opts = [o for o in opts if not (o[0] == "tuple" and len(o[2]) == 4)]
    return opts


def _axes_cost(o):
    return 3 ** len(o[2]) if o[2] else 100


def _shard(opts, shard, nshards):
    """Greedy balance of the axis selections over `nshards` contracts (weight = number of length-relation patterns)."""
    if nshards == 1:
        return list(opts)
    bins = [[0, []] for _ in range(nshards)]
    for o in sorted(opts, key=lambda o: -(3 ** len(o[2]))):
        b = min(bins, key=lambda b: b[0])
        b[0] += 3 ** len(o[2])
        b[1].append(o)
    return bins[shard][1]


def fr_setup(d, layer, shard=0, nshards=1):
    """layer 'axes': every axis selection, out_shape form, copying form (the length relations are explored by the code's own
    branches; real / complex input alternates with the selection from 3-D on);
    layer 'forms': argument forms (factors scalar / tuple, out_shape, in-place) and the error cases; 1-D: on every selection,
    2-D: None, reversed tuple, int; 3-D/4-D: all forms on a single int axis, in-place out_shape on all axes."""
    if layer == "axes":
        aopts = fr_axes_options(d)
    else:
        full = axes_options(d, negative=False)
        if d == 1:
            aopts = full
        elif d == 2:
            aopts = [full[0], [o for o in full if o[1] == (1, 0)][0], [o for o in full if o[0] == "int"][-1]]
        else:
            aopts = [[o for o in full if o[0] == "int"][-1], full[0]]
    aopts = _shard(aopts, shard, nshards)

    def setup(ctx):
        if layer == "axes":
            scenario, form, inplace = "normal", "out_shape", False
            ai, (aform, axes, denoted) = choose(ctx, "axes_opt", aopts, cost=_axes_cost)
            is_real = ((ai + shard) % 2 == 0) if d >= 3 else choose(ctx, "real_opt", [True, False])[1]
        else:
            si, scenario = choose(ctx, "scenario", FR_SCENARIOS if d <= 2 else ["normal"])
            ai, (aform, axes, denoted) = choose(ctx, "axes_opt", aopts if scenario == "normal" else aopts[:1], cost=_axes_cost)
            if scenario == "normal":
                forms = FR_FORMS if (d <= 2 or aform == "int") else FR_FORMS[2:3]
                fi, (form, inplace) = choose(ctx, "form_opt", forms)
                is_real = choose(ctx, "real_opt", [True, False])[1] if d == 1 else (ai + fi) % 2 == 0
            else:
                form, inplace, is_real = "out_shape", False, True
        o = ds_obj(ctx, d, min_len=1, is_real=is_real)
        for nm, val in (("kind_real", int(is_real)), ("inplace_cfg", int(inplace)), ("form_cfg", ["out_shape", "factors-tuple", "factors-scalar"].index(form))):
            ctx.assume(ctx.fresh(nm, "int").t == val)  # ghost constants: the case of this path, for counter-model replay
        k = len(denoted)
        out_shape = factors = None
        ms = fs = None
        if form == "out_shape":
            ms = [ctx.fresh(f"m{q}", "int") for q in range(k)]
            out_shape = tuple(ms)
        elif form == "factors-tuple":
            fs = [ctx.fresh(f"fac{q}", "real") for q in range(k)]
            factors = tuple(fs)
        else:
            f = ctx.fresh("fac", "real")
            fs, factors = [f] * k, f
        if scenario == "both-given":
            factors = tuple(ctx.fresh(f"fac{q}", "real") for q in range(k))
        if scenario == "neither-given":
            out_shape = None
        if scenario == "length-mismatch":
            out_shape = out_shape + (ctx.fresh("m_extra", "int"),)
        label = f"{d}D axes={axes!r} {form} {'real' if is_real else 'complex'} {'in-place' if inplace else 'copy'}" + ("" if scenario == "normal" else f" {scenario}")
        cfg = NS(d=d, inplace=inplace, scenario=scenario, aform=aform, axes=axes, denoted=denoted, form=form, ms=ms, fs=fs, is_real=is_real, label=label)
        return NS(self=o, out_shape=out_shape, factors=factors, axes=axes, modify_in_place=inplace, cfg=cfg, case=label)

    setup.aopts = aopts
    return setup


def frame_post(s, c, L):
    if c.inplace:
        ok = s.result is None and other_fields_untouched(s, ("_array", "_origin", "_sampling"))
        return [(L("frame: returns None; units/name/signal units/metadata of self untouched, no new attributes"), ok)]
    return [(L("frame: self untouched; returns a new Dataset of the same class, not aliasing self, units kept"), self_untouched(s) and fresh_result_ok(s))]


def fr_ensures(s):
    c = s.cfg
    d = c.d
    L = lambda t: f"[{c.label}] {t}"
    tgt = s.self if c.inplace else s.result
    out = frame_post(s, c, L)
    if not isinstance(tgt, Obj):
        return out
    arr, org, smp = (tgt.fields.get(k) for k in ("_array", "_origin", "_sampling"))
    if not (isinstance(arr, SymArr) and arr.ndim == d and isinstance(org, SymArr) and isinstance(smp, SymArr) and org.shape == (d,) and smp.shape == (d,)):
        out.append((L("array is d-dimensional, origin and sampling have d entries"), False))
        return out
    n = [lift(x) for x in s.old.shape]
    A = list(c.denoted)
    if c.form == "out_shape":
        m_of = {a: lift(c.ms[k]) for k, a in enumerate(A)}
        shape_ok = AND(*[lift(arr.shape[i]) == (m_of[i] if i in m_of else n[i]) for i in range(d)])
        out.append((L("shape: selected axes get the requested length, the others keep theirs"), shape_ok))
        if c.scenario == "negative-axis" and not s.ctx.entails(shape_ok):
            return out  # the remaining clauses are only meaningful where the shape is right (keeps the finding narrow)
    else:
        m_of = {a: lift(arr.shape[a]) for a in A}
        cl = []
        for k, a in enumerate(A):
            m, nf = z3.ToReal(m_of[a]), z3.ToReal(n[a]) * lift(c.fs[k])
            cl.append(AND(m_of[a] >= 1, OR(AND(m - nf <= HALF, nf - m <= HALF), AND(m_of[a] == 1, nf <= HALF))))
        cl += [lift(arr.shape[i]) == n[i] for i in range(d) if i not in m_of]
        out.append((L("shape: selected axes get max(1, round(n*factor)), the others keep theirs"), AND(*cl)))
    new_n = [m_of[i] if i in m_of else n[i] for i in range(d)]
    # ---- the DFT pipeline (ghost log of the trusted fftn / ifftn applications)
    log = cm.dft_log(s.ctx)
    fwd = [e for e in log if e["op"] == "fftn"]
    inv = [e for e in log if e["op"] == "ifftn"]
    pipeline_ok = (len(fwd) == 1 and len(inv) == 1 and isinstance(fwd[0]["src"], SymArr) and fwd[0]["src"].ndim == d
                   and sorted(fwd[0]["axes"]) == sorted(A) and sorted(inv[0]["axes"]) == sorted(A) and inv[0]["src"].ndim == d)
    if not pipeline_ok:
        out.append((L("spectrum placement: one forward fftn of self.array and one inverse ifftn, both over exactly the selected axes"), False))
        return out
    # ---- the array handed to fftn is self.array itself: same values and same VALUE KIND (a complex array stays complex)
    src, src_fn = fwd[0]["src"], fwd[0]["src_fn"]
    p = [I(f"p{i}") for i in range(d)]
    inp = AND(*[AND(p[i] >= 0, p[i] < n[i]) for i in range(d)])
    same_kind = bool(getattr(src, "is_real", True)) == bool(c.is_real)
    same_shape = AND(*[lift(src.shape[i]) == n[i] for i in range(d)])
    out.append((L("value kind: the array handed to fftn is self.array itself - same shape, same values, same kind (" + ("real" if c.is_real else "complex stays complex: no imaginary part dropped") + ")"),
                AND(same_kind, same_shape, implies(inp, lift(S(src_fn(*p))) == lift(S(s.old.afn(*p)))))))
    G, H, Hfn, Y = fwd[0]["out_func"], inv[0]["src"], inv[0]["src_fn"], inv[0]["out_func"]
    q = [I(f"q{i}") for i in range(d)]
    inr = AND(*[AND(q[i] >= 0, q[i] < new_n[i]) for i in range(d)])
    hshape = AND(*[lift(H.shape[i]) == new_n[i] for i in range(d)])
    kidx, present = [], []
    for i in range(d):
        if i in m_of:
            nu = signed_freq(q[i], m_of[i])
            present.append(AND(nu >= -(n[i] / 2), nu < n[i] - n[i] / 2))
            kidx.append(z3.If(nu >= 0, nu, nu + n[i]))
        else:
            kidx.append(q[i])
    want = z3.If(AND(*present) if present else z3.BoolVal(True), G(*kidx), z3.RealVal(0))
    out.append((L("spectrum placement: one fftn of self.array / one ifftn over exactly the selected axes; output bin q holds the input bin of the same signed frequency, 0 if the input has none (DC stays DC, odd/even)"),
                AND(hshape, implies(inr, lift(S(Hfn(*q))) == want))))
    n_out, n_in = z3.IntVal(1), z3.IntVal(1)
    for a in A:
        n_out, n_in = n_out * m_of[a], n_in * n[a]
    y = Y(*q)
    if c.is_real:
        y = cm.RE(y)
    out.append((L("result = (N_out/N_in) * " + ("Re " if c.is_real else "") + "ifftn(placed spectrum),  N = number of samples on the selected axes"),
                implies(inr, lift(S(arr.fn(*q))) == z3.ToReal(n_out) / z3.ToReal(n_in) * y)))
    out += fr_conservation_posts(s, c, L, d, A, n, m_of, new_n, q, inr, arr, fwd[0], inv[0], n_out, n_in)
    samp, orig = [], []
    for i in range(d):
        s_old, o_old = lift(S(s.old.sampling(z3.IntVal(i)))), lift(S(s.old.origin(z3.IntVal(i))))
        s_new, o_new = lift(S(smp.fn(z3.IntVal(i)))), lift(S(org.fn(z3.IntVal(i))))
        if i in m_of:
            mr, nr = z3.ToReal(m_of[i]), z3.ToReal(n[i])
            samp.append(mr * s_new == nr * s_old)
            orig.append(o_new + (mr - 1) * HALF * s_new == o_old + (nr - 1) * HALF * s_old)
        else:
            samp.append(s_new == s_old)
            orig.append(o_new == o_old)
    out.append((L("extent: m*sampling' = n*sampling on selected axes, sampling unchanged elsewhere"), AND(*samp)))
    out.append((L("centre: origin' + (m-1)/2*sampling' = origin + (n-1)/2*sampling on selected axes, origin unchanged elsewhere"), AND(*orig)))
    return out


def fr_conservation_posts(s, c, L, d, A, n, m_of, new_n, q, inr, arr, fwd, inv, n_out, n_in):
    """The property's conservation laws over the array's OWN scalars (real or complex), per path, from the code's data flow and
    ground instances of the DFT axioms A5 at the clause's index constants (written as antecedents of the goal):
      mean      fftn(x)[DC] = sum of x over the selected axes;  mean(ifftn H) = H[DC] / N_out;  Re is R-homogeneous
      identity  ifftn(fftn x) = x   (only on paths where no selected length changes)
      linear    every data step is linear over the scalars of self.array (complex input: C-linear - no Re, no complex->real cast)."""
    out = []
    kind = "real" if c.is_real else "complex"
    G, Hfn, Y, src_fn = fwd["out_func"], inv["src_fn"], inv["out_func"], fwd["src_fn"]
    RE = cm.RE
    zq = [z3.IntVal(0) if i in m_of else q[i] for i in range(d)]
    TOT_src, TOT_a = cm.total_func(src_fn, d, A), cm.total_func(s.old.afn, d, A)
    MY = cm.mean_func(Y, d, A)
    h0 = lift(S(Hfn(*zq)))
    a5 = [G(*zq) == TOT_src(*zq), z3.ToReal(n_out) * MY(*zq) == h0]
    my = MY(*zq)
    if c.is_real:
        a5 += [RE(TOT_a(*zq)) == TOT_a(*zq), z3.ToReal(n_out) * RE(MY(*zq)) == RE(h0)]
        my = RE(my)
    # stated without the division: N_out * mean(ifftn output) = sum(self.array); dividing by N_in > 0 is lemma resample-mean
    out.append((L(f"mean preserved over {kind} scalars: N_out * " + ("Re " if c.is_real else "") + "mean(ifftn output) = sum(self.array) on the selected axes, i.e. (N_out/N_in) * mean(ifftn output) = mean(self.array) (A5 at the DC bin)"),
                implies(AND(inr, *a5), z3.ToReal(n_out) * my == TOT_a(*zq))))
    steps = cm.step_log(s.ctx)
    lin_ok = not any(f == "N" for _, f in steps) and (c.is_real or not any(f == "R" for _, f in steps))
    out.append((L(f"linear over {kind} scalars: every data step between self.array and the result is " + ("R" if c.is_real else "C") + "-linear (fftn, index selection, zero padding, ifftn, data-independent scaling"
                  + ("; Re of a real-input result" if c.is_real else "; no real part, no complex->real conversion") + ")"), lin_ok))
    unchanged = AND(*[m_of[a] == n[a] for a in A]) if A else z3.BoolVal(True)
    if s.ctx.entails(unchanged):
        k = [I(f"k{i}") for i in range(d)]
        ink = AND(*[AND(k[i] >= 0, k[i] < new_n[i]) for i in range(d)])
        a5_inverse = implies(forall(k, implies(ink, lift(S(Hfn(*k))) == G(*k))), Y(*q) == lift(S(src_fn(*q))))
        hyp = [inr, a5_inverse] + ([RE(lift(S(s.old.afn(*q)))) == lift(S(s.old.afn(*q)))] if c.is_real else [])
        out.append((L(f"identity when the shape is unchanged ({kind} scalars): result = self.array (A5: ifftn(fftn x) = x)"),
                    implies(AND(*hyp), lift(S(arr.fn(*q))) == lift(S(s.old.afn(*q))))))
    return out


def fr_value_error(s):
    c = s.cfg
    if c.scenario != "normal":
        return True
    if c.form == "out_shape" and c.ms:
        return OR(*[lift(m) < 1 for m in c.ms])
    return False


def fr_contract(d, layer, shard=0, nshards=1):
    c = CaseContract(f"{DS}:Dataset.fourier_resample", setup=fr_setup(d, layer, shard, nshards), ensures=fr_ensures, snapshot=snap,
                     raises={ValueError: fr_value_error}, max_paths=8000, note=f"{d}-D, layer {layer}, part {shard + 1}/{nshards}")
    return c


FR_CONTRACTS = ([fr_contract(4, "axes", k, 5) for k in range(5)] + [fr_contract(4, "forms", k, 2) for k in range(2)] + [fr_contract(2, "forms", k, 2) for k in range(2)]
                + [fr_contract(3, "axes", k, 2) for k in range(2)] + [fr_contract(3, "forms"), fr_contract(2, "axes"), fr_contract(1, "axes"), fr_contract(1, "forms")])


# ------------------------------------------------------------------------------------------------
# Dataset.pad / Dataset.crop
# ------------------------------------------------------------------------------------------------

PAD_SCENARIOS = ["output_shape", "output_shape-edge", "width-int", "width-pair", "width-per-axis", "width-per-axis-edge",
                 "both-given", "neither-given", "length-mismatch"]


def pad_setup(d):
    def setup(ctx):
        si, sc = choose(ctx, "scenario", PAD_SCENARIOS)
        ii, inplace = choose(ctx, "inplace_opt", [False, True]) if sc in PAD_SCENARIOS[:6] else (0, False)
        o = ds_obj(ctx, d)
        n = [lift(x) for x in o.fields["_array"].shape]
        pad_width = output_shape = None
        kwargs = {"mode": "edge"} if sc.endswith("-edge") else {}
        widths = None  # expected (before, after) per axis, as terms
        Ms = None
        if sc.startswith("output_shape") or sc in ("both-given", "length-mismatch"):
            Ms = [ctx.fresh(f"M{i}", "int") for i in range(d)]
            output_shape = tuple(Ms)
            widths = []
            for i in range(d):
                diff = lift(Ms[i]) - n[i]
                fl, ce = diff / 2, -((-diff) / 2)  # floor / ceil of diff/2 (z3 integer division by 2 is floor)
                widths.append((z3.If(fl > 0, fl, 0), z3.If(ce > 0, ce, 0)))
        if sc == "length-mismatch":
            output_shape = output_shape + (ctx.fresh("M_extra", "int"),)
        if sc == "width-int" or sc == "both-given":
            w = ctx.fresh("w", "int")
            pad_width = w
            if sc == "width-int":
                widths = [(w.t, w.t)] * d
        if sc == "width-pair":
            b, a = ctx.fresh("b", "int"), ctx.fresh("a", "int")
            pad_width = (b, a)
            widths = [(b.t, a.t)] * d
        if sc.startswith("width-per-axis"):
            ws = [(ctx.fresh(f"b{i}", "int"), ctx.fresh(f"a{i}", "int")) for i in range(d)]
            pad_width = tuple(ws)
            widths = [(b.t, a.t) for b, a in ws]
        label = f"{d}D {sc} {'in-place' if inplace else 'copy'}"
        cfg = NS(d=d, scenario=sc, inplace=inplace, widths=widths, Ms=Ms, constant=not kwargs, label=label)
        return NS(self=o, pad_width=pad_width, output_shape=output_shape, modify_in_place=inplace, kwargs=kwargs, cfg=cfg, case=label)

    return setup


def metadata_unchanged(s, tgt):
    org, smp = tgt.fields.get("_origin"), tgt.fields.get("_sampling")
    d = len(s.old.shape)
    if not (isinstance(org, SymArr) and isinstance(smp, SymArr) and org.shape == (d,) and smp.shape == (d,)):
        return False
    return AND(*[AND(lift(S(org.fn(z3.IntVal(i)))) == lift(S(s.old.origin(z3.IntVal(i)))),
                     lift(S(smp.fn(z3.IntVal(i)))) == lift(S(s.old.sampling(z3.IntVal(i))))) for i in range(d)])


def pad_ensures(s):
    c = s.cfg
    d = c.d
    L = lambda t: f"[{c.label}] {t}"
    tgt = s.self if c.inplace else s.result
    if c.inplace:
        out = [(L("frame: returns None; only the array of self is replaced"), s.result is None and other_fields_untouched(s, ("_array",)))]
    else:
        out = frame_post(s, c, L)
    if not isinstance(tgt, Obj):
        return out
    arr = tgt.fields.get("_array")
    if not (isinstance(arr, SymArr) and arr.ndim == d):
        return out + [(L("array is d-dimensional"), False)]
    n = [lift(x) for x in s.old.shape]
    W = c.widths
    out.append((L("shape: n + before + after on every axis" + (" (= output_shape where it is not smaller than n; floor/ceil split)" if c.Ms else "")),
                AND(*[lift(arr.shape[i]) == n[i] + W[i][0] + W[i][1] for i in range(d)])))
    j = [I(f"j{i}") for i in range(d)]
    inside = AND(*[AND(j[i] >= W[i][0], j[i] < W[i][0] + n[i]) for i in range(d)])
    inr = AND(*[AND(j[i] >= 0, j[i] < n[i] + W[i][0] + W[i][1]) for i in range(d)])
    src = lift(S(s.old.afn(*[j[i] - W[i][0] for i in range(d)])))
    val = lift(S(arr.fn(*j)))
    out.append((L("interior: out[before + j] = in[j]"), implies(inside, val == src)))
    if c.constant:
        out.append((L("border: zero outside the interior (default constant mode)"), implies(AND(inr, NOT(inside)), val == 0)))
    out.append((L("origin and sampling values unchanged"), metadata_unchanged(s, tgt)))
    return out


def pad_value_error(s):
    c = s.cfg
    if c.scenario in ("both-given", "neither-given", "length-mismatch"):
        return True
    if c.scenario.startswith("width"):
        return OR(*[OR(b < 0, a < 0) for b, a in c.widths])
    return False


def pad_contract(d):
    return CaseContract(f"{DS}:Dataset.pad", setup=pad_setup(d), ensures=pad_ensures, snapshot=snap, raises={ValueError: pad_value_error},
                        max_paths=4000, note=f"{d}-D")


def crop_setup(d, only_inplace=None):
    aopts = axes_options(d, negative=False)

    def setup(ctx):
        si, sc = choose(ctx, "scenario", ["normal", "length-mismatch-none", "length-mismatch-axes"] if d <= 2 else ["normal"])
        ai, (aform, axes, denoted) = choose(ctx, "axes_opt", aopts, cost=_axes_cost) if sc == "normal" else (0, aopts[0] if sc.endswith("none") else aopts[1])
        ii, inplace = choose(ctx, "inplace_opt", [False, True] if only_inplace is None else [only_inplace])
        o = ds_obj(ctx, d)
        n = [lift(x) for x in o.fields["_array"].shape]
        k = len(denoted)
        cw = [(ctx.fresh(f"lo{q}", "int"), ctx.fresh(f"hi{q}", "int")) for q in range(k)]
        crop_widths = tuple(cw)
        if sc != "normal":
            crop_widths = crop_widths + ((ctx.fresh("lo_x", "int"), ctx.fresh("hi_x", "int")),)
        if aform == "int" and sc == "normal":
            crop_widths = crop_widths + ((ctx.fresh("lo_ignored", "int"), ctx.fresh("hi_ignored", "int")),)  # the int form uses the first pair only
        # the documented use: (min, max) with 0 <= min <= max <= n, or max <= 0 counted from the end (0 = up to the end)
        stop = {}
        for q, a in enumerate(denoted):
            lo, hi = cw[q][0].t, cw[q][1].t
            st = z3.If(hi > 0, hi, n[a] + hi)
            stop[a] = (lo, st)
            if sc == "normal":
                ctx.assume(z3.And(lo >= 0, lo <= st, st <= n[a]))
        label = f"{d}D axes={axes!r} {'in-place' if inplace else 'copy'}" + ("" if sc == "normal" else f" {sc}")
        cfg = NS(d=d, scenario=sc, inplace=inplace, axes=axes, denoted=denoted, stop=stop, label=label)
        return NS(self=o, crop_widths=crop_widths, axes=axes, modify_in_place=inplace, cfg=cfg, case=label)

    return setup


def crop_ensures(s):
    c = s.cfg
    d = c.d
    L = lambda t: f"[{c.label}] {t}"
    tgt = s.self if c.inplace else s.result
    if c.inplace:
        out = [(L("frame: returns None; only the array of self is replaced"), s.result is None and other_fields_untouched(s, ("_array",)))]
    else:
        out = frame_post(s, c, L)
    if not isinstance(tgt, Obj):
        return out
    arr = tgt.fields.get("_array")
    if not (isinstance(arr, SymArr) and arr.ndim == d):
        return out + [(L("array is d-dimensional"), False)]
    n = [lift(x) for x in s.old.shape]
    lo = [c.stop[i][0] if i in c.stop else z3.IntVal(0) for i in range(d)]
    hi = [c.stop[i][1] if i in c.stop else n[i] for i in range(d)]
    shape_ok = AND(*[lift(arr.shape[i]) == hi[i] - lo[i] for i in range(d)])
    out.append((L("shape: max - min on cropped axes (max <= 0 counted from the end), the others keep theirs"), shape_ok))
    if c.scenario == "negative-axis" and not s.ctx.entails(shape_ok):
        return out
    j = [I(f"j{i}") for i in range(d)]
    inr = AND(*[AND(j[i] >= 0, j[i] < hi[i] - lo[i]) for i in range(d)])
    out.append((L("out[j] = in[min + j]"), implies(inr, lift(S(arr.fn(*j))) == lift(S(s.old.afn(*[lo[i] + j[i] for i in range(d)]))))))
    out.append((L("origin and sampling values unchanged"), metadata_unchanged(s, tgt)))
    return out


def crop_contract(d, only_inplace=None):
    return CaseContract(f"{DS}:Dataset.crop", setup=crop_setup(d, only_inplace), ensures=crop_ensures, snapshot=snap,
                        raises={ValueError: lambda s: s.cfg.scenario != "normal"}, max_paths=4000,
                        note=f"{d}-D" + ("" if only_inplace is None else f", modify_in_place={only_inplace}"))


PAD_CONTRACTS = [pad_contract(d) for d in (4, 3, 2, 1)]
CROP_CONTRACTS = [crop_contract(4, False), crop_contract(4, True)] + [crop_contract(d) for d in (3, 2, 1)]


# ------------------------------------------------------------------------------------------------
# run-time oracles for resample / pad / crop (replay of counter-models, bounded stand-ins)
# ------------------------------------------------------------------------------------------------


def _dft_matrix(n, sign):
    import numpy as np

    k = np.arange(n)
    return np.exp(sign * 2j * np.pi * np.outer(k, k) / n)


def _apply_axis(mat, x, axis):
    import numpy as np

    return np.moveaxis(np.tensordot(mat, x, axes=([1], [axis])), 0, axis)


def _resample_oracle(a, denoted, out_lens):
    """The contract's statement evaluated in complex128 with explicit DFT matrices (no fft / fftshift call):
    out = prod(m)/prod(n) * IDFT( bins placed by SIGNED frequency )."""
    import numpy as np

    x = a.astype(np.complex128)
    for ax, m in zip(denoted, out_lens):
        n = x.shape[ax]
        G = _apply_axis(_dft_matrix(n, -1), x, ax)
        shp = list(x.shape)
        shp[ax] = m
        H = np.zeros(shp, dtype=np.complex128)
        for nu in range(-(m // 2), m - m // 2):
            if -(n // 2) <= nu < n - n // 2:
                src = [slice(None)] * x.ndim
                dst = [slice(None)] * x.ndim
                src[ax], dst[ax] = nu % n, nu % m
                H[tuple(dst)] = G[tuple(src)]
        x = _apply_axis(_dft_matrix(m, +1), H, ax) / m * (m / n)
    return x.real if a.dtype.kind != "c" else x


def rt_resample(inp):
    import numpy as np

    ds, a, origin, sampling = _mk_dataset(inp)
    d = a.ndim
    axes = inp.get("axes")
    axes_arg = tuple(axes) if isinstance(axes, list) else axes
    denoted = _norm_axes(axes_arg, d)
    out_shape, factors = inp.get("out_shape"), inp.get("factors")
    os_arg = tuple(out_shape) if isinstance(out_shape, list) else out_shape
    f_arg = tuple(factors) if isinstance(factors, list) else factors
    inplace = bool(inp.get("inplace", False))
    exp_exc = None
    if (os_arg is None) == (f_arg is None):
        exp_exc = ValueError
    elif os_arg is not None and (len(os_arg) != len(denoted) or any(m < 1 for m in os_arg)):
        exp_exc = ValueError
    elif isinstance(f_arg, tuple) and len(f_arg) != len(denoted):
        exp_exc = ValueError
    ids = (ds.array,)
    try:
        res = ds.fourier_resample(out_shape=os_arg, factors=f_arg, axes=axes_arg, modify_in_place=inplace)
    except Exception as e:
        ok = exp_exc is not None and isinstance(e, exp_exc)
        return dict(violated=not ok, observed=f"raised {type(e).__name__}: {e}", expected=exp_exc.__name__ if exp_exc else "no exception")
    if exp_exc is not None:
        return dict(violated=True, observed="returned normally", expected=f"raise {exp_exc.__name__}")
    pr = []
    if inplace:
        if res is not None:
            pr.append("in-place form returned a value")
        out = ds
        pr += _frame_problems(ds, a, origin, sampling, ids, ("array", "meta"))
    else:
        out = res
        if out is None or out is ds or type(out) is not type(ds):
            return dict(violated=True, observed=f"returned {type(out).__name__}", expected="a new Dataset")
        pr += _frame_problems(ds, a, origin, sampling, ids, ())
    if os_arg is not None:
        ms = [int(m) for m in os_arg]
    else:
        fl = list(f_arg) if isinstance(f_arg, tuple) else [f_arg] * len(denoted)
        ms = [out.array.shape[ax] for ax in denoted]
        for ax, f, m in zip(denoted, fl, ms):
            if not (m >= 1 and (abs(m - a.shape[ax] * f) <= 0.5 + 1e-9 or (m == 1 and a.shape[ax] * f <= 0.5 + 1e-9))):
                pr.append(f"axis {ax}: length {m} is not max(1, round({a.shape[ax]}*{f}))")
    exp_shape = list(a.shape)
    for ax, m in zip(denoted, ms):
        exp_shape[ax] = m
    got = np.asarray(out.array)
    tol = _tol(a.dtype if a.dtype.kind in "fc" else np.float64, float(np.abs(_wide(a)).max()) if a.size else 1.0, 64)
    if tuple(got.shape) != tuple(exp_shape):
        pr.append(f"shape {tuple(got.shape)} != {tuple(exp_shape)}")
    else:
        want = _resample_oracle(a, denoted, ms)
        err = float(np.abs(got - want).max())
        if err > tol:
            pr.append(f"differs from the signed-frequency placement oracle by {err:.3g} (tol {tol:.3g})")
        if abs(complex(got.mean()) - complex(_wide(a).mean())) > tol:
            pr.append(f"mean {got.mean()} != input mean {_wide(a).mean()}")
        if a.dtype.kind != "c" and got.dtype.kind == "c":
            pr.append("real input gave a complex result")
        if tuple(exp_shape) == tuple(a.shape) and float(np.abs(got - _wide(a)).max()) > tol:
            pr.append("same shape requested but the data changed")
    for i in range(d):
        if i in denoted:
            m, n = exp_shape[i], a.shape[i]
            if not np.isclose(m * out.sampling[i], n * sampling[i], rtol=1e-10, atol=1e-12):
                pr.append(f"extent axis {i}: {m}*{out.sampling[i]} != {n}*{sampling[i]}")
            if not np.isclose(out.origin[i] + (m - 1) / 2 * out.sampling[i], origin[i] + (n - 1) / 2 * sampling[i], rtol=1e-10, atol=1e-10):
                pr.append(f"centre axis {i}: {out.origin[i] + (m - 1) / 2 * out.sampling[i]} != {origin[i] + (n - 1) / 2 * sampling[i]}")
        elif not (np.isclose(out.sampling[i], sampling[i]) and np.isclose(out.origin[i], origin[i])):
            pr.append(f"axis {i} not selected but origin/sampling changed")
    return dict(violated=bool(pr), observed="; ".join(pr[:4]) or "ok",
                expected="(N_out/N_in) * [Re] IDFT of the spectrum placed by signed frequency; mean, centre, extent preserved; identity for equal shape; self untouched unless in place")


def _resample_lens(n):
    return sorted({1, 2, max(1, n - 3), max(1, n - 1), n, n + 1, n + 2, 2 * n, 2 * n + 1})


def fam_resample_small(negative=False):
    import itertools as it

    for shape in ([1], [4], [5], [4, 5], [5, 6], [3, 4, 5], [2, 3, 4, 5]):
        d = len(shape)
        opts = axes_options(d)[-2:] if negative else axes_options(d, negative=False)
        for k, (form, axes, denoted) in enumerate(opts):
            choices = [_resample_lens(shape[ax]) for ax in denoted]
            combos = list(it.product(*choices)) if d <= 2 else [tuple(c[(k + 3 * q + j) % len(c)] for q, c in enumerate(choices)) for j in range(4)]
            for j, ms in enumerate(combos):
                yield dict(shape=shape, dtype="float64" if (j + k) % 2 == 0 else "complex128", axes=list(axes) if isinstance(axes, tuple) else axes,
                           out_shape=list(ms), factors=None, inplace=(j + k) % 3 == 0, seed=5 + j)
    if negative:
        return
    for f in (0.5, 1.0, 1.5, 2.0, 0.3, 0.01):
        yield dict(shape=[5, 6], dtype="float64", axes=None, out_shape=None, factors=f, inplace=False, seed=2)
        yield dict(shape=[5, 6], dtype="float64", axes=[1], out_shape=None, factors=[f], inplace=True, seed=2)
    yield dict(shape=[4], dtype="float64", axes=None, out_shape=[0], factors=None, inplace=False, seed=1)
    yield dict(shape=[4], dtype="float64", axes=None, out_shape=[3], factors=[0.5], inplace=False, seed=1)
    yield dict(shape=[4], dtype="float64", axes=None, out_shape=None, factors=None, inplace=False, seed=1)
    yield dict(shape=[4, 4], dtype="float64", axes=None, out_shape=[3], factors=None, inplace=False, seed=1)


def fr_conc(setup):
    def conc(ev):
        aopts = setup.aopts
        k = ev("axes_opt", 0)
        if not (0 <= k < len(aopts)) or ev("scenario", 0) != 0:
            return None
        form, axes, denoted = aopts[k]
        d = setup.d
        shape = [ev(f"n{i}", 3) for i in range(d)]
        if any(not (1 <= n <= 24) for n in shape):
            return None
        fform = ev("form_cfg", 0)
        ms = factors = None
        if fform == 0:
            ms = [ev(f"m{q}", 2) for q in range(len(denoted))]
            if any(not (-3 <= m <= 48) for m in ms):
                return None
        elif fform == 1:
            factors = [float(ev(f"fac{q}", 1.5)) for q in range(len(denoted))]
        else:
            factors = float(ev("fac", 1.5))
        fl = factors if isinstance(factors, list) else ([factors] if factors is not None else [])
        if any(not (-2 <= f <= 4) for f in fl):
            return None
        return dict(shape=shape, dtype="float64" if ev("kind_real", 1) == 1 else "complex128", axes=list(axes) if isinstance(axes, tuple) else axes,
                    out_shape=ms, factors=factors, inplace=ev("inplace_cfg", 0) == 1, seed=1)

    return conc


def rt_pad_crop(inp):
    """pad (any form) on the real code against the statement; then crop((before, -after)) must return the original."""
    import numpy as np

    ds, a, origin, sampling = _mk_dataset(inp)
    d = a.ndim
    pw, osh = inp.get("pad_width"), inp.get("output_shape")
    kw = dict(inp.get("kwargs") or {})
    inplace = bool(inp.get("inplace", False))

    def tup(x):
        return tuple(tup(e) for e in x) if isinstance(x, list) else x

    pw_arg, os_arg = tup(pw), tup(osh)
    exp_exc = None
    if (pw_arg is None) == (os_arg is None):
        exp_exc = ValueError
    elif os_arg is not None and len(os_arg) != d:
        exp_exc = ValueError
    if exp_exc is None:
        if os_arg is not None:
            W = [(max(0, (M - n) // 2), max(0, -((n - M) // 2))) for M, n in zip(os_arg, a.shape)]
        elif isinstance(pw_arg, int):
            W = [(pw_arg, pw_arg)] * d
        elif isinstance(pw_arg[0], int):
            W = [tuple(pw_arg)] * d
        else:
            W = [tuple(p) for p in pw_arg]
        if any(b < 0 or x < 0 for b, x in W):
            exp_exc = ValueError
    ids = (ds.array,)
    try:
        res = ds.pad(pad_width=pw_arg, output_shape=os_arg, modify_in_place=inplace, **kw)
    except Exception as e:
        ok = exp_exc is not None and isinstance(e, exp_exc)
        return dict(violated=not ok, observed=f"raised {type(e).__name__}: {e}", expected=exp_exc.__name__ if exp_exc else "no exception")
    if exp_exc is not None:
        return dict(violated=True, observed="returned normally", expected=f"raise {exp_exc.__name__}")
    pr = []
    out = ds if inplace else res
    if inplace and res is not None:
        pr.append("in-place form returned a value")
    if not inplace:
        if out is None or out is ds:
            return dict(violated=True, observed="no new dataset", expected="a new Dataset")
        pr += _frame_problems(ds, a, origin, sampling, ids, ())
    got = np.asarray(out.array)
    exp_shape = tuple(n + b + x for n, (b, x) in zip(a.shape, W))
    if got.shape != exp_shape:
        pr.append(f"padded shape {got.shape} != {exp_shape} (n + floor/ceil split)")
    else:
        inner = tuple(slice(b, b + n) for n, (b, x) in zip(a.shape, W))
        if not np.array_equal(got[inner], a):
            pr.append("interior of the padded array differs from the input")
        if not kw:
            mask = np.ones(got.shape, bool)
            mask[inner] = False
            if got[mask].any():
                pr.append("border is not zero in the default mode")
        if got.dtype != a.dtype:
            pr.append(f"dtype changed {a.dtype} -> {got.dtype}")
    if not (np.array_equal(out.origin, origin) and np.array_equal(out.sampling, sampling)):
        pr.append("pad changed origin/sampling")
    if not pr:
        cw = tuple((b, -x) for b, x in W)
        if inp.get("crop_inplace"):
            back = out
            r2 = back.crop(cw, modify_in_place=True)
            if r2 is not None:
                pr.append("in-place crop returned a value")
        else:
            back = out.crop(cw)
            if not np.array_equal(out.array, got):
                pr.append("copying crop modified its input")
        if back.array.shape != a.shape or not np.array_equal(back.array, a) or back.array.dtype != a.dtype:
            pr.append(f"pad -> crop(pad widths) does not return the original: shape {back.array.shape} vs {a.shape}")
        if not (np.array_equal(back.origin, origin) and np.array_equal(back.sampling, sampling)):
            pr.append("pad -> crop changed origin/sampling")
    return dict(violated=bool(pr), observed="; ".join(pr[:4]) or "ok",
                expected="padded = zeros/border + input at offset floor((M-n)/2); cropping (before, -after) returns the original data, dtype, origin, sampling")


def fam_pad_crop(tier="quick", seed=0):
    import itertools as it

    dtypes = ["float64", "uint8", "int16", "int32", "float32", "complex64", "complex128", "bool"]
    k = 0
    for shape in ([1], [4], [5], [3, 4], [4, 5], [2, 3, 4], [2, 3, 2, 3]):
        d = len(shape)
        deltas = list(it.product(*[(-2, 0, 1, 2, 3)] * d)) if d <= 2 else [tuple((q * 7 + j) % 5 - 1 for q in range(d)) for j in range(8)]
        for dl in deltas:
            k += 1
            kw = {} if k % 3 else {"mode": "edge"} if k % 2 else {"mode": "reflect"}
            if kw.get("mode") == "reflect" and any(n < 2 for n in shape):
                kw = {}
            yield dict(shape=shape, dtype=dtypes[k % len(dtypes)], output_shape=[n + x for n, x in zip(shape, dl)], pad_width=None, kwargs=kw,
                       inplace=k % 2 == 0, crop_inplace=k % 4 < 2, seed=seed + k)
        yield dict(shape=shape, dtype=dtypes[k % len(dtypes)], output_shape=None, pad_width=2, kwargs={}, inplace=False, seed=seed)
        yield dict(shape=shape, dtype="float64", output_shape=None, pad_width=[1, 3], kwargs={}, inplace=True, seed=seed)
        yield dict(shape=shape, dtype="int32", output_shape=None, pad_width=[[q, q + 1] for q in range(d)], kwargs={}, inplace=False, seed=seed)
    yield dict(shape=[4], dtype="float64", output_shape=[6], pad_width=1, kwargs={}, inplace=False, seed=0)
    yield dict(shape=[4], dtype="float64", output_shape=None, pad_width=None, kwargs={}, inplace=False, seed=0)
    yield dict(shape=[4, 4], dtype="float64", output_shape=[6], pad_width=None, kwargs={}, inplace=False, seed=0)
    yield dict(shape=[4], dtype="float64", output_shape=None, pad_width=-1, kwargs={}, inplace=False, seed=0)


def rt_crop(inp):
    import numpy as np

    ds, a, origin, sampling = _mk_dataset(inp)
    d = a.ndim
    axes = inp.get("axes")
    axes_arg = tuple(axes) if isinstance(axes, list) else axes
    denoted = _norm_axes(axes_arg, d)
    cw = tuple(tuple(p) for p in inp["crop_widths"])
    inplace = bool(inp.get("inplace", False))
    n_needed = d if axes_arg is None else (1 if isinstance(axes_arg, int) else len(denoted))
    exp_exc = ValueError if (len(cw) != n_needed and not isinstance(axes_arg, int)) else None
    try:
        res = ds.crop(cw, axes=axes_arg, modify_in_place=inplace)
    except Exception as e:
        ok = exp_exc is not None and isinstance(e, exp_exc)
        return dict(violated=not ok, observed=f"raised {type(e).__name__}: {e}", expected=exp_exc.__name__ if exp_exc else "no exception")
    if exp_exc is not None:
        return dict(violated=True, observed="returned normally", expected=f"raise {exp_exc.__name__}")
    out = ds if inplace else res
    sl = [slice(None)] * d
    for q, ax in enumerate(denoted):
        lo, hi = cw[q]
        sl[ax] = slice(lo, hi if hi > 0 else a.shape[ax] + hi)
    want = a[tuple(sl)]
    pr = []
    if np.asarray(out.array).shape != want.shape or not np.array_equal(out.array, want):
        pr.append(f"cropped shape {np.asarray(out.array).shape} / data differ from in[min:max] = {want.shape}")
    if not inplace and (not np.array_equal(ds.array, a)):
        pr.append("copying crop modified self")
    return dict(violated=bool(pr), observed="; ".join(pr) or "ok", expected="out = in[min:max] on the cropped axes (max <= 0 counted from the end)")


def fam_crop(negative=False):
    for shape in ([5], [4, 6], [3, 4, 5], [2, 3, 4, 5]):
        d = len(shape)
        opts = axes_options(d)[-2:] if negative else axes_options(d, negative=False)
        for k, (form, axes, denoted) in enumerate(opts):
            for (lo, back) in ((0, 0), (1, 0), (1, -1), (0, -2), (1, 2)):
                cw = [[min(lo, shape[ax]), (back if back <= 0 else min(shape[ax], lo + back))] for ax in denoted]
                if form == "int" or (form == "negative" and isinstance(axes, int)):
                    cw = cw + [[0, 0]]
                yield dict(shape=shape, dtype="float64", axes=list(axes) if isinstance(axes, tuple) else axes, crop_widths=cw, inplace=(k + lo) % 2 == 0, seed=k)


def conc_pad(d):
    def conc(ev):
        sc = PAD_SCENARIOS[ev("scenario", 0)]
        shape = [ev(f"n{i}", 2) for i in range(d)]
        if any(not (0 <= n <= 12) for n in shape):
            return None
        inp = dict(shape=shape, dtype="float64", output_shape=None, pad_width=None, kwargs={"mode": "edge"} if sc.endswith("-edge") else {},
                   inplace=ev("inplace_opt", 0) == 1, seed=1)
        if sc.startswith("output_shape") or sc in ("both-given", "length-mismatch"):
            inp["output_shape"] = [ev(f"M{i}", 3) for i in range(d)] + ([1] if sc == "length-mismatch" else [])
        if sc in ("width-int", "both-given"):
            inp["pad_width"] = ev("w", 1)
        if sc == "width-pair":
            inp["pad_width"] = [ev("b", 1), ev("a", 1)]
        if sc.startswith("width-per-axis"):
            inp["pad_width"] = [[ev(f"b{i}", 1), ev(f"a{i}", 1)] for i in range(d)]
        flat = [x for x in (inp["output_shape"] or []) + ([inp["pad_width"]] if isinstance(inp["pad_width"], int) else [])]
        if any(abs(x) > 40 for x in flat):
            return None
        if "edge" in str(inp["kwargs"]) and any(n == 0 for n in shape):
            return None
        return inp

    return conc


def _never_crash(rt):
    """An oracle never crashes: an unexpected exception (from the real function on a changed tree) is a reported failure."""
    import functools

    @functools.wraps(rt)
    def safe(inp):
        try:
            return rt(inp)
        except Exception as e:  # noqa: BLE001
            return dict(violated=True, observed=f"raised {type(e).__name__}: {str(e)[:200]}", expected="the statement evaluates without an exception")

    return safe


rt_bin, rt_resample, rt_pad_crop, rt_crop = (_never_crash(f) for f in (rt_bin, rt_resample, rt_pad_crop, rt_crop))
for _c in BIN_CONTRACTS + [C_BIN_NEG]:
    _c.rt = rt_bin

for _c in FR_CONTRACTS:
    _c.setup.d = int(_c.note[0])
    _c.concretize, _c.rt, _c.rt_family = fr_conc(_c.setup), rt_resample, fam_resample_small
for _c in PAD_CONTRACTS:
    _c.concretize, _c.rt, _c.rt_family = conc_pad(int(_c.note[0])), rt_pad_crop, fam_pad_crop
for _c in CROP_CONTRACTS:
    _c.rt, _c.rt_family = rt_crop, fam_crop


# ------------------------------------------------------------------------------------------------
# property-level lemmas (from the contract statements and the DFT axioms A5)
# ------------------------------------------------------------------------------------------------


def present(nu, n):
    return AND(nu >= -(n / 2), nu < n - n / 2)


def bin_of(nu, n):
    return z3.If(nu >= 0, nu, nu + n)


def lemma_bin_coordinates(ctx):
    """origin' + j*sampling' is the mean of the old coordinates of block j (the closed form of the mean is proved by the
    induction step below)."""
    o, sm, f, j = Rl("o"), Rl("s"), I("f"), I("j")
    fr, jr = z3.ToReal(f), z3.ToReal(j)
    o2, s2 = o + (fr - 1) * HALF * sm, fr * sm
    T = z3.Function("T", z3.IntSort(), z3.RealSort())  # T(f) = sum_{t<f} (o + (j f + t) s)
    step = T(f + 1) == T(f) + (o + (jr * (fr + 1) + fr) * sm)
    return [
        ("block-centre = origin' + j*sampling' equals o + (j*f + (f-1)/2)*s", [f >= 1, j >= 0], o2 + jr * s2 == o + (jr * fr + (fr - 1) * HALF) * sm),
        ("mean of an arithmetic progression (induction step): sum_{t<f+1}(c + t*s) = (f+1)*(c + f/2*s) from the same for f",
         [f >= 0, Rl("S_f") == fr * (Rl("c") + (fr - 1) * HALF * sm)], Rl("S_f") + (Rl("c") + fr * sm) == (fr + 1) * (Rl("c") + fr * HALF * sm)),
        ("mean of an arithmetic progression (base)", [], z3.RealVal(0) == 0 * (Rl("c") + (0 - 1) * HALF * sm)),
        ("covered region = first (n//f)*f pixels; dropped = trailing n % f < f", [f >= 1, I("n") >= 0],
         AND((I("n") / f) * f + I("n") % f == I("n"), I("n") % f >= 0, I("n") % f < f)),
    ]


def lemma_resample_identity(ctx):
    """Equal length: every output bin holds the input bin with the same index, so H = G; ifftn(fftn x) = x (A5); scale 1."""
    n, q = I("n"), I("q")
    G = z3.Function("G", z3.IntSort(), z3.RealSort())
    H = z3.Function("H", z3.IntSort(), z3.RealSort())
    Y = z3.Function("Y", z3.IntSort(), z3.RealSort())
    x = z3.Function("x", z3.IntSort(), z3.RealSort())
    r = z3.Function("r", z3.IntSort(), z3.RealSort())
    k, i = I("k"), I("i")
    nu = signed_freq(q, n)
    inr = lambda t: AND(t >= 0, t < n)
    contract = forall(k, implies(inr(k), H(k) == z3.If(present(signed_freq(k, n), n), G(bin_of(signed_freq(k, n), n)), 0)))
    a5_inverse = implies(forall(k, implies(inr(k), H(k) == G(k))), forall(i, implies(inr(i), Y(i) == x(i)), patterns=[Y(i)]))
    res_c = forall(i, implies(inr(i), r(i) == z3.ToReal(n) / z3.ToReal(n) * Y(i)), patterns=[r(i)])
    res_r = forall(i, implies(inr(i), r(i) == z3.ToReal(n) / z3.ToReal(n) * cm.RE(Y(i))), patterns=[r(i)])
    re_real = forall(i, cm.RE(x(i)) == x(i), patterns=[x(i)])
    return [
        ("same length: placement is the identity on bins", [n >= 1, inr(q)], AND(present(nu, n), bin_of(nu, n) == q)),
        ("same shape returns the data (complex)", [n >= 1, inr(q), contract, a5_inverse, res_c], r(q) == x(q)),
        ("same shape returns the data (real input: Re x = x)", [n >= 1, inr(q), contract, a5_inverse, res_r, re_real], r(q) == x(q)),
    ]


def lemma_resample_mean(ctx):
    """DC bin: signed frequency 0 is present for every n >= 1 and sits in bin 0 of input and output, so H[0] = G[0];
    fftn: G[0] = N_in * mean(x); ifftn: mean(Y) = H[0] / N_out (A5); result = N_out/N_in * Y."""
    n, m = I("n"), I("m")
    G0, H0, meanx, meanY, meanR = Rl("G0"), Rl("H0"), Rl("mean_x"), Rl("mean_Y"), Rl("mean_result")
    Nin, Nout = Rl("N_in"), Rl("N_out")
    hyp = [Nin >= 1, Nout >= 1, G0 == Nin * meanx, meanY == H0 / Nout, H0 == G0]
    return [
        ("DC bin stays the DC bin for all odd/even length pairs", [n >= 1, m >= 1], AND(signed_freq(z3.IntVal(0), m) == 0, present(z3.IntVal(0), n), bin_of(z3.IntVal(0), n) == 0)),
        ("mean preserved (complex)", hyp + [meanR == Nout / Nin * meanY], meanR == meanx),
        ("N_out * mean(Y) = sum(x)  <=>  (N_out/N_in) * mean(Y) = sum(x)/N_in = mean(x)   (the per-path contract clause is stated in the first form)",
         [Nin >= 1, Nout >= 1, Nout * meanY == Rl("sum_x")], Nout / Nin * meanY == Rl("sum_x") / Nin),
        ("mean of the inverse transform in terms of the input mean", hyp, meanY == (Nin / Nout) * meanx),
        ("mean preserved (real input: Re is R-homogeneous, Re(mean x) = mean x)",
         hyp + [meanY == (Nin / Nout) * meanx, meanR == Nout / Nin * cm.RE(meanY), cm.RE((Nin / Nout) * meanx) == (Nin / Nout) * cm.RE(meanx), cm.RE(meanx) == meanx], meanR == meanx),
    ]


def lemma_resample_linear(ctx):
    """The placement (which input bin, or zero) depends on the shapes only; with fftn / ifftn / Re linear (A5) the result of
    alpha*x1 + beta*x2 is alpha*result(x1) + beta*result(x2)."""
    P = z3.Function("present", z3.IntSort(), z3.BoolSort())
    K = z3.Function("bin", z3.IntSort(), z3.IntSort())
    al, be, c = Rl("alpha"), Rl("beta"), Rl("scale")
    G = [z3.Function(f"G{t}", z3.IntSort(), z3.RealSort()) for t in (1, 2, 3)]
    H = [z3.Function(f"H{t}", z3.IntSort(), z3.RealSort()) for t in (1, 2, 3)]
    Y = [z3.Function(f"Y{t}", z3.IntSort(), z3.RealSort()) for t in (1, 2, 3)]
    k, q, i = I("k"), I("q"), I("i")
    hyp = [forall(k, G[2](k) == al * G[0](k) + be * G[1](k), patterns=[G[2](k)])]
    hyp += [forall(q, H[t](q) == z3.If(P(q), G[t](K(q)), 0), patterns=[H[t](q)]) for t in range(3)]
    a5 = implies(forall(q, H[2](q) == al * H[0](q) + be * H[1](q)), forall(i, Y[2](i) == al * Y[0](i) + be * Y[1](i), patterns=[Y[2](i)]))
    re_lin = cm.RE(al * Y[0](i) + be * Y[1](i)) == al * cm.RE(Y[0](i)) + be * cm.RE(Y[1](i))
    return [
        ("placed spectra combine linearly", hyp, H[2](q) == al * H[0](q) + be * H[1](q)),
        ("result linear (complex)", hyp + [a5], c * Y[2](i) == al * (c * Y[0](i)) + be * (c * Y[1](i))),
        ("result linear (real input, real coefficients)", hyp + [a5, re_lin], c * cm.RE(Y[2](i)) == al * (c * cm.RE(Y[0](i))) + be * (c * cm.RE(Y[1](i)))),
    ]


def lemma_up_down(ctx):
    """n -> m >= n -> n: every bin q of the original spectrum is present in the up-sampled spectrum at the bin of the same
    signed frequency, and the down-sampling placement reads it back from exactly there; the scale factors multiply to 1.
    (For real input with even n the Nyquist bin is only mirrored on one side after padding: bounded clause.)"""
    n, m, q = I("n"), I("m"), I("q")
    nu = signed_freq(q, n)          # frequency of original bin q = frequency the down-sampling step asks for
    qq = bin_of(nu, m)              # where the up-sampled spectrum keeps that frequency
    hyp = [n >= 1, m >= n, q >= 0, q < n]
    return [
        ("the frequency of every original bin exists in the larger spectrum", hyp, AND(present(nu, m), qq >= 0, qq < m, signed_freq(qq, m) == nu)),
        ("up-sampling put original bin q there", hyp, AND(present(signed_freq(qq, m), n), bin_of(signed_freq(qq, m), n) == q)),
        ("down-sampling reads it back", hyp, AND(present(nu, m), bin_of(nu, m) == qq)),
        ("scale factors multiply to one", [n >= 1, m >= 1], (z3.ToReal(m) / z3.ToReal(n)) * (z3.ToReal(n) / z3.ToReal(m)) == 1),
    ]


def lemma_pad_crop(ctx):
    """From the pad and crop statements: cropping (before, -after) of the padded array is the original."""
    n, M, j = I("n"), I("M"), I("j")
    diff = M - n
    fl, ce = diff / 2, -((-diff) / 2)
    b, a = z3.If(fl > 0, fl, 0), z3.If(ce > 0, ce, 0)
    P = n + b + a
    hi = -a
    stop = z3.If(hi > 0, hi, P + hi)
    x = z3.Function("x", z3.IntSort(), z3.RealSort())
    pad = z3.Function("padded", z3.IntSort(), z3.RealSort())
    crop = z3.Function("cropped", z3.IntSort(), z3.RealSort())
    k = I("k")
    pad_post = forall(k, implies(AND(k >= b, k < b + n), pad(k) == x(k - b)), patterns=[pad(k)])
    crop_post = forall(k, implies(AND(k >= 0, k < stop - b), crop(k) == pad(b + k)), patterns=[crop(k)])
    return [
        ("floor/ceil widths are non-negative and add up to max(0, M - n)", [n >= 0], AND(b >= 0, a >= 0, b + a == z3.If(diff > 0, diff, 0), a - b >= 0, a - b <= 1)),
        ("(before, -after) satisfies the crop precondition and restores the length", [n >= 0], AND(b >= 0, b <= stop, stop <= P, stop - b == n)),
        ("data restored", [n >= 0, j >= 0, j < n, pad_post, crop_post], crop(j) == x(j)),
    ]


LEMMAS = [
    Lemma("bin-coordinates", lemma_bin_coordinates, uses=["Dataset.bin"]),
    Lemma("resample-identity", lemma_resample_identity, uses=["Dataset.fourier_resample"]),
    Lemma("resample-mean", lemma_resample_mean, uses=["Dataset.fourier_resample"]),
    Lemma("resample-linear", lemma_resample_linear, uses=["Dataset.fourier_resample"]),
    Lemma("resample-up-down", lemma_up_down, uses=["Dataset.fourier_resample"]),
    Lemma("pad-crop-inverse", lemma_pad_crop, uses=["Dataset.pad", "Dataset.crop"]),
]

# ------------------------------------------------------------------------------------------------
# negative axis indices (numpy convention: counted from the end) - one small contract per function
# ------------------------------------------------------------------------------------------------

NEG_LABEL = "negative axis index = axis counted from the end"


def fr_neg_setup(ctx):
    k, (d, (aform, axes, denoted), inplace) = choose(ctx, "neg_opt", NEG_OPTS)
    o = ds_obj(ctx, d, min_len=1, is_real=True)
    ms = [ctx.fresh(f"m{q}", "int") for q in range(len(denoted))]
    cfg = NS(d=d, inplace=inplace, scenario="negative-axis", aform=aform, axes=axes, denoted=denoted, form="out_shape", ms=ms, fs=None, is_real=True, label=NEG_LABEL)
    return NS(self=o, out_shape=tuple(ms), factors=None, axes=axes, modify_in_place=inplace, cfg=cfg, case="negative axis index")


def fr_neg_conc(ev):
    k = ev("neg_opt")
    if k is None or not (0 <= k < len(NEG_OPTS)):
        return None
    d, (aform, axes, denoted), inplace = NEG_OPTS[k]
    shape = [ev(f"n{i}", 3) for i in range(d)]
    ms = [ev(f"m{q}", 2) for q in range(len(denoted))]
    if any(not (1 <= n <= 16) for n in shape) or any(not (1 <= m <= 32) for m in ms):
        return None
    return dict(shape=shape, dtype="float64", axes=list(axes) if isinstance(axes, tuple) else axes, out_shape=ms, factors=None, inplace=inplace, seed=1)


def fr_neg_value_error(s):
    return OR(*[lift(m) < 1 for m in s.cfg.ms])


C_FR_NEG = CaseContract(f"{DS}:Dataset.fourier_resample", setup=fr_neg_setup, ensures=fr_ensures, snapshot=snap, raises={ValueError: fr_neg_value_error},
                        concretize=fr_neg_conc, rt=rt_resample, rt_family=lambda: fam_resample_small(True), note="negative axis indices (1..4-D)")


def crop_neg_setup(ctx):
    k, (d, (aform, axes, denoted), inplace) = choose(ctx, "neg_opt", NEG_OPTS)
    o = ds_obj(ctx, d)
    n = [lift(x) for x in o.fields["_array"].shape]
    cw = [(ctx.fresh(f"lo{q}", "int"), ctx.fresh(f"hi{q}", "int")) for q in range(len(denoted))]
    stop = {}
    for q, a in enumerate(denoted):
        lo, hi = cw[q][0].t, cw[q][1].t
        st = z3.If(hi > 0, hi, n[a] + hi)
        stop[a] = (lo, st)
        ctx.assume(z3.And(lo >= 0, lo <= st, st <= n[a]))
    crop_widths = tuple(cw) + (((ctx.fresh("lo_ignored", "int"), ctx.fresh("hi_ignored", "int")),) if isinstance(axes, int) else ())
    cfg = NS(d=d, scenario="negative-axis", inplace=inplace, axes=axes, denoted=denoted, stop=stop, label=NEG_LABEL)
    return NS(self=o, crop_widths=crop_widths, axes=axes, modify_in_place=inplace, cfg=cfg, case="negative axis index")


def crop_neg_conc(ev):
    k = ev("neg_opt")
    if k is None or not (0 <= k < len(NEG_OPTS)):
        return None
    d, (aform, axes, denoted), inplace = NEG_OPTS[k]
    shape = [ev(f"n{i}", 3) for i in range(d)]
    cw = [[ev(f"lo{q}", 0), ev(f"hi{q}", 0)] for q in range(len(denoted))]
    if any(not (0 <= n <= 24) for n in shape) or any(abs(v) > 24 for p in cw for v in p):
        return None
    if isinstance(axes, int):
        cw = cw + [[0, 0]]
    return dict(shape=shape, dtype="float64", axes=list(axes) if isinstance(axes, tuple) else axes, crop_widths=cw, inplace=inplace, seed=1)


C_CROP_NEG = CaseContract(f"{DS}:Dataset.crop", setup=crop_neg_setup, ensures=crop_ensures, snapshot=snap, raises={ValueError: lambda s: False},
                          concretize=crop_neg_conc, rt=rt_crop, rt_family=lambda: fam_crop(True), note="negative axis indices (1..4-D)")

# ------------------------------------------------------------------------------------------------
# bounded stand-ins (finite input families on the REAL code; never counted as proved)
# ------------------------------------------------------------------------------------------------

DTYPES = ["uint8", "uint16", "int16", "int32", "int64", "bool", "float32", "float64", "complex64", "complex128"]


def fam_bin_dtypes(tier="quick", seed=0):
    """dtype sweep: narrow integer types are saturated, so any accumulator narrower than the platform integer wraps."""
    shapes = [[7], [8], [5, 6], [6, 9], [3, 4, 5], [2, 3, 4, 5]] + ([[16, 17], [4, 6, 9], [3, 3, 4, 6]] if tier == "thorough" else [])
    k = 0
    for shape in shapes:
        d = len(shape)
        opts = axes_options(d, negative=False)
        for dt in DTYPES:
            for j in range(6 if tier == "quick" else 14):
                k += 1
                form, axes, denoted = opts[(k * 7 + j * 3 + k // len(opts)) % len(opts)]
                fs = [((k + 2 * q + j) % 4) + 1 for q in range(len(denoted))]
                factors = fs if (k + j) % 3 else (fs[0] if fs else 2)
                yield dict(shape=shape, dtype=dt, axes=list(axes) if isinstance(axes, tuple) else axes, factors=factors,
                           reducer="sum" if (k + j) % 2 else "mean", inplace=(k + j) % 4 == 0, seed=seed + k)


def fam_resample_dtypes(tier="quick", seed=0):
    shapes = [[6], [7], [4, 5], [6, 6], [3, 4, 5], [2, 3, 3, 4]] + ([[12, 9], [5, 8, 6]] if tier == "thorough" else [])
    k = 0
    for shape in shapes:
        d = len(shape)
        opts = axes_options(d, negative=False)
        for dt in ["uint8", "int16", "int32", "float32", "float64", "complex64", "complex128"]:
            for j in range(5 if tier == "quick" else 12):
                k += 1
                form, axes, denoted = opts[(k * 7 + j * 3 + k // len(opts)) % len(opts)]
                ms = []
                for q, ax in enumerate(denoted):
                    c = _resample_lens(shape[ax])
                    ms.append(c[(k + 2 * q + j) % len(c)])
                yield dict(shape=shape, dtype=dt, axes=list(axes) if isinstance(axes, tuple) else axes, out_shape=ms, factors=None,
                           inplace=(k + j) % 3 == 0, seed=seed + k)


def rt_resample_laws(inp):
    """Linearity, and up-sampling followed by down-sampling for signals WITHOUT Nyquist-frequency content (real and complex)."""
    import numpy as np
    from quantem.core.datastructures.dataset import Dataset

    rng = np.random.default_rng(inp["seed"])
    shape, up = tuple(inp["shape"]), tuple(inp["up"])
    is_real = inp["real"]

    def signal():
        x = rng.normal(size=shape) + (0 if is_real else 1j * rng.normal(size=shape))
        F = np.fft.fftn(x)
        for ax, n in enumerate(shape):
            if n % 2 == 0:  # remove the Nyquist bin of every even axis
                sl = [slice(None)] * len(shape)
                sl[ax] = n // 2
                F[tuple(sl)] = 0
        y = np.fft.ifftn(F)
        return y.real.copy() if is_real else y

    a, b = signal(), signal()
    pr = []
    da = Dataset.from_array(a.copy())
    u = da.fourier_resample(out_shape=up)
    back = u.fourier_resample(out_shape=shape)
    err = float(np.abs(back.array - a).max())
    if back.array.shape != a.shape or err > 1e-9:
        pr.append(f"up {shape}->{up} then down: max error {err:.3g}")
    if not (np.allclose(back.origin, da.origin, atol=1e-10) and np.allclose(back.sampling, da.sampling, atol=1e-12)):
        pr.append(f"up then down: origin/sampling {back.origin.tolist()}/{back.sampling.tolist()} not restored")
    al, be = (1.7, -0.6) if is_real else (1.7 + 0.4j, -0.6 + 1.1j)  # linear over the array's own scalars
    out = tuple(inp["out"])
    r = lambda x: Dataset.from_array(np.array(x)).fourier_resample(out_shape=out).array
    lin = float(np.abs(r(al * a + be * b) - (al * r(a) + be * r(b))).max())
    if lin > 1e-9:
        pr.append(f"not linear over {'real' if is_real else 'complex'} scalars: |R(ax+by) - aR(x) - bR(y)| = {lin:.3g} for {shape}->{out}")
    same = Dataset.from_array(a.copy()).fourier_resample(out_shape=shape).array
    if float(np.abs(same - a).max()) > 1e-9:
        pr.append(f"unchanged shape {shape} but the data changed by {float(np.abs(same - a).max()):.3g}")
    if abs(complex(r(a).mean()) - complex(a.mean())) > 1e-9:
        pr.append(f"mean {r(a).mean()} != {a.mean()} for {shape}->{out}")
    return dict(violated=bool(pr), observed="; ".join(pr) or "ok", expected="up->down returns the Nyquist-free signal; resampling is linear")


def fam_resample_laws(tier="quick", seed=0):
    k = 0
    for shape in ([4], [5], [8], [4, 6], [5, 4], [3, 4, 5], [2, 4, 3, 4]):
        for j in range(5 if tier == "quick" else 15):
            for is_real in (True, False):
                k += 1
                up = [n + ((k + q + j) % 4) + (0 if j else 0) for q, n in enumerate(shape)]
                out = [max(1, n + ((k * 3 + q + j) % 6) - 2) for q, n in enumerate(shape)]
                yield dict(shape=shape, up=up, out=out, real=is_real, seed=seed + k)


def _klass(inp, res):
    """Failure class of a bounded failure (known findings are matched on it, so a different failure stays a violation)."""
    obs = str(res.get("observed", ""))
    if inp.get("axes") == [] and "UFuncTypeError" in obs and inp.get("dtype") in ("uint8", "uint16", "int16", "int32", "int64", "bool"):
        return "empty axis selection with integer dtype: in-place scaling cannot cast"
    return f"{inp.get('dtype', 'any')}: {obs.split(';')[0][:60]}"


rt_resample_laws = _never_crash(rt_resample_laws)

BOUNDED = [
    Bounded.from_rt("bin: dtype sweep against int64/float64/complex128 block oracle", rt_bin, fam_bin_dtypes,
                    "shapes <= 9 per axis, 1..4-D, 10 dtypes (saturated narrow ints), axis forms/subsets, factors 1..4 (incl. non-dividing), sum/mean, both forms", klass=_klass),
    Bounded.from_rt("fourier_resample: dtype/shape sweep against explicit-DFT signed-frequency oracle", rt_resample, fam_resample_dtypes,
                    "shapes <= 7 per axis, 1..4-D, 7 dtypes, axis forms/subsets, output lengths 1..2n+1 (odd<->even, up and down)", klass=_klass),
    Bounded.from_rt("fourier_resample: small shapes x all output lengths", rt_resample, lambda: fam_resample_small(False),
                    "1-D/2-D: all combinations of 9 output lengths per axis; 3-D/4-D: 4 per axis selection; float64/complex128"),
    Bounded.from_rt("fourier_resample: up->down exactness without Nyquist content (real and complex), linearity", rt_resample_laws, fam_resample_laws,
                    "shapes <= 8 per axis, 1..4-D, up by 0..3, random band-limited signals with the Nyquist bin removed"),
    Bounded.from_rt("pad(output_shape / widths) then crop((before, -after)) returns the original", rt_pad_crop, fam_pad_crop,
                    "shapes <= 5 per axis, 1..4-D, 8 dtypes, deltas -2..3 (odd/even), constant/edge/reflect modes, in-place and copying"),
    Bounded.from_rt("crop: axis forms x window positions", rt_crop, lambda: fam_crop(False), "shapes <= 6 per axis, 1..4-D, 5 windows per axis selection"),
    Bounded.from_rt("bin: small shapes x axis forms x factors", rt_bin, lambda: fam_bin_small(False), "shapes <= 6 per axis, factors 1..4, float64"),
]

CONTRACTS = FR_CONTRACTS + list(reversed(BIN_CONTRACTS)) + PAD_CONTRACTS + CROP_CONTRACTS + [C_BIN_NEG, C_FR_NEG, C_CROP_NEG]

TRUSTED = [
    "A5 DFT axioms: fftn / ifftn are linear operators over the listed axes, ifftn(fftn x) = x, fftn(x)[0] = sum x, mean(ifftn H) = H[0]/N; fftshift / ifftshift are the index rotations by n//2 (numpy documentation); the FFT implementation itself is out of reach",
    "A6 numpy: basic slicing, C-order reshape that splits an axis (new[i,j] = old[i*b+j], size condition proved per call), np.sum over axes = iterated sum, np.pad (interior placement, zero border in constant mode), ndarray.real, astype/copy; pyvc/lib/c06_models.py",
    "Sigma regrouping: sum over all output pixels of the block sums = sum over the covered region (finite-sum reindexing j*f+t <-> i; stated, checked at run time by the bounded bin checks)",
    "Dataset.copy returns an independent Dataset with equal array / origin / sampling / units (its contract is used at the call sites; its body is verified under C03, not here)",
    "abstract complex scalars: array and spectrum values are elements of an R-vector space encoded in sort Real; only 0, +, real scaling and the R-linear idempotent map Re are applied to them; "
    "the VALUE KIND (real / complex) of self.array is a case of the fourier_resample contract: np.isrealobj reads it, a conversion of a complex array to a real dtype is Re (imaginary part discarded, numpy semantics), "
    "and the per-path clauses 'value kind', 'mean preserved', 'linear', 'identity' are stated over the array's own scalars with ground instances of A5 (DC bin = sum, mean of ifftn = DC/N, ifftn(fftn x) = x) as antecedents",
    "induction principle for the arithmetic-progression mean (base and step are proved)",
    "pyvc engine (AST interpreter, slice/index semantics, value-level merge of pure conditional expressions), z3, cvc5",
]
ASSUMPTIONS = [
    "A1 floats are reals (rounding ignored; dtype effects only in the bounded dtype sweeps)",
    "A2 fixed-width integers are mathematical; the one dtype fact carried into the proof is the accumulator of np.sum: the default accumulator is taken as exact, an explicit dtype= "
    "(possibly narrower, the element type being arbitrary) falsifies the block-sum clause; actual wrap-around is exercised only in the bounded dtype sweeps",
    "A3 int(round(n*factor)) is any integer within 1/2 of n*factor",
    "enumerated: ndim 1..4; axis selections None / int / every subset (sorted tuple) / reversed full tuple / empty; bin: scalar factor form on all selections for 1-D/2-D and on None/int/full from 3-D; "
    "fourier_resample: all <,=,> length relations on every selected axis for every selection (4-D explicit full tuple covered by None), real/complex crossed for 1-D/2-D and alternated from 3-D, "
    "factor / in-place forms on all selections (1-D), three selections (2-D), one int axis (3-D/4-D); everything else (lengths, factors, output lengths, pad widths, windows, values, origin, sampling) symbolic",
    "axes are distinct (a subset); fourier_resample requires every length >= 1; crop is stated for its documented use 0 <= min <= max <= n or max <= 0 counted from the end",
    "complex input to bin / pad / crop is covered componentwise by the real proof (the operations are R-linear and act on values only) and by the bounded dtype sweeps",
    "real-input Nyquist clause of up->down (Hermitian symmetry after zero padding) is bounded only",
]
EXPLANATION = ("VCs generated from the real source of Dataset.bin / fourier_resample (incl. nested _shift_center_index) / pad / crop with symbolic lengths, factors, "
               "output lengths, widths and data; data laws as index-function equalities (block sums as Sigma-terms, spectrum placement by signed frequency over the trusted DFT axioms); "
               "conservation laws (block-centre coordinates, identity, mean, linearity, up->down, pad->crop) as lemmas from the contract statements")
