"""C09 - mini-batch scheduling: exact partition, batch invariance, seeded determinism."""
from __future__ import annotations

import z3

from pyvc import values as V
from pyvc.values import Sym, SymArr, Obj, S, lift
from pyvc.interp import NS, LoopSpec, GhostGen
from pyvc.registry import Contract, resolve
from pyvc.runner import Lemma, Bounded
from pyvc.lib import numpy_ as npm
from .common import registry, ceil_div, zmin, zmax, forall, implies, AND, OR, NOT, opt_int, frame_snapshot, frame_clauses

LEVEL = "proof"
UT = "quantem.core.utils.utils"
PU = "quantem.diffractive_imaging.ptycho_utils"

I = z3.Int


def make_registry():
    reg = registry()
    for c in CONTRACTS:
        reg.add_contract(c)
    return reg


# --------------------------------------------------------------------------------------------
# subdivide_batches / generate_batches
# --------------------------------------------------------------------------------------------


def sb_setup(ctx):
    return NS(num_items=ctx.fresh("num_items", "int"), num_batches=opt_int(ctx, "num_batches"), max_batch=opt_int(ctx, "max_batch"))


def sb_requires(s):
    r = [("num_items>=1", s.num_items >= 1)]
    if s.num_batches is not None:
        r.append(("num_batches>=1", s.num_batches >= 1))
    if s.max_batch is not None:
        r.append(("max_batch>=1", s.max_batch >= 1))
    return r


def nb_eff(s):
    if s.num_batches is not None:
        return lift(s.num_batches)
    return ceil_div(s.num_items, s.max_batch)


def sb_psum(s):
    """P(k) = sum of the first k batch sizes as the property states them: the first `rem` batches get one extra."""
    n, nb = lift(s.num_items), nb_eff(s)
    base, rem = n / nb, n % nb
    return lambda k: lift(k) * base + zmin(k, rem)


def sb_both_or_neither(s):
    return (s.num_batches is None) == (s.max_batch is None)


def sb_ensures(s):
    r = s.result
    n, nb = lift(s.num_items), nb_eff(s)
    P = sb_psum(s)
    k, j = I("k"), I("j")
    ink = AND(k >= 0, k < nb)
    inj = AND(j >= 0, j < nb)
    out = [
        ("count", lift(r.sym_len()) == nb),
        ("sizes-are-prefix-sum-differences", forall(k, implies(ink, lift(r.fn(k)) == P(k + 1) - P(k)))),
        ("prefix-sum-total", AND(P(0) == 0, P(nb) == n)),
        ("sizes>=1", forall(k, implies(ink, lift(r.fn(k)) >= 1))),
        ("sizes-differ-by-at-most-1", forall([k, j], implies(AND(ink, inj), AND(lift(r.fn(k)) - lift(r.fn(j)) <= 1, lift(r.fn(j)) - lift(r.fn(k)) <= 1)))),
        ("larger-first", forall([k, j], implies(AND(ink, inj, k <= j), lift(r.fn(k)) >= lift(r.fn(j))))),
    ]
    if s.max_batch is not None:
        out.append(("sizes<=max_batch", forall(k, implies(ink, lift(r.fn(k)) <= lift(s.max_batch)))))
    return out


def sb_result(ctx, s):
    r = ctx.fresh_arr("batch_sizes", (Sym(nb_eff(s)),), "int")
    r.pylist = True
    r.psum = sb_psum(s)
    return r


C_SUBDIVIDE = Contract(
    f"{UT}:subdivide_batches", setup=sb_setup, requires=sb_requires, ensures=sb_ensures, result=sb_result,
    raises={
        RuntimeError: lambda s: sb_both_or_neither(s),
        ValueError: lambda s: False if sb_both_or_neither(s) else lift(s.num_items) < nb_eff(s),
    },
    note="sum(sizes)=num_items is stated through the prefix-sum certificate P (telescoping schema T1)",
)


def gb_setup(ctx):
    s = sb_setup(ctx)
    s.start_index = ctx.fresh("start_index", "int")
    return s


def gb_requires(s):
    r = sb_requires(s)
    r.append(("exactly-one-of-num_batches/max_batch", not sb_both_or_neither(s)))
    if not sb_both_or_neither(s):
        r.append(("num_batches<=num_items", lift(s.num_items) >= nb_eff(s)))
    return r


def gb_ensures(s):
    g = s.result
    N, getter = g.family()
    nb = nb_eff(s)
    P = sb_psum(s)
    k = I("k")
    st = lift(s.start_index)
    a, b = getter(k)
    ink = AND(k >= 0, k < nb)
    return [
        ("number-of-ranges", lift(N) == nb),
        ("range-k-is-[start+P(k),start+P(k+1))", forall(k, implies(ink, AND(lift(a) == st + P(k), lift(b) == st + P(k + 1))))),
        ("first-starts-at-start_index", P(0) == 0),
        ("last-ends-at-start+num_items", P(nb) == lift(s.num_items)),
        ("ranges-non-empty", forall(k, implies(ink, P(k + 1) - P(k) >= 1))),
    ]


def gb_result(ctx, s):
    nb = Sym(nb_eff(s))
    P = sb_psum(s)
    kk = ctx.fresh("ky", "int")
    st = s.start_index
    return GhostGen([("family", nb, kk, (S(st) + Sym(P(kk.t)), S(st) + Sym(P(kk.t + 1))), "generate_batches")])


C_GENERATE = Contract(
    f"{UT}:generate_batches", setup=gb_setup, requires=gb_requires, ensures=gb_ensures, result=gb_result,
    loops={0: LoopSpec(
        # stated over the loop's iterable and its running position, whatever the locals are called: every integer the body carries
        # from one iteration to the next (bound before the loop) is the start of batch k
        inv=lambda s: [(f"running-position({n})=start+P(k)", lift(v) == lift(s.start_index) + s.loop_iterable.psum(s.k))
                       for n, v in sorted(s.loop_carried.items()) if isinstance(v, Sym)]
                      + [("the-loop-runs-over-the-sizes-of-subdivide_batches-and-carries-a-position", hasattr(s.loop_iterable, "psum") and any(isinstance(v, Sym) for v in s.loop_carried.values()))],
        yields=lambda s: (S(s.start_index) + Sym(s.loop_iterable.psum(s.k)), S(s.start_index) + Sym(s.loop_iterable.psum(lift(s.k) + 1))),
    )},
)

# --------------------------------------------------------------------------------------------
# SimpleBatcher
# --------------------------------------------------------------------------------------------

SB = resolve(f"{PU}:SimpleBatcher")


def batcher_obj(ctx, reg_cls=None):
    train = npm.fresh_index_array(ctx, "train")
    val = npm.fresh_index_array(ctx, "val")
    B = ctx.fresh("batch_size", "int")
    shuffle = ctx.fresh("shuffle", "bool")
    rng = _REG_HOLDER["reg"].SymGenerator()
    # every field the constructor sets is present: `indices` is arange(num) with num = |train| + |val| (the split is a partition,
    # SimpleBatcher.__init__'s contract), so a method that reads the wrong one of the three index arrays fails its postcondition
    num = S(train.shape[0]) + S(val.shape[0])
    nt = lift(num)
    indices = npm.index_array(num, lambda i: S(i), lambda v: z3.And(lift(v) >= 0, lift(v) < nt), lambda v: lift(v), name="arange")
    o = Obj(SB, dict(train_indices=train, val_indices=val, indices=indices, batch_size=B, shuffle=shuffle, _rng=rng))
    return o


_REG_HOLDER = {}


def make_registry():  # noqa: F811  (final definition)
    reg = registry()
    _REG_HOLDER["reg"] = reg
    for c in CONTRACTS:
        reg.add_contract(c)
    reg.contracts[C_CPA.func] = C_CPA
    _install_recon_models(reg)
    reg.inline.add(f"{PU}:SimpleBatcher.rng")
    import torch

    from pyvc.lib import torch_ as _tm

    _tm.install(reg)
    reg.models[torch.Generator] = lambda interp, device=None: _TorchGen(device)
    reg.ctor_models[torch.Generator] = lambda interp, device=None: _TorchGen(device)
    return reg


def it_setup(ctx):
    return NS(self=batcher_obj(ctx))


def batch_spec(order, k, B, n):
    """k-th batch of `order` (length n): positions kB .. min(kB+B, n)-1."""
    k, B, n = lift(k), lift(B), lift(n)
    ln = zmax(0, zmin(B, n - k * B))
    return SymArr((Sym(ln),), lambda i: order.fn(k * B + i), order.kind)


def it_loop_yields(s):
    s.ctx.ghost["order"] = s.train_order
    return batch_spec(s.train_order, s.k, s.self.fields["batch_size"], s.train_order.sym_len())


def it_ensures(s):
    g = s.result
    N, getter = g.family()
    self = s.self
    train, B = self.fields["train_indices"], lift(self.fields["batch_size"])
    n = lift(train.sym_len())
    order = s.ctx.ghost.get("order")
    k, i = I("k"), I("i")
    yk = getter(k)
    cnt = ceil_div(n, B)
    ink = AND(k >= 0, k < cnt)
    lenk = lift(yk.sym_len())
    sig = (lambda t: order.sigma(t)) if hasattr(order, "sigma") else (lambda t: t)
    return [
        ("number-of-batches=ceil(n/B)", lift(N) == cnt),
        ("batch-k-length=min(B,n-kB)", forall(k, implies(ink, lenk == zmin(B, n - k * B)))),
        ("batches-non-empty-and-at-most-B", forall(k, implies(ink, AND(lenk >= 1, lenk <= B)))),
        ("batch-k-element-i-is-train[sigma(kB+i)]", forall([k, i], implies(AND(ink, i >= 0, i < lenk), lift(yk.fn(i)) == lift(train.fn(sig(k * B + i)))))),
        ("shuffle-off-keeps-order", implies(NOT(self.fields["shuffle"]), forall([k, i], implies(AND(ink, i >= 0, i < lenk), lift(yk.fn(i)) == lift(train.fn(k * B + i)))))),
    ]


def _family_result(which):
    """Call-site value of __iter__ / iter_val: a ghost family of ceil(n/B) batches; batch k has min(B, n-kB) entries whose VALUES
    are left open here (which patterns they are is the business of the verified contract, the callers below only count them)."""
    def result(ctx, s):
        arr = s.self.fields[which]
        n, B = lift(arr.sym_len()), lift(s.self.fields["batch_size"])
        k = ctx.fresh("kbatch", "int")
        ln = zmax(0, zmin(B, n - k.t * B))
        val = ctx.fresh_arr("batch", (Sym(ln),), "int")
        return GhostGen([("family", Sym(ceil_div(n, B)), k, val, f"{which}-batches")])
    return result


def _call_site(ens, keep):
    """At call sites only the counting clauses of a verified iterator contract are assumed (the element clauses need the ghost
    order of the verification run)."""
    def f(s):
        r = ens(s)
        return [c for c in r if c[0] in keep] if s.mode == "apply" else r
    return f


C_ITER = Contract(
    f"{PU}:SimpleBatcher.__iter__", setup=it_setup,
    requires=lambda s: [("batch_size>=1", s.self.fields["batch_size"] >= 1)],
    ensures=_call_site(it_ensures, ("number-of-batches=ceil(n/B)", "batch-k-length=min(B,n-kB)", "batches-non-empty-and-at-most-B")),
    loops={0: LoopSpec(yields=it_loop_yields)},
    result=_family_result("train_indices"),
)


def len_ensures(s):
    train, B = s.self.fields["train_indices"], lift(s.self.fields["batch_size"])
    return [("len=ceil(n/B)", lift(s.result) == ceil_div(lift(train.sym_len()), B))]


C_LEN = Contract(
    f"{PU}:SimpleBatcher.__len__", setup=it_setup,
    requires=lambda s: [("batch_size>=1", s.self.fields["batch_size"] >= 1)],
    ensures=len_ensures,
    result=lambda ctx, s: ctx.fresh("len_batcher", "int"),
)


def itv_loop_yields(s):
    v = s.self.fields["val_indices"]
    return batch_spec(v, s.k, s.self.fields["batch_size"], v.sym_len())


def itv_ensures(s):
    g = s.result
    val, B = s.self.fields["val_indices"], lift(s.self.fields["batch_size"])
    n = lift(val.sym_len())
    if not isinstance(g, GhostGen):
        # `iter(())`: nothing is yielded, allowed only for an empty validation set
        return [("empty-iterator-only-when-no-validation", AND(n == 0, len(list(g)) == 0))]
    N, getter = g.family()
    k, i = I("k"), I("i")
    yk = getter(k)
    cnt = ceil_div(n, B)
    ink = AND(k >= 0, k < cnt)
    lenk = lift(yk.sym_len())
    return [
        ("number-of-batches=ceil(n/B)", lift(N) == cnt),
        ("batch-k-length=min(B,n-kB)", forall(k, implies(ink, lenk == zmin(B, n - k * B)))),
        ("batch-k-element-i-is-val[kB+i]", forall([k, i], implies(AND(ink, i >= 0, i < lenk), lift(yk.fn(i)) == lift(val.fn(k * B + i))))),
    ]


C_ITERVAL = Contract(
    f"{PU}:SimpleBatcher.iter_val", setup=it_setup,
    requires=lambda s: [("batch_size>=1", s.self.fields["batch_size"] >= 1)],
    ensures=_call_site(itv_ensures, ("number-of-batches=ceil(n/B)", "batch-k-length=min(B,n-kB)")),
    loops={0: LoopSpec(yields=itv_loop_yields)},
    inline=[f"{PU}:SimpleBatcher.has_validation"],
    result=_family_result("val_indices"),
)


def vlen_ensures(s):
    val, B = s.self.fields["val_indices"], lift(s.self.fields["batch_size"])
    return [("val_len=ceil(n_val/B)", lift(s.result) == ceil_div(lift(val.sym_len()), B))]


C_VALLEN = Contract(
    f"{PU}:SimpleBatcher.val_len", setup=it_setup,
    requires=lambda s: [("batch_size>=1", s.self.fields["batch_size"] >= 1)],
    ensures=vlen_ensures,
    inline=[f"{PU}:SimpleBatcher.has_validation"],
)


# --------------------------------------------------------------------------------------------
# SimpleBatcher.__init__ : train / validation split
# --------------------------------------------------------------------------------------------


def init_setup(ctx):
    o = Obj(SB, {})
    num = ctx.fresh("num", "int")
    bs = opt_int(ctx, "batch_size")
    shuffle = ctx.fresh("shuffle", "bool")
    rng = _REG_HOLDER["reg"].SymGenerator("rng_arg", seed=ctx.fresh("seed", "int"))
    val_ratio = ctx.fresh("val_ratio", "real")
    mode = "random" if ctx.branch(ctx.fresh("mode_is_random", "bool").t) else "grid"
    return NS(self=o, num=num, batch_size=bs, shuffle=shuffle, rng=rng, val_ratio=val_ratio, val_mode=mode,
              train_indices=None, val_indices=None)


def as_index(a):
    """Index-array view with membership ghosts of a SymArr or of a concrete numpy array."""
    import numpy as np

    if isinstance(a, SymArr) and hasattr(a, "mem"):
        return a
    if isinstance(a, np.ndarray):
        vals = [int(x) for x in a.tolist()]
        r = V.from_list(vals, kind="int", pylist=False)
        r.mem = lambda v: OR(*[lift(v) == e for e in vals]) if vals else z3.BoolVal(False)

        def inv(v):
            t = z3.IntVal(-1)
            for j in range(len(vals) - 1, -1, -1):
                t = z3.If(lift(v) == vals[j], j, t)
            return t

        r.inv = inv
        return r
    raise V.OutOfSubset(f"index array of type {type(a).__name__} without membership ghosts")


def init_ensures(s):
    o = s.self
    tr, va = as_index(o.fields["train_indices"]), as_index(o.fields["val_indices"])
    num = lift(s.num)
    v, i = I("v"), I("i")
    inr = AND(v >= 0, v < num)
    out = [
        ("train-and-val-cover-all-patterns", forall(v, implies(inr, OR(tr.mem(v), va.mem(v))))),
        ("train-and-val-are-disjoint", forall(v, NOT(AND(tr.mem(v), va.mem(v))))),
        ("only-patterns-0..num-1", forall(v, implies(OR(tr.mem(v), va.mem(v)), inr))),
        ("train-has-no-duplicates", forall(i, implies(AND(i >= 0, i < lift(tr.sym_len())), AND(tr.mem(lift(tr.fn(i))), tr.inv(lift(tr.fn(i))) == i)))),
        ("val-has-no-duplicates", forall(i, implies(AND(i >= 0, i < lift(va.sym_len())), AND(va.mem(lift(va.fn(i))), va.inv(lift(va.fn(i))) == i)))),
        ("batch_size-defaults-to-num", lift(o.fields["batch_size"]) == (num if s.batch_size is None else lift(s.batch_size))),
        ("ratio-0-means-no-validation", implies(OR(lift(s.val_ratio) <= 0, lift(s.val_ratio) >= 1), lift(va.sym_len()) == 0)),
    ]
    return out


def init_modifies(ctx, s):
    """Call-site view of the constructor: fresh duplicate-free train / validation index arrays (constrained by `ensures`),
    the generator that was passed in is the one the batcher keeps (ghost: recorded for ordering obligations)."""
    o = s.self
    o.fields["train_indices"] = npm.fresh_index_array(ctx, "train")
    o.fields["val_indices"] = npm.fresh_index_array(ctx, "val")
    o.fields["batch_size"] = s.num if s.batch_size is None else s.batch_size
    o.fields["shuffle"] = s.shuffle
    o.fields["_rng"] = s.rng
    ctx.ghost.setdefault("batcher_rngs", []).append(s.rng)
    ctx.ghost["recon_batcher"] = o


C_INIT = Contract(
    f"{PU}:SimpleBatcher.__init__", setup=init_setup,
    requires=lambda s: [("num>=0", s.num >= 0)],
    ensures=init_ensures, modifies=init_modifies,
    inline=[f"{PU}:SimpleBatcher.rng"],
)

# --------------------------------------------------------------------------------------------
# seeds: SimpleBatcher.rng setter, RNGMixin.rng setter, _reset_rng, reset_recon
# --------------------------------------------------------------------------------------------
RNGM = "quantem.core.utils.rng"
RM = resolve(f"{RNGM}:RNGMixin")


def rngset_setup(ctx):
    o = Obj(SB, {})
    kind = "none" if ctx.branch(ctx.fresh("rng_is_none", "bool").t) else ("seed" if ctx.branch(ctx.fresh("rng_is_seed", "bool").t) else "gen")
    if kind == "none":
        rng = None
    elif kind == "seed":
        rng = ctx.fresh("seed", "int")
        ctx.assume(rng.t >= 0)
    else:
        rng = _REG_HOLDER["reg"].SymGenerator("given", seed=ctx.fresh("gseed", "int"))
    return NS(self=o, rng=rng, kind=kind)


def rngset_ensures(s):
    g = s.self.fields.get("_rng")
    G = _REG_HOLDER["reg"].SymGenerator
    out = [("stores-a-generator", isinstance(g, G))]
    if s.kind == "seed":
        out.append(("generator-is-default_rng(seed)", AND(g.seed is not None and lift(g.seed) == lift(s.rng), g.draws == 0)))
    if s.kind == "gen":
        out.append(("given-generator-kept", g is s.rng))
    return out


C_RNGSET = Contract(f"{PU}:SimpleBatcher.rng.fset", setup=rngset_setup, ensures=rngset_ensures)


class _TorchGen:
    _pyvc_value = True

    def __init__(self, device=None):
        self.device = device
        self.seed = None

    def manual_seed(self, s):
        self.seed = s
        return self

    def initial_seed(self):
        return self.seed


def mixin_obj(ctx, seeded=None):
    G = _REG_HOLDER["reg"].SymGenerator
    o = Obj(RM, {"_device": "cpu"})
    return o


def mset_setup(ctx):
    s = rngset_setup(ctx)
    s.self = Obj(RM, {"_device": "cpu"})
    return s


def mset_ensures(s):
    o = s.self
    g, tg, seed = o.fields.get("_rng"), o.fields.get("_rng_torch"), o.fields.get("_rng_seed", "missing")
    G = _REG_HOLDER["reg"].SymGenerator
    out = [("stores-a-generator", isinstance(g, G)), ("stores-a-torch-generator", isinstance(tg, _TorchGen))]
    if s.kind == "none":
        out += [("seed-is-None", seed is None), ("torch-generator-unseeded", tg.seed is None)]
    if s.kind == "seed":
        out += [("seed-recorded", seed is not None and lift(seed) == lift(s.rng)),
                ("generator-is-default_rng(seed)", AND(g.seed is not None and lift(g.seed) == lift(s.rng), g.draws == 0)),
                ("torch-generator-seeded-with-seed-mod-2^32", tg.seed is not None and lift(tg.seed) == lift(s.rng) % (2 ** 32))]
    if s.kind == "gen":
        out += [("given-generator-kept", g is s.rng), ("seed-is-the-generator's-entropy", seed is not None and lift(seed) == lift(s.rng.seed))]
    return out


C_MSET = Contract(f"{RNGM}:RNGMixin.rng.fset", setup=mset_setup, ensures=mset_ensures, inline=[f"{RNGM}:RNGMixin._update_torch_rng"])


def reset_setup(ctx):
    G = _REG_HOLDER["reg"].SymGenerator
    o = Obj(RM, {"_device": "cpu"})
    has_seed = not ctx.branch(ctx.fresh("seed_is_none", "bool").t)
    if has_seed:
        seed = ctx.fresh("seed", "int")
        ctx.assume(seed.t >= 0)
        o.fields["_rng_seed"] = seed
    else:
        o.fields["_rng_seed"] = None
    used = G("used", seed=o.fields["_rng_seed"])
    used.draws = 3  # an already advanced generator
    o.fields["_rng"] = used
    o.fields["_rng_torch"] = _TorchGen("cpu")
    return NS(self=o, has_seed=has_seed, used=used)


def reset_snapshot(s):
    return NS(rng=s.self.fields.get("_rng"), seed=s.self.fields.get("_rng_seed"))


def reset_ensures(s):
    o = s.self
    g, tg, seed = o.fields["_rng"], o.fields["_rng_torch"], o.fields["_rng_seed"]
    if s.old.seed is None:
        return [("unseeded-generator-left-alone", g is s.old.rng)]
    seed = s.old.seed
    return [("generator-recreated-from-the-stored-seed", AND(g is not s.old.rng, g.seed is not None and lift(g.seed) == lift(seed), g.draws == 0)),
            ("torch-generator-recreated-from-the-stored-seed", tg.seed is not None and lift(tg.seed) == lift(seed) % (2 ** 32)),
            ("seed-unchanged", lift(o.fields["_rng_seed"]) == lift(seed))]


def reset_modifies(ctx, s):
    o = s.self
    G = _REG_HOLDER["reg"].SymGenerator
    seed = o.fields.get("_rng_seed")
    if seed is not None:
        o.fields["_rng"] = G("reset", seed=seed)
        t = _TorchGen("cpu")
        t.seed = S(seed) % (2 ** 32)
        o.fields["_rng_torch"] = t


C_RESET = Contract(f"{RNGM}:RNGMixin._reset_rng", setup=reset_setup, ensures=reset_ensures, snapshot=reset_snapshot, modifies=reset_modifies,
                   inline=[f"{RNGM}:RNGMixin.rng", f"{RNGM}:RNGMixin._update_torch_rng"])

PB = "quantem.diffractive_imaging.ptychography_base"
PBC = resolve(f"{PB}:PtychographyBase")


class Opaque:
    """A collaborator whose behaviour is outside this contract: every attribute is a no-op callable / opaque value.
    ASSUMED FRAME: such calls do not rebind the RNG fields of the reconstruction object (listed in TRUSTED)."""

    _pyvc_value = True

    def __init__(self, name):
        self._name = name

    def __getattr__(self, k):
        if k.startswith("__"):
            raise AttributeError(k)
        return Opaque(f"{self._name}.{k}")

    def __call__(self, *a, **k):
        return None


def rr_setup(ctx):
    s = reset_setup(ctx)
    o = Obj(PBC, dict(s.self.fields))
    o.fields.update(_obj_model=Opaque("obj_model"), _probe_model=Opaque("probe_model"), _dset=Opaque("dset"))
    # arbitrary history so far: any number of completed epochs (possibly none - the generators can have been used all the same)
    n = ctx.fresh("n_iters_so_far", "int")
    ctx.assume(n.t >= 0)
    for f in ("_iter_losses", "_iter_val_losses", "_iter_recon_types"):
        a = ctx.fresh_arr(f, (n,), "real")
        a.pylist = True
        o.fields[f] = a
    o.fields.update(_iter_lrs={}, _snapshots=[])
    s.self = o
    return s


def rr_ensures(s):
    o = s.self
    return reset_ensures(s) + [("loss-history-cleared", AND(o.fields["_iter_losses"] == [], o.fields["_iter_val_losses"] == []))]


C_RESETRECON = Contract(f"{PB}:PtychographyBase.reset_recon", setup=rr_setup, ensures=rr_ensures, snapshot=reset_snapshot,
                        modifies=lambda ctx, s: (reset_modifies(ctx, s), s.self.fields.update(_iter_losses=[], _iter_val_losses=[])),
                        inline=[f"{PB}:PtychographyBase.obj_model", f"{PB}:PtychographyBase.probe_model", f"{PB}:PtychographyBase.dset"])


def cpa_snapshot(s):
    f = s.self.fields
    g = f.get("_rng")
    return NS(gseed=getattr(g, "seed", None), draws=getattr(g, "draws", None), trng=f.get("_rng_torch"),
              tseed=getattr(f.get("_rng_torch"), "seed", None), seed=f.get("_rng_seed"))


def _same(a, b):
    return a is b or (a is not None and b is not None and V.is_z3(lift(a)) and V.is_z3(lift(b)) and z3.eq(lift(a), lift(b)))


def cpa_ensures(s):
    """The STATE of the generators is what matters (not object identity): same seed and same number of draws for the numpy
    generator; the torch generator (no draw counter in the model) must be the same object with the same seed."""
    f = s.self.fields
    g, tg = f.get("_rng"), f.get("_rng_torch")
    return [("frame:the-state-of-the-generators-and-the-stored-seed-are-unchanged",
             _same(getattr(g, "seed", None), s.old.gseed) and getattr(g, "draws", None) == s.old.draws
             and tg is s.old.trng and _same(getattr(tg, "seed", None), s.old.tseed) and _same(f.get("_rng_seed"), s.old.seed))]


# verified from source (the probe model / validators are opaque collaborators): reset_recon calls it AFTER _reset_rng, so it must
# leave the freshly seeded generators alone
def cpa_setup(ctx):
    s = rr_setup(ctx)
    n = ctx.fresh("num_slices", "int")
    ctx.assume(n.t >= 1)
    r0, r1 = ctx.fresh("roi0", "int"), ctx.fresh("roi1", "int")
    ctx.assume(AND(r0.t >= 1, r1.t >= 1))
    s.self.fields.update(_obj_model=OpaqueWith("obj_model", num_slices=n), _dset=OpaqueWith("dset", roi_shape=(r0, r1)))
    return s


C_CPA = Contract(f"{PB}:PtychographyBase.compute_propagator_arrays", setup=cpa_setup, ensures=cpa_ensures, snapshot=cpa_snapshot,
                 inline=[f"{PB}:PtychographyBase.obj_model", f"{PB}:PtychographyBase.probe_model", f"{PB}:PtychographyBase.dset"])


# --------------------------------------------------------------------------------------------
# PtychographyBase.error_estimate : the loss is the batch error divided by the batch fraction b/N
# --------------------------------------------------------------------------------------------


class Bag:
    """Plain attribute holder standing for the dataset model (only the four attributes error_estimate reads)."""

    _pyvc_value = True

    def __init__(self, **kw):
        self.__dict__.update(kw)


def ee_setup(ctx):
    import torch
    from pyvc.lib import torch_ as tm2

    b, R, C, N = ctx.fresh("b", "int"), ctx.fresh("R", "int"), ctx.fresh("C", "int"), ctx.fresh("num_gpts", "int")
    ctx.assume(AND(b.t >= 1, R.t >= 1, C.t >= 1, N.t >= 1))
    pred = ctx.fresh_arr("pred", (b, R, C), "real")
    targets_all = ctx.fresh_arr("targets", (N, R, C), "real")
    mask = ctx.fresh_arr("dmask", (R, C), "real")
    bi = ctx.fresh_arr("batch_indices", (b,), "int")
    for a in (pred, targets_all, mask, bi):
        a.as_type = torch.Tensor
    i = I("i!q")
    ctx.assume(forall(i, implies(AND(i >= 0, i < b.t), AND(lift(bi.fn(i)) >= 0, lift(bi.fn(i)) < N.t))))
    mi = ctx.fresh("mean_intensity", "real")
    ctx.assume(mi.t > 0)
    kinds = ["l2_amplitude", "l1_amplitude", "l2_intensity", "l1_intensity"]
    lt = kinds[0]
    for kname in kinds[1:]:
        if ctx.branch(ctx.fresh("lt_" + kname, "bool").t):
            lt = kname
            break
    dset = Bag(targets=targets_all, detector_mask=mask, num_gpts=N, mean_diffraction_intensity=mi)
    cfg_bs = ctx.fresh("configured_batch_size", "int")  # the configured batch size may exceed the actual batch (b <= configured)
    ctx.assume(cfg_bs.t >= b.t)
    o = Obj(PBC, {"_dset": dset, "_batch_size": cfg_bs})
    return NS(self=o, pred_intensities=pred, batch_indices=bi, loss_type=lt, b=b, N=N, mi=mi, mask=mask, targets_all=targets_all)


def ee_ensures(s):
    from pyvc import reals as Rr

    loss, targets = s.result
    tg = s.targets_all[s.batch_indices]
    preds = V.elementwise(lambda e: Rr.app("sqrt", S(e) + 1e-9), s.pred_intensities) if "amplitude" in s.loss_type else s.pred_intensities
    diff = preds * s.mask - tg * s.mask
    err = (abs(diff)).sum() if "l1" in s.loss_type else (abs(diff) ** 2).sum()
    b, N, mi = lift(s.b), lift(s.N), lift(s.mi)
    # The property needs: loss_b = E_b * kappa / b with kappa independent of the batch (then the mean over the N/b batches of
    # a partition equals the full-batch value, whatever kappa is).  Relational form by substitution on the term the code
    # returned: replace the batch error E (the Sigma-term) and b by two independent copies and compare loss*b/E.
    t, e = lift(loss), lift(err)
    b1, b2, e1, e2 = z3.Int("b_1"), z3.Int("b_2"), z3.Real("E_1"), z3.Real("E_2")
    t1 = z3.substitute(z3.substitute(t, (e, e1)), (b, b1))
    t2 = z3.substitute(z3.substitute(t, (e, e2)), (b, b2))
    mentions_e = z3.substitute(t, (e, e1)).get_id() != t.get_id()
    return [("loss-depends-on-the-batch-only-through-its-error-sum-and-size", mentions_e),
            ("loss*b/E-is-the-same-for-every-batch", implies(AND(b1 >= 1, b2 >= 1, e1 != 0, e2 != 0),
                                                              t1 * z3.ToReal(b1) * e2 == t2 * z3.ToReal(b2) * e1)),
            ("targets-are-the-batch's-rows", lift(targets.sym_len()) == b)]


C_ERR = Contract(f"{PB}:PtychographyBase.error_estimate", setup=ee_setup, ensures=ee_ensures,
                 inline=[f"{PB}:PtychographyBase.dset", f"{PB}:PtychographyBase.batch_size"])


# --------------------------------------------------------------------------------------------
# Ptychography.reconstruct (prologue): the epoch batcher is built AFTER the reset, from the reconstruction's current generator
# --------------------------------------------------------------------------------------------
PTY = "quantem.diffractive_imaging.ptychography"
PTC = resolve(f"{PTY}:Ptychography")
PTO = "quantem.diffractive_imaging.ptychography_opt"
# collaborators of the prologue that are outside this contract (ASSUMED FRAME: they do not touch the RNG fields nor build batchers)
RECON_OPAQUE_ALL = [f"{PB}:PtychographyBase._check_preprocessed", f"{PB}:PtychographyBase.to",
                    f"{PB}:PtychographyBase.constraints", f"{PB}:PtychographyBase.store_snapshots",
                    f"{PB}:PtychographyBase.store_snapshot_every",
                    f"{PTO}:PtychographyOpt.optimizer_params", f"{PTO}:PtychographyOpt.scheduler_params",
                    f"{PTO}:PtychographyOpt.set_optimizers", f"{PTO}:PtychographyOpt.set_schedulers",
                    f"{PB}:PtychographyBase._reset_iter_constraints", f"{PB}:PtychographyBase.obj_padding_px",
                    f"{PB}:PtychographyBase.logger",
                    f"{PTO}:PtychographyOpt.zero_grad_all", f"{PTO}:PtychographyOpt.step_optimizers",
                    f"{PTO}:PtychographyOpt.step_schedulers", f"{PTY}:Ptychography.backward",
                    f"{PB}:PtychographyBase._store_current_iter_snapshot", f"{PTY}:Ptychography._get_current_lrs",
                    "quantem.core.utils.validators:validate_tensor", "quantem.core.utils.utils:to_numpy",
                    f"{PB}:PtychographyBase._to_torch"]


def rr2_ensures(s):
    return reset_ensures(s)


C_RESETRECON2 = Contract(f"{PTY}:Ptychography.reset_recon", setup=lambda ctx: _as_ptycho(rr_setup(ctx)), ensures=rr2_ensures,
                         snapshot=reset_snapshot,
                         inline=[f"{PB}:PtychographyBase.obj_model", f"{PB}:PtychographyBase.probe_model", f"{PB}:PtychographyBase.dset"],
                         modifies=lambda ctx, s: reset_modifies(ctx, s),
                         note="the override must still reset the generators (it calls the base method through super())")


def _as_ptycho(s):
    s.self = Obj(PTC, dict(s.self.fields))
    return s



class OpaqueWith(Opaque):
    def __init__(self, name, **attrs):
        super().__init__(name)
        self.__dict__.update(attrs)


# ghost: per-batch losses as functions of the batch ordinal, and their running sums (definitional axioms, assumed in the setup)
LC, LS, LV = z3.Function("loss_consistency", z3.IntSort(), z3.RealSort()), z3.Function("loss_soft", z3.IntSort(), z3.RealSort()), \
    z3.Function("loss_validation", z3.IntSort(), z3.RealSort())
PSC, PST, PSV = z3.Function("sum_consistency", z3.IntSort(), z3.RealSort()), z3.Function("sum_total", z3.IntSort(), z3.RealSort()), \
    z3.Function("sum_validation", z3.IntSort(), z3.RealSort())


def _sum_axioms(ctx):
    j = I("j!s")
    for PS, term, pat in ((PSC, LC(j), LC(j)), (PST, LC(j) + LS(j), LS(j)), (PSV, LV(j), LV(j))):
        ctx.assume(PS(0) == 0)
        ctx.assume(forall(j, implies(j >= 0, PS(j + 1) == PS(j) + term), patterns=[pat]))
        ctx.assume(forall(j, implies(j >= 0, PS(j + 1) == PS(j) + term), patterns=[PS(j + 1)]))


def _opaque_tuple(name, n):
    def f(*a, **k):
        return tuple(Opaque(f"{name}[{i}]") for i in range(n))
    f._sym_ok = True
    return f


def recon_setup(ctx):
    s = reset_setup(ctx)                       # seeded or unseeded reconstruction object with an already USED generator
    N = ctx.fresh("num_gpts", "int")
    ctx.assume(N.t >= 1)
    o = Obj(PTC, dict(s.self.fields))
    vr = ctx.fresh("val_ratio", "real")          # any validation ratio in [0, 1): the epoch has a validation pass iff the split has one
    ctx.assume(AND(vr.t >= 0, vr.t < 1))
    o.fields.update(_obj_model=Opaque("obj_model"), _probe_model=Opaque("probe_model"),
                    _dset=OpaqueWith("dset", num_gpts=N, forward=_opaque_tuple("dset.forward", 4)), _val_ratio=vr, _val_mode="grid", _batch_size=N,
                    _verbose=0, verbose=0, _iter_losses=[], _iter_val_losses=[], _detector_model=Opaque("detector_model"))
    s.self = o
    s.reset = ctx.fresh("reset", "bool")
    s.batch_size = opt_int(ctx, "batch_size", lo=1)
    # two cases: the prologue alone (no epoch) and ONE epoch (the loss bookkeeping of an epoch; which patterns the batches hold
    # is the business of SimpleBatcher's contracts)
    one_epoch = ctx.branch(ctx.fresh("one_epoch", "bool").t)
    s.num_iters = 1 if one_epoch else 0
    s.case = "one-epoch" if one_epoch else "prologue"
    s.autograd = True
    s.loss_type = "l2_amplitude"
    s.N = N
    _sum_axioms(ctx)
    return s


def _epoch_clauses(s):
    """One epoch: the recorded epoch loss is the MEAN, over the batches the batcher yielded, of the per-batch total losses, and
    the recorded validation loss is the mean of the per-batch validation losses (statement: 'the mean of the per-batch losses')."""
    o = s.self
    b = s.ctx.ghost.get("recon_batcher")
    if b is None:
        return [("an-epoch-batcher-exists", False)]
    Bz = lift(b.fields["batch_size"])
    nb = ceil_div(lift(b.fields["train_indices"].sym_len()), Bz)
    nv_len = lift(b.fields["val_indices"].sym_len())
    nv = ceil_div(nv_len, Bz)
    hist, vhist = o.fields.get("_iter_losses"), o.fields.get("_iter_val_losses")
    out = [("one-epoch-loss-is-recorded", isinstance(hist, list) and len(hist) == 1)]
    if isinstance(hist, list) and len(hist) == 1:
        out.append(("recorded-epoch-loss=mean-of-the-per-batch-losses-over-the-yielded-batches",
                    implies(nb >= 1, lift(hist[0]) * z3.ToReal(nb) == PST(nb))))
    if isinstance(vhist, list):
        out.append(("validation-loss-recorded-iff-there-is-a-validation-set", z3.BoolVal(len(vhist) == 1) == (nv_len > 0) if len(vhist) <= 1 else False))
        if len(vhist) == 1:
            out.append(("recorded-validation-loss=mean-of-the-per-batch-validation-losses", lift(vhist[0]) * z3.ToReal(nv) == PSV(nv)))
    return out


def recon_ensures(s):
    o = s.self
    rngs = s.ctx.ghost.get("batcher_rngs", [])
    cur = o.fields["_rng"]
    out = [("exactly-one-epoch-batcher-is-built", len(rngs) == 1)]
    if s.num_iters == 1:
        out += _epoch_clauses(s)
    if rngs:
        g = rngs[0]
        out.append(("batcher-draws-from-the-reconstruction's-CURRENT-generator", g is cur))
        if s.old.seed is not None:
            out.append(("after-reset-that-generator-is-freshly-seeded", implies(s.reset, AND(g.draws == 0, g.seed is not None and lift(g.seed) == lift(s.old.seed)))))
    return out


def _install_recon_models(reg):
    import quantem.diffractive_imaging.ptychography as ptymod
    from pyvc.lib import super_ as _super

    _super.install(reg)

    reg.noop_calls = set(reg.noop_calls) - {"tqdm"}
    reg.models[ptymod.tqdm] = lambda interp, it=None, *a, **k: _PBar(it)   # progress bar = its iterable (+ set_description)
    reg.opaque_calls = set(getattr(reg, "opaque_calls", ())) | set(RECON_OPAQUE_ALL)


class _PBar:
    """tqdm(iterable): iterating it iterates the iterable; set_description only prints."""

    _pyvc_value = True

    def __init__(self, it):
        self._it = it

    def __iter__(self):
        return iter(self._it)

    def set_description(self, *a, **k):
        return None


def _cur_loop(interp):
    if not interp.loop_k:
        raise V.OutOfSubset("per-batch loss requested outside the epoch's batch loops")
    lid, k = interp.loop_k[-1][0], interp.loop_k[-1][1]
    return lid, lift(k)


def _ee_stub_result(ctx, s):
    """error_estimate at its call sites inside an epoch: the loss of batch k of the current loop (training loop -> LC, validation
    loop -> LV) and opaque targets.  What that loss IS is error_estimate's own contract (C_ERR)."""
    lid, k = _cur_loop(s.interp)
    f = LV if lid.endswith("loop2") else LC
    return (Sym(f(k)), Opaque("targets"))


C_ERR_STUB = Contract(f"{PB}:PtychographyBase.error_estimate", setup=None, result=_ee_stub_result,
                      note="call-site view inside reconstruct's epoch: names the loss of batch k")
C_SOFT_STUB = Contract(f"{PTY}:Ptychography._soft_constraints", setup=None, result=lambda ctx, s: Sym(LS(_cur_loop(s.interp)[1])),
                       note="call-site view: the soft-constraint loss of batch k (any real)")
C_FWD_STUB = Contract(f"{PB}:PtychographyBase.forward_operator", setup=None, result=lambda ctx, s: (Opaque("propagated_probes"), Opaque("overlap")),
                      note="call-site view: forward model, outside this contract")


def _record_setup(ctx):
    a, b, x = ctx.fresh("old_loss_0", "real"), ctx.fresh("old_loss_1", "real"), ctx.fresh("iter_loss", "real")
    o = Obj(PTC, {"_iter_losses": [a, b], "_iter_lrs": {}, "_obj_model": OpaqueWith("obj_model", has_optimizer=_false),
                  "_probe_model": OpaqueWith("probe_model", has_optimizer=_false), "_dset": OpaqueWith("dset", has_optimizer=_false)})
    return NS(self=o, iter_loss=x, prev=[a, b])


def _false(*a, **k):
    return False


_false._sym_ok = True


def _record_ensures(s):
    if s.mode == "apply":
        return []  # the call-site effect is `modifies` (append); the clause below is about the verification run's own pre-state
    h = s.self.fields["_iter_losses"]
    return [("the-loss-is-appended-to-the-history(nothing-else-changes-in-it)",
             isinstance(h, list) and len(h) == 3 and h[0] is s.prev[0] and h[1] is s.prev[1] and h[2] is s.iter_loss)]


C_RECORD = Contract(f"{PTY}:Ptychography._record_iter", setup=_record_setup, ensures=_record_ensures,
                    modifies=lambda ctx, s: s.self.fields["_iter_losses"].append(s.iter_loss),
                    inline=[f"{PB}:PtychographyBase.obj_model", f"{PB}:PtychographyBase.probe_model", f"{PB}:PtychographyBase.dset",
                            f"{PTO}:PtychographyOpt.optimizers"])


def _train_inv(s):
    return [("consistency_loss-is-the-sum-of-the-batch-losses-so-far", lift(s.consistency_loss) == PSC(lift(s.k))),
            ("total_loss-is-the-sum-of-the-batch-total-losses-so-far", lift(s.total_loss) == PST(lift(s.k)))]


def _val_inv(s):
    return [("val_consistency_loss-is-the-sum-of-the-validation-batch-losses-so-far", lift(s.val_consistency_loss) == PSV(lift(s.k))),
            ("val_batches-counts-the-validation-batches-so-far", lift(s.val_batches) == lift(s.k))]


C_RECON = Contract(f"{PTY}:Ptychography.reconstruct", setup=recon_setup, ensures=recon_ensures, snapshot=reset_snapshot,
                   loops={1: LoopSpec(inv=_train_inv), 2: LoopSpec(inv=_val_inv)},
                   overrides={f"{PB}:PtychographyBase.error_estimate": C_ERR_STUB, f"{PTY}:Ptychography._soft_constraints": C_SOFT_STUB,
                              f"{PB}:PtychographyBase.forward_operator": C_FWD_STUB},
                   inline=[f"{PB}:PtychographyBase.obj_model", f"{PB}:PtychographyBase.probe_model", f"{PB}:PtychographyBase.dset",
                           f"{PB}:PtychographyBase.batch_size", f"{PB}:PtychographyBase.val_ratio", f"{PB}:PtychographyBase.val_mode",
                           f"{PB}:PtychographyBase.verbose", f"{RNGM}:RNGMixin.rng",
                           "quantem.core.utils.validators:validate_gt", "quantem.core.utils.validators:validate_int"])


# --------------------------------------------------------------------------------------------
# run-time oracles (replay of counter-models on the REAL functions, bounded stand-ins)
# --------------------------------------------------------------------------------------------


def rt_subdivide(inp):
    from quantem.core.utils.utils import subdivide_batches, generate_batches

    n, nb, mb, st = inp["num_items"], inp.get("num_batches"), inp.get("max_batch"), inp.get("start_index", 0)
    exp_exc = None
    if (nb is None) == (mb is None):
        exp_exc = RuntimeError
    else:
        eff = nb if nb is not None else -(-n // mb)
        if n < eff:
            exp_exc = ValueError
    try:
        r = subdivide_batches(n, nb, mb)
        g = list(generate_batches(n, nb, mb, st))
    except Exception as e:
        ok = exp_exc is not None and isinstance(e, exp_exc)
        return dict(violated=not ok, observed=f"raised {type(e).__name__}: {e}", expected=f"{exp_exc.__name__ if exp_exc else 'no exception'}")
    if exp_exc is not None:
        return dict(violated=True, observed=f"returned {r}", expected=f"raise {exp_exc.__name__}")
    eff = nb if nb is not None else -(-n // mb)
    problems = []
    if len(r) != eff:
        problems.append(f"len {len(r)} != {eff}")
    if sum(r) != n:
        problems.append(f"sum {sum(r)} != num_items {n}")
    if r and (max(r) - min(r) > 1 or min(r) < 1):
        problems.append(f"sizes not within 1 of each other / not >= 1: {r}")
    if mb is not None and r and max(r) > mb:
        problems.append(f"size {max(r)} > max_batch {mb}")
    pos = st
    for (a, b), size in zip(g, r):
        if a != pos or b != a + size:
            problems.append(f"range {(a, b)} not contiguous at {pos} with size {size}")
            break
        pos = b
    if len(g) != len(r) or pos != st + n:
        problems.append(f"ranges {g[:4]}.. do not cover [{st},{st + n})")
    return dict(violated=bool(problems), observed="; ".join(problems) or "ok", expected="sizes sum to num_items, differ by <=1, <= max_batch; ranges contiguous cover")


def fam_subdivide():
    for n in range(1, 14):
        for nb in range(1, 15):
            yield dict(num_items=n, num_batches=nb, max_batch=None, start_index=3)
        for mb in range(1, 15):
            yield dict(num_items=n, num_batches=None, max_batch=mb, start_index=0)
    yield dict(num_items=5, num_batches=None, max_batch=None)
    yield dict(num_items=5, num_batches=2, max_batch=2)


def rt_batcher(inp):
    import numpy as np
    from quantem.diffractive_imaging.ptycho_utils import SimpleBatcher

    num, B = inp["num"], inp["batch_size"]
    kw = dict(shuffle=inp.get("shuffle", True), rng=inp.get("seed", 0), val_ratio=inp.get("val_ratio", 0.0), val_mode=inp.get("val_mode", "grid"))
    b = SimpleBatcher(num, B, **kw)
    problems = []
    tr, va = list(map(int, b.train_indices)), list(map(int, b.val_indices))
    if sorted(tr + va) != list(range(num)):
        problems.append(f"train+val is not a partition of range({num}): train={tr[:12]} val={va[:12]}")
    for epoch in range(2):
        batches = [list(map(int, x)) for x in b]
        flat = [i for x in batches for i in x]
        if sorted(flat) != sorted(tr):
            problems.append(f"epoch {epoch}: visited {sorted(flat)[:12]} != train {sorted(tr)[:12]}")
        if not kw["shuffle"] and flat != tr:
            problems.append("shuffle=False changed the order")
        if len(b) != len(batches):
            problems.append(f"len(batcher)={len(b)} but {len(batches)} batches yielded")
        if any(len(x) == 0 or len(x) > B for x in batches) or any(len(x) != B for x in batches[:-1]):
            problems.append(f"batch sizes {[len(x) for x in batches]} with batch_size {B}")
    vb = [list(map(int, x)) for x in b.iter_val()]
    if [i for x in vb for i in x] != va:
        problems.append("validation batches do not enumerate val_indices")
    if b.val_len() != len(vb):
        problems.append(f"val_len()={b.val_len()} but {len(vb)} validation batches")
    b2 = SimpleBatcher(num, B, **kw)
    if [list(map(int, x)) for x in b2] != [list(map(int, x)) for x in SimpleBatcher(num, B, **kw)]:
        problems.append("same seed gives different first-epoch order")
    return dict(violated=bool(problems), observed="; ".join(problems[:3]) or "ok",
                expected="train/val partition range(num); each epoch visits every training index once; len == #batches")


def fam_batcher():
    for num in (1, 2, 3, 5, 8, 10, 12, 17):
        for B in (1, 2, 3, 4, 7, num, num + 3):
            for shuffle in (False, True):
                for vr, vm in ((0.0, "grid"), (0.1, "grid"), (0.3, "grid"), (0.4, "grid"), (0.5, "grid"), (0.7, "grid"), (0.9, "grid"), (0.25, "random"), (0.6, "random")):
                    yield dict(num=num, batch_size=B, shuffle=shuffle, val_ratio=vr, val_mode=vm, seed=num + B)


def conc_subdivide(ev):
    n = ev("num_items")
    if n is None:
        return None
    nb = None if ev("num_batches_is_none", False) else ev("num_batches", 1)
    mb = None if ev("max_batch_is_none", False) else ev("max_batch", 1)
    return dict(num_items=n, num_batches=nb, max_batch=mb, start_index=ev("start_index", 0))


def conc_batcher(ev):
    n = ev("train_len")
    B = ev("batch_size")
    if n is None or B is None or n > 5000:
        return None
    return dict(num=n, batch_size=B, shuffle=bool(ev("shuffle", False)), val_ratio=0.0, seed=1)


for _c in (C_SUBDIVIDE, C_GENERATE):
    _c.concretize, _c.rt, _c.rt_family = conc_subdivide, rt_subdivide, fam_subdivide
for _c in (C_ITER, C_LEN, C_ITERVAL, C_VALLEN):
    _c.concretize, _c.rt, _c.rt_family = conc_batcher, rt_batcher, fam_batcher


def conc_init(ev):
    num = ev("num")
    if num is None or num > 3000:
        return None
    bs = None if ev("batch_size_is_none", False) else ev("batch_size", 1)
    vr = ev("val_ratio", 0.0)
    return dict(num=num, batch_size=bs if bs is None or bs >= 1 else 1, shuffle=bool(ev("shuffle", False)), val_ratio=float(vr),
                val_mode="random" if ev("mode_is_random", False) else "grid", seed=max(0, ev("seed", 0) or 0))


def rt_reset(inp):
    """Seeded determinism at the RNG level: after _reset_rng / reset_recon's first step the generators restart from the stored seed."""
    import numpy as np
    import torch
    from quantem.core.utils.rng import RNGMixin

    seed = inp["seed"]
    problems = []
    m = RNGMixin(rng=seed)
    first = (m.rng.permutation(20).tolist(), torch.rand(3, generator=m._rng_torch).tolist())
    m.rng.permutation(7)
    m._reset_rng()
    again = (m.rng.permutation(20).tolist(), torch.rand(3, generator=m._rng_torch).tolist())
    if seed is not None and first != again:
        problems.append(f"seed={seed}: draws after _reset_rng differ from the first draws")
    fresh = RNGMixin(rng=seed)
    if seed is not None and fresh.rng.permutation(20).tolist() != first[0]:
        problems.append(f"seed={seed}: two objects built from the same seed differ")
    g = np.random.default_rng(seed if seed is not None else 5)
    m2 = RNGMixin(rng=g)
    a = m2.rng.permutation(11).tolist()
    m2._reset_rng()
    if m2.rng.permutation(11).tolist() != a:
        problems.append("generator-constructed mixin does not restart from the generator's entropy")
    return dict(violated=bool(problems), observed="; ".join(problems) or "ok", expected="identical draws after reset for every seed incl. 0")


def fam_reset():
    for seed in (0, 1, 2, 7, 42, 2 ** 32 + 5, 2 ** 40 + 1, None):
        yield dict(seed=seed)


def conc_reset(ev):
    sd = ev("seed")
    return None if sd is None else dict(seed=max(0, sd))


C_INIT.concretize, C_INIT.rt, C_INIT.rt_family = conc_init, rt_batcher, fam_batcher
for _c in (C_RNGSET, C_MSET, C_RESET, C_RESETRECON):
    _c.concretize, _c.rt, _c.rt_family = conc_reset, rt_reset, fam_reset


# ---- toy ptychography problem: per-batch vs full-batch loss/gradient, seeded loss histories (bounded stand-in) ----
_TOY = {}


def _toy(seed, n=6):
    import warnings
    import numpy as np

    warnings.filterwarnings("ignore")
    from quantem.core import config
    from quantem.core.datastructures.dataset4dstem import Dataset4dstem
    from quantem.core.utils.utils import electron_wavelength_angstrom
    from quantem.diffractive_imaging.dataset_models import PtychographyDatasetRaster
    from quantem.diffractive_imaging.detector_models import DetectorPixelated
    from quantem.diffractive_imaging.object_models import ObjectPixelated
    from quantem.diffractive_imaging.probe_models import ProbePixelated
    from quantem.diffractive_imaging.ptychography import Ptychography

    config.set_device("cpu")
    N, QMAX, E, C10 = n, 0.5, 300e3, 50
    if "data" not in _TOY:
        samp, rs = 1 / QMAX / 2, 2 * QMAX / N
        q = np.fft.fftfreq(N, samp)
        qq = np.sqrt(q[:, None] ** 2 + q[None, :] ** 2)
        ap = np.sqrt(np.clip((QMAX / 2 - qq) / rs + 0.5, 0, 1))
        pf = ap * np.exp(-1j * qq**2 * electron_wavelength_angstrom(E) * np.pi * C10)
        pf /= np.sqrt(np.sum(np.abs(pf) ** 2))
        probe = np.fft.ifft2(pf) * N
        rng = np.random.default_rng(1234)
        ph = rng.random((N, N)); ph -= ph.mean()
        obj = np.exp(1j * ph.astype(np.float32))
        x = np.arange(N)
        xx, yy = np.meshgrid(x, x, indexing="ij")
        ind = np.fft.fftfreq(N, d=1 / N).astype(int)
        row = (xx.ravel()[:, None, None] + ind[None, :, None]) % N
        col = (yy.ravel()[:, None, None] + ind[None, None, :]) % N
        inten = np.abs(np.fft.fft2(obj[row, col] * probe)) ** 2
        _TOY["data"] = np.fft.fftshift(inten * 100, axes=(-2, -1)).reshape(N, N, N, N)
        _TOY["probe"] = probe
    rs = 2 * QMAX / N
    d4 = Dataset4dstem.from_array(array=_TOY["data"].copy(), sampling=(1, 1, rs, rs), units=("A", "A", "A^-1", "A^-1"))
    pd = PtychographyDatasetRaster.from_dataset4dstem(d4, verbose=0)
    pd.preprocess(com_fit_function="constant", plot_rotation=False, plot_com=False, probe_energy=E, force_com_rotation=0, force_com_transpose=False)
    om = ObjectPixelated.from_uniform(num_slices=1, obj_type="complex", slice_thicknesses=1)
    pm = ProbePixelated.from_array(num_probes=1, probe_params={"energy": E, "C10": C10, "semiangle_cutoff": electron_wavelength_angstrom(E) * 1e3}, probe_array=_TOY["probe"])
    pt = Ptychography.from_models(dset=pd, obj_model=om, probe_model=pm, detector_model=DetectorPixelated(), rng=seed, verbose=0)
    pt.preprocess(obj_padding_px=(0, 0))
    return pt


def rt_loss_invariance(inp):
    """mean over batches of (loss_b, grad_b) == (full loss, full grad) when the batch size divides the pattern count."""
    import numpy as np
    import torch
    from quantem.diffractive_imaging.ptycho_utils import SimpleBatcher

    if "pt3" not in _TOY:
        _TOY["pt3"] = _toy(3)
    pt = _TOY["pt3"]
    loss_type = inp["loss_type"]
    pt.dset._set_targets(loss_type)
    pt.compute_propagator_arrays()
    num = pt.dset.num_gpts
    B = inp["batch_size"]

    def pass_(bs):
        losses, grads = [], []
        for bi in SimpleBatcher(num, bs, shuffle=False, rng=0):
            for p_ in pt.obj_model.parameters():
                if p_.grad is not None:
                    p_.grad = None
            patch_indices, _pp, frac, descan = pt.dset.forward(bi, pt.obj_padding_px)
            probes = pt.probe_model.forward(frac)
            patches = pt.obj_model.forward(patch_indices)
            _prop, overlap = pt.forward_operator(patches, probes, descan)
            pred = pt.detector_model.forward(overlap)
            loss, _t = pt.error_estimate(pred, bi, loss_type=loss_type)
            loss.backward()
            g = [p_.grad.detach().clone() for p_ in pt.obj_model.parameters() if p_.grad is not None]
            losses.append(float(loss))
            grads.append(torch.cat([x.reshape(-1).to(torch.complex128) if x.is_complex() else x.reshape(-1).to(torch.float64).to(torch.complex128) for x in g]))
        return np.mean(losses), torch.stack(grads).mean(0)

    lf, gf = pass_(num)
    lb, gb = pass_(B)
    problems = []
    if abs(lb - lf) > 1e-4 * max(1.0, abs(lf)):
        problems.append(f"mean batch loss {lb:.6g} != full-batch loss {lf:.6g} (batch_size={B}, {loss_type})")
    gd = float((gb - gf).abs().max()) if gf.numel() else 0.0
    if gf.numel() and gd > 1e-4 * max(1e-6, float(gf.abs().max())):
        problems.append(f"mean batch gradient differs from full gradient by {gd:.3g} (batch_size={B}, {loss_type})")
    if gf.numel() == 0:
        problems.append("no object gradient was produced (oracle cannot compare gradients)")
    return dict(violated=bool(problems), observed="; ".join(problems) or "ok", expected="mean_b loss_b = loss_full and mean_b grad_b = grad_full for b | N")


def fam_loss_invariance(tier="quick", seed=0):
    sizes = (1, 4, 9, 36) if tier == "quick" else (1, 2, 3, 4, 6, 9, 12, 18, 36)
    for lt in (("l2_amplitude", "l1_intensity") if tier == "quick" else ("l2_amplitude", "l1_amplitude", "l2_intensity", "l1_intensity")):
        for b in sizes:
            yield dict(batch_size=b, loss_type=lt)


def rt_seeded_history(inp):
    import numpy as np

    seed, B = inp["seed"], inp["batch_size"]
    opt = {"object": {"type": "sgd", "lr": 0.5}, "probe": {"type": "sgd", "lr": 0.5}}

    def run(pt):
        pt.reconstruct(num_iters=2, reset=True, optimizer_params=opt, batch_size=B, device="cpu")
        return np.asarray(pt.iter_losses, dtype=float).copy()

    a = _toy(seed)
    first = run(a)
    again = run(a)
    fresh = run(_toy(seed))
    problems = []
    if not np.array_equal(first, again):
        problems.append(f"seed={seed}: history after reset {again.tolist()} != first {first.tolist()}")
    if not np.array_equal(first, fresh):
        problems.append(f"seed={seed}: fresh same-seed run {fresh.tolist()} != first {first.tolist()}")
    # history with a NON-reset call first (the usual first call, which consumes the generator), then a reset
    c = _toy(seed)
    c.reconstruct(num_iters=1, reset=False, optimizer_params=opt, batch_size=B, device="cpu")
    after = run(c)
    if not np.array_equal(first, after):
        problems.append(f"seed={seed}: history after [non-reset run, reset] {after.tolist()} != fresh run {first.tolist()}")
    # histories in which the generators were used although NO epoch has completed yet: a set-up call with zero iterations that
    # draws the random validation split, and a first epoch interrupted inside its first mini-batch
    d = _toy(seed)
    d.val_ratio, d.val_mode = 0.25, "random"
    d.reconstruct(num_iters=0, reset=False, optimizer_params=opt, batch_size=B, device="cpu")
    d.val_ratio = 0.0
    after = run(d)
    if not np.array_equal(first, after):
        problems.append(f"seed={seed}: history after [zero-iteration set-up call that drew a validation split, reset] {after.tolist()} != fresh run {first.tolist()}")
    e = _toy(seed)
    real_forward = e.dset.forward

    class _Stop(Exception):
        pass

    def boom(*a, **k):
        raise _Stop()

    e.dset.forward = boom
    try:
        e.reconstruct(num_iters=1, reset=False, optimizer_params=opt, batch_size=B, device="cpu")
    except _Stop:
        pass
    finally:
        e.dset.forward = real_forward
    after = run(e)
    if not np.array_equal(first, after):
        problems.append(f"seed={seed}: history after [first epoch interrupted in its first batch, reset] {after.tolist()} != fresh run {first.tolist()}")
    return dict(violated=bool(problems), observed="; ".join(problems) or "ok", expected="identical loss histories for the same seed / after reset")


def fam_seeded_history(tier="quick", seed=0):
    for sd in ((0,) if tier == "quick" else (0, 1, 7, 42, 2 ** 33 + 5)):
        yield dict(seed=sd, batch_size=9)



def rt_epoch_visits(inp):
    """reconstruct(): in every epoch each training pattern is handed to the forward model exactly once, validation patterns
    only to the validation pass, and together they cover all patterns (observed by wrapping dset.forward inside the checker)."""
    import numpy as np

    pt = _toy(inp["seed"])
    pt.val_ratio = inp["val_ratio"]
    pt.val_mode = inp["val_mode"]
    seen = []
    real_forward = pt.dset.forward

    def spy(batch_indices, *a, **k):
        seen.append([int(i) for i in np.asarray(batch_indices).ravel()])
        return real_forward(batch_indices, *a, **k)

    pt.dset.forward = spy
    epochs = 2
    opt = {"object": {"type": "sgd", "lr": 0.1}, "probe": {"type": "sgd", "lr": 0.1}}
    try:
        pt.reconstruct(num_iters=epochs, reset=True, optimizer_params=opt, batch_size=inp["batch_size"], device="cpu")
    finally:
        pt.dset.forward = real_forward
    num = pt.dset.num_gpts
    flat = [i for b in seen for i in b]
    problems = []
    per_epoch = len(flat) // epochs if epochs else 0
    if len(flat) != epochs * num:
        problems.append(f"{len(flat)} pattern visits in {epochs} epochs of {num} patterns (expected {epochs * num}: training + validation each once)")
    else:
        for e in range(epochs):
            chunk = sorted(flat[e * per_epoch:(e + 1) * per_epoch])
            if chunk != list(range(num)):
                missing = sorted(set(range(num)) - set(chunk))
                problems.append(f"epoch {e}: visited multiset != all patterns once (missing {missing[:8]}, {len(chunk) - len(set(chunk))} repeats)")
                break
    if inp["val_ratio"] == 0 and inp["batch_size"] and any(len(b) > inp["batch_size"] for b in seen):
        problems.append("a batch is larger than batch_size")
    return dict(violated=bool(problems), observed="; ".join(problems) or "ok",
                expected="every pattern handed to the forward model exactly once per epoch (training batches + validation pass)")


def fam_epoch_visits(tier="quick", seed=0):
    combos = [(9, 0.0, "grid"), (5, 0.0, "grid"), (36, 0.25, "grid"), (7, 0.3, "random")]
    if tier != "quick":
        combos += [(1, 0.0, "grid"), (4, 0.5, "grid"), (40, 0.1, "random"), (11, 0.7, "grid")]
    for bs, vr, vm in combos:
        yield dict(batch_size=bs, val_ratio=vr, val_mode=vm, seed=3)


C_ERR.rt, C_ERR.rt_family = rt_loss_invariance, fam_loss_invariance
C_RECON.rt, C_RECON.rt_family = rt_seeded_history, fam_seeded_history


def rt_reset_recon(inp):
    """reset_recon: the RNG-level oracle, then whole reconstruction histories on the toy data set."""
    r = rt_reset(inp)
    if r["violated"] or inp.get("seed") is None:
        return r
    return rt_seeded_history(dict(seed=inp["seed"], batch_size=9))


for _c in (C_RESETRECON, C_RESETRECON2):
    _c.rt, _c.rt_family = rt_reset_recon, (lambda: iter([dict(seed=0), dict(seed=7)]))

# --------------------------------------------------------------------------------------------
# OptimizerMixin: what a reset rebuilds the optimizers FROM must not drift while the run steps them
# (round-5 seeded change C09_J: step_scheduler wrote the decayed learning rate back into _optimizer_params, so the
#  "same run after a reset" restarted from another learning rate - every single call still looked right)
# --------------------------------------------------------------------------------------------
OM = "quantem.core.ml.optimizer_mixin"
OMC = resolve(f"{OM}:OptimizerMixin")


class _Sub(Opaque):
    """opaque collaborator that can also be subscripted (optimizer.param_groups[0]["lr"])"""

    def __getattr__(self, k):
        if k.startswith("__"):
            raise AttributeError(k)
        return _Sub(f"{self._name}.{k}")

    def __getitem__(self, k):
        return _Sub(f"{self._name}[{k!r}]")


def _plateau():
    import torch

    class _Plateau(torch.optim.lr_scheduler.ReduceLROnPlateau):
        _pyvc_value = True

        def __init__(self):
            pass

        def step(self, *a, **k):
            return None

    return _Plateau()


def om_setup(ctx):
    lr, wd = ctx.fresh("stored_lr", "real"), ctx.fresh("stored_weight_decay", "real")
    params = {"type": "adam", "lr": lr, "weight_decay": wd}
    sparams = {"type": "exp", "factor": ctx.fresh("stored_factor", "real")}
    which = ctx.fresh("scheduler_kind", "int")
    ctx.assume(AND(which.t >= 0, which.t <= 2))
    if ctx.branch(which.t == 0):
        sched, kind = None, "none"
    elif ctx.branch(which.t == 1):
        sched, kind = _Sub("scheduler"), "plain"
    else:
        sched, kind = _plateau(), "plateau"
    has_opt = ctx.fresh("has_optimizer", "bool")
    opt = _Sub("optimizer") if ctx.branch(has_opt.t) else None
    loss_given = ctx.fresh("loss_given", "bool")
    loss = 0.5 if ctx.branch(loss_given.t) else None
    o = Obj(OMC, dict(_optimizer=opt, _scheduler=sched, _optimizer_params=params, _scheduler_params=sparams))
    return NS(self=o, loss=loss, params=params, sparams=sparams, kind=kind, opt=opt, sched=sched)


def om_snapshot(s):
    return NS(frame=frame_snapshot(s, ["params", "sparams"]))


def om_ensures(s):
    o = s.self
    return [("reset-state:_optimizer_params-is-still-the-stored-dict(not-rebound)", o.fields["_optimizer_params"] is s.params),
            ("reset-state:_scheduler_params-is-still-the-stored-dict(not-rebound)", o.fields["_scheduler_params"] is s.sparams),
            ("the-optimizer-object-is-kept", o.fields["_optimizer"] is s.opt), ("the-scheduler-object-is-kept", o.fields["_scheduler"] is s.sched)] \
        + frame_clauses(s, s.old.frame, label={"params": "stored-optimizer-params(what-reset_optimizer-rebuilds-from)",
                                               "sparams": "stored-scheduler-params(what-reset_optimizer-rebuilds-from)"})


def _om_contract(name, with_loss):
    def setup(ctx):
        s = om_setup(ctx)
        if not with_loss:
            del s.loss
        return s
    return Contract(f"{OM}:OptimizerMixin.{name}", setup=setup, ensures=om_ensures, snapshot=om_snapshot)


C_OM_STEPSCHED = _om_contract("step_scheduler", True)
C_OM_STEPOPT = _om_contract("step_optimizer", False)
C_OM_ZERO = _om_contract("zero_optimizer_grad", False)


def om_reset_setup(ctx):
    s = om_setup(ctx)
    del s.loss
    calls = []
    s.calls = calls
    ctx.ghost["om_reset_calls"] = calls
    return s


def _same_params(x, ref):
    """the stored dict itself or an equal copy of it (same keys, the very same values)"""
    return x is ref or (isinstance(x, dict) and list(x.keys()) == list(ref.keys()) and all(x[k] is ref[k] for k in ref))


def om_reset_ensures(s):
    c = s.calls
    return [("set_optimizer-is-called-once-with-the-stored-optimizer-params", len([x for x in c if x[0] == "opt"]) == 1 and _same_params([x for x in c if x[0] == "opt"][0][1], s.params)),
            ("set_scheduler-is-called-once-with-the-stored-scheduler-params", len([x for x in c if x[0] == "sch"]) == 1 and _same_params([x for x in c if x[0] == "sch"][0][1], s.sparams)),
            ("optimizer-is-rebuilt-before-its-scheduler", [x[0] for x in c] == ["opt", "sch"])] \
        + frame_clauses(s, s.old.frame, label={"params": "stored-optimizer-params", "sparams": "stored-scheduler-params"})


def _rec(tag, pname):
    def result(ctx, s):
        ctx.ghost.setdefault("om_reset_calls", []).append((tag, getattr(s, pname, None)))
        return None
    return result


C_SETOPT_STUB = Contract(f"{OM}:OptimizerMixin.set_optimizer", setup=None, result=_rec("opt", "opt_params"),
                         note="call-site stub: records the argument (what the optimizer is rebuilt from); torch.optim itself is outside reach")
C_SETSCH_STUB = Contract(f"{OM}:OptimizerMixin.set_scheduler", setup=None, result=_rec("sch", "scheduler_params"),
                         note="call-site stub: records the argument")
C_OM_RESET = Contract(f"{OM}:OptimizerMixin.reset_optimizer", setup=om_reset_setup, ensures=om_reset_ensures, snapshot=om_snapshot,
                      overrides={f"{OM}:OptimizerMixin.set_optimizer": C_SETOPT_STUB, f"{OM}:OptimizerMixin.set_scheduler": C_SETSCH_STUB})

CONTRACTS = [C_SUBDIVIDE, C_GENERATE, C_ITER, C_LEN, C_ITERVAL, C_VALLEN, C_INIT, C_RNGSET, C_MSET, C_RESET, C_RESETRECON, C_RESETRECON2, C_CPA, C_ERR, C_RECORD, C_RECON, C_OM_STEPSCHED, C_OM_STEPOPT, C_OM_ZERO, C_OM_RESET]

# --------------------------------------------------------------------------------------------
# property-level lemmas
# --------------------------------------------------------------------------------------------


def lemma_positions_partition(ctx):
    """From the __iter__ contract: every position p of the epoch order lies in exactly one batch."""
    n, B, p = I("n"), I("B"), I("p")
    k, i, k2, i2 = I("k"), I("i"), I("k2"), I("i2")
    cnt = ceil_div(n, B)

    def inb(kk, ii):
        return AND(kk >= 0, kk < cnt, ii >= 0, ii < zmin(B, n - kk * B), kk * B + ii == p)

    hyp = [n >= 0, B >= 1, p >= 0, p < n]
    return [
        ("exists", hyp, inb(p / B, p % B)),
        ("unique", hyp + [inb(k, i), inb(k2, i2)], AND(k == k2, i == i2)),
        ("batch-positions-in-range", [n >= 0, B >= 1, k >= 0, k < cnt, i >= 0, i < zmin(B, n - k * B)], AND(k * B + i >= 0, k * B + i < n)),
    ]


def lemma_loss_fraction(ctx):
    """error_estimate divides each batch sum by (b/N); with b | N the mean over the N/b batches equals the full-batch value."""
    Sfull, N, b, m = z3.Real("S_full"), z3.Real("N"), z3.Real("b"), z3.Real("m")
    # per-batch sums S_1..S_m are abstracted by their total (Σ-regrouping over the partition): Σ_j S_j = S_full
    # mean_j (S_j / (b/N)) = (1/m) * (Σ_j S_j) / (b/N)
    return [("mean-of-batch-losses=full-loss", [N > 0, b > 0, m > 0, m * b == N], (1 / m) * (Sfull / (b / N)) == Sfull / (N / N))]


LEMMAS = [
    Lemma("positions-partition", lemma_positions_partition, uses=["SimpleBatcher.__iter__"]),
    Lemma("loss-fraction", lemma_loss_fraction, uses=["PtychographyBase.error_estimate"]),
]

TRUSTED = [
    "OptimizerMixin (round 5): torch.optim optimizers / lr_scheduler objects are opaque collaborators (their step / zero_grad / param_groups do not write the mixin's own fields); "
    "set_optimizer / set_scheduler are used through call-site stubs that record their argument - what torch builds from the stored parameters is outside deductive reach; "
    "the link 'same stored parameters + same seed => same loss history' is decided only by the bounded seeded-rerun stand-in",
    "numpy Generator.permutation(x) = x composed with a bijection of [0,len)",
    "numpy setdiff1d(a,b) = sorted unique elements of a not in b",
    "T1 telescoping: sum_k (P(k+1)-P(k)) = P(n)-P(0) - lemmas/discrete.lean D3, proved from Mathlib in the thorough tier",
    "np.random.default_rng(s) / torch.Generator().manual_seed(s) are functions of s (identical draw sequences for identical seeds)",
    "ASSUMED FRAME: obj_model.reset / probe_model.reset / dset.reset (methods of OTHER objects, opaque collaborators in reset_recon) do not reach back into the reconstruction's RNG fields; compute_propagator_arrays' frame is verified from source",
    "pyvc engine (AST interpreter, slice/index semantics), z3, cvc5",
]
ASSUMPTIONS = ["A1 floats are reals (len/ceil(n/B) exact)", "A2 fixed-width ints are mathematical", "A6 numpy contracts"]
LEAN_FILES = ["discrete.lean"]
EXPLANATION = "VCs generated from the real source of SimpleBatcher / subdivide_batches / generate_batches, discharged by z3/cvc5"
BOUNDED = [
    Bounded.from_rt("subdivide/generate_batches small inputs", rt_subdivide, fam_subdivide, "num_items<=13, num_batches/max_batch<=14"),
    Bounded.from_rt("toy ptychography (6x6 scan): mean per-batch loss/gradient = full-batch for b | 36", rt_loss_invariance, fam_loss_invariance, "6x6 scan, 6x6 ROI, divisors of 36, 2 (4) loss types"),
    Bounded.from_rt("toy ptychography: reconstruct() hands every pattern to the forward model exactly once per epoch", rt_epoch_visits, fam_epoch_visits, "6x6 scan, 2 epochs, 4 (8) batch-size / validation settings"),
    Bounded.from_rt("toy ptychography: identical loss histories for the same seed and after reset", rt_seeded_history, fam_seeded_history, "2 (5) seeds incl. 0, 2 iterations, batch 9 of 36"),
    Bounded.from_rt("RNG reset restarts the generators from the stored seed", rt_reset, fam_reset, "8 seeds incl. 0 and > 2^32, None"),
    Bounded.from_rt("SimpleBatcher small configurations", rt_batcher, fam_batcher, "num<=17, batch_size<=20, 9 split settings, 2 epochs"),
]
REPLAY = {}
