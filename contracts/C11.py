"""C11 - ragged `Vector`: structural invariants under every operation, flatten/set_flattened, sharing, slicing.

Abstraction (DESIGN §7 C11): `_data` is a REAL nested python list inside the interpreter (so `is` / allocation identity is
meaningful); its shape is enumerated (1..3 fixed dims, small sizes); every leaf is None or a cell array abstracted as an
index function with SYMBOLIC row count and symbolic contents; field names / units are symbolic strings.
Everything that is stated per enumerated case carries the case in the obligation name.
"""
from __future__ import annotations

import itertools

import numpy as np
import z3

from pyvc import values as V
from pyvc.values import Sym, SymArr, Obj, S, lift, contains_sym
from pyvc.interp import NS, LoopSpec, Closure
from pyvc.registry import Contract, resolve
from pyvc.runner import Lemma, Bounded
from pyvc.lib import c11_models as cm
from .common import registry, forall, implies, AND, OR, NOT

LEVEL = "proof"
VEC = "quantem.core.datastructures.vector"
VAL = "quantem.core.utils.validators"
Vector = resolve(f"{VEC}:Vector")
FieldView = resolve(f"{VEC}:_FieldView")
I = z3.Int

PROPS = ["shape", "num_fields", "name", "fields", "units", "data", "metadata"]


def make_registry():
    from pyvc.path import PathCtx

    PathCtx.PRUNE_MS = 5000  # path-feasibility queries here are trivial; a generous budget keeps the set of explored paths stable on a loaded machine
    reg = registry()
    cm.install(reg)
    for c in CONTRACTS:
        reg.add_contract(c)
    reg.noop_calls = set(reg.noop_calls) - {"collect"}  # `_FieldView.flatten` has a nested helper called `collect` (not gc.collect)
    reg.abstract_classes.add(f"{VEC}:Vector")
    reg.abstract_classes.add(f"{VEC}:_FieldView")
    for p in PROPS:  # tiny property getters / setters are interpreted in place (they call the validators by contract)
        reg.inline.add(f"{VEC}:Vector.{p}")
    return reg


# ------------------------------------------------------------------------------------------------
# generic helpers
# ------------------------------------------------------------------------------------------------


def B(x):
    """python bool / z3 bool / Sym -> z3 Bool."""
    if isinstance(x, bool):
        return z3.BoolVal(x)
    return lift(x)


def pick(ctx, name, options):
    """Fork over a finite list of cases; the chosen index is visible in counter-models as `<name>!0`."""
    k = ctx.fresh(name, "int")
    n = len(options)
    for i in range(n - 1):
        if ctx.branch(k.t == i):
            return i, options[i]
    ctx.assume(k.t == n - 1)
    return n - 1, options[n - 1]


def cells_of(shape):
    return list(itertools.product(*[range(d) for d in shape]))


def cell_at(data, idx):
    r = data
    for i in idx:
        r = r[i]
    return r


def sublists(data, depth):
    """All list objects of a nested list down to `depth` levels (the root included)."""
    out = []

    def rec(x, d):
        if d == 0 or not isinstance(x, list):
            return
        out.append(x)
        for e in x:
            rec(e, d - 1)

    rec(data, depth)
    return out


def nesting_ok(data, shape):
    """`data` is a nested list of depth len(shape) with exactly the declared lengths; leaves are not lists."""
    if len(shape) == 0:
        return not isinstance(data, list)
    if not isinstance(data, list) or len(data) != shape[0]:
        return False
    return all(nesting_ok(e, shape[1:]) for e in data)


def distinct_objects(objs):
    return len({id(o) for o in objs}) == len(objs)


def is_cell_array(x):
    return (isinstance(x, SymArr) and not x.pylist) or isinstance(x, np.ndarray)


def cell_ok(leaf, nf):
    """None, or a 2-D array with exactly `nf` columns (term)."""
    if leaf is None:
        return z3.BoolVal(True)
    if not is_cell_array(leaf) or leaf.ndim != 2:
        return z3.BoolVal(False)
    return B(S(leaf.shape[1]) == nf) if contains_sym((leaf.shape[1], nf)) else z3.BoolVal(leaf.shape[1] == nf)


def strlike(x):
    return isinstance(x, str) or (isinstance(x, Sym) and z3.is_string(x.t))


def str_eq(a, b):
    if isinstance(a, str) and isinstance(b, str):
        return z3.BoolVal(a == b)
    ta = a.t if isinstance(a, Sym) else z3.StringVal(a)
    tb = b.t if isinstance(b, Sym) else z3.StringVal(b)
    return ta == tb


def all_distinct(xs):
    return AND(*[NOT(str_eq(xs[i], xs[j])) for i in range(len(xs)) for j in range(i + 1, len(xs))]) if len(xs) > 1 else z3.BoolVal(True)


def arrays_equal(a, b):
    """Same shape and same contents (quantified over the index)."""
    if isinstance(a, np.ndarray) and isinstance(b, np.ndarray):
        return z3.BoolVal(a.shape == b.shape and bool((a == b).all()))
    if not (isinstance(a, SymArr) and isinstance(b, SymArr)) or a.ndim != b.ndim:
        return z3.BoolVal(False)
    idx = [I(f"q!{d}") for d in range(a.ndim)]
    rng = [z3.And(i >= 0, i < lift(d)) for i, d in zip(idx, a.shape)]
    shp = [lift(x) == lift(y) for x, y in zip(a.shape, b.shape)]
    return z3.And(*shp, z3.ForAll(idx, z3.Implies(z3.And(*rng), lift(a.fn(*idx)) == lift(b.fn(*idx)))))


# definition-time objects: default-argument values and class attributes are allocated ONCE, when the module is imported;
# an object reachable from them is shared by every call that does not replace it.
def definition_time_objects():
    import quantem.core.datastructures.vector as vm
    import quantem.core.utils.validators as vv
    import types

    out = []
    for mod in (vm, vv):
        for v in vars(mod).values():
            fs = []
            if isinstance(v, types.FunctionType):
                fs.append(v)
            elif isinstance(v, type) and v.__module__ == mod.__name__:
                for a in vars(v).values():
                    if isinstance(a, types.FunctionType):
                        fs.append(a)
                    elif isinstance(a, (classmethod, staticmethod)):
                        fs.append(a.__func__)
                    elif isinstance(a, property):
                        fs += [x for x in (a.fget, a.fset) if x]
                    elif isinstance(a, (list, dict, set)):
                        out.append(a)
            for f in fs:
                out += [d for d in (f.__defaults__ or ()) if isinstance(d, (list, dict, set))]
                out += [d for d in (f.__kwdefaults__ or {}).values() if isinstance(d, (list, dict, set))]
    return out


def mutable_parts(o):
    """Every mutable object a Vector owns: nested lists, cell arrays, field / unit lists, metadata dict."""
    f = o.fields
    parts = []
    d = f.get("_data")
    shape = f.get("_shape", ())

    def rec(x):
        if isinstance(x, list):
            parts.append(x)
            for e in x:
                rec(e)
        elif is_cell_array(x):
            parts.append(x)
            if isinstance(x, SymArr) and x.base is not x:
                parts.append(x.base)

    rec(d)
    for k in ("_fields", "_units", "_metadata"):
        if isinstance(f.get(k), (list, dict, SymArr)):
            parts.append(f[k])
    return parts


def reachable_mutables(x, out=None, depth=0):
    out = [] if out is None else out
    if depth > 6:
        return out
    if isinstance(x, Obj):
        out.append(x)
        for v in x.fields.values():
            reachable_mutables(v, out, depth + 1)
    elif isinstance(x, (list, tuple)):
        if isinstance(x, list):
            out.append(x)
        for e in x:
            reachable_mutables(e, out, depth + 1)
    elif isinstance(x, dict):
        out.append(x)
        for e in x.values():
            reachable_mutables(e, out, depth + 1)
    elif is_cell_array(x):
        out.append(x)
        if isinstance(x, SymArr) and x.base is not x:
            out.append(x.base)
    return out


def disjoint(objs_a, objs_b):
    ids = {id(o) for o in objs_b}
    return not any(id(o) in ids for o in objs_a)


# ------------------------------------------------------------------------------------------------
# abstract Vector instances
# ------------------------------------------------------------------------------------------------

MASKS = {
    "full": lambda idx: True,
    "unset": lambda idx: False,
    "even": lambda idx: sum(idx) % 2 == 0,
    "odd": lambda idx: sum(idx) % 2 == 1,
    "first": lambda idx: all(i == 0 for i in idx),  # exactly ONE populated cell (a freshly created vector after a single assignment)
}


# "alias:<mask>": the cells of <mask> are populated and the SECOND populated cell (row-major) holds the very same array object as the
# FIRST one - a legal state: `v[2:4, 1] = v[1:3, 1]`, `v[0:2] = [a, a]` or the same array assigned to two cells store the given objects.
def mask_fn(mask):
    return MASKS[mask.split(":")[-1]]


def alias_pair(mask, shape):
    """(dst, src) cell indices of the aliased pair of an "alias:" mask, else None."""
    if not mask.startswith("alias:"):
        return None
    pop = [k for k in cells_of(shape) if mask_fn(mask)(k)]
    return (pop[1], pop[0]) if len(pop) >= 2 else None


def put_cell(data, idx, x):
    tgt = data
    for i in idx[:-1]:
        tgt = tgt[i]
    tgt[idx[-1]] = x


# element kinds of the cells: float64 (the only kind the test-suite uses), int64 (ids / timestamps: NOT exactly representable in
# float64 above 2**53), complex128 (not representable in any float), float32 (representable, but a different dtype)
CELL_DTYPES = ["float64", "int64", "complex128", "float32"]


def sym_names(ctx, base, n):
    xs = [ctx.fresh(f"{base}{i}", "str") for i in range(n)]
    for i in range(n):
        for j in range(i + 1, n):
            ctx.assume(xs[i].t != xs[j].t)
    return xs


def build_data(ctx, shape, nf, mask, tag="c", dtype=None):
    """Nested list of the given shape; populated leaves are arbitrary (rows symbolic) x nf arrays, pairwise distinct objects."""
    leaves = {}

    def rec(prefix, dims):
        if not dims:
            if mask_fn(mask)(prefix):
                leaf = cm.fresh_cell(ctx, f"{tag}_" + "_".join(map(str, prefix)), nf, dtype=dtype)
            else:
                leaf = None
            leaves[prefix] = leaf
            return leaf
        return [rec(prefix + (i,), dims[1:]) for i in range(dims[0])]

    data = rec((), tuple(shape))
    ap = alias_pair(mask, tuple(shape))
    if ap:
        leaves[ap[0]] = leaves[ap[1]]
        put_cell(data, ap[0], leaves[ap[1]])
    return data, leaves


def mk_vec(ctx, shape, nf, mask="full", tag="v", metadata=None, dtype=None):
    """dtype: storage dtype of every populated cell (ghost tag, see c11_models) or None = not tracked."""
    fields = sym_names(ctx, f"{tag}_field", nf)
    units = [ctx.fresh(f"{tag}_unit{i}", "str") for i in range(nf)]
    data, leaves = build_data(ctx, shape, nf, mask, tag=f"{tag}c", dtype=dtype)
    o = Obj(Vector, dict(_shape=tuple(shape), _fields=fields, _units=units, _name=f"{tag}", _data=data,
                         _metadata={} if metadata is None else metadata))
    return o


def leaves_of(o):
    f = o.fields
    shape = f["_shape"]
    if not nesting_ok(f["_data"], shape):
        return None
    return {idx: cell_at(f["_data"], idx) for idx in cells_of(shape)}


def snap_vec(o):
    """Old state of a vector: object identities (kept alive) + frozen copies of the cell contents."""
    f = o.fields
    lv = leaves_of(o) or {}
    return NS(obj=o, shape=f.get("_shape"), data=f.get("_data"), fields_obj=f.get("_fields"), units_obj=f.get("_units"),
              fields=list(f["_fields"]) if isinstance(f.get("_fields"), list) else f.get("_fields"),
              units=list(f["_units"]) if isinstance(f.get("_units"), list) else f.get("_units"),
              name=f.get("_name"), metadata=f.get("_metadata"),
              lists=sublists(f.get("_data"), len(f.get("_shape") or ())),
              list_contents=[list(x) for x in sublists(f.get("_data"), len(f.get("_shape") or ()))],
              leaves=dict(lv), frozen={k: (cm.freeze(v) if isinstance(v, SymArr) else v) for k, v in lv.items()},
              writes={k: (v.writes if isinstance(v, SymArr) else 0) for k, v in lv.items()},
              dtypes={k: dtype_of(v) for k, v in lv.items() if v is not None},
              parts=mutable_parts(o))


def inv(o, pre="Inv"):
    """Representation invariant of the property statement, as labelled clauses."""
    f = o.fields
    shape, data, fields, units = f.get("_shape"), f.get("_data"), f.get("_fields"), f.get("_units")
    out = []
    shape_ok = isinstance(shape, tuple) and all(isinstance(d, int) and not isinstance(d, bool) and d > 0 for d in shape)
    out.append((f"{pre}:shape-is-a-tuple-of-positive-ints", shape_ok))
    nest = shape_ok and nesting_ok(data, shape)
    out.append((f"{pre}:data-is-a-nested-list-with-the-declared-lengths", nest))
    out.append((f"{pre}:no-sublist-occurs-twice", nest and distinct_objects(sublists(data, len(shape)))))
    fields_ok = isinstance(fields, list) and all(strlike(x) for x in fields)
    nf = len(fields) if isinstance(fields, list) else -1
    if nest:
        out.append((f"{pre}:every-populated-cell-is-2d-with-one-column-per-field", AND(*[cell_ok(cell_at(data, idx), nf) for idx in cells_of(shape)])))
    else:
        out.append((f"{pre}:every-populated-cell-is-2d-with-one-column-per-field", False))
    out.append((f"{pre}:field-names-are-unique-strings", AND(fields_ok, all_distinct(fields)) if fields_ok else False))
    out.append((f"{pre}:one-unit-per-field", isinstance(units, list) and len(units) == nf and all(strlike(u) for u in units)))
    return out


def conj(label, items):
    """One clause that is the conjunction of labelled clauses (used where the group is framing, not the point of the contract)."""
    return [(label, AND(*[B(t) for _, t in items]))]


def unchanged(o, old):
    return conj("frame:vector-unchanged-(same-objects,no-writes,same-schema)", same_schema(o, old) + data_untouched(o, old))


def T(fn):
    """Tag every clause of a postcondition with the enumerated case (verify mode), so that obligation names are unique and stable."""
    def g(s):
        out = fn(s)
        if getattr(s, "mode", "") == "verify" and getattr(s, "case", None):
            return tagl(s.case, [x if isinstance(x, tuple) else (f"c{i}", x) for i, x in enumerate(out)])
        return out
    return g


def tagl(case, items):
    return [(f"{lab}[{case}]", t) for lab, t in items]


def same_schema(o, old):
    """fields / units / shape / name / metadata unchanged (same objects, same contents)."""
    f = o.fields
    return [("frame:shape-unchanged", f["_shape"] == old.shape),
            ("frame:fields-unchanged", f["_fields"] is old.fields_obj and len(f["_fields"]) == len(old.fields) and all(a is b for a, b in zip(f["_fields"], old.fields))),
            ("frame:units-unchanged", f["_units"] is old.units_obj and len(f["_units"]) == len(old.units) and all(a is b for a, b in zip(f["_units"], old.units))),
            ("frame:name-and-metadata-unchanged", f["_name"] == old.name and f["_metadata"] is old.metadata)]


def data_untouched(o, old, except_cells=()):
    """Same list objects with the same elements, same cell objects with unchanged contents (no write), except the listed cells."""
    f = o.fields
    ok_lists = f["_data"] is old.data
    cur_lists = sublists(f["_data"], len(old.shape))
    ok_lists = ok_lists and len(cur_lists) == len(old.lists) and all(a is b for a, b in zip(cur_lists, old.lists))
    lv = leaves_of(o)
    if lv is None:
        return [("frame:data-structure-unchanged", False)]
    same = all(lv[k] is old.leaves[k] for k in lv if k not in except_cells)
    nowrite = all((lv[k].writes if isinstance(lv[k], SymArr) else 0) == old.writes[k] for k in lv if k not in except_cells and lv[k] is old.leaves[k])
    return [("frame:nested-lists-are-the-same-objects", ok_lists),
            ("frame:other-cells-are-the-same-objects", same),
            ("frame:other-cells-not-written", nowrite)]


# ------------------------------------------------------------------------------------------------
# enumerated shapes
# ------------------------------------------------------------------------------------------------

SHAPES_SMALL = [(1,), (2,), (3,), (1, 2), (2, 1), (2, 2), (2, 3), (3, 2), (1, 1, 2), (2, 1, 2), (2, 2, 2), (1, 2, 3), (2, 3, 2)]
SHAPES_ALL = ([()] + [(a,) for a in (1, 2, 3, 4)] + [(a, b) for a in (1, 2, 3) for b in (1, 2, 3)]
              + [(a, b, c) for a in (1, 2) for b in (1, 2) for c in (1, 2)] + [(3, 1, 2), (1, 3, 3), (2, 2, 3), (3, 3, 3)])


def shape_tag(shape):
    return "x".join(map(str, shape)) if shape else "scalar"


# ------------------------------------------------------------------------------------------------
# nested_list  (recursion through its own contract: structural induction on len(shape))
# ------------------------------------------------------------------------------------------------


def spec_fresh_nested(shape, fill):
    """Witness of the contract's result at call sites: a freshly allocated nested list (no sublist shared) filled with `fill`."""
    if len(shape) == 0:
        return fill
    return [spec_fresh_nested(shape[1:], fill) for _ in range(shape[0])]


def nl_setup(ctx):
    _, shape = pick(ctx, "nl_shape", SHAPES_ALL)
    _, fk = pick(ctx, "nl_fill", ["none", "value"])
    fill = None if fk == "none" else ctx.fresh("fill", "int")
    return NS(shape=shape, fill=fill, case=f"shape={shape_tag(shape)}")


def nl_ensures(s):
    r = s.result
    shape = tuple(s.shape)
    nest = nesting_ok(r, shape)
    subs = sublists(r, len(shape))
    leaves_ok = nest and all(cell_at(r, idx) is s.fill for idx in cells_of(shape))
    pre = reachable_mutables([s.shape, s.fill]) + definition_time_objects()
    return [("result-is-nested-list-with-the-declared-lengths", nest),
            ("every-leaf-is-fill", leaves_ok),
            ("no-sublist-occurs-twice", distinct_objects(subs)),
            ("all-sublists-freshly-allocated", disjoint(subs, pre))]


C_NESTED = Contract(f"{VEC}:nested_list", setup=nl_setup, ensures=T(nl_ensures),
                    requires=lambda s: [("shape-is-a-tuple-of-concrete-non-negative-ints", isinstance(s.shape, tuple) and all(isinstance(d, int) and d >= 0 for d in s.shape))],
                    result=lambda ctx, s: spec_fresh_nested(tuple(s.shape), s.fill), recursive_by_contract=True)

# ------------------------------------------------------------------------------------------------
# validators
# ------------------------------------------------------------------------------------------------


def vs_setup(ctx):
    _, kind = pick(ctx, "vs_kind", ["tuple0", "tuple1", "tuple2", "tuple3", "list", "float@0", "float@1", "float@2", "none"])
    if kind.startswith("tuple"):
        n = int(kind[5:])
        shape = tuple(ctx.fresh(f"dim{i}", "int") for i in range(n))
    elif kind == "list":
        shape = [ctx.fresh("dim0", "int")]
    elif kind == "none":
        shape = None
    else:
        k = int(kind[-1])
        shape = tuple(2.5 if i == k else ctx.fresh(f"dim{i}", "int") for i in range(3))
    return NS(shape=shape, case=kind)


def _vs_first_bad(shape):
    """(type_error_cond, value_error_cond) following 'first offending dimension' order."""
    if not isinstance(shape, tuple):
        return True, False
    te, ve, earlier_ok = [], [], []
    for d in shape:
        is_int = isinstance(d, (int, Sym)) and not isinstance(d, float)
        pre = AND(*earlier_ok) if earlier_ok else z3.BoolVal(True)
        if not is_int:
            te.append(pre)
            earlier_ok.append(z3.BoolVal(False))
        else:
            ve.append(AND(pre, lift(d) <= 0))
            earlier_ok.append(lift(d) > 0)
    return (OR(*te) if te else False), (OR(*ve) if ve else False)


def vs_ensures(s):
    r = s.result
    ok = isinstance(r, tuple) and isinstance(s.shape, tuple) and len(r) == len(s.shape)
    return [("result-is-a-tuple-of-the-same-dimensions", AND(ok, *[B(S(a) == S(b)) for a, b in zip(r, s.shape)]) if ok else False),
            ("all-dimensions-positive", AND(*[lift(a) > 0 for a in r]) if ok and r else ok)]


C_VSHAPE = Contract(f"{VAL}:validate_shape", setup=vs_setup, ensures=T(vs_ensures),
                    raises={TypeError: lambda s: _vs_first_bad(s.shape)[0], ValueError: lambda s: _vs_first_bad(s.shape)[1]},
                    result=lambda ctx, s: tuple(s.shape))


def vf_setup(ctx):
    _, kind = pick(ctx, "vf_kind", ["list0", "list1", "list2", "list3", "tuple2", "str", "none"])
    if kind.startswith("list") or kind.startswith("tuple"):
        n = int(kind[-1])
        xs = [ctx.fresh(f"name{i}", "str") for i in range(n)]
        fields = xs if kind.startswith("list") else tuple(xs)
    elif kind == "str":
        fields = ctx.fresh("name", "str")
    else:
        fields = None
    return NS(fields=fields, case=kind)


def vf_ensures(s):
    r, f = s.result, s.fields
    ok = isinstance(r, list) and isinstance(f, (list, tuple)) and len(r) == len(f)
    pre = reachable_mutables(f) + definition_time_objects()
    return [("result-is-a-new-list", isinstance(r, list) and r is not f and disjoint([r], pre)),
            ("same-names-in-the-same-order", AND(*[str_eq(a, b) for a, b in zip(r, f)]) if ok else False),
            ("names-are-unique", all_distinct(r) if ok else False)]


C_VFIELDS = Contract(f"{VAL}:validate_fields", setup=vf_setup, ensures=T(vf_ensures),
                     requires=lambda s: [("elements-are-strings", all(strlike(x) for x in s.fields) if isinstance(s.fields, (list, tuple)) else True)],
                     raises={TypeError: lambda s: not isinstance(s.fields, (list, tuple)),
                             ValueError: lambda s: NOT(all_distinct(list(s.fields))) if isinstance(s.fields, (list, tuple)) else False},
                     result=lambda ctx, s: list(s.fields))


def vn_setup(ctx):
    _, kind = pick(ctx, "vn_kind", ["int", "int+fields0", "int+fields2", "float", "none"])
    num = ctx.fresh("num_fields", "int") if kind.startswith("int") else (2.0 if kind == "float" else None)
    fields = None
    if "+fields" in kind:
        fields = [ctx.fresh(f"name{i}", "str") for i in range(int(kind[-1]))]
    return NS(num_fields=num, fields=fields, case=kind)


def _vn_int(s):
    return isinstance(s.num_fields, (int, Sym)) and not isinstance(s.num_fields, float)


C_VNUM = Contract(f"{VAL}:validate_num_fields", setup=vn_setup,
                  ensures=T(lambda s: [("returns-num_fields", B(S(s.result) == S(s.num_fields)) if _vn_int(s) else False),
                                       ("positive", lift(s.result) > 0 if _vn_int(s) else False),
                                       ("matches-fields", B(S(s.result) == len(s.fields)) if s.fields is not None and _vn_int(s) else True)]),
                  raises={TypeError: lambda s: not _vn_int(s),
                          ValueError: lambda s: OR(lift(s.num_fields) <= 0, B(S(s.num_fields) != len(s.fields)) if s.fields is not None else False) if _vn_int(s) else False},
                  result=lambda ctx, s: s.num_fields)


def vu_setup(ctx):
    _, kind = pick(ctx, "vu_kind", ["none", "list0", "list1", "list2", "list3", "tuple2", "str"])
    _, nf = pick(ctx, "vu_nf", [0, 1, 2, 3])
    if kind.startswith("list") or kind.startswith("tuple"):
        xs = [ctx.fresh(f"unit{i}", "str") for i in range(int(kind[-1]))]
        units = xs if kind.startswith("list") else tuple(xs)
    elif kind == "str":
        units = ctx.fresh("unit", "str")
    else:
        units = None
    return NS(units=units, num_fields=nf, case=f"{kind},nf={nf}")


def vu_ensures(s):
    r, u = s.result, s.units
    ok = isinstance(r, list) and len(r) == s.num_fields and all(strlike(x) for x in r)
    pre = reachable_mutables(u) + definition_time_objects()
    out = [("result-is-a-new-list-with-one-unit-per-field", ok and r is not u and disjoint([r], pre))]
    if u is None:
        out.append(("default-units-are-'none'", ok and all(x == "none" for x in r)))
    else:
        out.append(("same-units-in-the-same-order", AND(*[str_eq(a, b) for a, b in zip(r, u)]) if ok and len(r) == len(u) else False))
    return out


C_VUNITS = Contract(f"{VAL}:validate_vector_units", setup=vu_setup, ensures=T(vu_ensures),
                    requires=lambda s: [("num_fields-is-a-concrete-non-negative-int", isinstance(s.num_fields, int) and s.num_fields >= 0),
                                        ("elements-are-strings", all(strlike(x) for x in s.units) if isinstance(s.units, (list, tuple)) else True)],
                    raises={TypeError: lambda s: s.units is not None and not isinstance(s.units, (list, tuple)),
                            ValueError: lambda s: isinstance(s.units, (list, tuple)) and len(s.units) != s.num_fields},
                    result=lambda ctx, s: ["none"] * s.num_fields if s.units is None else list(s.units))



# ---- validate_vector_data / validate_vector_data_for_inference ---------------------------------------------
# item kinds: arr2 = 2-D array with symbolic column count, arr1 / arr3 = 1-D / 3-D array, none = not an array,
# list = nested python list convertible to a 1 x 2 array

import abc


class ValueError_or_IndexError(Exception, metaclass=abc.ABCMeta):
    """An item of the wrong dimensionality / column count must be rejected; the documented class is ValueError, the code's
    `item.shape[1]` on a 1-D item gives IndexError - the contract accepts either class (the property does not care which)."""

    @classmethod
    def __subclasshook__(cls, C):
        return issubclass(C, (ValueError, IndexError)) or NotImplemented


ITEM_COMBOS = [(), ("arr2",), ("arr1",), ("arr3",), ("none",), ("list",), ("arr2", "arr2"), ("arr2", "arr3"), ("arr2", "none"),
               ("arr2", "arr1"), ("none", "arr2"), ("list", "arr2"), ("arr2", "arr2", "arr2")]


def mk_items(ctx, kinds, tag="item"):
    items = []
    for i, k in enumerate(kinds):
        if k == "none":
            items.append(None)
        elif k == "list":
            items.append([[1.0, 2.0]])
        else:
            cols = ctx.fresh(f"{tag}{i}_cols", "int")
            ctx.assume(cols.t >= 0)
            items.append(cm.fresh_cell(ctx, f"{tag}{i}", cols, ndim=int(k[3])))
    return items


def item_cols(x):
    if isinstance(x, list):
        return 2
    return x.shape[1]


def first_bad(kinds, items, nf):
    """Per exception class: condition that the FIRST offending item (in list order) is of that class.
    ShapeError: not two-dimensional, or the wrong number of columns."""
    conds = {"TypeError": [], "ShapeError": []}
    earlier = []
    for k, x in zip(kinds, items):
        pre = AND(*earlier) if earlier else z3.BoolVal(True)
        if k == "none":
            conds["TypeError"].append(pre)
            earlier.append(z3.BoolVal(False))
        elif k in ("arr1", "arr3"):
            conds["ShapeError"].append(pre)
            earlier.append(z3.BoolVal(False))
        else:
            good = B(S(item_cols(x)) == S(nf))
            conds["ShapeError"].append(AND(pre, NOT(good)))
            earlier.append(good)
    return {k: (OR(*v) if v else z3.BoolVal(False)) for k, v in conds.items()}


def vd_setup(ctx):
    _, kinds = pick(ctx, "vd_items", ITEM_COMBOS)
    _, n0 = pick(ctx, "vd_shape0", [1, 2])
    _, dk = pick(ctx, "vd_data", ["list", "tuple"])
    items = mk_items(ctx, kinds)
    data = items if dk == "list" else tuple(items)
    return NS(data=data, shape=(n0,), num_fields=2, kinds=kinds, case=f"items={'+'.join(kinds) or 'empty'},len={n0},{dk}")


def vd_bad(s):
    if not isinstance(s.data, list):
        return {"TypeError": z3.BoolVal(True), "ShapeError": z3.BoolVal(False)}
    if len(s.data) != s.shape[0]:
        return {"TypeError": z3.BoolVal(False), "ShapeError": z3.BoolVal(True)}
    kinds = getattr(s, "kinds", None) or kinds_of(s.data)
    return first_bad(kinds, s.data, s.num_fields)


def kinds_of(data):
    out = []
    for x in data:
        if isinstance(x, list):
            out.append("list")
        elif is_cell_array(x):
            out.append("arr1" if x.ndim == 1 else "arr2" if x.ndim == 2 else "arr3")
        else:
            out.append("none")
    return out


def vd_ensures(s):
    r, d = s.result, s.data
    ok = isinstance(r, list) and isinstance(d, list) and len(r) == len(d)
    pre = reachable_mutables([d]) + definition_time_objects()
    return tagl(s.case if s.mode == "verify" else "call", [
        ("result-is-a-new-list-of-shape[0]-items", ok and len(r) == s.shape[0] and disjoint([r], pre)),
        ("array-items-are-kept-as-they-are", ok and all(a is b for a, b in zip(r, d) if is_cell_array(b))),
        ("every-validated-item-is-a-2d-array-with-num_fields-columns", AND(*[AND(B(x is not None), cell_ok(x, s.num_fields)) for x in r]) if ok else False),
    ])


def vd_result(ctx, s):
    return [np.array(x) if isinstance(x, list) else x for x in s.data]


C_VDATA = Contract(f"{VAL}:validate_vector_data", setup=vd_setup, ensures=vd_ensures, result=vd_result,
                   requires=lambda s: [("shape-is-1d-concrete", isinstance(s.shape, tuple) and len(s.shape) >= 1 and isinstance(s.shape[0], int))],
                   raises={TypeError: lambda s: vd_bad(s)["TypeError"], ValueError_or_IndexError: lambda s: vd_bad(s)["ShapeError"]})


def vi_setup(ctx):
    _, kinds = pick(ctx, "vi_items", ITEM_COMBOS)
    _, dk = pick(ctx, "vi_data", ["list", "tuple"])
    items = mk_items(ctx, kinds)
    return NS(data=items if dk == "list" else tuple(items), kinds=kinds, case=f"items={'+'.join(kinds) or 'empty'},{dk}")


def vi_bad(s):
    F, T = z3.BoolVal(False), z3.BoolVal(True)
    if not isinstance(s.data, list):
        return {"TypeError": T, "ShapeError": F}
    if len(s.data) == 0:
        return {"TypeError": F, "ShapeError": T}
    kinds = getattr(s, "kinds", None) or kinds_of(s.data)
    if kinds[0] == "none":
        return {"TypeError": T, "ShapeError": F}
    if kinds[0] in ("arr1", "arr3"):
        return {"TypeError": F, "ShapeError": T}
    fb = first_bad(kinds, s.data, item_cols(s.data[0]))
    # a non-array item after the first one is reported as ValueError by this function
    return {"TypeError": F, "ShapeError": OR(fb["ShapeError"], fb["TypeError"])}


def vi_ensures(s):
    r, d = s.result, s.data
    ok = isinstance(r, tuple) and len(r) == 2 and isinstance(d, list) and len(d) > 0
    return tagl(s.case if s.mode == "verify" else "call", [
        ("inferred-shape-is-(len(data),)", ok and r[0] == (len(d),)),
        ("inferred-num_fields-is-the-column-count-of-the-first-item", B(S(r[1]) == S(item_cols(d[0]))) if ok and kinds_of(d)[0] not in ("none", "arr1") else False),
        ("every-item-is-a-2d-array-with-that-many-columns",
         AND(*[AND(B(x is not None), cell_ok(np.array(x) if isinstance(x, list) else x, r[1])) for x in d]) if ok else False),
    ])


C_VINFER = Contract(f"{VAL}:validate_vector_data_for_inference", setup=vi_setup, ensures=vi_ensures,
                    result=lambda ctx, s: ((len(s.data),), item_cols(s.data[0])),
                    raises={TypeError: lambda s: vi_bad(s)["TypeError"], ValueError_or_IndexError: lambda s: vi_bad(s)["ShapeError"]})


# ------------------------------------------------------------------------------------------------
# Vector.__init__ / from_shape / from_data / copy
# ------------------------------------------------------------------------------------------------


def checked(fn):
    """At call sites the postcondition is ASSUMED for a state built by `modifies`/`result`; a clause that is literally
    false there would silently kill the path, so it is turned into a checker fault instead."""
    def g(s):
        out = fn(s)
        if s.mode == "apply":
            for lab, t in out:
                if t is False or (V.is_z3(t) and z3.is_false(z3.simplify(t))):
                    raise RuntimeError(f"contract witness violates its own postcondition {lab!r}")
        return out
    return g


def default_metadata_object():
    d = Vector.__init__.__defaults__
    return d[0] if d else None


INIT_CASES = ([(sh, nf, "match", md, "ok") for sh in [(2,), (2, 3), (2, 1, 2)] for nf in (1, 3) for md in ("default", "given") if nf == 1 or md == "given"]
              + [((2, 3), 2, "longer", "given", "ok"), ((2,), 2, "match", "given", "missing"), ((2, 3), 2, "match", "default", "missing")])


def init_setup(ctx):
    _, (shape, nf, nu, md, tok) = pick(ctx, "init_case", INIT_CASES)
    fields = [ctx.fresh(f"name{i}", "str") for i in range(nf)]  # NOT assumed distinct: the constructor must reject duplicates
    units = [ctx.fresh(f"unit{i}", "str") for i in range(nf + (nu == "longer"))]
    kw = {"_token": Vector._token if tok == "ok" else None}
    given = None
    if md == "given":
        given = {"k": 1}
        kw["metadata"] = given
    return NS(self=Obj(Vector, {}), shape=shape, fields=fields, units=units, name="nm", kwargs=kw, given_metadata=given, token_ok=tok == "ok",
              case=f"shape={shape_tag(shape)},nf={nf},units={nu},metadata={md},token={tok}")


def init_explicit_metadata(s):
    """The dict supplied by the caller, or None when the parameter was left to its default."""
    if hasattr(s, "given_metadata"):
        return s.given_metadata
    m = s.metadata
    return None if (m is default_metadata_object() or m is None) else m


def init_token_ok(s):
    return s.token_ok if hasattr(s, "token_ok") else (s._token is Vector._token)


def init_pre_objects(s):
    return reachable_mutables([s.shape, s.fields, s.units]) + definition_time_objects()


def init_ensures(s):
    o = s.self
    f = o.fields
    pre = init_pre_objects(s)
    owned = sublists(f["_data"], len(s.shape)) + [f["_fields"], f["_units"]]
    given = init_explicit_metadata(s)
    md = f["_metadata"]
    out = inv(o) + [
        ("shape-stored", f["_shape"] == tuple(s.shape)),
        ("all-cells-unset", nesting_ok(f["_data"], tuple(s.shape)) and all(cell_at(f["_data"], i) is None for i in cells_of(s.shape))),
        ("field-names-stored-in-order", AND(len(f["_fields"]) == len(s.fields), *[str_eq(a, b) for a, b in zip(f["_fields"], s.fields)])),
        ("units-stored-in-order", AND(len(f["_units"]) == len(s.units), *[str_eq(a, b) for a, b in zip(f["_units"], s.units)])),
        ("name-stored", f["_name"] == str(s.name)),
        ("sharing:nested-lists-and-field/unit-lists-are-freshly-allocated", disjoint(owned, pre) and distinct_objects(owned)),
        ("sharing:metadata-is-the-caller's-dict-or-a-freshly-allocated-one",
         (md is given) if given is not None else (isinstance(md, dict) and disjoint([md], pre))),
    ]
    return out


def init_modifies(ctx, s):
    f = s.self.fields
    given = init_explicit_metadata(s)
    f.update(_shape=tuple(s.shape), _fields=list(s.fields), _units=list(s.units), _name=str(s.name),
             _data=spec_fresh_nested(tuple(s.shape), None), _metadata=given if given is not None else {})


def init_requires(s):
    return [("shape-is-a-validated-tuple", isinstance(s.shape, tuple) and all(isinstance(d, int) and d > 0 for d in s.shape)),
            ("fields-is-a-list-of-strings", isinstance(s.fields, list) and all(strlike(x) for x in s.fields)),
            ("units-is-a-list-of-strings", isinstance(s.units, list) and all(strlike(x) for x in s.units))]


C_INIT = Contract(f"{VEC}:Vector.__init__", setup=init_setup, requires=init_requires, ensures=T(checked(init_ensures)), modifies=init_modifies,
                  raises={RuntimeError: lambda s: not init_token_ok(s),
                          ValueError: lambda s: AND(init_token_ok(s), OR(NOT(all_distinct(s.fields)), len(s.units) != len(s.fields)))})

# ---- from_shape


FS_SHAPES = [(3,), (1, 2, 2), (2, 0)]


def fs_setup(ctx):
    _, shape = pick(ctx, "fs_shape", FS_SHAPES)
    _, fk = pick(ctx, "fs_fields", ["none", "two"])
    _, num = pick(ctx, "fs_num_fields", [None, 0, 2, 3])
    _, uk = pick(ctx, "fs_units", ["none", "two", "three"])
    name = None if fk == "none" else "nm"
    fields = None if fk == "none" else [ctx.fresh(f"name{i}", "str") for i in range(2)]
    units = None if uk == "none" else [ctx.fresh(f"unit{i}", "str") for i in range(2 if uk == "two" else 3)]
    return NS(cls=Vector, shape=shape, num_fields=num, fields=fields, units=units, name=name,
              case=f"shape={shape_tag(shape)},fields={fk},num_fields={num},units={uk}")


def fs_nf(s):
    return len(s.fields) if s.fields is not None else s.num_fields


def fs_value_error(s):
    c = [any(d <= 0 for d in s.shape)]
    if s.fields is not None:
        c += [NOT(all_distinct(list(s.fields))), s.num_fields is not None and len(s.fields) != s.num_fields]
    elif s.num_fields is not None:
        c += [s.num_fields <= 0]
    else:
        c += [True]
    nf = fs_nf(s)
    if s.units is not None and nf is not None:
        c += [len(s.units) != nf]
    return OR(*[B(x) for x in c])


def fs_ensures(s):
    o = s.result
    if not (isinstance(o, Obj) and o.cls is Vector):
        return [("returns-a-Vector", False)]
    f = o.fields
    nf = fs_nf(s)
    pre = reachable_mutables([s.shape, s.fields, s.units]) + definition_time_objects()
    names = list(s.fields) if s.fields is not None else [f"field_{i}" for i in range(nf)]
    units = list(s.units) if s.units is not None else ["none"] * nf
    return inv(o) + [
        ("shape-stored", f["_shape"] == tuple(s.shape)),
        ("all-cells-unset", nesting_ok(f["_data"], tuple(s.shape)) and all(cell_at(f["_data"], i) is None for i in cells_of(s.shape))),
        ("field-names-as-given-or-field_i", AND(len(f["_fields"]) == nf, *[str_eq(a, b) for a, b in zip(f["_fields"], names)])),
        ("units-as-given-or-'none'", AND(len(f["_units"]) == nf, *[str_eq(a, b) for a, b in zip(f["_units"], units)])),
        ("name-as-given-or-default", f["_name"] == (s.name or f"{len(s.shape)}d ragged array")),
        ("sharing:no-mutable-part-of-the-new-vector-existed-before-the-call", disjoint(mutable_parts(o), pre) and distinct_objects(mutable_parts(o))),
    ]


def fs_result(ctx, s):
    nf = fs_nf(s)
    names = list(s.fields) if s.fields is not None else [f"field_{i}" for i in range(nf)]
    units = list(s.units) if s.units is not None else ["none"] * nf
    return Obj(Vector, dict(_shape=tuple(s.shape), _fields=names, _units=units, _name=s.name or f"{len(s.shape)}d ragged array",
                            _data=spec_fresh_nested(tuple(s.shape), None), _metadata={}))


def fs_requires(s):
    return [("shape-is-a-tuple-of-concrete-ints", isinstance(s.shape, tuple) and all(isinstance(d, int) for d in s.shape)),
            ("num_fields-is-None-or-a-concrete-int", s.num_fields is None or isinstance(s.num_fields, int)),
            ("fields-is-None-or-a-list-of-strings", s.fields is None or (isinstance(s.fields, list) and all(strlike(x) for x in s.fields))),
            ("units-is-None-or-a-list-of-strings", s.units is None or (isinstance(s.units, list) and all(strlike(x) for x in s.units))),
            ("name-is-None-or-a-concrete-str", s.name is None or isinstance(s.name, str))]


C_FROM_SHAPE = Contract(f"{VEC}:Vector.from_shape", setup=fs_setup, requires=fs_requires, ensures=T(checked(fs_ensures)), result=fs_result,
                        raises={ValueError: fs_value_error})

# ---- copy

COPY_CASES = [(sh, m) for sh in [(1,), (3,), (2, 2), (2, 1, 2)] for m in ("full", "even", "unset")] + [((2, 3), "full"), ((2, 2, 2), "odd"), ((3,), "alias:full"), ((2, 2), "alias:full")]


def copy_setup(ctx):
    _, (shape, mask) = pick(ctx, "copy_case", COPY_CASES)
    _, nf = pick(ctx, "copy_nf", [1, 3])
    return NS(self=mk_vec(ctx, shape, nf, mask), case=f"shape={shape_tag(shape)},cells={mask},nf={nf}")


def copy_ensures(s):
    o, c, old = s.self, s.result, s.old
    if not (isinstance(c, Obj) and c.cls is Vector) or c is o:
        return [("returns-a-new-Vector", False)]
    f, g = o.fields, c.fields
    lo, lc = leaves_of(o), leaves_of(c)
    same_cells = lc is not None and all((lc[k] is None) == (lo[k] is None) for k in lo)
    eq = AND(*[arrays_equal(lc[k], old.frozen[k]) for k in lo if lo[k] is not None and lc[k] is not None]) if same_cells else False
    pre = old.parts + definition_time_objects()
    arrays = lambda parts: [p for p in parts if is_cell_array(p)]
    keys = [k for k in (lo or {}) if lo[k] is not None]
    own = mutable_parts(c)
    # (whether an array the source stores in two cells is ONE array in the copy, too, is not fixed by the statement: lists / schema objects must be distinct)
    own_distinct = distinct_objects([p for p in own if not is_cell_array(p)])
    nd = len(f["_shape"])
    return inv(c, "Inv(copy)") + [
        # stated for every number of fixed dimensions (the case tag carries the shape): identity of the objects, not equality
        (f"sharing:no-cell-array-of-the-copy-is-(or-is-a-view-of)-an-array-object-reachable-from-the-source[{nd}-fixed-dims]",
         lc is not None and disjoint(arrays(own), arrays(old.parts))),
        (f"sharing:no-nested-list-of-the-copy-is-a-list-object-reachable-from-the-source[{nd}-fixed-dims]",
         lc is not None and disjoint(sublists(g["_data"], nd), old.lists)),
        ("copy:same-shape", g["_shape"] == f["_shape"]),
        ("copy:same-field-names-and-units", AND(len(g["_fields"]) == len(f["_fields"]), len(g["_units"]) == len(f["_units"]),
                                                 *[str_eq(a, b) for a, b in zip(g["_fields"], f["_fields"])], *[str_eq(a, b) for a, b in zip(g["_units"], f["_units"])])),
        ("copy:same-cells-populated", same_cells),
        ("copy:cell-contents-equal", eq),
        ("sharing:copy-shares-no-mutable-object-with-the-original-or-earlier-objects", disjoint(own, pre) and own_distinct),
    ] + unchanged(o, old)


C_COPY = Contract(f"{VEC}:Vector.copy", setup=copy_setup, requires=lambda s: inv(s.self), ensures=T(copy_ensures), snapshot=lambda s: snap_vec(s.self))


# ------------------------------------------------------------------------------------------------
# index expressions (enumerated per number of fixed dimensions; integer indices are SYMBOLIC where marked "i")
# ------------------------------------------------------------------------------------------------
# spec strings:  "i" symbolic int (any value) | "3" / "-1" concrete int | ":" "0:1" "1:" "::2" "-1:" "0:0" slices |
#                "[1,0]" python list | "a[1,0]" numpy int array | "None"


def parse_index(ctx, spec, pos):
    if spec == "i":
        return ctx.fresh(f"idx{pos}", "int")
    if spec in ("None", "field", "nofield"):
        return None
    if spec.startswith("a["):
        return np.array([int(x) for x in spec[2:-1].split(",") if x.strip()], dtype=int)
    if spec.startswith("["):
        return [int(x) for x in spec[1:-1].split(",") if x.strip()]
    if ":" in spec:
        parts = [int(x) if x else None for x in spec.split(":")]
        return slice(*parts)
    return int(spec)


def positions(ctx, spec, obj, n, negatives_ok):
    """Reference semantics of one index element on an axis of length n.
    Returns (list of addressed positions | None if out of bounds, kind)."""
    if spec == "i":
        for j in range(n):
            if ctx.entails(OR(obj.t == j, obj.t == j - n) if negatives_ok else obj.t == j):
                return [j], "int"
        if ctx.entails(in_bounds_term(spec, obj, n, negatives_ok)):
            return ["?"], "int"  # in bounds, value not pinned on this path (no cell was touched)
        return None, "int"
    if spec == "None":
        return list(range(n)), "all"
    if isinstance(obj, slice):
        return list(range(*obj.indices(n))), "slice"
    if isinstance(obj, (list, np.ndarray)):
        xs = [int(x) for x in obj]
        if any(x >= n or x < (-n if negatives_ok else 0) for x in xs):
            return None, "list"
        return [x % n for x in xs], "list"
    if obj >= n or obj < (-n if negatives_ok else 0):
        return None, "int"
    return [obj % n], "int"


def in_bounds_term(spec, obj, n, negatives_ok):
    """z3 Bool: index element within bounds (symbolic for "i")."""
    lo = -n if negatives_ok else 0
    if spec == "i":
        return AND(obj.t >= lo, obj.t < n)
    if spec == "None" or isinstance(obj, slice):
        return z3.BoolVal(True)
    if isinstance(obj, (list, np.ndarray)):
        return z3.BoolVal(all(lo <= int(x) < n for x in obj))
    return z3.BoolVal(lo <= obj < n)


def addressed(ctx, specs, objs, shape, negatives_ok):
    """Row-major list of addressed source cells + per-axis position lists (None if some element is out of bounds)."""
    per_axis = []
    for sp, ob, n in zip(specs, objs, shape):
        ps, _ = positions(ctx, sp, ob, n, negatives_ok)
        if ps is None:
            return None, None
        per_axis.append(ps)
    for n in shape[len(specs):]:
        per_axis.append(list(range(n)))
    if any(len(p) == 0 for p in per_axis):
        return [], per_axis
    if any(p == ["?"] for p in per_axis):
        return None, None
    return list(itertools.product(*per_axis)), per_axis


IDX_CASES = {
    1: [((3,), c) for c in [("i",), (":",), ("0:2",), ("[2,0]",)]],
    2: [((2, 3), c) for c in [("i", "i"), ("i", ":"), (":", "i"), ("0:1", "1:"), ("::2", "::2"), ("[1,0]", "i"), ("[1,0]", "[0,2]"), ("a[1]", "a[2,0]"),
                               ("-1:", "None"), ("[5]", ":"), ("i", "[0,0]"), ("0", "0:0")]] + [((2, 2), ("1", ":")), ((1, 2), (":", ":"))],
    3: [((2, 2, 2), c) for c in [("i", "i", "i"), ("0:2", "0:2", "1"), ("1", ":", ":")]] + [((2, 3, 2), (":", ":", "0"))],
}
PARTIAL_CASES = [((2, 3), ("i",)), ((2, 3), ("0:1",)), ((2, 3), ("[1]",)), ((3,), ()), ((2, 2, 2), ("1:",))]
ARITY_CASES = [((3,), ("0", "0")), ((2, 3), ("0",)), ((2, 3), (":", ":", ":")), ((2, 2, 2), ("0", "0"))]


def idx_tag(shape, specs):
    return f"ndim={len(shape)},shape={shape_tag(shape)},idx=({' , '.join(specs)})".replace(" ", "")


def idx_setup(ctx, name, cases, mask_options=("full",), nf=2):
    ci, (shape, specs) = pick(ctx, name, cases)
    _, mask = pick(ctx, name + "_cells", list(mask_options))
    v = mk_vec(ctx, shape, nf, mask)
    objs = [parse_index(ctx, sp, k) for k, sp in enumerate(specs)]
    return NS(self=v, specs=specs, objs=objs, vshape=shape, mask=mask, case=idx_tag(shape, specs) + f",cells={mask}")


# ---- get_data


GD_CASES = IDX_CASES[1] + IDX_CASES[2] + IDX_CASES[3] + ARITY_CASES


def gd_setup(ctx):
    s = idx_setup(ctx, "gd_case", GD_CASES)
    s.varargs = tuple(s.objs)
    return s


def all_single(per_axis):
    return all(len(p) == 1 for p in per_axis)


def gd_ensures(s):
    o, old, r = s.self, s.old, s.result
    cells, per_axis = addressed(s.ctx, s.specs, s.objs, s.vshape, negatives_ok=False)
    out = []
    if cells is None or len(s.specs) != len(s.vshape):
        out.append(("returns-only-for-in-bounds-indices-of-the-right-arity", False))
    elif all_single(per_axis):
        out.append(("single-cell:returns-the-addressed-cell-itself", r is old.leaves[cells[0]]))
    else:
        ok = isinstance(r, list) and len(r) == len(cells)
        out.append(("multi-cell:returns-one-entry-per-addressed-cell", ok))
        out.append(("multi-cell:entries-are-the-addressed-cells-in-row-major-order", ok and all(a is old.leaves[c] for a, c in zip(r, cells))))
    out += unchanged(o, old) + conj("Inv-preserved", inv(o))
    return tagl(s.case, out)


def gd_index_error(s):
    if len(s.specs) != len(s.vshape):
        return False
    return NOT(AND(*[in_bounds_term(sp, ob, n, False) for sp, ob, n in zip(s.specs, s.objs, s.vshape)]))


C_GET_DATA = Contract(f"{VEC}:Vector.get_data", setup=gd_setup, requires=lambda s: inv(s.self), ensures=gd_ensures, snapshot=lambda s: snap_vec(s.self),
                      raises={ValueError: lambda s: len(s.specs) != len(s.vshape), IndexError: gd_index_error})

# ---- __getitem__ (cells, slices, fancy, field views)

GI_CASES = IDX_CASES[1] + IDX_CASES[2] + IDX_CASES[3] + PARTIAL_CASES


def gi_setup(ctx):
    s = idx_setup(ctx, "gi_case", GI_CASES + [((2, 3), ("field",)), ((2,), ("nofield",))])
    if s.specs and s.specs[0] in ("field", "nofield"):
        s.idx = s.self.fields["_fields"][1] if s.specs[0] == "field" else ctx.fresh("other_name", "str")
        s.objs = []
    else:
        s.idx = s.objs[0] if len(s.objs) == 1 else tuple(s.objs)
    return s


def describe_index(ob):
    if isinstance(ob, Sym):
        return "i"
    if ob is None:
        return "None"
    if isinstance(ob, slice):
        return ":".join("" if x is None else str(x) for x in (ob.start, ob.stop, ob.step))
    if isinstance(ob, np.ndarray):
        return "a[" + ",".join(str(int(x)) for x in ob) + "]"
    if isinstance(ob, list):
        return "[" + ",".join(str(int(x)) for x in ob) + "]"
    return str(int(ob))


def gi_prepare(s):
    """At call sites only `self` and `idx` are bound: derive the description the contract clauses are written over."""
    if hasattr(s, "specs"):
        return s
    s.vshape = tuple(s.self.fields["_shape"])
    if strlike(s.idx):
        s.specs, s.objs = ("field",), []
    else:
        objs = list(s.idx) if isinstance(s.idx, tuple) else [s.idx]
        s.specs, s.objs = tuple(describe_index(o) for o in objs), objs
    s.case = "call"
    return s


def gi_is_field(s):
    gi_prepare(s)
    return bool(s.specs) and s.specs[0] in ("field", "nofield")


def gi_result(ctx, s):
    """Call-site witness: the addressed cell, a field view, or a new Vector holding the addressed cells (fresh lists)."""
    gi_prepare(s)
    o = s.self
    f = o.fields
    if gi_is_field(s):
        for j, nm in enumerate(f["_fields"]):
            if decide(ctx, str_eq(nm, s.idx)):
                return Obj(FieldView, dict(vector=o, field_name=s.idx, field_index=j))
        raise V.OutOfSubset("field view at a call site: the field name is not decided on this path")
    cells, per_axis = addressed(ctx, s.specs, s.objs, s.vshape, negatives_ok=True)
    if cells is None:
        raise V.OutOfSubset("Vector.__getitem__ at a call site with an integer index that is not pinned on this path")
    lv = leaves_of(o)
    full_int = len(s.specs) == len(s.vshape) and all(isinstance(ob, (int, Sym)) and not isinstance(ob, bool) for ob in s.objs)
    if full_int:
        return lv[cells[0]]
    new_shape = tuple(len(p) for p in per_axis)
    data = spec_fresh_nested(new_shape, None)
    for t, c in zip(cells_of(new_shape), cells):
        tgt = data
        for i in t[:-1]:
            tgt = tgt[i]
        tgt[t[-1]] = lv[c]
    return Obj(Vector, dict(_shape=new_shape, _fields=list(f["_fields"]), _units=list(f["_units"]), _name=f["_name"] + "[view]", _data=data, _metadata={}))


def gi_ensures(s):
    gi_prepare(s)
    o, old, r = s.self, s.old, s.result
    out = []
    if gi_is_field(s):
        ok = isinstance(r, Obj) and r.cls is FieldView
        out.append(("field-view:refers-to-this-vector-and-the-named-column",
                    ok and r.fields.get("vector") is o and AND(*[implies(str_eq(nm, s.idx), B(S(r.fields.get("field_index")) == j)) for j, nm in enumerate(old.fields)])))
        return tagl(s.case, out + unchanged(o, old) + conj("Inv-preserved", inv(o)))
    cells, per_axis = addressed(s.ctx, s.specs, s.objs, s.vshape, negatives_ok=True)
    full_int = len(s.specs) == len(s.vshape) and all(isinstance(ob, (int, Sym)) and not isinstance(ob, bool) for ob in s.objs)
    if cells is None or any(len(p) == 0 for p in per_axis):
        out.append(("returns-only-for-in-bounds-non-empty-selections", False))
    elif full_int:
        out.append(("all-integer-index:returns-the-addressed-cell-itself", r is old.leaves[cells[0]]))
    else:
        ok = isinstance(r, Obj) and r.cls is Vector and r is not o
        parts = [("is-a-new-Vector", ok)]
        if ok:
            g = r.fields
            new_shape = tuple(len(p) for p in per_axis)
            parts.append(("shape", g.get("_shape") == new_shape))
            nest = nesting_ok(g.get("_data"), new_shape)
            tgt = cells_of(new_shape)
            parts.append(("cells", nest and len(tgt) == len(cells) and all(cell_at(g["_data"], t) is old.leaves[c] for t, c in zip(tgt, cells))))
            parts.append(("schema", AND(len(g["_fields"]) == len(old.fields), len(g["_units"]) == len(old.units),
                                        *[str_eq(a, b) for a, b in zip(g["_fields"], old.fields)], *[str_eq(a, b) for a, b in zip(g["_units"], old.units)])))
            parts += inv(r, "Inv(result)")
            lists_new = sublists(g.get("_data"), len(new_shape)) + [x for x in (g.get("_fields"), g.get("_units"), g.get("_metadata")) if isinstance(x, (list, dict))]
            parts.append(("own-lists", disjoint(lists_new, [p for p in old.parts if isinstance(p, (list, dict))] + definition_time_objects())))
        out += conj("slicing:returns-a-new-Vector-(Inv,own-lists,same-schema)-holding-exactly-the-addressed-cells-in-place", parts)
        out.append((f"sharing:no-nested-list-/-field-list-/-unit-list-/-metadata-of-the-result-is-an-object-reachable-from-the-source-(the-cells-are-the-source's-arrays)[{len(s.vshape)}-fixed-dims]",
                    bool(ok) and dict(parts).get("own-lists") is True))
    out += unchanged(o, old) + conj("Inv-preserved", inv(o))
    return tagl(s.case, out)


def gi_index_error(s):
    if gi_is_field(s):
        return False
    return NOT(AND(*[in_bounds_term(sp, ob, n, True) for sp, ob, n in zip(s.specs, s.objs, s.vshape)]))


def gi_value_error(s):
    """An empty selection cannot be represented (shape dimensions must be positive)."""
    if gi_is_field(s):
        return False
    c = []
    for sp, ob, n in zip(s.specs, s.objs, s.vshape):
        if isinstance(ob, slice):
            c.append(len(range(*ob.indices(n))) == 0)
        elif isinstance(ob, (list, np.ndarray)):
            c.append(len(ob) == 0)
    full_int = len(s.specs) == len(s.vshape) and all(isinstance(ob, (int, Sym)) for ob in s.objs)
    return AND(NOT(gi_index_error(s)), any(c) and not full_int)


def gi_key_error(s):
    if not gi_is_field(s):
        return False
    return AND(*[NOT(str_eq(nm, s.idx)) for nm in s.self.fields["_fields"]])


C_GETITEM = Contract(f"{VEC}:Vector.__getitem__", setup=gi_setup, ensures=gi_ensures, snapshot=lambda s: snap_vec(s.self),
                     requires=lambda s: inv(s.self) + [("at-most-one-index-per-fixed-dimension", len(gi_prepare(s).specs) <= len(s.vshape))],
                     raises={IndexError: gi_index_error, ValueError: gi_value_error, KeyError: gi_key_error}, result=gi_result,
                     inline=[f"{VEC}:_FieldView.__init__"])


# ------------------------------------------------------------------------------------------------
# assignment: set_data / __setitem__
# ------------------------------------------------------------------------------------------------
# value kinds: "arr2" 2-D array with SYMBOLIC column count | "arr1" | "arr3" | "none" (not an array) | "pylist" (nested python list)
#              a tuple of kinds = python list of such items | "notlist" = a bare array where a list is required |
#              "vec:<shape>:<mask>[:<nf>]" = another Vector (for __setitem__) with its OWN field count nf (default: the target's), i.e. the
#              right-hand side of `v[0:2] = w[2:4]` after w.add_fields(..) / w.remove_fields(..): matching AND non-matching column counts


def mk_value(ctx, kind, nf, tag="val"):
    if isinstance(kind, tuple):
        return [mk_value(ctx, k, nf, f"{tag}{i}") for i, k in enumerate(kind)]
    if kind == "none":
        return None
    if kind == "pylist":
        return [[1.0, 2.0]]
    if kind == "notlist":
        return cm.fresh_cell(ctx, tag, nf)
    if kind.startswith("vec:"):
        _, shp, mask, *own = kind.split(":")
        return mk_vec(ctx, tuple(int(x) for x in shp.split("x")), int(own[0]) if own else nf, mask, tag="w")
    cols = ctx.fresh(f"{tag}_cols", "int")
    ctx.assume(cols.t >= 0)
    return cm.fresh_cell(ctx, tag, cols, ndim=int(kind[3]))


def value_item_status(x, nf):
    """('type' | 'shape' | 'ok', condition-that-it-is-acceptable)."""
    if not is_cell_array(x):
        return "type", z3.BoolVal(False)
    if x.ndim != 2:
        return "shape", z3.BoolVal(False)
    return "ok", B(S(x.shape[1]) == nf)


def first_bad_value(items, nf):
    te, ve, earlier = [], [], []
    for x in items:
        pre = AND(*earlier) if earlier else z3.BoolVal(True)
        st, good = value_item_status(x, nf)
        if st == "type":
            te.append(pre)
        else:
            ve.append(AND(pre, NOT(good)))
        earlier.append(good)
    return (OR(*te) if te else z3.BoolVal(False)), (OR(*ve) if ve else z3.BoolVal(False))


def value_items(s):
    """The sequence of cell arrays a multi-cell assignment takes its values from (row-major), or None if `value` is not one."""
    v = s.value
    if isinstance(v, Obj) and v.cls is Vector:
        lv = leaves_of(v)
        return [lv[k] for k in cells_of(v.fields["_shape"])]
    if isinstance(v, list):
        return v
    return None


def assign_post(s, cells, per_axis, multi):
    """The addressed cells now hold the given arrays (k-th addressed cell <- k-th value, row-major); everything else untouched."""
    o, old = s.self, s.old
    lv = leaves_of(o)
    out = []
    if lv is None:
        out.append(("assign:addressed-cells-hold-the-given-arrays", False))
    elif not multi:
        out.append(("assign:addressed-cell-holds-the-given-array", lv[cells[0]] is s.value))
    else:
        items = value_items(s)
        ok = items is not None and len(items) == len(cells)
        out.append(("assign:k-th-addressed-cell-(row-major)-holds-the-k-th-given-array", ok and all(lv[c] is x for c, x in zip(cells, items))))
    out += conj("frame:schema-and-all-other-cells-untouched", same_schema(o, old) + (data_untouched(o, old, except_cells=set(cells)) if lv is not None else [("x", False)]))
    out += inv(o)
    return out


SD_CASES = (
    [((2, 3), ("i", "i"), k) for k in ("arr2", "arr1", "arr3", "none", "pylist")]
    + [((3,), ("i",), "arr2"), ((2, 2, 2), ("i", "i", "i"), "arr2"), ((2, 3), ("[1]", "0:1"), "arr2")]
    + [((2, 3), ("0:2", "1"), ("arr2", "arr2")), ((2, 3), ("1", "0:2"), ("arr2", "arr2")), ((2, 3), ("[1,0]", "[0,2]"), ("arr2",) * 4),
       ((3,), ("0:2",), ("arr2", "arr2")), ((3,), ("[2,0]",), ("arr2", "arr2")), ((2, 2, 2), ("1", ":", ":"), ("arr2",) * 4), ((2, 2, 2), (":", "0", "1"), ("arr2", "arr2")),
       ((2, 3), ("0:2", "1"), "notlist"), ((2, 3), ("0:2", "1"), ("arr2", "none")), ((2, 3), ("0:2", "1"), ("arr3", "arr2")), ((2, 3), ("0:2", "[7]"), ("arr2", "arr2"))]
    + [((2, 3), ("0",), "arr2"), ((3,), ("0", "0"), "arr2")]
)


def sd_tag(shape, specs, vk):
    return idx_tag(shape, specs) + ",value=" + ("+".join(vk) if isinstance(vk, tuple) else vk)


def sd_setup(ctx):
    _, (shape, specs, vk) = pick(ctx, "sd_case", SD_CASES)
    v = mk_vec(ctx, shape, 2, "full")
    objs = [parse_index(ctx, sp, k) for k, sp in enumerate(specs)]
    return NS(self=v, value=mk_value(ctx, vk, 2), varargs=tuple(objs), specs=specs, objs=objs, vshape=shape, vkind=vk, case=sd_tag(shape, specs, vk))


def sd_plan(s, negatives_ok=False):
    """(arity_ok, in-bounds term, per-axis position COUNTS known statically, multi?)"""
    arity_ok = len(s.specs) == len(s.vshape)
    inb = AND(*[in_bounds_term(sp, ob, n, negatives_ok) for sp, ob, n in zip(s.specs, s.objs, s.vshape)])
    counts = []
    for sp, ob, n in zip(s.specs, s.objs, s.vshape):
        if isinstance(ob, slice):
            counts.append(len(range(*ob.indices(n))))
        elif isinstance(ob, (list, np.ndarray)):
            counts.append(len(ob))
        elif sp == "None":
            counts.append(n)
        else:
            counts.append(1)
    for n in s.vshape[len(s.specs):]:
        counts.append(n)
    multi = any(c != 1 for c in counts)
    total = 1
    for c in counts:
        total *= c
    return arity_ok, inb, multi, total


def sd_errors(s):
    """Conditions for ValueError / IndexError / TypeError, in the order the checks are specified:
    arity -> bounds -> (single) type, shape | (multi) list-ness, then the first offending item."""
    F = z3.BoolVal(False)
    arity_ok, inb, multi, total = sd_plan(s)
    nf = len(s.self.fields["_fields"])
    if not arity_ok:
        return dict(ValueError=z3.BoolVal(True), IndexError=F, TypeError=F)
    if not multi:
        st, good = value_item_status(s.value, nf)
        return dict(IndexError=NOT(inb), TypeError=AND(inb, st == "type"), ValueError=AND(inb, st != "type", NOT(good)))
    if not isinstance(s.value, list):
        return dict(IndexError=NOT(inb), TypeError=inb, ValueError=F)
    te, ve = first_bad_value(s.value, nf)
    return dict(IndexError=NOT(inb), TypeError=AND(inb, te), ValueError=AND(inb, ve))


def sd_requires(s):
    arity_ok, inb, multi, total = sd_plan(s)
    r = inv(s.self)
    if arity_ok and multi and isinstance(s.value, list):
        r.append(("one-value-per-addressed-cell", len(s.value) == total))
    return r


def sd_ensures(s):
    cells, per_axis = addressed(s.ctx, s.specs, s.objs, s.vshape, negatives_ok=False)
    if cells is None or len(s.specs) != len(s.vshape):
        return tagl(s.case, [("returns-only-for-in-bounds-indices-of-the-right-arity", False)])
    return tagl(s.case, assign_post(s, cells, per_axis, multi=not all_single(per_axis)) + [("returns-None", s.result is None)])


def raise_inv(s, E):
    """Whatever was assigned before an exception passed the same validation: the invariant holds on every raising path."""
    return tagl(s.case, conj("Inv-holds-when-an-exception-escapes", inv(s.self)))


C_SET_DATA = Contract(f"{VEC}:Vector.set_data", setup=sd_setup, requires=sd_requires, ensures=sd_ensures, snapshot=lambda s: snap_vec(s.self), on_raise=raise_inv,
                      raises={ValueError: lambda s: sd_errors(s)["ValueError"], IndexError: lambda s: sd_errors(s)["IndexError"], TypeError: lambda s: sd_errors(s)["TypeError"]})

# ---- __setitem__

SI_CASES = (
    [((2, 3), ("i", "i"), k) for k in ("arr2", "arr1", "none")]
    + [((3,), ("i",), "arr2"), ((2, 2, 2), ("i", "i", "i"), "arr2")]
    + [((2, 3), ("0:2", "1"), ("arr2", "arr2")), ((2, 3), ("1", "0:2"), ("arr2", "arr2")), ((2, 3), ("[1,0]", "[0,2]"), ("arr2",) * 4),
       ((3,), ("0:2",), ("arr2", "arr2")), ((3,), ("[2,0]",), ("arr2", "arr2")), ((2, 2, 2), ("1", ":", ":"), ("arr2",) * 4), ((2, 2, 2), (":", "0", "a[1,0]"), ("arr2",) * 4),
       ((2, 3), ("0:2", "1"), ("arr2",)), ((2, 3), ("0:2", "1"), "notlist"), ((2, 3), ("0:2", "1"), ("arr2", "none")), ((2, 3), ("0:2", "1"), ("arr1", "arr2")),
       ((2, 3), ("0:2", "[7]"), ("arr2", "arr2")), ((2, 3), ("0:2", "1"), "vec:2x1:full"), ((2, 3), ("1", "0:2"), "vec:2:full"), ((2, 3), ("0:2", "1"), "vec:2:even"),
       ((2, 3), ("0:2", "1"), "vec:3:full")]
    # Vector-valued right-hand sides with matching (2) and NON-matching (1, 3) field counts, for 1..3 fixed dims, slice / fancy / partial indices
    + [((2, 3), ("0:2", "1"), f"vec:2:full:{k}") for k in (1, 3)] + [((2, 3), ("[1,0]", "[0,2]"), f"vec:2x2:full:{k}") for k in (2, 3)]
    + [((2, 3), ("0:1",), f"vec:3:full:{k}") for k in (2, 3)] + [((2, 3), ("1",), "vec:1x3:full:1")]
    + [((3,), ("0:2",), f"vec:2:full:{k}") for k in (1, 2, 3)] + [((3,), ("[2,0]",), "vec:2:full:3")]
    + [((2, 2, 2), ("1", ":", ":"), f"vec:2x2:full:{k}") for k in (1, 2)] + [((2, 2, 2), ("1:",), "vec:1x2x2:full:3"), ((2, 2, 2), (":", "0", "a[1,0]"), "vec:4:full:3")]
    + [((2, 3), ("0:2", "1"), "vec:3:full:3"), ((2, 3), ("0:2", "1"), "vec:2:even:3"), ((2, 3), ("i", "i"), "vec:1:full:2")]
    + [((2, 3), ("0",), "arr2"), ((2, 3), ("0:1",), ("arr2",)), ((2, 3), ("0:1",), ("arr2",) * 3), ((2, 3), ("[1]", "0"), "arr2")]
    + [((2, 3), ("field",), "flat"), ((2, 1, 2), ("field",), "flat"), ((3,), ("field",), "flat2d"), ((2,), ("nofield",), "flat")]
    # `v[f] = v[f]`, `v[f] = v[g]` and the write-back that ends every augmented field operation (`v[f] += c`): the value is a field view
    # of the same vector; cells of every element kind
    + [((2, 3), ("field",), f"view-self:{dt}") for dt in CELL_DTYPES] + [((3,), ("field",), "view-self:int64"), ((2, 1, 2), ("field",), "view-other:complex128")]
)


def si_setup(ctx):
    _, (shape, specs, vk) = pick(ctx, "si_case", SI_CASES)
    if isinstance(vk, str) and vk.startswith("view"):
        kind, dt = vk.split(":")
        v = mk_vec(ctx, shape, 2, "full", dtype=dt)
        jj = 1 if kind == "view-self" else 0
        value = Obj(FieldView, dict(vector=v, field_name=v.fields["_fields"][jj], field_index=jj))
        return NS(self=v, idx=v.fields["_fields"][1], value=value, specs=specs, objs=[], vshape=shape, vkind=vk, case=sd_tag(shape, specs, vk))
    v = mk_vec(ctx, shape, 2, "full")
    if specs[0] in ("field", "nofield"):
        n = ctx.fresh("values_len", "int")
        ctx.assume(n.t >= 0)
        value = ctx.fresh_arr("values", (n,) if vk == "flat" else (n, 1), "real")
        value.as_type = np.ndarray
        idx = v.fields["_fields"][1] if specs[0] == "field" else ctx.fresh("other_name", "str")
        return NS(self=v, idx=idx, value=value, specs=specs, objs=[], vshape=shape, vkind=vk, case=sd_tag(shape, specs, vk))
    objs = [parse_index(ctx, sp, k) for k, sp in enumerate(specs)]
    idx = objs[0] if len(objs) == 1 else tuple(objs)
    return NS(self=v, idx=idx, value=mk_value(ctx, vk, 2), specs=specs, objs=objs, vshape=shape, vkind=vk, case=sd_tag(shape, specs, vk))


def si_is_field(s):
    return bool(s.specs) and s.specs[0] in ("field", "nofield")


def si_field_errors(s):
    F = z3.BoolVal(False)
    known = OR(*[str_eq(nm, s.idx) for nm in s.self.fields["_fields"]])
    _, tot = offsets(populated_in_order(s.old.leaves, s.vshape))
    if is_view(s.value):
        bad = z3.BoolVal(False)  # a column of the same vector has exactly the expected length
    else:
        bad = z3.BoolVal(True) if s.value.ndim != 1 else B(S(s.value.shape[0]) != S(tot))
    return dict(KeyError=NOT(known), ValueError=AND(known, bad), TypeError=F, IndexError=F)


def si_multi(s):
    """multi-cell mode of __setitem__: a slice / None, an index list or array with more than one element, or fewer indices than dimensions."""
    return len(s.specs) < len(s.vshape) or any(isinstance(ob, slice) or sp == "None" or (isinstance(ob, (list, np.ndarray)) and len(ob) > 1) for sp, ob in zip(s.specs, s.objs))


def si_errors(s):
    """multi-cell (slice / several positions): the value must be a list (or a Vector whose cells are all populated) with one
    array per addressed cell; bounds: python semantics for a plain cell index, [0, n) for slices / lists (as documented)."""
    F, T = z3.BoolVal(False), z3.BoolVal(True)
    if si_is_field(s):
        return si_field_errors(s)
    _, _, _, total = sd_plan(s)
    multi = si_multi(s)
    inb = AND(*[in_bounds_term(sp, ob, n, not multi) for sp, ob, n in zip(s.specs, s.objs, s.vshape)])
    nf = len(s.self.fields["_fields"])
    if not multi:
        st, good = value_item_status(s.value, nf)
        # validation of the value precedes the store
        return dict(TypeError=B(st == "type"), ValueError=AND(st != "type", NOT(good)), IndexError=AND(st != "type", good, NOT(inb)))
    items = value_items(s)
    if items is None:
        return dict(TypeError=T, ValueError=F, IndexError=F)
    if isinstance(s.value, Obj) and any(x is None for x in items):
        return dict(TypeError=T, ValueError=F, IndexError=F)
    te, ve = first_bad_value(items, nf)
    wrong_len = len(items) != total
    return dict(IndexError=NOT(inb), ValueError=AND(inb, OR(wrong_len, ve)) if not wrong_len else inb, TypeError=AND(inb, te) if not wrong_len else F)


def si_ensures(s):
    if si_is_field(s):
        old = s.old
        j = [decide(s.ctx, str_eq(nm, s.idx)) for nm in old.fields].index(True)
        offs, tot = offsets(populated_in_order(old.frozen, old.shape))
        vals = s.old_values
        pop = populated_in_order(old.frozen, old.shape)
        return tagl(s.case, column_update_post(s.self, old, j, lambda n, k, was, r: vals.fn(lift(offs[n]) + r), given=values_agree_on_shared_cells(s, old, vals, pop, offs))
                    + writeback_clauses(s.self, old, j, s.value))
    multi = si_multi(s)
    cells, per_axis = addressed(s.ctx, s.specs, s.objs, s.vshape, negatives_ok=not multi)
    if cells is None:
        return tagl(s.case, [("returns-only-for-in-bounds-indices", False)])
    out = assign_post(s, cells, per_axis, multi=multi)
    if isinstance(s.value, Obj):
        out += conj("frame:source-vector-untouched", same_schema(s.value, s.old.src) + data_untouched(s.value, s.old.src))
    return tagl(s.case, out)


def si_snapshot(s):
    o = snap_vec(s.self)
    o.src = snap_vec(s.value) if isinstance(s.value, Obj) and s.value.cls is Vector else None
    if si_is_field(s):
        s.old_values = spec_column(o, s.value.fields["field_index"]) if is_view(s.value) else cm.freeze(s.value)
    else:
        s.old_values = None
    return o


C_SETITEM = Contract(f"{VEC}:Vector.__setitem__", setup=si_setup, ensures=si_ensures, snapshot=si_snapshot, on_raise=raise_inv,
                     requires=lambda s: inv(s.self) + (inv(s.value, "Inv(value)") if isinstance(s.value, Obj) and s.value.cls is Vector else []) + [("at-most-one-index-per-fixed-dimension", len(s.specs) <= len(s.vshape))],
                     raises={ValueError: lambda s: si_errors(s)["ValueError"], IndexError: lambda s: si_errors(s)["IndexError"], TypeError: lambda s: si_errors(s)["TypeError"],
                             KeyError: lambda s: si_errors(s).get("KeyError", False)},
                     inline=[f"{VEC}:_FieldView.__init__"])


# The invariant clauses of the mutators that take arrays / lists / Vectors from the caller are proved BEFORE (hence without) the
# "no exception was due" facts: if a validation is skipped on some path, `post:Inv:every-populated-cell-is-2d-with-one-column-per-field`
# fails by name there, in addition to `raises:ValueError:whenever`.
for _c in (C_SET_DATA, C_SETITEM):
    _c.posts_first = True

# ------------------------------------------------------------------------------------------------
# add_fields / remove_fields
# ------------------------------------------------------------------------------------------------

FIELD_VECS = [((2,), "even", 1), ((2,), "unset", 2), ((2, 2), "even", 2), ((2, 2), "full", 1), ((1, 2, 2), "odd", 2)]


def decide(ctx, t):
    t = B(t)
    if ctx.entails(t):
        return True
    if ctx.entails(z3.Not(t)):
        return False
    return None


def names_arg(ctx, kind, base):
    """'str' -> one symbolic name; 'list1' / 'list2' / 'tuple2' -> sequences of symbolic names (NOT assumed distinct)."""
    if kind == "str":
        return ctx.fresh(base, "str"), None
    n = int(kind[-1])
    xs = [ctx.fresh(f"{base}{i}", "str") for i in range(n)]
    return (xs if kind.startswith("list") else tuple(xs)), xs


def names_list(x):
    return [x] if strlike(x) else list(x)


def af_setup(ctx):
    _, (shape, mask, nf) = pick(ctx, "af_vec", FIELD_VECS)
    _, kind = pick(ctx, "af_arg", ["str", "list1", "list2", "tuple2"])
    new_fields, _ = names_arg(ctx, kind, "new_name")
    return NS(self=mk_vec(ctx, shape, nf, mask), new_fields=new_fields, case=f"shape={shape_tag(shape)},cells={mask},nf={nf},arg={kind}")


def af_value_error(s):
    new = names_list(s.new_fields)
    old = s.self.fields["_fields"] if s.mode == "apply" else s.old.fields
    clash = OR(*[str_eq(a, b) for a in new for b in old]) if new and old else z3.BoolVal(False)
    return OR(clash, NOT(all_distinct(new)))


def cells_relation(o, old, rel):
    """AND over all cells: unset stays unset; populated stays populated and rel(new_array, old_frozen_array) holds."""
    lv = leaves_of(o)
    if lv is None or set(lv) != set(old.leaves):
        return z3.BoolVal(False)
    cs = []
    for k, was in old.leaves.items():
        now = lv[k]
        if was is None:
            cs.append(z3.BoolVal(now is None))
        elif not is_cell_array(now) or now.ndim != 2:
            cs.append(z3.BoolVal(False))
        else:
            cs.append(rel(now, old.frozen[k]))
    return AND(*cs) if cs else z3.BoolVal(True)


def af_ensures(s):
    o, old = s.self, s.old
    f = o.fields
    new = names_list(s.new_fields)
    nf0, k = len(old.fields), len(new)
    r, c = I("r"), I("c")

    def rel(now, was):
        inr = AND(r >= 0, r < lift(was.shape[0]), c >= 0, c < nf0 + k)
        return AND(B(S(now.shape[0]) == S(was.shape[0])), B(S(now.shape[1]) == nf0 + k),
                   forall([r, c], implies(inr, lift(now.fn(r, c)) == z3.If(c < nf0, lift(was.fn(r, c)), z3.RealVal(0)))))

    return inv(o) + [
        ("fields-are-the-old-names-followed-by-the-new-ones", AND(len(f["_fields"]) == nf0 + k, *[str_eq(a, b) for a, b in zip(f["_fields"], old.fields + new)])),
        ("units-are-the-old-units-followed-by-'none'", AND(len(f["_units"]) == nf0 + k, *[str_eq(a, b) for a, b in zip(f["_units"], old.units + ["none"] * k)])),
        ("cells:same-rows,-old-columns-kept,-new-columns-zero,-unset-stays-unset", cells_relation(o, old, rel)),
        ("frame:shape-name-metadata-unchanged", f["_shape"] == old.shape and f["_name"] == old.name and f["_metadata"] is old.metadata),
        ("frame:old-cell-arrays-not-written", all((v.writes if isinstance(v, SymArr) else 0) == old.writes[k2] for k2, v in old.leaves.items())),
        fresh_cells_clause(o, old),
    ]


def fresh_cells_clause(o, old):
    """The widened / pruned cells are NEW arrays: no array object (or view of one) that was reachable from the vector before -
    another vector holding the old cells (`w = v[0:2]`) is not affected through them."""
    arrays = lambda parts: [p for p in parts if is_cell_array(p)]
    return ("sharing:no-cell-array-of-the-vector-is-(or-is-a-view-of)-an-array-object-it-held-before", disjoint(arrays(mutable_parts(o)), arrays(old.parts)))


def raise_unchanged(s, E):
    return tagl(s.case, conj("vector-unchanged-when-an-exception-escapes", same_schema(s.self, s.old) + data_untouched(s.self, s.old)))


C_ADD_FIELDS = Contract(f"{VEC}:Vector.add_fields", setup=af_setup, requires=lambda s: inv(s.self), ensures=T(af_ensures), snapshot=lambda s: snap_vec(s.self),
                        raises={ValueError: af_value_error}, on_raise=raise_unchanged)


def rf_setup(ctx):
    _, (shape, mask, nf) = pick(ctx, "rf_vec", FIELD_VECS + [((2,), "full", 3)])
    _, kind = pick(ctx, "rf_arg", ["str", "list1", "list2"])
    rem, _ = names_arg(ctx, kind, "rem_name")
    return NS(self=mk_vec(ctx, shape, nf, mask), fields_to_remove=rem, case=f"shape={shape_tag(shape)},cells={mask},nf={nf},arg={kind}")


def rf_ensures(s):
    o, old, ctx = s.self, s.old, s.ctx
    f = o.fields
    rem = names_list(s.fields_to_remove)
    removed = [decide(ctx, OR(*[str_eq(nm, x) for x in rem])) for nm in old.fields]
    if any(d is None for d in removed):
        return [("which-fields-are-removed-is-decided-on-every-path", False)]
    keep = [i for i, d in enumerate(removed) if not d]
    r, c = I("r"), I("c")

    def rel(now, was):
        inr = AND(r >= 0, r < lift(was.shape[0]))
        cols = [forall([r], implies(inr, lift(now.fn(r, z3.IntVal(j))) == lift(was.fn(r, z3.IntVal(i))))) for j, i in enumerate(keep)]
        return AND(B(S(now.shape[0]) == S(was.shape[0])), B(S(now.shape[1]) == len(keep)), *cols)

    out = conj("Inv-preserved", inv(o)) + [
        ("fields-are-the-remaining-names-in-order", AND(len(f["_fields"]) == len(keep), *[str_eq(a, old.fields[i]) for a, i in zip(f["_fields"], keep)])),
        ("units-are-the-remaining-units-in-order", AND(len(f["_units"]) == len(keep), *[str_eq(a, old.units[i]) for a, i in zip(f["_units"], keep)])),
        ("cells:same-rows,-remaining-columns-kept-in-order,-unset-stays-unset", cells_relation(o, old, rel)),
        ("frame:shape-name-metadata-unchanged", f["_shape"] == old.shape and f["_name"] == old.name and f["_metadata"] is old.metadata),
        ("frame:old-cell-arrays-not-written", all((v.writes if isinstance(v, SymArr) else 0) == old.writes[k2] for k2, v in old.leaves.items())),
    ]
    if len(keep) == len(old.fields):
        out += conj("nothing-to-remove:vector-unchanged", same_schema(o, old) + data_untouched(o, old))
    else:
        out.append(fresh_cells_clause(o, old))
    return out


C_REMOVE_FIELDS = Contract(f"{VEC}:Vector.remove_fields", setup=rf_setup, requires=lambda s: inv(s.self), ensures=T(rf_ensures), snapshot=lambda s: snap_vec(s.self))

# ------------------------------------------------------------------------------------------------
# flatten / field views
# ------------------------------------------------------------------------------------------------

FLAT_VECS = [((1,), "full", 2), ((3,), "first", 2), ((2, 2), "first", 1), ((2, 1, 2), "first", 2), ((3,), "even", 2), ((3,), "unset", 1), ((2, 2), "odd", 2), ((2, 3), "full", 1), ((2, 1, 2), "even", 2), ((2, 2, 2), "odd", 1),
             ((3,), "alias:full", 2), ((2, 2), "alias:full", 1)]  # one array object in two cells, a populated cell after the second occurrence


def populated_in_order(leaves, shape):
    """[(cell index, array)] of the populated cells in row-major order."""
    return [(k, leaves[k]) for k in cells_of(shape) if leaves[k] is not None]


def offsets(pop):
    offs, tot = [], 0
    for _, a in pop:
        offs.append(tot)
        tot = tot + a.shape[0]
    return offs, tot


def result_is_new_array(r, old):
    return is_cell_array(r) and disjoint([r] + ([r.base] if isinstance(r, SymArr) else []), [p for p in old.parts if is_cell_array(p)])


def vflat_setup(ctx):
    _, (shape, mask, nf) = pick(ctx, "vflat_vec", FLAT_VECS)
    return NS(self=mk_vec(ctx, shape, nf, mask), case=f"shape={shape_tag(shape)},cells={mask},nf={nf}")


def vflat_ensures(s):
    o, old, res = s.self, s.old, s.result
    nf = len(old.fields)
    pop = populated_in_order(old.frozen, old.shape)
    offs, tot = offsets(pop)
    ok = is_cell_array(res) and res.ndim == 2
    out = [("result-is-a-new-2d-array", ok and result_is_new_array(res, old))]
    if ok:
        out.append(("one-column-per-field", B(S(res.shape[1]) == nf)))
        out.append(("row-count-is-the-total-number-of-rows", B(S(res.shape[0]) == S(tot))))
        r, c = I("r"), I("c")
        out.append(("rows-are-the-row-major-concatenation-of-the-populated-cells",
                    AND(*[forall([r, c], implies(AND(r >= 0, r < lift(a.shape[0]), c >= 0, c < nf), lift(res.fn(lift(off) + r, c)) == lift(a.fn(r, c)))) for (k, a), off in zip(pop, offs)])
                    if isinstance(res, SymArr) else len(pop) == 0 or all(V._dim_lit(a.shape[0]) == 0 for _, a in pop)))
    return out + unchanged(o, old)


C_VFLATTEN = Contract(f"{VEC}:Vector.flatten", setup=vflat_setup, requires=lambda s: inv(s.self), ensures=T(vflat_ensures), snapshot=lambda s: snap_vec(s.self))


def mk_view(ctx, name, vecs=FLAT_VECS, dtypes=None, dtype=None):
    _, (shape, mask, nf) = pick(ctx, name + "_vec", vecs)
    _, j = pick(ctx, name + "_col", list(range(nf)))
    if dtypes:
        _, dtype = pick(ctx, name + "_dtype", list(dtypes))
    v = mk_vec(ctx, shape, nf, mask, dtype=dtype)
    fv = Obj(FieldView, dict(vector=v, field_name=v.fields["_fields"][j], field_index=j))
    return fv, f"shape={shape_tag(shape)},cells={mask},nf={nf},col={j}" + (f",dtype={dtype}" if dtype else "")


def cells_dtype(leaves):
    """The common tracked storage dtype of the populated cells (None: no populated cell / not tracked / mixed)."""
    dts = {cm.np_dtype(a) for a in leaves.values() if isinstance(a, SymArr)}
    return next(iter(dts)) if len(dts) == 1 else None


def dtype_of(arr):
    return cm.np_dtype(arr) if isinstance(arr, SymArr) else getattr(arr, "dtype", None)


def spec_column(old, j):
    """Specification value: the row-major concatenation of column j over the populated cells (old contents), as an array."""
    pop = populated_in_order(old.frozen, old.shape)
    cols = [cm.ndarray((a.shape[0],), (lambda r, _a=a: _a.fn(r, z3.IntVal(j))), dtype=cm.np_dtype(a)) for _, a in pop]
    return cm.concat_rows(cols) if cols else np.empty((0,), dtype=float)


def view_requires(s):
    fv = s.self
    v = fv.fields["vector"]
    j = fv.fields["field_index"]
    # NO distinctness precondition: one array object may sit in several cells (`v[2:4, 1] = v[1:3, 1]` stores the given objects)
    return inv(v) + [("view-addresses-an-existing-column", isinstance(j, int) and 0 <= j < len(v.fields["_fields"]))]


def aliased_positions(leaves, shape):
    """[(n, m)] n < m: the n-th and m-th populated cells (row-major) hold the SAME array object."""
    pop = populated_in_order(leaves, shape)
    return [(n, m) for n in range(len(pop)) for m in range(n + 1, len(pop)) if pop[n][1] is pop[m][1]]


def fvflat_setup(ctx):
    fv, case = mk_view(ctx, "fvflat", dtypes=CELL_DTYPES)
    return NS(self=fv, case=case)


def fvflat_ensures(s):
    v = s.self.fields["vector"]
    j = s.self.fields["field_index"]
    old, res = s.old, s.result
    pop = populated_in_order(old.frozen, old.shape)
    offs, tot = offsets(pop)
    ok = is_cell_array(res) and res.ndim == 1
    out = [("result-is-a-new-1d-array", ok and result_is_new_array(res, old))]
    if ok:
        out.append(("length-is-the-total-number-of-rows", B(S(res.shape[0]) == S(tot))))
        r = I("r")
        out.append(("values-are-the-row-major-concatenation-of-that-column-over-the-populated-cells",
                    AND(*[forall([r], implies(AND(r >= 0, r < lift(a.shape[0])), lift(res.fn(lift(off) + r)) == lift(a.fn(r, z3.IntVal(j))))) for (k, a), off in zip(pop, offs)])
                    if isinstance(res, SymArr) else len(pop) == 0 or all(V._dim_lit(a.shape[0]) == 0 for _, a in pop)))
        dt = cells_dtype(old.leaves)
        if dt is not None:
            out.append(("element-kind:dtype-is-the-dtype-of-the-cells", dtype_of(res) == dt))
    return out + unchanged(v, old)


def fvflat_result(ctx, s):
    v = s.self.fields["vector"]
    lv = leaves_of(v)
    pop = populated_in_order(lv, v.fields["_shape"])
    if not pop:
        return np.empty((0,), dtype=float)
    _, tot = offsets(pop)
    a = ctx.fresh_arr("flat", (tot,), "real")
    a.as_type = np.ndarray
    return cm.tag(a, cells_dtype(lv))


C_FV_FLATTEN = Contract(f"{VEC}:_FieldView.flatten", setup=fvflat_setup, requires=view_requires, ensures=T(fvflat_ensures), result=fvflat_result,
                        snapshot=lambda s: snap_vec(s.self.fields["vector"]))


# ---- the array form of a field view: np.asarray(view) / what `v[field] = view` and every augmented field operation write back


class InlinedAtCallSites(Contract):
    """Verified against its contract like any other function; at call sites the (one-line) body is interpreted in place, so a
    caller's postcondition does not rest on this contract (a defect here ALSO fails the callers' clauses by name)."""

    def apply(self, interp, args, kwargs):
        interp.ctx.ghost.setdefault("inlined", set()).add(self.func)
        return interp.call_closure(interp.closure_of(self.real), args, kwargs)


def fvarr_setup(ctx):
    fv, case = mk_view(ctx, "fvarr", dtypes=CELL_DTYPES)
    return NS(self=fv, case=case)


C_FV_ARRAY = InlinedAtCallSites(f"{VEC}:_FieldView.__array__", setup=fvarr_setup, requires=view_requires,
                                ensures=T(lambda s: [("array-form-is-flatten():" + lab, t) for lab, t in fvflat_ensures(s)]),
                                snapshot=lambda s: snap_vec(s.self.fields["vector"]))


# ---- in-place column updates: set_flattened, _apply_op and the arithmetic operators


def column_update_post(v, old, j, new_value, given=True, unspecified=()):
    """Every populated cell is the SAME array object with the same shape; column j now holds new_value(cell k, row r);
    every other column is unchanged; lists, unset cells and the schema are untouched.
    given: antecedent of the column clause (values that agree on positions holding one array); unspecified: populated positions
    (ordinals) whose column j is left open (how often an update reaches an array stored twice is not fixed by the statement)."""
    lv = leaves_of(v)
    if lv is None:
        return [("column-update", False)]
    r, c = I("r"), I("c")
    pop = populated_in_order(old.frozen, old.shape)
    same_objs = v.fields["_data"] is old.data and all(lv[k] is old.leaves[k] for k in lv)
    cs_col, cs_rest = [], []
    for n, (k, was) in enumerate(pop):
        now = lv[k]
        if not (isinstance(now, SymArr) and now.ndim == 2):
            return [("column-update", False)]
        inr = AND(r >= 0, r < lift(was.shape[0]))
        cs_col.append(AND(B(S(now.shape[0]) == S(was.shape[0])), B(S(now.shape[1]) == S(was.shape[1])),
                          z3.BoolVal(True) if n in unspecified else forall([r], implies(inr, lift(now.fn(r, z3.IntVal(j))) == lift(new_value(n, k, was, r))))))
        cs_rest.append(forall([r, c], implies(AND(inr, c >= 0, c < lift(was.shape[1]), c != j), lift(now.fn(r, c)) == lift(was.fn(r, c)))))
    return [("in-place:same-lists-and-same-cell-objects", same_objs),
            ("column-holds-the-new-values", (AND(*cs_col) if given is True else implies(B(given), AND(*cs_col))) if cs_col else z3.BoolVal(True)),
            ("other-columns-unchanged", AND(*cs_rest) if cs_rest else z3.BoolVal(True))] + conj("frame:schema-unchanged", same_schema(v, old))


def havoc_cells(ctx, v):
    """Call-site frame of an in-place column update: the contents of every populated cell (same objects, same shapes)."""
    for k, a in (leaves_of(v) or {}).items():
        if isinstance(a, SymArr):
            f = ctx.fresh_arr("cell_after", a.shape, "real")
            a.fn = f.fn
            a.writes += 1


VIEW_VECS = [((1,), "full", 2), ((3,), "first", 2), ((2, 2), "odd", 2), ((2, 1, 2), "even", 2), ((2, 3), "full", 1), ((3,), "alias:full", 2), ((2, 2), "alias:full", 2), ((2, 1, 2), "alias:full", 1)]
SETFLAT_VALUES = ["vec1", "vec2"] + [f"view-self:{dt}" for dt in CELL_DTYPES] + ["view-other:int64", "view-other:float64"]


def is_view(x):
    return isinstance(x, Obj) and x.cls is FieldView


def sf_setup(ctx):
    _, vk = pick(ctx, "sf_values", SETFLAT_VALUES)
    if vk.startswith("view"):
        # `v[f] = v[f]` / `v[f] = v[g]` / the write-back of `v[f] += c`: the values are a field view of the SAME vector
        kind, dt = vk.split(":")
        fv, case = mk_view(ctx, "sf", vecs=VIEW_VECS, dtype=dt)
        v, j = fv.fields["vector"], fv.fields["field_index"]
        nf = len(v.fields["_fields"])
        jj = j if kind == "view-self" else (j + 1) % nf
        values = Obj(FieldView, dict(vector=v, field_name=v.fields["_fields"][jj], field_index=jj))
        return NS(self=fv, values=values, case=case.replace(f",dtype={dt}", "") + f",values={vk}")
    fv, case = mk_view(ctx, "sf")
    v0 = fv.fields["vector"]
    if vk == "vec1" and aliased_positions(leaves_of(v0), v0.fields["_shape"]):
        # one array in two cells: the values are ANY sequence that can be a flattened field of this vector, i.e. one that agrees
        # on the positions holding the same array (built piecewise, the shared positions from one piece)
        pieces = {}
        for k, a in populated_in_order(leaves_of(v0), v0.fields["_shape"]):
            if id(a) not in pieces:
                pieces[id(a)] = ctx.fresh_arr("piece_" + "_".join(map(str, k)), (a.shape[0],), "real")
        values = cm.concat_rows([pieces[id(a)] for _, a in populated_in_order(leaves_of(v0), v0.fields["_shape"])])
        values.as_type = np.ndarray
        values.alias_consistent = True
        return NS(self=fv, values=values, case=case + f",values={vk}")
    n = ctx.fresh("values_len", "int")
    ctx.assume(n.t >= 0)
    if vk == "vec1":
        values = ctx.fresh_arr("values", (n,), "real")
    else:
        values = ctx.fresh_arr("values", (n, 1), "real")
    values.as_type = np.ndarray
    return NS(self=fv, values=values, case=case + f",values={vk}")


def sf_total(s):
    v = s.self.fields["vector"]
    lv = s.old.leaves if s.mode == "verify" else leaves_of(v)
    _, tot = offsets(populated_in_order(lv, v.fields["_shape"]))
    return tot


def sf_value_error(s):
    vals = s.values
    if is_view(vals):
        if vals.fields["vector"] is s.self.fields["vector"]:
            return False  # a column of the same vector has exactly the expected length
        _, other = offsets(populated_in_order(leaves_of(vals.fields["vector"]), vals.fields["vector"].fields["_shape"]))
        return B(S(other) != S(sf_total(s)))
    if not is_cell_array(vals):
        return False
    if vals.ndim != 1:
        return True
    return B(S(vals.shape[0]) != S(sf_total(s)))


def sf_ensures(s):
    v = s.self.fields["vector"]
    j = s.self.fields["field_index"]
    old = s.old
    pop = populated_in_order(old.frozen, old.shape)
    offs, tot = offsets(pop)
    vals = s.old_values
    out = column_update_post(v, old, j, lambda n, k, was, r: vals.fn(lift(offs[n]) + r), given=values_agree_on_shared_cells(s, old, vals, pop, offs)) + [("returns-None", s.result is None)]
    return out + writeback_clauses(v, old, j, s.values)


def values_agree_on_shared_cells(s, old, vals, pop, offs):
    """True when no array is stored twice or the values are a flattened field of this very vector (they agree by construction);
    otherwise the hypothesis `values[off(n) + r] == values[off(m) + r]` for positions n, m holding one array."""
    pairs = aliased_positions(old.leaves, old.shape)
    vs = getattr(s, "values", None) if hasattr(s, "values") else getattr(s, "value", None)
    if not pairs or getattr(vs, "alias_consistent", False) or (is_view(vs) and vs.fields["vector"] is s.self.fields.get("vector", s.self)):
        return True
    r = I("r")
    return AND(*[forall([r], implies(AND(r >= 0, r < lift(pop[n][1].shape[0])), lift(vals.fn(lift(offs[n]) + r)) == lift(vals.fn(lift(offs[m]) + r)))) for n, m in pairs])


def writeback_clauses(v, old, j, values):
    """Element kind: an in-place column update never changes the dtype of a cell; writing a field back to itself restores the data exactly."""
    lv = leaves_of(v) or {}
    out = [("element-kind:cell-dtypes-unchanged", all(dtype_of(lv.get(k)) == dt for k, dt in old.dtypes.items()))]
    if is_view(values) and values.fields["vector"] is v and values.fields["field_index"] == j:
        pop = populated_in_order(old.frozen, old.shape)
        out.append(("writing-a-field-back-to-itself-restores-the-data-exactly",
                    AND(*[arrays_equal(lv[k], was) if isinstance(lv.get(k), SymArr) else z3.BoolVal(False) for k, was in pop]) if pop else z3.BoolVal(True)))
    return out


def sf_snapshot(s):
    o = snap_vec(s.self.fields["vector"])
    if is_view(s.values):
        # the values a view stands for: the row-major concatenation of ITS column at the time of the call
        src = o if s.values.fields["vector"] is s.self.fields["vector"] else snap_vec(s.values.fields["vector"])
        s.old_values = spec_column(src, s.values.fields["field_index"])
    else:
        s.old_values = cm.freeze(s.values) if isinstance(s.values, SymArr) else s.values
    return o


C_FV_SETFLAT = Contract(f"{VEC}:_FieldView.set_flattened", setup=sf_setup, ensures=T(sf_ensures), snapshot=sf_snapshot,
                        requires=lambda s: view_requires(s) + [("values-is-an-array-or-a-field-view", is_cell_array(s.values) or is_view(s.values))]
                        + (inv(s.values.fields["vector"], "Inv(values.vector)") if is_view(s.values) and s.values.fields["vector"] is not s.self.fields["vector"] else []),
                        modifies=lambda ctx, s: havoc_cells(ctx, s.self.fields["vector"]),
                        raises={ValueError: sf_value_error},
                        on_raise=lambda s, E: tagl(s.case, conj("vector-unchanged-when-an-exception-escapes", same_schema(s.self.fields["vector"], s.old) + data_untouched(s.self.fields["vector"], s.old))))


def abstract_op(ctx):
    """An arbitrary elementwise function x -> g(x) on 1-D arrays (uninterpreted g)."""
    g = z3.Function(ctx.fresh_name("op"), z3.RealSort(), z3.RealSort())

    def op(x):
        return V.elementwise(lambda e: Sym(g(lift(e))), x)

    op._sym_ok = True
    return op


def ao_setup(ctx):
    fv, case = mk_view(ctx, "ao")
    return NS(self=fv, op=abstract_op(ctx), case=case)


def op_column(s, was, j):
    """op applied to column j of the OLD contents of a cell (a 1-D array)."""
    col = cm.ndarray((was.shape[0],), lambda r, _w=was: _w.fn(r, z3.IntVal(j)))
    return s.op(col)


def ao_ensures(s):
    v = s.self.fields["vector"]
    j = s.self.fields["field_index"]
    old = s.old
    cache = {}

    def new_value(n, k, was, r):
        if k not in cache:
            cache[k] = op_column(s, was, j)
        res = cache[k]
        return res.fn(r) if isinstance(res, SymArr) and res.ndim == 1 else (res.fn() if isinstance(res, SymArr) else res)

    return column_update_post(v, old, j, new_value, unspecified=shared_ordinals(old)) + [("returns-None", s.result is None)]


def shared_ordinals(old):
    return {x for pr in aliased_positions(old.leaves, old.shape) for x in pr}


C_FV_APPLY = Contract(f"{VEC}:_FieldView._apply_op", setup=ao_setup, requires=view_requires, ensures=T(ao_ensures),
                      snapshot=lambda s: snap_vec(s.self.fields["vector"]), modifies=lambda ctx, s: havoc_cells(ctx, s.self.fields["vector"]))

ARITH = {"__iadd__": lambda x, y: x + y, "__isub__": lambda x, y: x - y, "__imul__": lambda x, y: x * y, "__itruediv__": lambda x, y: x / y,
         "__ifloordiv__": lambda x, y: x // y, "__imod__": lambda x, y: x % y, "__ipow__": lambda x, y: x ** y}
ARITH_VECS = [((2,), "even", 2), ((2, 2), "full", 1), ((1, 2, 2), "odd", 2), ((3,), "alias:full", 2)]


def arith_contract(name):
    f = ARITH[name]

    def setup(ctx):
        fv, case = mk_view(ctx, "ar", ARITH_VECS)
        return NS(self=fv, other=ctx.fresh("other", "real"), case=case)

    def ensures(s):
        v = s.self.fields["vector"]
        j = s.self.fields["field_index"]
        return column_update_post(v, s.old, j, lambda n, k, was, r: f(S(was.fn(r, z3.IntVal(j))), s.other), unspecified=shared_ordinals(s.old)) + [("returns-the-view-itself", s.result is s.self)]

    return Contract(f"{VEC}:_FieldView.{name}", setup=setup, requires=view_requires, ensures=T(ensures), snapshot=lambda s: snap_vec(s.self.fields["vector"]))


C_ARITH = [arith_contract(n) for n in ARITH]


# ---- _FieldView.__getitem__ (through the contract of Vector.__getitem__)

FVGI_CASES = [((2, 3), ("1", "1")), ((2, 3), ("0", "2")), ((2, 3), ("-1", "-2")), ((2, 3), ("0", "1")), ((2, 3), ("0:2", "1")), ((2, 3), ("1",)), ((2, 3), ("[1,0]", "::2")), ((2, 3), ("5", "0")), ((2, 3), ("0", "0:0"))]


def fvgi_setup(ctx):
    _, (shape, specs) = pick(ctx, "fvgi_case", FVGI_CASES)
    _, j = pick(ctx, "fvgi_col", [0, 1])
    v = mk_vec(ctx, shape, 2, "even")
    fv = Obj(FieldView, dict(vector=v, field_name=v.fields["_fields"][j], field_index=j))
    objs = [parse_index(ctx, sp, k) for k, sp in enumerate(specs)]
    return NS(self=fv, idx=objs[0] if len(objs) == 1 else tuple(objs), specs=specs, objs=objs, vshape=shape, col=j, case=idx_tag(shape, specs) + f",col={j}")


def fvgi_ensures(s):
    v, old, r, j = s.self.fields["vector"], s.old, s.result, s.col
    cells, per_axis = addressed(s.ctx, s.specs, s.objs, s.vshape, negatives_ok=True)
    out = []
    full_int = len(s.specs) == len(s.vshape) and all(isinstance(ob, int) for ob in s.objs)
    if full_int:
        cell = old.frozen[cells[0]]
        if cell is None:
            out.append(("unset-cell:returns-None", r is None))
        else:
            ok = isinstance(r, SymArr) and r.ndim == 1
            q = I("q")
            out.append(("cell:returns-that-column-of-the-addressed-cell",
                        AND(B(S(r.shape[0]) == S(cell.shape[0])), forall([q], implies(AND(q >= 0, q < lift(cell.shape[0])), lift(r.fn(q)) == lift(cell.fn(q, z3.IntVal(j)))))) if ok else False))
    else:
        ok = isinstance(r, Obj) and r.cls is FieldView and isinstance(r.fields.get("vector"), Obj) and r.fields["vector"] is not v
        parts = [("is-a-field-view-of-a-new-vector", ok)]
        if ok:
            w = r.fields["vector"]
            new_shape = tuple(len(p) for p in per_axis)
            parts.append(("same-column", r.fields.get("field_index") == j))
            parts.append(("cells", nesting_ok(w.fields["_data"], new_shape) and all(cell_at(w.fields["_data"], t) is old.leaves[c] for t, c in zip(cells_of(new_shape), cells))))
        out += conj("slice:returns-the-same-column-of-the-sliced-vector", parts)
    return out + unchanged(v, old)


C_FV_GETITEM = Contract(f"{VEC}:_FieldView.__getitem__", setup=fvgi_setup, ensures=T(fvgi_ensures), snapshot=lambda s: snap_vec(s.self.fields["vector"]),
                        requires=view_requires,
                        raises={IndexError: lambda s: NOT(AND(*[in_bounds_term(sp, ob, n, True) for sp, ob, n in zip(s.specs, s.objs, s.vshape)])),
                                ValueError: lambda s: any(isinstance(ob, slice) and len(range(*ob.indices(n))) == 0 for ob, n in zip(s.objs, s.vshape))},
                        inline=[f"{VEC}:_FieldView.__init__"])


# ------------------------------------------------------------------------------------------------
# from_data and the property setters
# ------------------------------------------------------------------------------------------------

FD_CASES = [(k, nfk, fk) for k in [(), ("arr2",), ("arr2", "arr2"), ("arr3",), ("arr2", "arr3"), ("arr1",), ("none", "arr2"), ("arr2", "none"), ("pylist", "arr2")]
            for nfk, fk in (("none", "none"), ("match", "names"), ("other", "none"))]


def fd_setup(ctx):
    _, (kinds, nfk, fk) = pick(ctx, "fd_case", FD_CASES)
    items = []
    for i, k in enumerate(kinds):
        if k == "none":
            items.append(None)
        elif k == "pylist":
            items.append([[1.0, 2.0]])
        else:
            cols = 2 if i == 0 else ctx.fresh(f"item{i}_cols", "int")  # the first item fixes the (concrete) field count, later ones are symbolic
            if i:
                ctx.assume(cols.t >= 0)
            items.append(cm.fresh_cell(ctx, f"item{i}", cols, ndim=int(k[3])))
    num = None if nfk == "none" else 2 if nfk == "match" else 3
    fields = None if fk == "none" else sym_names(ctx, "name", 2)
    return NS(cls=Vector, data=items, num_fields=num, fields=fields, units=None, name=None, kinds=kinds,
              case=f"items={'+'.join(kinds) or 'empty'},num_fields={nfk},fields={fk}")


def fd_errors(s):
    base = vi_bad(NS(data=s.data, kinds=s.kinds))
    infer_ok = NOT(OR(base["TypeError"], base["ShapeError"]))
    mismatch = s.num_fields is not None and s.num_fields != 2
    return dict(TypeError=base["TypeError"], ShapeError=OR(base["ShapeError"], AND(infer_ok, mismatch)))


def fd_ensures(s):
    o = s.result
    if not (isinstance(o, Obj) and o.cls is Vector):
        return [("returns-a-Vector", False)]
    f = o.fields
    lv = leaves_of(o)
    n = len(s.data)
    pre = [x for x in reachable_mutables([s.data, s.fields]) if isinstance(x, (list, dict))] + definition_time_objects()
    own = [x for x in mutable_parts(o) if isinstance(x, (list, dict))]
    return tagl(s.case, inv(o) + [
        ("shape-is-(len(data),)", f["_shape"] == (n,)),
        ("cell-i-holds-item-i", lv is not None and all(lv[(i,)] is x or (isinstance(x, list) and isinstance(lv[(i,)], np.ndarray)) for i, x in enumerate(s.data))),
        ("field-count-is-the-column-count-of-the-data", len(f["_fields"]) == 2),
        ("sharing:lists-and-metadata-of-the-new-vector-are-freshly-allocated-(cell-arrays-are-the-caller's)", disjoint(own, pre) and distinct_objects(own)),
    ])


C_FROM_DATA = Contract(f"{VEC}:Vector.from_data", setup=fd_setup, ensures=fd_ensures,
                       raises={TypeError: lambda s: fd_errors(s)["TypeError"], ValueError_or_IndexError: lambda s: fd_errors(s)["ShapeError"]})


# setters: what each one guarantees on its own (they are NOT among the operations listed in the property statement)

def setter_vec(ctx, name):
    _, (shape, mask, nf) = pick(ctx, name + "_vec", [((2,), "even", 2), ((2, 2), "full", 3)])
    return mk_vec(ctx, shape, nf, mask), f"shape={shape_tag(shape)},nf={nf}"


def us_setup(ctx):
    v, case = setter_vec(ctx, "us")
    _, k = pick(ctx, "us_units", ["none", "same", "shorter", "str"])
    nf = len(v.fields["_fields"])
    value = None if k == "none" else ctx.fresh("unit", "str") if k == "str" else [ctx.fresh(f"new_unit{i}", "str") for i in range(nf - (k == "shorter"))]
    return NS(self=v, value=value, case=case + f",units={k}")


def us_ensures(s):
    o, old = s.self, s.old
    f = o.fields
    want = ["none"] * len(old.fields) if s.value is None else list(s.value)
    return inv(o) + [("units-replaced", AND(len(f["_units"]) == len(want), *[str_eq(a, b) for a, b in zip(f["_units"], want)])),
                     ("units-list-is-a-new-object", f["_units"] is not s.value and f["_units"] is not old.units_obj)] + conj(
        "frame:everything-else-unchanged", [x for x in same_schema(o, old) if "units" not in x[0]] + data_untouched(o, old))


C_SET_UNITS = Contract(f"{VEC}:Vector.units.fset", setup=us_setup, requires=lambda s: inv(s.self), ensures=T(us_ensures), snapshot=lambda s: snap_vec(s.self),
                       raises={TypeError: lambda s: s.value is not None and not isinstance(s.value, (list, tuple)),
                               ValueError: lambda s: isinstance(s.value, (list, tuple)) and len(s.value) != len(s.self.fields["_fields"])},
                       on_raise=raise_unchanged)


def ds_setup(ctx):
    _, kinds = pick(ctx, "ds_items", [("arr2", "arr2"), ("arr2",), ("arr2", "arr3"), ("arr2", "none"), ("arr1", "arr2")])
    v = mk_vec(ctx, (2,), 2, "even")
    return NS(self=v, value=mk_items(ctx, kinds), kinds=kinds, case=f"shape=2,nf=2,items={'+'.join(kinds)}")


def ds_errors(s):
    return vd_bad(NS(data=s.value, shape=(2,), num_fields=2, kinds=s.kinds))


def ds_ensures(s):
    o, old = s.self, s.old
    lv = leaves_of(o)
    return tagl(s.case, inv(o) + [("cell-i-holds-item-i", lv is not None and all(lv[(i,)] is x for i, x in enumerate(s.value))),
                                  ("data-list-is-a-new-object", o.fields["_data"] is not s.value)] + conj("frame:schema-unchanged", same_schema(o, old)))


C_SET_DATA_PROP = Contract(f"{VEC}:Vector.data.fset", setup=ds_setup, requires=lambda s: inv(s.self), ensures=ds_ensures, snapshot=lambda s: snap_vec(s.self),
                           raises={TypeError: lambda s: ds_errors(s)["TypeError"], ValueError_or_IndexError: lambda s: ds_errors(s)["ShapeError"]},
                           on_raise=raise_unchanged)
C_SET_DATA_PROP.posts_first = True

CONTRACTS = [C_NESTED, C_VSHAPE, C_VFIELDS, C_VNUM, C_VUNITS, C_VDATA, C_VINFER, C_INIT, C_FROM_SHAPE, C_COPY, C_GET_DATA, C_GETITEM, C_SET_DATA, C_SETITEM,
             C_ADD_FIELDS, C_REMOVE_FIELDS, C_VFLATTEN, C_FV_FLATTEN, C_FV_SETFLAT, C_FV_APPLY] + C_ARITH + [C_FROM_DATA, C_SET_UNITS, C_SET_DATA_PROP, C_FV_GETITEM, C_FV_ARRAY]


# ================================================================================================
# run-time oracles: the SAME statements evaluated on the REAL Vector with concrete inputs.
# `Ref` is the pure-python list-of-cells reference model the property's quantifier speaks about: it states what each
# operation must do to the abstract state (cells by index tuple, field names, units) - it is a specification, not a copy
# of the code (no nested lists, no recursion, no index arithmetic on arrays).
# ================================================================================================

ROWS_PATTERN = [2, 0, 3, 1]


def conc_index(spec, ival=None):
    if spec == "i":
        return int(ival if ival is not None else 0)
    if spec == "None":
        return None
    if spec.startswith("a["):
        return np.array([int(x) for x in spec[2:-1].split(",") if x.strip()], dtype=int)
    if spec.startswith("["):
        return [int(x) for x in spec[1:-1].split(",") if x.strip()]
    if ":" in spec:
        return slice(*[int(x) if x else None for x in spec.split(":")])
    return int(spec)


def ref_positions(ob, n, negatives_ok):
    lo = -n if negatives_ok else 0
    if ob is None:
        return list(range(n))
    if isinstance(ob, slice):
        return list(range(*ob.indices(n)))
    if isinstance(ob, (list, np.ndarray)):
        xs = [int(x) for x in ob]
        if any(not (lo <= x < n) for x in xs):
            raise IndexError("out of bounds")
        return [x % n for x in xs]
    if not (lo <= ob < n):
        raise IndexError("out of bounds")
    return [ob % n]


def is_valid_cell(x, nf):
    return isinstance(x, np.ndarray) and x.ndim == 2 and x.shape[1] == nf


class Ref:
    def __init__(self, shape, fields, units):
        self.shape, self.fields, self.units = tuple(shape), list(fields), list(units)
        self.cells = {k: None for k in cells_of(self.shape)}

    @property
    def nf(self):
        return len(self.fields)

    def addressed(self, idx, negatives_ok):
        per = [ref_positions(ob, n, negatives_ok) for ob, n in zip(idx, self.shape)]
        per += [list(range(n)) for n in self.shape[len(idx):]]
        return list(itertools.product(*per)), per

    def get_data(self, *idx):
        if len(idx) != len(self.shape):
            raise ValueError("arity")
        cells, per = self.addressed(idx, False)
        if all(len(p) == 1 for p in per):
            return self.cells[cells[0]]
        return [self.cells[c] for c in cells]

    def getitem(self, idx):
        if isinstance(idx, str):
            if idx not in self.fields:
                raise KeyError(idx)
            return ("fieldview", self.fields.index(idx))
        idx = idx if isinstance(idx, tuple) else (idx,)
        cells, per = self.addressed(idx, True)
        if len(idx) == len(self.shape) and all(isinstance(i, (int, np.integer)) for i in idx):
            return self.cells[cells[0]]
        if any(len(p) == 0 for p in per):
            raise ValueError("empty selection")
        r = Ref(tuple(len(p) for p in per), self.fields, self.units)
        for t, c in zip(cells_of(r.shape), cells):
            r.cells[t] = self.cells[c]
        return r

    def _check_item(self, x):
        if not isinstance(x, np.ndarray):
            raise TypeError("not an array")
        if x.ndim != 2 or x.shape[1] != self.nf:
            raise ValueError("bad shape")

    def set_data(self, value, *idx):
        if len(idx) != len(self.shape):
            raise ValueError("arity")
        cells, per = self.addressed(idx, False)
        if all(len(p) == 1 for p in per):
            self._check_item(value)
            self.cells[cells[0]] = value
            return
        if not isinstance(value, list):
            raise TypeError("list required")
        for c, x in zip(cells, value):
            self._check_item(x)
            self.cells[c] = x

    def setitem(self, idx, value):
        if isinstance(idx, str):
            return self.set_flattened(idx, value)
        idx = idx if isinstance(idx, tuple) else (idx,)
        multi = len(idx) < len(self.shape) or any(isinstance(ob, slice) or ob is None or (isinstance(ob, (list, np.ndarray)) and len(ob) > 1) for ob in idx)
        if not multi:
            self._check_item(value)
            cells, _ = self.addressed(idx, True)
            self.cells[cells[0]] = value
            return
        if isinstance(value, Ref):
            value = [value.cells[k] for k in cells_of(value.shape)]
            if any(x is None for x in value):
                raise TypeError("unset cell in source")
        if not isinstance(value, list):
            raise TypeError("list required")
        cells, _ = self.addressed(idx, False)
        if len(value) != len(cells):
            raise ValueError("one array per addressed cell")
        for c, x in zip(cells, value):
            self._check_item(x)
            self.cells[c] = x

    def add_fields(self, new):
        new = [new] if isinstance(new, str) else list(new)
        if any(n in self.fields for n in new) or len(set(new)) != len(new):
            raise ValueError("clash")
        self.fields += new
        self.units += ["none"] * len(new)
        for k, a in self.cells.items():
            if a is not None:
                self.cells[k] = np.concatenate([a, np.zeros((a.shape[0], len(new)))], axis=1)

    def remove_fields(self, rem):
        rem = [rem] if isinstance(rem, str) else list(rem)
        keep = [i for i, n in enumerate(self.fields) if n not in rem]
        if len(keep) == len(self.fields):
            return
        self.fields = [self.fields[i] for i in keep]
        self.units = [self.units[i] for i in keep]
        for k, a in self.cells.items():
            if a is not None:
                self.cells[k] = a[:, keep]

    def populated(self):
        return [self.cells[k] for k in cells_of(self.shape) if self.cells[k] is not None]

    def flatten(self):
        p = self.populated()
        return np.concatenate(p, axis=0) if p else np.zeros((0, self.nf))  # the row-major concatenation (element kind of the cells)

    def field_flatten(self, name):
        return self.flatten()[:, self.fields.index(name)].copy() if self.populated() else np.zeros((0,))

    def set_flattened(self, name, values):
        if name not in self.fields:
            raise KeyError(name)
        values = np.asarray(values)
        if values.ndim != 1 or values.shape[0] != sum(a.shape[0] for a in self.populated()):
            raise ValueError("length")
        j, pos = self.fields.index(name), 0
        for a in self.populated():
            a[:, j] = values[pos:pos + a.shape[0]]
            pos += a.shape[0]

    def apply(self, name, f):
        j = self.fields.index(name)
        for a in self.populated():
            a[:, j] = f(a[:, j])

    def copy(self):
        r = Ref(self.shape, self.fields, self.units)
        r.cells = {k: (None if a is None else a.copy()) for k, a in self.cells.items()}
        return r


def real_inv_problems(v):
    """The property's invariant evaluated on a real Vector."""
    p = []
    shape = v._shape
    if not nesting_ok(v._data, tuple(shape)):
        return [f"_data is not a nested list of shape {shape}"]
    if not distinct_objects(sublists(v._data, len(shape))):
        p.append("a sublist of _data occurs twice")
    nf = len(v._fields)
    for k in cells_of(shape):
        c = cell_at(v._data, k)
        if c is not None and not is_valid_cell(c, nf):
            p.append(f"cell {k} is {type(c).__name__} of shape {getattr(c, 'shape', None)}, not (rows, {nf})")
            break
    if len(set(v._fields)) != len(v._fields) or not all(isinstance(x, str) for x in v._fields):
        p.append(f"field names not unique strings: {v._fields}")
    if len(v._units) != nf:
        p.append(f"{len(v._units)} units for {nf} fields")
    return p


def real_mutables(v):
    parts = []

    def rec(x):
        if isinstance(x, list):
            parts.append(x)
            for e in x:
                rec(e)
        elif isinstance(x, np.ndarray):
            parts.append(x if x.base is None else x.base)
            parts.append(x)

    rec(v._data)
    return parts + [v._fields, v._units, v._metadata]


def state_diff(v, ref):
    """First difference between the real vector and the reference state (None if they agree)."""
    if tuple(v._shape) != ref.shape:
        return f"shape {v._shape} != {ref.shape}"
    if list(v._fields) != ref.fields:
        return f"fields {v._fields} != {ref.fields}"
    if list(v._units) != ref.units:
        return f"units {v._units} != {ref.units}"
    if not nesting_ok(v._data, ref.shape):
        return f"_data is not a nested list of shape {ref.shape}"
    for k in cells_of(ref.shape):
        a, b = cell_at(v._data, k), ref.cells[k]
        if (a is None) != (b is None):
            return f"cell {k}: {'unset' if a is None else 'set'} but expected {'unset' if b is None else 'set'}"
        if a is not None and (not isinstance(a, np.ndarray) or a.shape != b.shape or not np.array_equal(a, b)):
            return f"cell {k}: {np.asarray(a).tolist()} != {b.tolist()}"
        if a is not None and a.dtype != b.dtype:
            return f"cell {k}: dtype {a.dtype} != {b.dtype}"
    return None


def cell_array(k, rows, nf, salt=0, dtype=None):
    """Distinguishable contents; for the non-float64 element kinds the values are NOT exactly representable in float64 / float32."""
    tagv = sum((i + 1) * 7 ** n for n, i in enumerate(k)) + salt
    if dtype in (None, "float64"):
        return 100.0 * tagv + np.arange(rows * nf, dtype=float).reshape(rows, nf)
    if dtype == "int64":
        return (2 ** 53 + 1 + 1000 * tagv + 2 * np.arange(rows * nf, dtype=np.int64)).reshape(rows, nf)
    if dtype == "complex128":
        return (100.0 * tagv + np.arange(rows * nf) + 1j * (1 + tagv + np.arange(rows * nf))).reshape(rows, nf)
    if dtype == "float32":
        return (np.float32(0.1) * (1 + tagv + np.arange(rows * nf, dtype=np.float32))).reshape(rows, nf)
    raise ValueError(dtype)


def build_pair(shape, nf, mask, rows=None, names=None, dtype=None):
    """A real Vector and its reference twin with the same (separately allocated) contents."""
    from quantem.core.datastructures.vector import Vector as RV

    shape = tuple(shape)
    names = names or [f"f{i}" for i in range(nf)]
    units = [f"u{i}" for i in range(nf)]
    v = RV.from_shape(shape, fields=list(names), units=list(units), name="t")
    ref = Ref(shape, names, units)
    n = -1
    for k in cells_of(shape):
        if mask_fn(mask)(k):
            n += 1
            r = rows[n % len(rows)] if rows else ROWS_PATTERN[n % len(ROWS_PATTERN)]
            a = cell_array(k, r, nf, dtype=dtype)
            ref.cells[k] = a.copy()
            tgt = v._data
            for i in k[:-1]:
                tgt = tgt[i]
            tgt[k[-1]] = a
    ap = alias_pair(mask, shape)
    if ap:
        ref.cells[ap[0]] = ref.cells[ap[1]]
        put_cell(v._data, ap[0], cell_at(v._data, ap[1]))
    return v, ref


def mk_conc_value(kind, nf, cols=None, salt=1):
    if isinstance(kind, (tuple, list)):
        cols = cols or [None] * len(kind)
        return [mk_conc_value(k, nf, c, salt + 3 * i) for i, (k, c) in enumerate(zip(kind, cols))]
    c = nf if cols is None else int(cols)
    if kind == "none":
        return None
    if kind == "pylist":
        return [[1.0, 2.0]]
    if kind == "notlist":
        return cell_array((9,), 2, nf, salt)
    if kind == "arr1":
        return np.arange(3, dtype=float) + salt
    if kind == "arr3":
        return np.zeros((2, c, 2)) + salt
    return cell_array((8,), 1 + salt % 3, c, salt)


def run_both(real_call, ref_call):
    """(real outcome, ref outcome) as ('ok', value) | ('raise', ExcName)."""
    out = []
    for f in (real_call, ref_call):
        try:
            out.append(("ok", f()))
        except Exception as e:  # noqa: BLE001
            out.append(("raise", type(e).__name__))
    return out


def same_cells(res, exp):
    """retrieval results: the SAME array objects for the real vector are checked by the caller; here values."""
    if isinstance(exp, list):
        return isinstance(res, list) and len(res) == len(exp) and all(same_cells(a, b) for a, b in zip(res, exp))
    if exp is None:
        return res is None
    return isinstance(res, np.ndarray) and res.shape == exp.shape and np.array_equal(res, exp)


def verdict(problems, expected):
    return dict(violated=bool(problems), observed="; ".join(map(str, problems[:3])) or "ok", expected=expected)


def _quiet_late(f):
    return lambda inp: quiet(f)(inp)


@_quiet_late
def rt_index_op(inp):
    """get_data / getitem / set_data / setitem on one concrete case."""
    op, shape, specs = inp["op"], tuple(inp["shape"]), list(inp["idx"])
    nf = inp.get("nf", 2)
    v, ref = build_pair(shape, nf, inp.get("mask", "even"))
    ivals = list(inp.get("ivals", []))
    objs, q = [], 0
    for sp in specs:
        if sp in ("field", "nofield"):
            objs.append("f1" if sp == "field" else "zz")
        else:
            objs.append(conc_index(sp, ivals[q] if sp == "i" and q < len(ivals) else 0))
            q += sp == "i"
    problems = []
    exp_text = "the real Vector behaves like the list-of-cells reference model (same result / same exception class / same state) and keeps its invariant"
    if op in ("get_data", "getitem"):
        if op == "get_data":
            (k1, r1), (k2, r2) = run_both(lambda: v.get_data(*objs), lambda: ref.get_data(*objs))
        else:
            key = objs[0] if len(objs) == 1 else tuple(objs)
            (k1, r1), (k2, r2) = run_both(lambda: v[key], lambda: ref.getitem(key))
        if k1 != k2 or (k1 == "raise" and r1 != r2):
            problems.append(f"{op}{tuple(specs)} on shape {shape}: real {k1} {r1 if k1 == 'raise' else ''}, reference {k2} {r2 if k2 == 'raise' else ''}")
        elif k1 == "ok":
            if isinstance(r2, Ref):
                if type(r1).__name__ != "Vector":
                    problems.append(f"slicing returned {type(r1).__name__}, expected a Vector")
                else:
                    d = state_diff(r1, r2) or "; ".join(real_inv_problems(r1))
                    if d:
                        problems.append(f"slice result: {d}")
                    elif any(cell_at(r1._data, t) is not None and not any(cell_at(r1._data, t) is cell_at(v._data, c) for c in cells_of(shape)) for t in cells_of(r2.shape)):
                        problems.append("slice result holds arrays that are not cells of the source")
                    elif any(x is y for x in sublists(r1._data, len(r2.shape)) + [r1._fields, r1._units] for y in sublists(v._data, len(shape)) + [v._fields, v._units]):
                        problems.append("slice result shares a list with the source vector")
            elif isinstance(r2, tuple) and r2 and r2[0] == "fieldview":
                if getattr(r1, "field_index", None) != r2[1] or getattr(r1, "vector", None) is not v:
                    problems.append("field view does not address the named column of this vector")
            elif not same_cells(r1, r2):
                problems.append(f"{op}{tuple(specs)} returned the wrong cells")
        d = state_diff(v, ref)
        if d:
            problems.append(f"retrieval changed the vector: {d}")
    else:
        vk = inp["value"]
        if isinstance(vk, str) and vk.startswith("vec:"):
            _, shp, mask, *own = vk.split(":")
            val, valref = build_pair(tuple(int(x) for x in shp.split("x")), int(own[0]) if own else nf, mask, rows=[1, 2, 0])
        elif vk in ("flat", "flat2d"):
            n = inp.get("values_len")
            n = ref.flatten().shape[0] if n is None else int(n)
            val = np.arange(n, dtype=float) + 0.5
            val = val if vk == "flat" else val.reshape(n, 1)
            valref = val.copy()
        else:
            val = mk_conc_value(vk, nf, inp.get("cols"))
            valref = [x.copy() if isinstance(x, np.ndarray) else x for x in val] if isinstance(val, list) else (val.copy() if isinstance(val, np.ndarray) else val)
        if op == "set_data":
            (k1, r1), (k2, r2) = run_both(lambda: v.set_data(val, *objs), lambda: ref.set_data(valref, *objs))
        else:
            key = objs[0] if len(objs) == 1 else tuple(objs)
            (k1, r1), (k2, r2) = run_both(lambda: v.__setitem__(key, val), lambda: ref.setitem(key, valref))
        if k1 != k2 or (k1 == "raise" and r1 != r2):
            problems.append(f"{op}{tuple(specs)} value={vk} on shape {shape}: real {k1} {r1 if k1 == 'raise' else ''}, reference {k2} {r2 if k2 == 'raise' else ''}")
        d = state_diff(v, ref)
        if d:
            problems.append(f"after {op}{tuple(specs)}: {d}")
    problems += real_inv_problems(v)
    return verdict(problems, exp_text)


def index_cases_inputs(op, cases, with_value=False):
    out = []
    for c in cases:
        if with_value:
            shape, specs, vk = c
            out.append(dict(op=op, shape=list(shape), idx=list(specs), value=list(vk) if isinstance(vk, tuple) else vk, mask="full"))
        else:
            shape, specs = c
            out.append(dict(op=op, shape=list(shape), idx=list(specs), mask="full"))
    return out


def expand_ivals(inp):
    """Every value of the symbolic integer indices that matters: -n-1 .. n per position (capped)."""
    shape, specs = inp["shape"], inp["idx"]
    ns = [shape[k] for k, sp in enumerate(specs) if sp == "i" and k < len(shape)]
    if not ns:
        yield inp
        return
    for vals in itertools.product(*[range(-n - 1, n + 1) for n in ns]):
        yield dict(inp, ivals=list(vals))


def fam_from(inputs, cols_variants=False):
    def fam():
        for inp in inputs:
            for x in expand_ivals(inp):
                yield x
                if cols_variants and isinstance(x.get("value"), list):
                    for j in range(len(x["value"])):
                        yield dict(x, cols=[3 if i == j else None for i in range(len(x["value"]))])
                elif cols_variants and x.get("value") == "arr2":
                    yield dict(x, cols=3)
                elif cols_variants and x.get("value") in ("flat", "flat2d"):
                    yield dict(x, values_len=1)
    return fam


def conc_from(pick_name, inputs):
    def conc(ev):
        k = ev(pick_name)
        if k is None or not (0 <= k < len(inputs)):
            return None
        inp = dict(inputs[k])
        iv = [ev(f"idx{p}", 0) for p, sp in enumerate(inp.get("idx", [])) if sp == "i"]
        if iv:
            inp["ivals"] = iv
        if isinstance(inp.get("value"), list):
            inp["cols"] = [ev(f"val{i}_cols") for i in range(len(inp["value"]))]
        elif inp.get("value") == "arr2":
            inp["cols"] = ev("val_cols")
        if inp.get("value") in ("flat", "flat2d"):
            inp["values_len"] = ev("values_len")
        return inp
    return conc


GD_INPUTS = index_cases_inputs("get_data", GD_CASES)
GI_INPUTS = index_cases_inputs("getitem", GI_CASES + [((2, 3), ("field",)), ((2,), ("nofield",))])
SD_INPUTS = index_cases_inputs("set_data", SD_CASES, True)
SI_INPUTS = index_cases_inputs("setitem", SI_CASES, True)
for _c, _pick, _inputs, _cv in ((C_GET_DATA, "gd_case", GD_INPUTS, False), (C_GETITEM, "gi_case", GI_INPUTS, False),
                                (C_SET_DATA, "sd_case", SD_INPUTS, True), (C_SETITEM, "si_case", SI_INPUTS, True)):
    _c.rt, _c.rt_family, _c.concretize = rt_index_op, fam_from(_inputs, _cv), conc_from(_pick, _inputs)


def quiet(f):
    """Run-time oracle wrapper: silences prints of the real code; an exception escaping the oracle itself (i.e. from a real call that
    the oracle expects to succeed) is a violation with the exception as the observation, never a crash of the check."""
    import contextlib
    import functools
    import io

    @functools.wraps(f)
    def g(inp):
        with contextlib.redirect_stdout(io.StringIO()):
            try:
                return f(inp)
            except Exception as e:  # noqa: BLE001
                return dict(violated=True, klass=f"{inp.get('op', 'history')}|unexpected-exception", observed=f"unexpected {type(e).__name__}: {e}",
                            expected="the operation succeeds on this valid input")
    return g


@quiet
def rt_create(inp):
    """Creation paths and sharing: from_shape / __init__ default arguments / from_data / copy / nested_list."""
    from quantem.core.datastructures import vector as vm

    RV = vm.Vector
    op = inp["op"]
    problems = []
    if op == "nested_list":
        shape = tuple(inp["shape"])
        r = vm.nested_list(shape, None)
        if not nesting_ok(r, shape):
            problems.append(f"nested_list{shape} has the wrong nesting")
        elif not distinct_objects(sublists(r, len(shape))):
            problems.append(f"nested_list{shape} shares a sublist")
        return verdict(problems, "fresh nested list of the declared lengths without shared sublists")
    if op == "from_shape":
        shape = tuple(inp["shape"])
        kw = dict(inp.get("kw", {}))
        exp_exc = inp.get("expect_raise")
        try:
            a = RV.from_shape(shape, **kw)
            b = RV.from_shape(shape, **kw)
        except Exception as e:  # noqa: BLE001
            if type(e).__name__ != exp_exc:
                problems.append(f"from_shape{shape} {kw} raised {type(e).__name__}, expected {exp_exc or 'a Vector'}")
            return verdict(problems, "from_shape raises exactly when the arguments are invalid")
        if exp_exc:
            problems.append(f"from_shape{shape} {kw} returned, expected {exp_exc}")
        problems += real_inv_problems(a)
        if any(cell_at(a._data, k) is not None for k in cells_of(shape)):
            problems.append("new vector has populated cells")
        shared = [type(x).__name__ for x in real_mutables(a) for y in real_mutables(b) if x is y]
        if shared:
            problems.append(f"two independently created vectors share mutable objects: {sorted(set(shared))} (a.metadata is b.metadata: {a.metadata is b.metadata})")
        given = [kw.get("fields"), kw.get("units")]
        if any(x is y for x in real_mutables(a) for y in given if y is not None):
            problems.append("new vector keeps a reference to the caller's fields/units list")
        return verdict(problems, "a valid, empty Vector none of whose mutable parts (lists, metadata dict) is shared with another vector or the caller")
    if op == "copy":
        v, ref = build_pair(tuple(inp["shape"]), inp.get("nf", 2), inp.get("mask", "even"))
        c = v.copy()
        d = state_diff(c, ref) or state_diff(v, ref)
        if d:
            problems.append(f"copy differs from the original: {d}")
        problems += real_inv_problems(c)
        shared = [type(x).__name__ for x in real_mutables(c) for y in real_mutables(v) if x is y]
        if shared:
            problems.append(f"copy shares mutable objects with the original: {sorted(set(shared))}")
        return verdict(problems, "an equal Vector sharing no mutable object with the original")
    if op == "from_data":
        kinds = inp["items"]
        data = []
        for i, k in enumerate(kinds):
            c = (inp.get("cols") or [None] * len(kinds))[i]
            data.append(mk_conc_value(k, 2, c, salt=i + 1))
        kw = {}
        if inp.get("num_fields") is not None:
            kw["num_fields"] = inp["num_fields"]
        if inp.get("fields"):
            kw["fields"] = ["a", "b"]
        try:
            v = RV.from_data(data, **kw)
        except Exception as e:  # noqa: BLE001
            ok_items = len(kinds) > 0 and all(k in ("arr2", "pylist") for k in kinds) and all(c in (None, 2) for c in (inp.get("cols") or []))
            if ok_items and inp.get("num_fields") in (None, 2):
                problems.append(f"from_data rejected valid data with {type(e).__name__}: {e}")
            return verdict(problems, "valid ragged data is accepted")
        problems += real_inv_problems(v)
        if tuple(v._shape) != (len(data),):
            problems.append(f"shape {v._shape} != ({len(data)},)")
        elif any(isinstance(x, np.ndarray) and cell_at(v._data, (i,)) is not x for i, x in enumerate(data)):
            problems.append("cells do not hold the given arrays")
        if v._data is data:
            problems.append("the vector's cell list is the caller's list")
        return verdict(problems, "a 1-d Vector whose cells are the given 2-d arrays (invariant holds), or an exception")
    raise ValueError(op)


@quiet
def rt_fields(inp):
    """add_fields / remove_fields / flatten / field flatten / set_flattened / field arithmetic on one concrete case."""
    op, shape, nf, mask = inp["op"], tuple(inp["shape"]), inp.get("nf", 2), inp.get("mask", "even")
    v, ref = build_pair(shape, nf, mask, rows=inp.get("rows"), dtype=inp.get("dtype"))
    col = inp.get("col", 0) % max(nf, 1)
    name = f"f{col}"
    problems = []

    def both(fr, fe):
        (k1, r1), (k2, r2) = run_both(fr, fe)
        if k1 != k2 or (k1 == "raise" and r1 != r2):
            problems.append(f"{op}: real {k1} {r1 if k1 == 'raise' else ''}, reference {k2} {r2 if k2 == 'raise' else ''}")
            return None, None
        return (r1, r2) if k1 == "ok" else (None, None)

    if op == "add_fields":
        arg = inp["arg"]
        both(lambda: v.add_fields(arg if isinstance(arg, str) else list(arg)), lambda: ref.add_fields(arg))
    elif op == "remove_fields":
        arg = inp["arg"]
        both(lambda: v.remove_fields(arg if isinstance(arg, str) else list(arg)), lambda: ref.remove_fields(arg))
    elif op == "flatten":
        r1, r2 = both(lambda: v.flatten(), lambda: ref.flatten())
        if r2 is not None and not (isinstance(r1, np.ndarray) and r1.shape == r2.shape and np.array_equal(r1, r2)):
            problems.append(f"flatten: {np.asarray(r1).tolist()} != {r2.tolist()}")
        elif r2 is not None and shares_cell_memory(r1, v):
            problems.append("flatten() returned an array that shares memory with a stored cell")
    elif op == "field_flatten":
        r1, r2 = both(lambda: v[name].flatten(), lambda: ref.field_flatten(name))
        if r2 is not None and not (isinstance(r1, np.ndarray) and r1.shape == r2.shape and np.array_equal(r1, r2)):
            problems.append(f"field flatten: {np.asarray(r1).tolist()} != {r2.tolist()}")
        elif r2 is not None and shares_cell_memory(r1, v):
            problems.append(f"v[{name!r}].flatten() returned an array that shares memory with a stored cell (a live view, not the concatenation)")
    elif op == "snapshot_restore":
        # history: hold the flattened field across a later mutation, then write it back - the data must be restored
        before = ref.copy()
        snap = v[name].flatten()
        v[name] *= 10.0
        v[name] += 1.0
        v[name].set_flattened(snap)
        ref = before
    elif op == "set_flattened":
        total = ref.flatten().shape[0]
        n = total if inp.get("values_len") is None else int(inp["values_len"])
        vals = np.arange(n, dtype=float) * 1.5 - 2
        ap = alias_pair(mask, shape)
        if ap and n == total:
            # one array in two cells: values that can be a flattened field agree on the two positions
            pos, offs_ = 0, {}
            for k in cells_of(shape):
                if ref.cells[k] is not None:
                    offs_[k] = pos
                    pos += ref.cells[k].shape[0]
            nr = ref.cells[ap[0]].shape[0]
            vals[offs_[ap[0]]:offs_[ap[0]] + nr] = vals[offs_[ap[1]]:offs_[ap[1]] + nr]
        if inp.get("values") == "vec2":
            vals = vals.reshape(n, 1)
        both(lambda: v[name].set_flattened(vals), lambda: ref.set_flattened(name, vals.copy()))
        if n == total and vals.ndim == 1 and not problems:
            back = v[name].flatten()
            if not np.array_equal(back, vals):
                problems.append(f"flatten after set_flattened gives {back.tolist()}, wrote {vals.tolist()}")
    elif op == "asarray":
        # the array form of a field view (np.asarray(view), what `v[f] = view` writes back) IS its flattened view: same dtype, same values
        want = ref.field_flatten(name)
        got = np.asarray(v[name])
        if not (isinstance(got, np.ndarray) and got.shape == want.shape and np.array_equal(got, want)):
            problems.append(f"np.asarray(v[{name!r}]) = {np.asarray(got).tolist()[:4]}.., flattened field = {want.tolist()[:4]}..")
        elif want.size and got.dtype != want.dtype:
            problems.append(f"np.asarray(v[{name!r}]) has dtype {got.dtype}, the field's flattened view has dtype {want.dtype}")
    elif op in ("self_assign", "iadd_zero", "assign_other"):
        # writing a field back (to itself / the write-back that ends `v[f] += 0`) restores the data exactly and keeps the cell dtype
        if op == "self_assign":
            v[name] = v[name]
        elif op == "iadd_zero":
            v[name] += 0
        else:
            other = f"f{(col + 1) % nf}"
            v[name] = v[other]
            ref.set_flattened(name, ref.field_flatten(other))
    elif op == "roundtrip":
        before = ref.copy()
        v[name].set_flattened(v[name].flatten())
        ref = before
    elif op in ARITH or op == "apply":
        other = inp.get("other", 3.0)
        f = (lambda x: ARITH[op](x, other)) if op in ARITH else (lambda x: 2 * x + 1)
        if op == "apply":
            both(lambda: v[name]._apply_op(f), lambda: ref.apply(name, f))
        else:
            both(lambda: getattr(v[name], op)(other), lambda: ref.apply(name, f))
        ap = alias_pair(mask, shape)
        if ap:
            # how often an update reaches an array stored twice is not fixed by the statement: column `col` of that array is left open
            for k in ap:
                a = cell_at(v._data, k)
                if isinstance(a, np.ndarray) and a.shape == ref.cells[k].shape:
                    ref.cells[k][:, col] = a[:, col]
    else:
        raise ValueError(op)
    d = state_diff(v, ref)
    if d:
        problems.append(f"after {op}: {d}")
    problems += real_inv_problems(v)
    return verdict(problems, "same result / exception / state as the list-of-cells reference model; invariant holds")


def rt_validators(inp):
    """The validators' contracts on concrete arguments."""
    from quantem.core.utils import validators as vv

    op, args = inp["op"], inp["args"]
    args = [tuple(a["tuple"]) if isinstance(a, dict) and "tuple" in a else a for a in args]
    f = getattr(vv, op)
    if op == "validate_fields":
        x = args[0]
        exp = "TypeError" if not isinstance(x, (list, tuple)) else "ValueError" if len(set(x)) != len(x) else list(x)
    elif op == "validate_shape":
        x = args[0]
        exp = "TypeError" if not isinstance(x, tuple) else next(("TypeError" if not isinstance(d, int) else "ValueError" for d in x if not isinstance(d, int) or d <= 0), tuple(x))
    elif op == "validate_num_fields":
        n, fl = args[0], (args[1] if len(args) > 1 else None)
        exp = "TypeError" if not isinstance(n, int) else "ValueError" if n <= 0 or (fl is not None and len(fl) != n) else n
    else:
        u, n = args
        exp = ["none"] * n if u is None else "TypeError" if not isinstance(u, (list, tuple)) else "ValueError" if len(u) != n else list(u)
    try:
        got = f(*args)
    except Exception as e:  # noqa: BLE001
        got = type(e).__name__
    bad = got != exp or (isinstance(got, list) and any(got is a for a in args))
    return verdict([f"{op}{tuple(args)} -> {got!r}, expected {exp!r}"] if bad else [], "validated copy of the argument, or TypeError / ValueError exactly when the argument is malformed")


VAL_INPUTS = {
    "validate_fields": [[["a", "b"]], [["a", "a"]], [["a", "b", "a"]], [[]], [{"tuple": ["a", "b"]}], [{"tuple": ["a", "a"]}], ["ab"], [None], [["a", "b", "c"]]],
    "validate_shape": [[{"tuple": []}], [{"tuple": [2]}], [{"tuple": [2, 3, 1]}], [{"tuple": [2, 0]}], [{"tuple": [-1]}], [[2, 3]], [{"tuple": [2, 2.5]}], [{"tuple": [0, 2.5]}], [None]],
    "validate_num_fields": [[2], [0], [-3], [2.0], [None], [2, ["a", "b"]], [3, ["a", "b"]], [1, []]],
    "validate_vector_units": [[None, 0], [None, 3], [["m", "s"], 2], [["m"], 2], [{"tuple": ["m", "s"]}, 2], ["ms", 2], [[], 0], [["m", "s", "k"], 2]],
}
for _c in (C_VFIELDS, C_VSHAPE, C_VNUM, C_VUNITS):
    _n = _c.func.split(":")[1]
    _c.rt, _c.rt_family = rt_validators, (lambda n=_n: iter([dict(op=n, args=a) for a in VAL_INPUTS[n]]))


@quiet
def rt_fv_getitem(inp):
    shape, specs, j = tuple(inp["shape"]), inp["idx"], inp.get("col", 0)
    v, ref = build_pair(shape, 2, "even")
    objs = [conc_index(sp) for sp in specs]
    key = objs[0] if len(objs) == 1 else tuple(objs)
    (k1, r1), (k2, r2) = run_both(lambda: v[f"f{j}"][key], lambda: ref.getitem(key))
    problems = []
    if k1 != k2 or (k1 == "raise" and r1 != r2):
        problems.append(f"v['f{j}'][{specs}]: real {k1} {r1 if k1 == 'raise' else ''}, reference {k2} {r2 if k2 == 'raise' else ''}")
    elif k1 == "ok":
        if isinstance(r2, Ref):
            if type(r1).__name__ != "_FieldView" or r1.field_index != j or state_diff(r1.vector, r2):
                problems.append("slice of a field view is not the same column of the sliced vector")
        elif r2 is None:
            if r1 is not None:
                problems.append("unset cell: expected None")
        elif not (isinstance(r1, np.ndarray) and np.array_equal(r1, r2[:, j])):
            problems.append("did not return that column of the addressed cell")
    return verdict(problems, "field view indexing = the same column of what Vector indexing returns")


FVGI_INPUTS = [dict(op="fv_getitem", shape=list(sh), idx=list(sp), col=j) for sh, sp in FVGI_CASES for j in (0, 1)]
C_FV_GETITEM.rt, C_FV_GETITEM.rt_family = rt_fv_getitem, (lambda: iter(FVGI_INPUTS))
C_FV_GETITEM.concretize = lambda ev: dict(op="fv_getitem", shape=list(FVGI_CASES[ev("fvgi_case")][0]), idx=list(FVGI_CASES[ev("fvgi_case")][1]), col=ev("fvgi_col", 0)) if ev("fvgi_case") is not None else None


def shares_cell_memory(arr, v):
    return isinstance(arr, np.ndarray) and any(isinstance(c, np.ndarray) and c.size and arr.size and np.shares_memory(arr, c)
                                               for c in (cell_at(v._data, k) for k in cells_of(tuple(v._shape))))


def simple_family(inputs):
    return lambda: iter(inputs)


def conc_index_into(pick_names, build):
    """concretize: read the case-picking integers from the model and rebuild the concrete input."""
    def conc(ev):
        ks = [ev(n) for n in pick_names]
        if any(k is None for k in ks):
            return None
        try:
            return build(ev, *ks)
        except (IndexError, KeyError):
            return None
    return conc


NAME_ARGS = {"str": "n0", "list1": ["n0"], "list2": ["n0", "n1"], "tuple2": ["n0", "n1"]}


def af_inputs():
    out = []
    for shape, mask, nf in FIELD_VECS:
        for arg in ("g0", ["g0"], ["g0", "g1"], ["g0", "g0"], "f0", ["g0", "f0"], []):
            out.append(dict(op="add_fields", shape=list(shape), mask=mask, nf=nf, arg=arg))
    return out


def rf_inputs():
    out = []
    for shape, mask, nf in FIELD_VECS + [((2,), "full", 3)]:
        for arg in ("f0", ["f0"], [f"f{nf - 1}", "f0"], ["zz"], ["f0", "f0"], ["zz", f"f{nf - 1}"], []):
            out.append(dict(op="remove_fields", shape=list(shape), mask=mask, nf=nf, arg=arg))
    return out


def flat_inputs(op, vecs=None, extra=(), dtypes=(None,)):
    out = []
    for shape, mask, nf in (vecs or FLAT_VECS):
        for col in range(nf if op != "flatten" else 1):
            for rows in (None, [0, 0, 0], [1, 4, 2]):
                for dt in dtypes:
                    base = dict(op=op, shape=list(shape), mask=mask, nf=nf, col=col, rows=rows)
                    if dt:
                        base["dtype"] = dt
                    out.append(base)
                    for e in extra:
                        out.append(dict(base, **e))
    return out


def kind_inputs():
    """Element kinds: array form of a view, self-assignment, `+= 0`, assignment from another field, flatten, for every cell dtype."""
    return [x for op in ("asarray", "self_assign", "iadd_zero", "assign_other", "field_flatten", "flatten", "snapshot_restore", "roundtrip")
            for x in flat_inputs(op, VIEW_VECS, dtypes=CELL_DTYPES)]


C_NESTED.rt, C_NESTED.rt_family = rt_create, simple_family([dict(op="nested_list", shape=list(sh)) for sh in SHAPES_ALL])
C_NESTED.concretize = conc_index_into(["nl_shape"], lambda ev, k: dict(op="nested_list", shape=list(SHAPES_ALL[k])))

FS_INPUTS = ([dict(op="from_shape", shape=list(sh), kw=kw) for sh in [(3,), (2, 2), (1, 2, 2)]
              for kw in (dict(num_fields=2), dict(fields=["a", "b"]), dict(fields=["a", "b"], units=["m", "s"], name="nm"), dict(fields=["a", "b"], num_fields=2))]
             + [dict(op="from_shape", shape=[2, 0], kw=dict(num_fields=2), expect_raise="ValueError"),
                dict(op="from_shape", shape=[2], kw={}, expect_raise="ValueError"),
                dict(op="from_shape", shape=[2], kw=dict(fields=["a", "a"]), expect_raise="ValueError"),
                dict(op="from_shape", shape=[2], kw=dict(fields=["a", "b"], num_fields=3), expect_raise="ValueError"),
                dict(op="from_shape", shape=[2], kw=dict(num_fields=0), expect_raise="ValueError"),
                dict(op="from_shape", shape=[2], kw=dict(num_fields=2, units=["m"]), expect_raise="ValueError")])
for _c in (C_INIT, C_FROM_SHAPE):
    _c.rt, _c.rt_family = rt_create, simple_family(FS_INPUTS)
C_INIT.concretize = lambda ev: dict(op="from_shape", shape=list(INIT_CASES[ev("init_case")][0]), kw=dict(num_fields=INIT_CASES[ev("init_case")][1])) if ev("init_case") is not None and INIT_CASES[ev("init_case")][3] == "default" and INIT_CASES[ev("init_case")][4] == "ok" else None

COPY_INPUTS = [dict(op="copy", shape=list(sh), mask=m, nf=nf) for sh, m in COPY_CASES for nf in (1, 3)]
C_COPY.rt, C_COPY.rt_family = rt_create, simple_family(COPY_INPUTS)
C_COPY.concretize = conc_index_into(["copy_case", "copy_nf"], lambda ev, k, n: dict(op="copy", shape=list(COPY_CASES[k][0]), mask=COPY_CASES[k][1], nf=[1, 3][n]))

FD_INPUTS = [dict(op="from_data", items=list(k), num_fields={"none": None, "match": 2, "other": 3}[nfk], fields=fk == "names") for k, nfk, fk in FD_CASES]
FD_INPUTS += [dict(x, cols=[None] * (len(x["items"]) - 1) + [3]) for x in FD_INPUTS if len(x["items"]) == 2]
for _c in (C_FROM_DATA, C_VDATA, C_VINFER, C_SET_DATA_PROP):
    _c.rt, _c.rt_family = rt_create, simple_family(FD_INPUTS)
C_FROM_DATA.concretize = conc_index_into(["fd_case"], lambda ev, k: dict(FD_INPUTS[k], cols=[None] + [ev(f"item{i}_cols") for i in range(1, len(FD_INPUTS[k]["items"]))]))
C_VDATA.concretize = conc_index_into(["vd_items"], lambda ev, k: dict(op="from_data", items=list(ITEM_COMBOS[k]), num_fields=None, fields=False,
                                                                      cols=[ev(f"item{i}_cols") for i in range(len(ITEM_COMBOS[k]))]) if ITEM_COMBOS[k] and ITEM_COMBOS[k][0] != "list" else None)
C_VINFER.concretize = conc_index_into(["vi_items"], lambda ev, k: dict(op="from_data", items=list(ITEM_COMBOS[k]), num_fields=None, fields=False,
                                                                       cols=[ev(f"item{i}_cols") for i in range(len(ITEM_COMBOS[k]))]) if ITEM_COMBOS[k] and ITEM_COMBOS[k][0] != "list" else None)

C_ADD_FIELDS.rt, C_ADD_FIELDS.rt_family = rt_fields, simple_family(af_inputs())
C_REMOVE_FIELDS.rt, C_REMOVE_FIELDS.rt_family = rt_fields, simple_family(rf_inputs())
C_VFLATTEN.rt, C_VFLATTEN.rt_family = rt_fields, simple_family(flat_inputs("flatten"))
C_FV_FLATTEN.rt, C_FV_FLATTEN.rt_family = rt_fields, simple_family(flat_inputs("field_flatten", dtypes=[None] + CELL_DTYPES[1:]) + flat_inputs("snapshot_restore"))
C_FV_SETFLAT.rt, C_FV_SETFLAT.rt_family = rt_fields, simple_family(flat_inputs("set_flattened", extra=(dict(values_len=1), dict(values="vec2"))) + flat_inputs("roundtrip")
                                                                   + [x for op in ("self_assign", "iadd_zero", "assign_other") for x in flat_inputs(op, VIEW_VECS, dtypes=CELL_DTYPES)])
C_FV_ARRAY.rt, C_FV_ARRAY.rt_family = rt_fields, simple_family(flat_inputs("asarray", dtypes=CELL_DTYPES))
C_FV_APPLY.rt, C_FV_APPLY.rt_family = rt_fields, simple_family(flat_inputs("apply"))
for _c in C_ARITH:
    _n = _c.func.rsplit(".", 1)[1]
    _c.rt, _c.rt_family = rt_fields, simple_family(flat_inputs(_n, ARITH_VECS))
C_SET_UNITS.rt, C_SET_UNITS.rt_family = rt_fields, simple_family(flat_inputs("flatten"))


def _vec_conc(pick, vecs, op, extra=None):
    def build(ev, k, *rest):
        shape, mask, nf = vecs[k]
        n_cells = len(cells_of(shape))
        names = ["vc_" + "_".join(map(str, c)) + "_rows" for c in cells_of(shape) if mask_fn(mask)(c)]
        rows = [ev(nm, 1) for nm in names] or None
        d = dict(op=op, shape=list(shape), mask=mask, nf=nf, rows=[min(int(r), 6) for r in rows] if rows else None)
        if extra:
            d.update(extra(ev, nf, *rest))
        return d
    return build


C_VFLATTEN.concretize = conc_index_into(["vflat_vec"], _vec_conc("vflat_vec", FLAT_VECS, "flatten"))
C_FV_FLATTEN.concretize = conc_index_into(["fvflat_vec", "fvflat_col", "fvflat_dtype"], _vec_conc("fvflat_vec", FLAT_VECS, "field_flatten", lambda ev, nf, c, d: dict(col=c, dtype=CELL_DTYPES[d])))
C_FV_ARRAY.concretize = conc_index_into(["fvarr_vec", "fvarr_col", "fvarr_dtype"], _vec_conc("fvarr_vec", FLAT_VECS, "asarray", lambda ev, nf, c, d: dict(col=c, dtype=CELL_DTYPES[d])))


def _sf_conc(ev):
    vk = ev("sf_values")
    if vk is None or ev("sf_vec") is None:
        return None
    kind = SETFLAT_VALUES[vk]
    if kind.startswith("view"):
        k, dt = kind.split(":")
        shape, mask, nf = VIEW_VECS[ev("sf_vec")]
        return dict(op="self_assign" if k == "view-self" else "assign_other", shape=list(shape), mask=mask, nf=nf, col=ev("sf_col", 0), dtype=dt)
    return conc_index_into(["sf_vec", "sf_col"], _vec_conc("sf_vec", FLAT_VECS, "set_flattened",
                                                           lambda ev, nf, c: dict(col=c, values=kind, values_len=ev("values_len"))))(ev)


C_FV_SETFLAT.concretize = _sf_conc
C_FV_APPLY.concretize = conc_index_into(["ao_vec", "ao_col"], _vec_conc("ao_vec", FLAT_VECS, "apply", lambda ev, nf, c: dict(col=c)))


# ------------------------------------------------------------------------------------------------
# bounded stand-in: random operation histories, real Vector vs reference model after every step
# ------------------------------------------------------------------------------------------------


def _rand_index(rng, n, allow_multi=True):
    kinds = ["int", "int", "slice", "list", "all"] if allow_multi else ["int"]
    k = kinds[rng.integers(len(kinds))]
    if k == "int":
        return int(rng.integers(0, n))
    if k == "slice":
        a = int(rng.integers(0, n))
        b = int(rng.integers(a + 1, n + 1))
        return slice(a, b, int(rng.integers(1, 3)))
    if k == "list":
        m = int(rng.integers(1, n + 1))
        return [int(x) for x in rng.permutation(n)[:m]]
    return slice(None)


def _idx_repr(idx):
    return [f"{i.start}:{i.stop}:{i.step}" if isinstance(i, slice) else i for i in idx]


def _pattern(op, idx, shape):
    """Failure class of an index operation = (operation, number of fixed dims, index pattern)."""
    cnt = [len(range(*i.indices(n))) if isinstance(i, slice) else len(i) if isinstance(i, list) else 1 for i, n in zip(idx, shape)]
    cnt += list(shape[len(idx):])
    all_int = all(isinstance(i, int) for i in idx)
    only_first = all(c == 1 for c in cnt[1:])
    if len(idx) < len(shape):
        pat = "partial"
    elif op in ("get_data", "getitem"):
        pat = "cell" if all_int else "slicing"
    elif op == "set_data":
        pat = "single" if all(c == 1 for c in cnt) else ("multi(first-axis-only)" if only_first else "multi(other-axes)")
    else:
        fancy = any(isinstance(i, slice) or (isinstance(i, list) and len(i) > 1) for i in idx)
        pat = "multi" if fancy else "cell" if all_int else "cell(one-element-index-list)"
    return f"{op}|ndim={len(shape)}|{pat}", cnt


def rebuild(ref):
    """A fresh real Vector in the reference state (used to continue a history after a disagreement)."""
    from quantem.core.datastructures.vector import Vector as RV

    v = RV.from_shape(ref.shape, fields=list(ref.fields), units=list(ref.units), name="t")
    for k, a in ref.cells.items():
        if a is not None:
            tgt = v._data
            for i in k[:-1]:
                tgt = tgt[i]
            tgt[k[-1]] = a.copy()
    return v


def run_history(inp):
    """Runs one random history to the end; after a disagreement the real vector is rebuilt from the reference state.
    Returns [(step, class, message)]."""
    rng = np.random.default_rng(inp["seed"])
    shape, nf = tuple(inp["shape"]), inp["nf"]
    v, ref = build_pair(shape, nf, inp.get("mask", "even"))
    fresh = [0]
    trace, fails = [], []

    def new_arr():
        fresh[0] += 1
        return cell_array((fresh[0],), int(rng.integers(0, 4)), ref.nf, salt=fresh[0])

    def outcome_differs(res):
        (k1, r1), (k2, r2) = res
        if k1 != k2 or (k1 == "raise" and r1 != r2):
            return f"real {k1}{' ' + r1 if k1 == 'raise' else 's'} but reference {k2}{' ' + r2 if k2 == 'raise' else 's'}"
        return None

    for step in range(inp["steps"]):
        d = len(ref.shape)
        op = inp["ops"][rng.integers(len(inp["ops"]))]
        msg, klass = None, op
        if op in ("get_data", "getitem", "set_data", "setitem"):
            partial = op in ("getitem", "setitem") and d > 1 and rng.random() < 0.2
            idx = [_rand_index(rng, n) for n in (ref.shape[: d - 1] if partial else ref.shape)]
            klass, cnt = _pattern(op, idx, ref.shape)
            key = idx[0] if len(idx) == 1 else tuple(idx)
            trace.append(f"{op}{_idx_repr(idx)}")
            if op == "get_data":
                res = run_both(lambda: v.get_data(*idx), lambda: ref.get_data(*idx))
            elif op == "getitem":
                res = run_both(lambda: v[key], lambda: ref.getitem(key))
            else:
                ncell = 1
                for c in cnt:
                    ncell *= c
                as_list = ("multi" in klass or "partial" in klass)
                val = [new_arr() for _ in range(ncell)] if as_list else new_arr()
                valref = [x.copy() for x in val] if as_list else val.copy()
                if op == "setitem" and as_list and rng.random() < 0.4:
                    # the right-hand side is a Vector with its OWN schema (as after w = v.copy(); w.add_fields(..) / w.remove_fields(..); v[..] = w[..]):
                    # the same, one more or one fewer field than the target; sometimes with an unset cell
                    nfw = max(1, ref.nf + int(rng.integers(-1, 2)))
                    val, valref = build_pair((ncell,), nfw, "full" if rng.random() < 0.85 else "even", rows=[int(x) for x in rng.integers(0, 4, size=3)])
                    trace[-1] += f" = Vector(shape=({ncell},), {nfw} fields; target has {ref.nf})"
                    klass += "|value=Vector"
                if op == "set_data":
                    res = run_both(lambda: v.set_data(val, *idx), lambda: ref.set_data(valref, *idx))
                else:
                    res = run_both(lambda: v.__setitem__(key, val), lambda: ref.setitem(key, valref))
            msg = outcome_differs(res)
            (k1, r1), (k2, r2) = res
            if msg is None and k1 == "ok" and op in ("get_data", "getitem"):
                if isinstance(r2, Ref):
                    msg = (state_diff(r1, r2) if type(r1).__name__ == "Vector" else "not a Vector") or "; ".join(real_inv_problems(r1)) or None
                elif not same_cells(r1, r2):
                    msg = "returned cells differ from the addressed cells"
        elif op == "add_fields":
            names = [f"g{step}", f"h{step}"][: int(rng.integers(1, 3))]
            if rng.random() < 0.15:
                names = [ref.fields[0]]
            trace.append(f"add_fields({names})")
            msg = outcome_differs(run_both(lambda: v.add_fields(list(names)), lambda: ref.add_fields(list(names))))
        elif op == "remove_fields":
            if ref.nf <= 1:
                continue
            names = [ref.fields[int(rng.integers(ref.nf))]] + (["nope"] if rng.random() < 0.3 else [])
            trace.append(f"remove_fields({names})")
            msg = outcome_differs(run_both(lambda: v.remove_fields(list(names)), lambda: ref.remove_fields(list(names))))
        elif op == "field_arith":
            name = ref.fields[int(rng.integers(ref.nf))]
            which = list(ARITH)[int(rng.integers(3))]
            trace.append(f"v[{name!r}].{which}(2.0)")
            msg = outcome_differs(run_both(lambda: getattr(v[name], which)(2.0), lambda: ref.apply(name, lambda x: ARITH[which](x, 2.0))))
        elif op == "set_flattened":
            name = ref.fields[int(rng.integers(ref.nf))]
            n = ref.flatten().shape[0] + (1 if rng.random() < 0.1 else 0)
            vals = rng.integers(-9, 9, size=n).astype(float)
            trace.append(f"v[{name!r}].set_flattened(len {n})")
            msg = outcome_differs(run_both(lambda: v[name].set_flattened(vals), lambda: ref.set_flattened(name, vals.copy())))
        elif op == "flatten":
            name = ref.fields[int(rng.integers(ref.nf))]
            trace.append(f"flatten / v[{name!r}].flatten()")
            (k1, r1), (k2, r2) = run_both(lambda: (v.flatten(), v[name].flatten()), lambda: (ref.flatten(), ref.field_flatten(name)))
            if k1 != k2 or (k1 == "ok" and not (np.array_equal(r1[0], r2[0]) and r1[0].shape == r2[0].shape and np.array_equal(r1[1], r2[1]))):
                msg = "flatten differs from the row-major concatenation"
            elif k1 == "ok" and (shares_cell_memory(r1[0], v) or shares_cell_memory(r1[1], v)):
                msg = "a flattened array shares memory with a stored cell"
            elif k1 == "ok" and r1[1].size:
                # hold the flattened field across a mutation, write it back: the data is restored
                snap = r1[1]
                v[name] *= 3.0
                v[name].set_flattened(snap)
                trace[-1] += f"; v[{name!r}] *= 3; set_flattened(snapshot)"
        elif op == "copy":
            trace.append("copy")
            c = v.copy()
            shared = [x for x in real_mutables(c) for y in real_mutables(v) if x is y]
            if shared:
                only_md = all(x is c._metadata for x in shared)
                klass = "copy|shares-only-the-default-metadata-dict" if only_md else "copy|shares-state"
                msg = f"copy shares {sorted({type(x).__name__ for x in shared})} with the original (copy.metadata is v.metadata: {c.metadata is v.metadata})"
            v = c
        if msg is None:
            dd = state_diff(v, ref)
            ip = real_inv_problems(v)
            if dd:
                msg = f"state differs: {dd}"
            elif ip:
                msg = "invariant broken: " + "; ".join(ip)
            if msg and "|" not in klass:
                klass += "|state"
        if msg is not None:
            fails.append((step, klass, f"step {step} {trace[-1] if trace else ''}: {msg}; history={list(trace)}"))
            v = rebuild(ref)
    return fails


HISTORY_EXPECT = "real Vector and list-of-cells reference model agree after every operation (result, exception class, state); invariant holds; a copy shares nothing"


@quiet
def rt_history(inp):
    """Replay form: the failure at inp['step'] (or the first one)."""
    fails = run_history(inp)
    if "step" in inp:
        fails = [f for f in fails if f[0] == inp["step"]]
    if not fails:
        return dict(violated=False, observed="ok", expected=HISTORY_EXPECT)
    return dict(violated=True, klass=fails[0][1], observed=fails[0][2], expected=HISTORY_EXPECT)


def bounded_histories(tier, seed):
    n, fails, distinct = 0, [], set()
    import contextlib
    import io

    for inp in fam_history(tier, seed):
        n += 1
        distinct.add(str(sorted(inp.items())))
        with contextlib.redirect_stdout(io.StringIO()):
            try:
                fs = run_history(inp)
            except Exception as e:  # noqa: BLE001
                fs = [(-1, "history|unexpected-exception", f"unexpected {type(e).__name__}: {e}")]
        for step, klass, msg in fs:
            fails.append(dict(case=dict(inp, step=step), klass=klass, observed=msg, expected=HISTORY_EXPECT))
    return dict(evaluations=n, distinct=len(distinct), failures=fails)


HISTORY_OPS = ["get_data", "getitem", "set_data", "setitem", "add_fields", "remove_fields", "field_arith", "set_flattened", "flatten", "copy"]


def fam_history(tier="quick", seed=0):
    n = 12 if tier == "quick" else 80
    for shape in [(3,), (4,), (2, 3), (3, 2), (2, 2, 2), (2, 3, 2)]:
        for nf in (1, 2, 3):
            for mask in ("even", "full"):
                for sd in range(n):
                    yield dict(shape=list(shape), nf=nf, mask=mask, steps=8, ops=HISTORY_OPS, seed=seed * 1000 + sd + 17 * nf + 101 * len(shape))


@quiet
def rt_sharing(inp):
    """Two vectors created independently (and a copy) must not observe each other's mutations - through ANY public handle."""
    from quantem.core.datastructures.vector import Vector as RV

    shape = tuple(inp["shape"])
    a = RV.from_shape(shape, num_fields=2)
    b = RV.from_shape(shape, num_fields=2)
    problems = []
    a.metadata["touched"] = 1
    if "touched" in b.metadata:
        problems.append("writing a.metadata['touched'] is visible in b.metadata (shared default dict)")
    a.metadata.pop("touched", None)
    a.fields.append("zz")
    a.units.append("zz")
    if "zz" in b.fields or "zz" in b.units:
        problems.append("a.fields / a.units list is shared with b")
    a.fields.pop()
    a.units.pop()
    k0 = cells_of(shape)[0]
    a[k0] = np.ones((2, 2))
    if cell_at(b._data, k0) is not None:
        problems.append("assigning a cell of a populated a cell of b")
    c = a.copy()
    c[k0][:, 0] = 7
    if (cell_at(a._data, k0)[:, 0] == 7).any():
        problems.append("writing into a cell of the copy changed the original")
    c.metadata["x"] = 1
    if "x" in a.metadata:
        problems.append("copy.metadata is the original's metadata dict")
    return dict(violated=bool(problems), klass="shared-metadata-default" if problems and all("metadata" in p for p in problems) else "shared-state",
                observed="; ".join(problems) or "ok", expected="no mutation of one vector is visible through an independently created vector or a copy")


def _history_bounded():
    b = Bounded("operation histories vs list-of-cells reference model", bounded_histories,
                "shapes (3,),(4,),(2,3),(3,2),(2,2,2),(2,3,2); 1..3 fields; 8 random operations per history; 12 (quick) / 80 (thorough) histories per configuration; "
                "after a disagreement the real vector is rebuilt from the reference state and the history continues")
    b.rt = rt_history
    return b


def case_klass(inp, res=None):
    """Same failure classes as the histories: (operation, number of fixed dims, index pattern)."""
    idx = []
    for sp in inp["idx"]:
        if sp in ("field", "nofield"):
            return f"{inp['op']}|field-name"
        ob = conc_index(sp, 0)
        idx.append(slice(None) if ob is None else [int(x) for x in ob] if isinstance(ob, np.ndarray) else ob)
    return _pattern(inp["op"], idx, tuple(inp["shape"]))[0]


def create_klass(inp, res):
    if inp["op"] == "from_data":
        return "from_data|items=" + "+".join(inp["items"])
    obs = str(res.get("observed"))
    if "share" in obs:
        return f"{inp['op']}|shares-only-the-default-metadata-dict" if "['dict']" in obs else f"{inp['op']}|shares-state"
    return f"{inp['op']}|other"


def history_klass(inp, res):
    return res.get("klass", "any")


BOUNDED = [
    _history_bounded(),
    Bounded.from_rt("independent vectors and copies share no mutable state", rt_sharing, lambda: iter([dict(shape=[2]), dict(shape=[2, 2]), dict(shape=[1, 2, 2])]),
                    "3 shapes, mutation through every public handle", klass=history_klass),
    Bounded.from_rt("retrieval cases of the contracts on concrete vectors", rt_index_op, lambda: itertools.chain(fam_from(GD_INPUTS)(), fam_from(GI_INPUTS)()),
                    "every enumerated index case, every integer value in [-n-1, n]", klass=case_klass),
    Bounded.from_rt("assignment cases of the contracts on concrete vectors", rt_index_op, lambda: itertools.chain(fam_from(SD_INPUTS, True)(), fam_from(SI_INPUTS, True)()),
                    "every enumerated assignment case, every integer value in [-n-1, n], matching and mismatching column counts",
                    klass=case_klass),
    Bounded.from_rt("creation / copy / from_data cases on concrete inputs", rt_create, lambda: iter(FS_INPUTS + COPY_INPUTS + FD_INPUTS),
                    "enumerated argument combinations", klass=create_klass),
    Bounded.from_rt("field operations and flatten / set_flattened on concrete vectors", rt_fields,
                    lambda: iter(af_inputs() + rf_inputs() + flat_inputs("flatten") + flat_inputs("field_flatten") + flat_inputs("set_flattened", extra=(dict(values_len=1), dict(values="vec2")))
                                 + flat_inputs("roundtrip") + flat_inputs("snapshot_restore") + flat_inputs("apply") + [x for n in ARITH for x in flat_inputs(n, ARITH_VECS)]
                                 + kind_inputs()),
                    "10 shapes x cell masks x row patterns (incl. zero rows) x every column; element kinds float64 / int64 above 2**53 / complex128 / float32 for the field-view paths",
                    klass=lambda inp, res: inp["op"] + (f"|dtype={inp['dtype']}" if inp.get("dtype") else "")),
]

# ------------------------------------------------------------------------------------------------
# property-level lemmas (from the contract statements alone)
# ------------------------------------------------------------------------------------------------


def lemma_roundtrip(ctx):
    """flatten's postcondition + set_flattened's postcondition => set_flattened(flatten()) changes nothing (any number of cells)."""
    n, j = I("n"), I("j")
    rows = z3.Function("rows", z3.IntSort(), z3.IntSort())
    off = z3.Function("off", z3.IntSort(), z3.IntSort())
    cell = z3.Function("cell", z3.IntSort(), z3.IntSort(), z3.IntSort(), z3.RealSort())
    cell2 = z3.Function("cell_after", z3.IntSort(), z3.IntSort(), z3.IntSort(), z3.RealSort())
    flat = z3.Function("flat", z3.IntSort(), z3.RealSort())
    k, r, c = I("k"), I("r"), I("c")
    ink = AND(k >= 0, k < n, r >= 0, r < rows(k))
    hyp = [forall([k, r], implies(ink, flat(off(k) + r) == cell(k, r, j))),               # post(_FieldView.flatten)
           forall([k, r], implies(ink, cell2(k, r, j) == flat(off(k) + r))),              # post(set_flattened): column holds the values
           forall([k, r, c], implies(AND(ink, c != j), cell2(k, r, c) == cell(k, r, c)))]  # post(set_flattened): other columns unchanged
    kk, rr, cc = I("kk"), I("rr"), I("cc")
    return [("set_flattened(flatten())-is-the-identity-on-every-cell", hyp + [kk >= 0, kk < n, rr >= 0, rr < rows(kk)], cell2(kk, rr, cc) == cell(kk, rr, cc))]


def lemma_readback(ctx):
    """post(set_flattened) + post(flatten) => flatten() after set_flattened(x) returns x, for 1..4 populated (pairwise distinct) cells."""
    out = []
    x = z3.Function("x", z3.IntSort(), z3.RealSort())
    flat = z3.Function("flat_after", z3.IntSort(), z3.RealSort())
    cell2 = z3.Function("cell_after", z3.IntSort(), z3.IntSort(), z3.RealSort())
    r, p = I("r"), I("p")
    for n in (1, 2, 3, 4):
        rows = [I(f"rows{k}") for k in range(n)]
        offs = [sum(rows[:k], z3.IntVal(0)) for k in range(n + 1)]
        hyp = [rw >= 0 for rw in rows]
        for k in range(n):
            # the two universally quantified postconditions, instantiated at the row r = p - offset(k) (sound: universal instantiation)
            rk = p - offs[k]
            inr = AND(rk >= 0, rk < rows[k])
            hyp.append(implies(inr, cell2(z3.IntVal(k), rk) == x(offs[k] + rk)))
            hyp.append(implies(inr, flat(offs[k] + rk) == cell2(z3.IntVal(k), rk)))
        out.append((f"flatten-after-set_flattened(x)-is-x[{n}-cells]", hyp + [p >= 0, p < offs[n]], flat(p) == x(p)))
    return out


def lemma_independent(ctx):
    """post(from_shape): every mutable part of the result was allocated DURING the call. Two calls (in either order, the
    second starting after the first ended) therefore produce vectors with disjoint mutable parts; likewise a copy."""
    alloc = z3.Function("alloc_time", z3.IntSort(), z3.IntSort())
    part1 = z3.Function("is_part_of_v1", z3.IntSort(), z3.BoolSort())
    part2 = z3.Function("is_part_of_v2", z3.IntSort(), z3.BoolSort())
    s1, e1, s2, e2, o = I("start1"), I("end1"), I("start2"), I("end2"), I("o")
    q = I("q")
    hyp = [forall([q], implies(part1(q), AND(alloc(q) > s1, alloc(q) <= e1))), forall([q], implies(part2(q), AND(alloc(q) > s2, alloc(q) <= e2))), e1 <= s2]
    return [("fresh-allocations-of-two-calls-are-disjoint", hyp, NOT(AND(part1(o), part2(o))))]


LEMMAS = [Lemma("flatten-set_flattened-roundtrip", lemma_roundtrip, uses=["_FieldView.flatten", "_FieldView.set_flattened"]),
          Lemma("set_flattened-then-flatten", lemma_readback, uses=["_FieldView.flatten", "_FieldView.set_flattened"]),
          Lemma("independent-vectors-share-nothing", lemma_independent, uses=["Vector.from_shape", "Vector.copy", "Vector.__init__"])]

TRUSTED = [
    "pyvc engine (AST interpreter incl. python list / tuple / dict semantics executed natively, z3, cvc5)",
    "pyvc/lib/c11_models.py: numpy zeros / empty / hstack / vstack / concatenate, basic slicing = view, advanced indexing = copy, in-place column store a[:, j] = v "
    "(right-hand side read first, broadcasting only of scalars / length-1), copy.deepcopy (all reachable mutable objects rebuilt, sharing structure kept by the memo), "
    "copy.copy (new outer list / dict holding the SAME element objects; ndarray: new array), id(x) (interpreter-level object identity), len(set(.)), list.index",
    "python object identity inside the interpreter = allocation identity of the real program (lists / dicts are real python objects; default-argument objects are "
    "the real function's __defaults__, allocated once at import)",
    "meta-argument of lemma independent-vectors-share-nothing: an object allocated during a call did not exist before the call started",
]
ASSUMPTIONS = [
    "A1 floats are reals (cell contents are real-valued index functions; dtype is not modelled)",
    "fixed dimensions are ENUMERATED: 1..3 dims with sizes <= 3 (nested_list up to 4 / 3x3x3); index expressions (slices, index lists, index arrays, None) are enumerated per shape, "
    "integer indices are symbolic (all integers). Row counts, cell contents, column counts of assigned arrays, field names and units are symbolic (all values). "
    "Nothing is claimed for larger fixed dimensions except through the bounded histories.",
    "the recursive helpers nested in methods (expand_array, prune_array, collect, collect_arrays, fill, apply, _flatten_cells) are interpreted by exact unrolling on the enumerated "
    "shapes, not by an inductive contract (nested functions are not addressable as contract targets); only nested_list is verified through its own recursive contract",
    "which cells are unset is enumerated by patterns (all, none, checkerboard, inverse checkerboard), not symbolic",
    "one array object stored in two cells (legal: `v[2:4, 1] = v[1:3, 1]` stores the given objects) is part of the pre-state family of the field-view contracts (flatten, "
    "__array__, set_flattened, _apply_op, the arithmetic operators) and of copy: flatten is the concatenation over cell POSITIONS; set_flattened puts each position's slice "
    "of the values into that position for every value sequence that agrees on the positions holding one array (every flattened field does), and writing a field back restores "
    "the data exactly; how often a field-arithmetic update reaches an array stored twice is left open (column of that array unspecified, everything else specified)",
    "from_data / data setter keep the caller's arrays (no copy) - stated in the contracts, not a violation of the statement as written",
    "property setters (fields, units, shape, name, data) are not among the operations listed in the statement; units/data setters are under contract, the fields/shape setters are only "
    "used through __init__ (assigning fewer field names than columns through `v.fields = ...` is not rejected by the code)",
    "index tuples longer than the number of fixed dimensions (indexing into a cell) are outside the contracts (precondition)",
]
EXPLANATION = ("VCs generated from the real source of Vector / _FieldView / nested_list / the vector validators by symbolic interpretation: real nested python lists with "
               "abstract cell arrays (symbolic rows / contents / names), discharged by z3; allocation identity for the sharing clauses; property lemmas from the contracts")

# debugging aid (never set by ./check or the tools): restrict a run to the contracts whose function name contains one of the given substrings
import os as _os

if _os.environ.get("C11_ONLY"):
    _pats = _os.environ["C11_ONLY"].split(",")
    CONTRACTS = [c for c in CONTRACTS if any(p in c.func for p in _pats)]
    BOUNDED, LEMMAS = [], []
