"""C15 - drift correction starts from an exact, shape-independent resampling geometry.

Property (properties.jsonl): before any drift is estimated, pixel (r, c) of an (H, W) image is placed at
    canvas centre + R(theta) . (r - (H-1)/2, c - (W-1)/2)
for every shape, angle, pad fraction and knot count 1..4; every pixel contributes unit total weight to the canvas
(weight map sums to H*W); identical stacks are a fixed point of translation alignment (proved through content identifiers modulo two
assumed clauses: warp_image is a function of its inputs, cross_correlation_shift measures zero for identical inputs; numerics bounded).
"""
from __future__ import annotations

import z3

from pyvc import values as V
from pyvc.values import Sym, SymArr, Obj, S, lift
from pyvc.interp import NS, LoopSpec
from pyvc.registry import Contract, resolve
from pyvc.runner import Lemma, Bounded
from pyvc.lib import c15_models as cm
from . import C09
from . import C13
from .common import registry, forall, implies, AND, OR, NOT, opt_int, frame_snapshot, frame_clauses

LEVEL = "proof"
DR = "quantem.imaging.drift"
IU = "quantem.core.utils.imaging_utils"
DI = resolve(f"{DR}:DriftInterpolator")
DC = resolve(f"{DR}:DriftCorrection")
I, Rl = z3.Int, z3.Real
R_ = z3.ToReal
KNOTS = (1, 2, 3, 4)


def make_registry():
    reg = registry()
    cm.install(reg)
    _REG["reg"] = reg
    for c in CONTRACTS:
        if c not in C13_CONTRACTS:
            reg.add_contract(c)
    for c in CALLSITE_ONLY:
        reg.contracts[c.func] = c
    reg.abstract_classes.add(f"{DR}:DriftInterpolator")
    from quantem.core.datastructures.dataset3d import Dataset3d

    def m_from_shape(interp, shape, *a, **kw):
        return StackStub(cm.zeros_like_shape(shape))

    reg.models[Dataset3d.from_shape] = m_from_shape
    reg.abstract_classes.add(f"{DR}:DriftCorrection")
    from quantem.core.datastructures.dataset2d import Dataset2d

    prev_isinstance = getattr(reg, "isinstance_model", None)

    def isinstance_model(interp, x, t):
        """an ImageStub stands for a Dataset2d (and for nothing else)"""
        if isinstance(x, ImageStub):
            ts = t if isinstance(t, tuple) else (t,)
            return any(k is object or (isinstance(k, type) and issubclass(Dataset2d, k)) for k in ts)
        return prev_isinstance(interp, x, t) if prev_isinstance is not None else NotImplemented

    reg.isinstance_model = isinstance_model
    return reg


def rterm(x):
    t = V._num(lift(x))
    return R_(t) if z3.is_int(t) else t


def fork_knots(ctx, choices=KNOTS):
    """number of knots per scan line: 1..4 (the property's range), one path each"""
    for K in choices[:-1]:
        if ctx.branch(ctx.fresh(f"knots_is_{K}", "bool").t):
            return K
    return choices[-1]


def _rt_later(name):
    """a run-time oracle / family defined further down in this module"""
    def f(*a, **kw):
        return globals()[name](*a, **kw)

    f.__name__ = name
    return f


# ------------------------------------------------------------------------------------------------
# DriftInterpolator: representation  (input_shape=(H,W), u = linspace(0,1,W), scan vectors, ...)
# ------------------------------------------------------------------------------------------------


def u_spec(W, c):
    """linspace(0, 1, W)[c]"""
    W, c = lift(W), lift(c)
    return z3.If(W == 1, z3.RealVal(0), R_(c) / R_(W - 1))


def interp_fields(ctx, H=None, W=None):
    H = H if H is not None else ctx.fresh("H", "int")
    W = W if W is not None else ctx.fresh("W", "int")
    S1, S2 = ctx.fresh("S1", "int"), ctx.fresh("S2", "int")
    fast = ctx.fresh_arr("scan_fast", (2,), "real")
    slow = ctx.fresh_arr("scan_slow", (2,), "real")
    return dict(input_shape=(H, W), output_shape=(S1, S2), scan_fast=fast, scan_slow=slow,
                pad_value=ctx.fresh("pad_value", "real"), kde_sigma=ctx.fresh("kde_sigma", "real"))


def derived_fields(H, W):
    Wt = lift(W)
    return dict(
        rows_input=SymArr((H,), lambda i: Sym(i), "int", name="rows_input"),
        cols_input=SymArr((W,), lambda i: Sym(i), "int", name="cols_input"),
        u=SymArr((W,), lambda c: Sym(u_spec(Wt, c)), "real", name="u"),
    )


def interp_obj(ctx):
    f = interp_fields(ctx)
    H, W = f["input_shape"]
    f.update(derived_fields(H, W))
    return Obj(DI, f)


def interp_inv(o):
    H, W = o.fields["input_shape"]
    S1, S2 = o.fields["output_shape"]
    return [("H>=1", lift(H) >= 1), ("W>=1", lift(W) >= 1), ("canvas-rows>=1", lift(S1) >= 1), ("canvas-cols>=1", lift(S2) >= 1),
            ("kde_sigma>=0", lift(o.fields["kde_sigma"]) >= 0)]


def di_init_setup(ctx):
    f = interp_fields(ctx)
    return NS(self=Obj(DI, {}), **f)


def di_init_ensures(s):
    o = s.self
    F = o.fields
    H, W = s.input_shape
    c = I("c")
    out = [(f"stores-{k}", F.get(k) is getattr(s, k)) for k in ("input_shape", "output_shape", "scan_fast", "scan_slow", "pad_value", "kde_sigma")]
    u, ri, ci = F.get("u"), F.get("rows_input"), F.get("cols_input")
    ok = all(isinstance(a, SymArr) and a.ndim == 1 for a in (u, ri, ci))
    out.append(("u/rows_input/cols_input-are-1d-arrays", ok))
    if ok:
        out += [
            ("len(u)=W", lift(u.shape[0]) == lift(W)),
            ("u=linspace(0,1,W)", forall(c, implies(AND(c >= 0, c < lift(W)), rterm(u.fn(c)) == u_spec(W, c)))),
            ("rows_input=arange(H)", AND(lift(ri.shape[0]) == lift(H), forall(c, implies(AND(c >= 0, c < lift(H)), lift(ri.fn(c)) == c)))),
            ("cols_input=arange(W)", AND(lift(ci.shape[0]) == lift(W), forall(c, implies(AND(c >= 0, c < lift(W)), lift(ci.fn(c)) == c)))),
        ]
    return out


def di_init_modifies(ctx, s):
    o = s.self
    for k in ("input_shape", "output_shape", "scan_fast", "scan_slow", "pad_value", "kde_sigma"):
        o.fields[k] = getattr(s, k)
    H, W = s.input_shape
    o.fields.update(derived_fields(H, W))


C_DI_INIT = Contract(
    f"{DR}:DriftInterpolator.__init__", setup=di_init_setup,
    requires=lambda s: [("H>=0", lift(s.input_shape[0]) >= 0), ("W>=0", lift(s.input_shape[1]) >= 0)],
    ensures=di_init_ensures, modifies=di_init_modifies,
)

# ------------------------------------------------------------------------------------------------
# transform_rows: knots of one scan line (or, for 1 knot, of all lines) -> per-pixel coordinates
# ------------------------------------------------------------------------------------------------


def knot_count(knots):
    K = V._dim_lit(knots.shape[-1])
    if K is None:
        raise V.OutOfSubset("symbolic number of knots")
    return K


def straight(kfn, K):
    """The K knots  kfn(d, k)  (d = 0 row coordinate, 1 column coordinate) are equally spaced on a straight segment."""
    out = []
    for d in (0, 1):
        A, B = rterm(kfn(d, 0)), rterm(kfn(d, K - 1))
        for k in range(1, K - 1):
            out.append(rterm(kfn(d, k)) == A + z3.RealVal(k) / z3.RealVal(K - 1) * (B - A))
    return z3.And(*out) if out else z3.BoolVal(True)


def pixel_on_line(kfn, K, fast, W, c, d):
    """Property-derived position of pixel c (coordinate d) of a straight scan line given by K knots:
    1 knot : the knot is pixel 0 and the line runs along the fast scan vector, one pixel per step;
    K >= 2 : the first / last knots are pixels 0 / W-1 and the pixels are equally spaced in between."""
    A = rterm(kfn(d, 0))
    if K == 1:
        return A + R_(lift(c)) * rterm(fast.fn(z3.IntVal(d)))
    B = rterm(kfn(d, K - 1))
    return A + u_spec(W, c) * (B - A)


def tr_setup(ctx):
    o = interp_obj(ctx)
    K = fork_knots(ctx)
    if K == 1:
        rows = ctx.fresh("rows", "int")
        kr = ctx.fresh_arr("knots", (2, rows, 1), "real")
    else:
        rows = None
        kr = ctx.fresh_arr("knots_row", (2, K), "real")
    return NS(self=o, knots_row=kr, K=K, rows=rows, case=f"K={K}")


def tr_requires(s):
    kr = s.knots_row
    out = [("Inv:" + a, b) for a, b in interp_inv(s.self)]
    if not isinstance(kr, SymArr):
        return out + [("knots-is-array", False)]
    K = knot_count(kr)
    out.append(("1..4-knots", K in KNOTS))
    if K == 1:
        out += [("knots-shape-(2,rows,1)", AND(kr.ndim == 3, V.dims_equal(kr.shape[0], 2))), ("rows>=1", lift(kr.shape[1]) >= 1)] if kr.ndim == 3 else [("knots-shape-(2,rows,1)", False)]
    else:
        out.append(("knots-shape-(2,K)", kr.ndim == 2 and V.dims_equal(kr.shape[0], 2)))
    return out


def tr_ensures(s):
    kr = s.knots_row
    K = knot_count(kr)
    o = s.self
    H, W = o.fields["input_shape"]
    fast = o.fields["scan_fast"]
    res = s.result
    if not (isinstance(res, tuple) and len(res) == 2 and all(isinstance(a, SymArr) for a in res)):
        return [("returns-(xa,ya)", False)]
    c, r = I("c"), I("r")
    out = []
    for d, name in ((0, "xa"), (1, "ya")):
        a = res[d]
        if K == 1:
            rows = lift(kr.shape[1])
            ok = a.ndim == 2
            out.append((f"{name}-shape-(rows,W)", AND(ok, lift(a.shape[0]) == rows, lift(a.shape[-1]) == lift(W)) if ok else False))
            if ok:
                kfn = lambda dd, k, _r=r: kr.fn(z3.IntVal(dd), _r, z3.IntVal(k))
                body = forall([r, c], implies(AND(r >= 0, r < rows, c >= 0, c < lift(W)), rterm(a.fn(r, c)) == pixel_on_line(kfn, 1, fast, W, c, d)))
                # the same statement, split by input class (square image or line along a canvas axis / the rest), so that a
                # finding recorded for one class cannot hide a failure of the other
                easy = OR(lift(H) == lift(W), rterm(fast.fn(z3.IntVal(d))) == 0)
                out.append((f"{name}[r,c]=knot[r]+c*scan_fast[square-image-or-no-{name[0]}-component]", implies(easy, body)))
                out.append((f"{name}[r,c]=knot[r]+c*scan_fast[non-square-image-and-rotated-scan]", implies(NOT(easy), body)))
        else:
            ok = a.ndim == 1
            out.append((f"{name}-shape-(W,)", AND(ok, lift(a.shape[0]) == lift(W)) if ok else False))
            if ok:
                kfn = lambda dd, k: kr.fn(z3.IntVal(dd), z3.IntVal(k))
                out.append((f"{name}[c]-equally-spaced-between-first-and-last-knot-of-a-straight-line",
                            implies(straight(kfn, K), forall(c, implies(AND(c >= 0, c < lift(W)), rterm(a.fn(c)) == pixel_on_line(kfn, K, fast, W, c, d))))))
    return out


def tr_result(ctx, s):
    kr = s.knots_row
    K = knot_count(kr)
    H, W = s.self.fields["input_shape"]
    if K == 1:
        sh = (kr.shape[1], W)
    else:
        sh = (W,)
    return (ctx.fresh_arr("xa", sh, "real"), ctx.fresh_arr("ya", sh, "real"))


C_TR = Contract(f"{DR}:DriftInterpolator.transform_rows", setup=tr_setup, requires=tr_requires, ensures=tr_ensures, result=tr_result)

# ------------------------------------------------------------------------------------------------
# transform_coordinates: all scan lines
# ------------------------------------------------------------------------------------------------


def tc_setup(ctx):
    o = interp_obj(ctx)
    K = fork_knots(ctx)
    H, W = o.fields["input_shape"]
    knots = ctx.fresh_arr("knots", (2, H, K), "real")
    return NS(self=o, knots=knots, K=K, case=f"K={K}")


def tc_requires(s):
    kn = s.knots
    out = [("Inv:" + a, b) for a, b in interp_inv(s.self)]
    if not (isinstance(kn, SymArr) and kn.ndim == 3):
        return out + [("knots-shape-(2,H,K)", False)]
    K = knot_count(kn)
    H, W = s.self.fields["input_shape"]
    out += [("1..4-knots", K in KNOTS), ("knots-shape-(2,H,K)", AND(V.dims_equal(kn.shape[0], 2), lift(kn.shape[1]) == lift(H)))]
    return out


def tc_row_formula(kn, K, fast, W, r, c, d):
    kfn = lambda dd, k: kn.fn(z3.IntVal(dd), r, z3.IntVal(k))
    return straight(kfn, K), pixel_on_line(kfn, K, fast, W, c, d)


def tc_ensures(s):
    kn = s.knots
    K = knot_count(kn)
    o = s.self
    H, W = o.fields["input_shape"]
    fast = o.fields["scan_fast"]
    res = s.result
    if not (isinstance(res, tuple) and len(res) == 2 and all(isinstance(a, SymArr) and a.ndim == 2 for a in res)):
        return [("returns-2d-(xa,ya)", False)]
    r, c = I("r"), I("c")
    out = []
    for d, name in ((0, "xa"), (1, "ya")):
        a = res[d]
        out.append((f"{name}-shape-(H,W)", AND(lift(a.shape[0]) == lift(H), lift(a.shape[1]) == lift(W))))
        st, px = tc_row_formula(kn, K, fast, W, r, c, d)
        out.append((f"{name}[r,c]-on-the-straight-line-through-the-knots-of-row-r",
                    forall([r, c], implies(AND(r >= 0, r < lift(H), c >= 0, c < lift(W), st), rterm(a.fn(r, c)) == px))))
    return out


def tc_result(ctx, s):
    H, W = s.self.fields["input_shape"]
    res = (ctx.fresh_arr("xa", (H, W), "real"), ctx.fresh_arr("ya", (H, W), "real"))
    ctx.ghost.setdefault("transform_coordinates_results", []).append(res)  # ghost: lets a caller's contract name these coordinates
    return res


def tc_loop_inv(s):
    kn = s.knots
    K = knot_count(kn)
    o = s.self
    H, W = o.fields["input_shape"]
    fast = o.fields["scan_fast"]
    r, c = I("r"), I("c")
    out = []
    for d, name in ((0, "xa"), (1, "ya")):
        a = getattr(s, name)
        st, px = tc_row_formula(kn, K, fast, W, r, c, d)
        out.append((f"{name}-shape", AND(a.ndim == 2, lift(a.shape[0]) == lift(H), lift(a.shape[1]) == lift(W))))
        out.append((f"{name}-rows-below-i-done", forall([r, c], implies(AND(r >= 0, r < lift(s.k), c >= 0, c < lift(W), st), rterm(a.fn(r, c)) == px))))
    return out


C_TC = Contract(f"{DR}:DriftInterpolator.transform_coordinates", setup=tc_setup, requires=tc_requires, ensures=tc_ensures, result=tc_result,
                loops={0: LoopSpec(inv=tc_loop_inv)})  # xa / ya are written by row: the engine havocs their contents at the arbitrary iteration


# ------------------------------------------------------------------------------------------------
# bilinear_kde: bilinear splat (batched bincount with wrapped indices) + Gaussian KDE
# ------------------------------------------------------------------------------------------------
UT = "quantem.core.utils.utils"


def total_term(arr):
    """SUM of all entries of `arr` as a real term (ghost maintained by the trusted library contracts), or None."""
    g = cm.get_total(arr) if isinstance(arr, SymArr) else None
    return None if g is None else g.term()


def kde_setup(ctx):
    H, W = ctx.fresh("H", "int"), ctx.fresh("W", "int")
    rows, cols = ctx.fresh("rows", "int"), ctx.fresh("cols", "int")
    return NS(xa=ctx.fresh_arr("xa", (H, W), "real"), ya=ctx.fresh_arr("ya", (H, W), "real"), values=ctx.fresh_arr("values", (H, W), "real"),
              output_shape=(rows, cols), kde_sigma=ctx.fresh("kde_sigma", "real"), pad_value=ctx.fresh("pad_value", "real"),
              threshold=ctx.fresh("threshold", "real"), lowpass_filter=False,
              max_batch_size=opt_int(ctx, "max_batch_size"), return_pix_count=True)


def kde_points(s):
    n = 1
    for d in s.xa.shape:
        n = n * d
    return lift(n)


def kde_requires(s):
    xa, ya, vals = s.xa, s.ya, s.values
    if not all(isinstance(a, SymArr) for a in (xa, ya, vals)):
        return [("xa/ya/values-are-arrays", False)]
    same = xa.ndim == ya.ndim == vals.ndim and all(V.dims_equal(p, q) and V.dims_equal(p, t) for p, q, t in zip(xa.shape, ya.shape, vals.shape))
    osh = cm_shape(s.output_shape)
    out = [("xa,ya,values-same-shape", same), ("output_shape-is-(rows,cols)", osh is not None)]
    out += [(f"dim{j}>=1", lift(d) >= 1) for j, d in enumerate(xa.shape)]
    if osh is not None:
        out += [("rows>=1", lift(osh[0]) >= 1), ("cols>=1", lift(osh[1]) >= 1)]
    out.append(("kde_sigma>=0", lift(s.kde_sigma) >= 0))
    if s.max_batch_size is not None:
        out.append(("max_batch_size>=1", lift(s.max_batch_size) >= 1))
    out.append(("no-lowpass-filter", s.get("lowpass_filter", False) is False))
    out.append(("threshold>0", lift(s.get("threshold", 1e-3)) > 0))
    return out


def cm_shape(sh):
    """(rows, cols) of an output_shape given as a tuple or as a length-2 array"""
    if isinstance(sh, (tuple, list)) and len(sh) == 2:
        return tuple(sh)
    if isinstance(sh, SymArr) and sh.ndim == 1 and V._dim_lit(sh.shape[0]) == 2:
        return (Sym(cm._i(sh.fn(z3.IntVal(0)))), Sym(cm._i(sh.fn(z3.IntVal(1)))))
    return None


def kde_ensures(s):
    res = s.result
    if not s.return_pix_count:
        return [("returns-image", isinstance(res, SymArr))]
    if not (isinstance(res, tuple) and len(res) == 2 and all(isinstance(a, SymArr) and a.ndim == 2 for a in res)):
        return [("returns-(image,weights)", False)]
    rows, cols = cm_shape(s.output_shape)
    img, wts = res
    tot = total_term(wts)
    return [
        ("image-shape=output_shape", AND(lift(img.shape[0]) == lift(rows), lift(img.shape[1]) == lift(cols))),
        ("weights-shape=output_shape", AND(lift(wts.shape[0]) == lift(rows), lift(wts.shape[1]) == lift(cols))),
        ("weight-map-sums-to-the-number-of-points", False if tot is None else tot == R_(kde_points(s))),
    ]


def kde_result(ctx, s):
    rows, cols = cm_shape(s.output_shape)
    img = ctx.fresh_arr("kde_image", (rows, cols), "real")
    if not s.return_pix_count:
        return img
    wts = ctx.fresh_arr("kde_weights", (rows, cols), "real")
    cm.set_total(wts, cm.FormalSum(ctx.fresh("kde_weights_total", "real")))
    # ghost: the points were splatted at (row coordinate xa, column coordinate ya) holding `values`
    img._splat = wts._splat = NS(xa=s.xa, ya=s.ya, values=s.values, kde_sigma=s.kde_sigma, pad_value=s.pad_value)
    return (img, wts)


def kde_psum(s):
    return C09.sb_psum(NS(num_items=s.xF.shape[0], num_batches=None, max_batch=s.max_batch_size))


def kde_loop_inv(s):
    P = kde_psum(s)
    k = lift(s.k)
    n = lift(s.xF.shape[0])
    nb = C09.nb_eff(NS(num_items=s.xF.shape[0], num_batches=None, max_batch=s.max_batch_size))
    tot = total_term(s.pix_count)
    return [
        ("batch-k-is-a-slice-of-the-points", AND(P(k) >= 0, implies(k < nb, AND(P(k + 1) > P(k), P(k + 1) <= n)))),
        ("pix_count-length", lift(s.pix_count.shape[0]) == lift(s.rows) * lift(s.cols)),
        ("pix_output-length", lift(s.pix_output.shape[0]) == lift(s.rows) * lift(s.cols)),
        ("total-weight-so-far=number-of-points-splatted", False if tot is None else tot == R_(P(k))),
    ]


def _fresh_with_total(name):
    def mk(ctx, old):
        r = ctx.fresh_arr(name, old.shape, "real")
        return cm.set_total(r, cm.FormalSum(ctx.fresh(name + "_total", "real")))

    return mk


C_KDE = Contract(
    f"{IU}:bilinear_kde", setup=kde_setup, requires=kde_requires, ensures=kde_ensures, result=kde_result,
    loops={0: LoopSpec(inv=kde_loop_inv, kinds={"pix_count": _fresh_with_total("pix_count")})},
)

# ------------------------------------------------------------------------------------------------
# warp_image
# ------------------------------------------------------------------------------------------------


def wi_setup(ctx):
    o = interp_obj(ctx)
    K = fork_knots(ctx)
    H, W = o.fields["input_shape"]
    return NS(self=o, image=ctx.fresh_arr("image", (H, W), "real"), knots=ctx.fresh_arr("knots", (2, H, K), "real"), K=K, case=f"K={K}")


def wi_requires(s):
    out = tc_requires(s)
    H, W = s.self.fields["input_shape"]
    im = s.image
    out.append(("image-shape=input_shape", isinstance(im, SymArr) and im.ndim == 2 and V.dims_equal(im.shape[0], H) and V.dims_equal(im.shape[1], W)))
    out.append(("default-options", all(s.get(k) is None for k in ("kde_sigma", "output_shape", "pad_value", "upsample_factor"))))
    return out


def wi_ensures(s):
    res = s.result
    if not (isinstance(res, tuple) and len(res) == 2 and all(isinstance(a, SymArr) and a.ndim == 2 for a in res)):
        return [("returns-(image,weights)", False)]
    o = s.self
    H, W = o.fields["input_shape"]
    S1, S2 = o.fields["output_shape"]
    img, wts = res
    tot = total_term(wts)
    flow = []
    sp, sp2 = getattr(wts, "_splat", None), getattr(img, "_splat", None)
    tcr = s.ctx.ghost.get("transform_coordinates_results", [])
    if s.mode == "verify":
        # data flow: pixel (r, c) of `image` is splatted at row coordinate xa[r,c] / column coordinate ya[r,c] of transform_coordinates(knots)
        called = sp is not None and sp is sp2 and all(isinstance(a, SymArr) for a in (sp.xa, sp.ya, sp.values))
        ok = called and len(tcr) == 1 and all(a.ndim == 2 for a in (sp.xa, sp.ya, sp.values))
        r, c = I("r"), I("c")

        def numel(a):
            n = z3.IntVal(1)
            for dd in a.shape:
                n = n * lift(dd)
            return n

        # the weight-total clause is carried by warp_image itself: the number of points handed to bilinear_kde (coordinates AND
        # values) is the number of image pixels -- no pixel is dropped, masked out or duplicated before the splat
        flow0 = [("every-image-pixel-is-handed-to-bilinear_kde(number-of-coordinates=number-of-values=H*W)", False if not called else AND(
            numel(sp.xa) == lift(H) * lift(W), numel(sp.ya) == lift(H) * lift(W), numel(sp.values) == lift(H) * lift(W)))]
        inr = AND(r >= 0, r < lift(H), c >= 0, c < lift(W))
        flow = [("pixel(r,c)-is-splatted-at-(xa[r,c],ya[r,c])-of-transform_coordinates", False if not ok else AND(
                    lift(sp.xa.shape[0]) == lift(H), lift(sp.xa.shape[1]) == lift(W),
                    forall([r, c], implies(inr, AND(rterm(sp.xa.fn(r, c)) == rterm(tcr[0][0].fn(r, c)), rterm(sp.ya.fn(r, c)) == rterm(tcr[0][1].fn(r, c)),
                                                    rterm(sp.values.fn(r, c)) == rterm(s.image.fn(r, c))))))),
                ("kde-width-and-pad-value-are-the-interpolator's", False if not called else AND(rterm(sp.kde_sigma) == rterm(o.fields["kde_sigma"]), rterm(sp.pad_value) == rterm(o.fields["pad_value"])))]
        flow = flow0 + flow
    return flow + [
        ("image-on-the-canvas", AND(lift(img.shape[0]) == lift(S1), lift(img.shape[1]) == lift(S2))),
        ("weights-on-the-canvas", AND(lift(wts.shape[0]) == lift(S1), lift(wts.shape[1]) == lift(S2))),
        ("weight-map-sums-to-the-number-of-image-pixels", False if tot is None else tot == R_(lift(H) * lift(W))),
    ]


def same_warp_inputs(p, q):
    """the inputs of two warp_image calls are equal: image contents, every knot, and the interpolator's shapes, scan vectors,
    pad value and KDE width"""
    if p.K != q.K:
        return z3.BoolVal(False)
    d, r, k = I("d!w"), I("r!w"), I("k!w")
    H = lift(p.shapes[0])
    cl = [p.image_cid == q.image_cid, rterm(p.pad_value) == rterm(q.pad_value), rterm(p.kde_sigma) == rterm(q.kde_sigma)]
    cl += [lift(a) == lift(b) for a, b in zip(p.shapes, q.shapes)]
    for v in ("scan_fast", "scan_slow"):
        cl += [rterm(getattr(p, v).fn(z3.IntVal(j))) == rterm(getattr(q, v).fn(z3.IntVal(j))) for j in (0, 1)]
    cl.append(forall([d, r, k], implies(AND(d >= 0, d < 2, r >= 0, r < H, k >= 0, k < p.K), rterm(p.knots.fn(d, r, k)) == rterm(q.knots.fn(d, r, k)))))
    return AND(*cl)


def canvas_from_image_clause(ctx, a, im, kn, it, stack):
    """data flow (proved from the source): slab a of the canvas stack is the result of  interpolator[a].warp_image(image a, knots a)"""
    calls = ctx.ghost.get("warp_image_calls", [])
    if a >= len(calls) or not isinstance(stack, StackStub) or not isinstance(kn, SymArr) or kn.ndim != 3 or not isinstance(it, Obj):
        return False
    c = calls[a]
    got = cm.slab_content(stack.array, a)
    if got is None or V._dim_lit(kn.shape[2]) != c.K:
        return False
    d, r, k = I("d!f"), I("r!f"), I("k!f")
    IF = it.fields
    return AND(got == c.out[0], c.image_cid == image_cid(ctx, im), rterm(c.pad_value) == rterm(IF["pad_value"]), rterm(c.kde_sigma) == rterm(IF["kde_sigma"]),
               *[rterm(getattr(c, v).fn(z3.IntVal(j))) == rterm(IF[v].fn(z3.IntVal(j))) for v in ("scan_fast", "scan_slow") for j in (0, 1)],
               forall([d, r, k], implies(AND(d >= 0, d < 2, r >= 0, r < lift(kn.shape[1]), k >= 0, k < c.K), rterm(c.knots.fn(d, r, k)) == rterm(kn.fn(d, r, k)))))


def wi_result(ctx, s):
    F = s.self.fields
    S1, S2 = F["output_shape"]
    img = ctx.fresh_arr("warped", (S1, S2), "real")
    wts = ctx.fresh_arr("warp_weights", (S1, S2), "real")
    cm.set_total(wts, cm.FormalSum(ctx.fresh("warp_weights_total", "real")))
    # ASSUMED RELATIONAL CLAUSE (not verified: a statement about two executions): warp_image is a FUNCTION of the image contents,
    # the knots and the interpolator's fields -- two calls with equal inputs return canvases with equal contents
    if isinstance(s.image, SymArr) and isinstance(s.knots, SymArr) and s.knots.ndim == 3 and all(s.get(k) is None for k in ("kde_sigma", "output_shape", "pad_value", "upsample_factor")):
        me = NS(image_cid=cm.content_of(ctx, s.image), knots=s.knots.copy(), K=knot_count(s.knots), shapes=tuple(F["input_shape"]) + (S1, S2),
                scan_fast=F["scan_fast"], scan_slow=F["scan_slow"], pad_value=F["pad_value"], kde_sigma=F["kde_sigma"],
                out=(ctx.fresh("warped_content", "int").t, ctx.fresh("warp_weights_content", "int").t))
        cm.set_content(img, me.out[0])
        cm.set_content(wts, me.out[1])
        for prev in ctx.ghost.setdefault("warp_image_calls", []):
            ctx.assume(implies(same_warp_inputs(prev, me), AND(prev.out[0] == me.out[0], prev.out[1] == me.out[1])))
        ctx.ghost["warp_image_calls"].append(me)
    return (img, wts)


C_WI = Contract(f"{DR}:DriftInterpolator.warp_image", setup=wi_setup, requires=wi_requires, ensures=wi_ensures, result=wi_result)


# ------------------------------------------------------------------------------------------------
# DriftCorrection.preprocess: scan vectors, canvas, knot initialisation, interpolators, first resampling
# ------------------------------------------------------------------------------------------------
CV = "quantem.core.utils.compound_validators"
STACK = (2, 3, 4)


class ImageStub:
    """A Dataset2d seen through the two attributes preprocess uses: `.shape == (H, W)` and `.array` of that shape."""

    _pyvc_value = True

    def __init__(self, shape, array):
        self.shape = shape
        self.array = array

    def _pyvc_signature(self):
        from pyvc.interp import _value_signature

        return ("image", id(self), id(self.shape), _value_signature(self.array))


class StackStub:
    """Dataset3d.from_shape(shape): an object with a zero `.array` of that shape (trusted)."""

    _pyvc_value = True

    def __init__(self, array):
        self.array = array


def slab_total(arr, j):
    g = getattr(arr, "_slab_totals", None)
    if g is None or g[1] != arr.writes or j not in g[0]:
        return None
    return g[0][j].term()


# ------------------------------------------------------------------------------------------------
# validate_pad_value: one pad value per image; entry k is the requested statistic OF IMAGE k WITH THE CALLER'S PARAMETER
# ------------------------------------------------------------------------------------------------
PAD_MODES = ("median", "mean", "min", "max")


def image_stubs(ctx, N, H, W, prefix="image"):
    """N images of shape (H, W); each carries a ghost content identifier (pyvc/lib/c15_models.py: equal identifiers = equal contents)"""
    return [ImageStub((H, W), cm.set_content(ctx.fresh_arr(f"{prefix}{a}", (H, W), "real"), ctx.fresh(f"{prefix}{a}_content", "int").t)) for a in range(N)]


def image_cid(ctx, im):
    arr = getattr(im, "array", None)
    return cm.content_of(ctx, arr) if isinstance(arr, SymArr) else None


def pad_kind(pv):
    """the form of a pad_value argument as validate_pad_value distinguishes them"""
    if isinstance(pv, str):
        return pv if pv in PAD_MODES else "unknown-string"
    if isinstance(pv, bool):
        return "other"
    if isinstance(pv, Sym):
        return "quantile" if (pv.is_real or pv.is_int) else "other"
    if isinstance(pv, (int, float)):
        return "quantile"
    if isinstance(pv, list) and all((isinstance(v, Sym) and (v.is_real or v.is_int)) or (isinstance(v, (int, float)) and not isinstance(v, bool)) for v in pv):
        return "list"
    return "other"


def pad_statistic(kind, pv, cid, k):
    """THE STATED STATISTIC: what entry k of the validated pad value must be for an image with content identifier `cid`"""
    if kind in PAD_MODES:
        return cm.STAT[kind](cid)
    if kind == "quantile":
        return cm.QUANTILE(cid, rterm(pv))
    if kind == "list":
        return rterm(pv[k])
    return None


def vpv_setup(ctx):
    N = STACK[-1]
    for n in STACK[:-1]:
        if ctx.branch(ctx.fresh(f"stack_of_{n}", "bool").t):
            N = n
            break
    images = []
    for a in range(N):  # the validator does not look at shapes: every image has its own
        images += image_stubs(ctx, 1, ctx.fresh(f"H{a}", "int"), ctx.fresh(f"W{a}", "int"), prefix=f"image{a}_")
    forms = list(PAD_MODES) + ["quantile", "integer-quantile", "list", "list-with-an-int", "list-of-another-length", "none"]
    form = forms[-1]
    for f in forms[:-1]:
        if ctx.branch(ctx.fresh(f"pad_value_form_{f}", "bool").t):
            form = f
            break
    if form in PAD_MODES:
        pv = form
    elif form == "quantile":
        pv = ctx.fresh("quantile_level", "real")
    elif form == "integer-quantile":
        pv = ctx.fresh("quantile_level", "int")
    elif form == "list":
        pv = [ctx.fresh(f"pad_value{a}", "real") for a in range(N)]
    elif form == "list-with-an-int":
        pv = [ctx.fresh(f"pad_value{a}", "int" if a == 0 else "real") for a in range(N)]
    elif form == "list-of-another-length":
        pv = [ctx.fresh(f"pad_value{a}", "real") for a in range(N + 1)]
    else:
        pv = None
    return NS(pad_value=pv, images=images, N=N, form=form, case=f"N={N},{form}")


def vpv_requires(s):
    ok = isinstance(s.images, list) and all(isinstance(getattr(im, "array", None), SymArr) for im in s.images)
    # an unknown mode string is passed through unvalidated by the real function: not an accepted form, outside the property
    return [("images-is-a-list-of-images", ok), ("pad_value-is-not-an-unknown-mode-string", pad_kind(s.pad_value) != "unknown-string")]


def vpv_raises_value(s):
    kind = pad_kind(s.pad_value)
    if kind == "quantile":
        q = rterm(s.pad_value)
        return OR(q < 0, q > 1)
    if kind == "list":
        return len(s.pad_value) != len(s.images)
    return False


def vpv_ensures(s):
    kind = pad_kind(s.pad_value)
    N = len(s.images)
    res = s.result
    ok = isinstance(res, list) and len(res) == N and all(isinstance(v, (Sym, int, float)) and not isinstance(v, bool) for v in res)
    out = [("one-pad-value-per-image", ok)]
    if not ok:
        return out
    cids = [image_cid(s.ctx, im) for im in s.images]
    what = {"quantile": "np.quantile(image-k,the-caller's-level)", "list": "the-caller's-entry-k"}.get(kind, f"np.{kind}(image-k)")
    for k in range(N):
        out.append((f"entry{k}-is-{what}".replace("-k", f"-{k}"), rterm(res[k]) == pad_statistic(kind, s.pad_value, cids[k], k)))
    if kind != "list":
        for a in range(N):
            for b in range(a + 1, N):
                out.append((f"identical-images-{a},{b}-get-identical-pad-values", implies(cids[a] == cids[b], rterm(res[a]) == rterm(res[b]))))
    if s.mode == "verify":
        out += frame_clauses(s, s.old.frame)
    return out


def vpv_result(ctx, s):
    if pad_kind(s.pad_value) == "list":
        return s.pad_value  # the caller's own list is handed back
    return [ctx.fresh(f"validated_pad_value{k}", "real") for k in range(len(s.images))]


C_VPV = Contract(f"{CV}:validate_pad_value", setup=vpv_setup, requires=vpv_requires, ensures=vpv_ensures, result=vpv_result,
                 raises={ValueError: vpv_raises_value, TypeError: lambda s: pad_kind(s.pad_value) == "other"},
                 snapshot=lambda s: NS(frame=frame_snapshot(s, ["images", "pad_value"])))


def rt_pad_value(inp):
    """validate_pad_value on the real function: entry k is the requested statistic of image k with the caller's parameter."""
    import numpy as np
    from quantem.core.datastructures import Dataset2d
    from quantem.core.utils.compound_validators import validate_pad_value

    rng = np.random.default_rng(inp.get("seed", 0))
    N = inp["N"]
    arrs = [rng.random((3 + a, 4)) for a in range(N)]
    if inp.get("identical"):
        arrs = [arrs[0].copy() for _ in range(N)]
    ims = [Dataset2d.from_array(a.copy()) for a in arrs]
    form = inp["form"]
    pv = form if form in PAD_MODES else inp["q"] if form == "quantile" else [float(v) for v in rng.random(N + (1 if form == "list-of-another-length" else 0))] if form.startswith("list") else None
    given = list(pv) if isinstance(pv, list) else pv
    want_exc = ValueError if (form == "quantile" and not 0 <= pv <= 1) or form == "list-of-another-length" else TypeError if pv is None else None
    try:
        got = validate_pad_value(pv, ims)
    except (ValueError, TypeError) as e:
        return dict(violated=type(e) is not want_exc, observed=f"raised {type(e).__name__}", expected=f"{want_exc.__name__ if want_exc else 'a list of pad values'}")
    if want_exc is not None:
        return dict(violated=True, observed=f"returned {got!r}", expected=f"raises {want_exc.__name__}")
    f = {"median": np.median, "mean": np.mean, "min": np.min, "max": np.max}
    want = [f[form](a) for a in arrs] if form in f else [np.quantile(a, pv) for a in arrs] if form == "quantile" else given
    notes = []
    if not (isinstance(got, list) and len(got) == N and _close(got, want, 1e-12)):
        notes.append(f"pad values {np.round(np.asarray(got, float), 6).tolist() if isinstance(got, list) else got!r} != the statistic of each image {np.round(np.asarray(want, float), 6).tolist()}")
    if any(not np.array_equal(i.array, a) for i, a in zip(ims, arrs)):
        notes.append("an image was written")
    return dict(violated=bool(notes), observed="; ".join(notes) or "ok", expected="entry k = statistic of image k with the caller's parameter; images untouched")


def fam_pad_value(tier="quick", seed=0):
    i = 0
    for N in STACK:
        for identical in (False, True):
            for form in PAD_MODES + ("list", "list-of-another-length", "none"):
                i += 1
                yield dict(N=N, form=form, identical=identical, seed=seed + i)
            for q in (0.0, 0.25, 0.5, 0.9, 1, 1.0, -0.1, 1.5):
                i += 1
                yield dict(N=N, form="quantile", q=q, identical=identical, seed=seed + i)


def conc_pad_value(ev):
    N = 2 if ev("stack_of_2", False) else 3 if ev("stack_of_3", False) else 4
    for f in PAD_MODES + ("list", "list-of-another-length"):
        if ev(f"pad_value_form_{f}", False):
            return dict(N=N, form=f, seed=1)
    if ev("pad_value_form_quantile", False) or ev("pad_value_form_integer-quantile", False):
        q = ev("quantile_level", 0.25)
        return dict(N=N, form="quantile", q=float(q) if isinstance(q, (int, float)) and 0 < q < 1 else 0.25, identical=True, seed=1)
    return None


def pp_setup(ctx, N=2, pad_kinds=("list", "quantile", "median"), knots=KNOTS):
    K = fork_knots(ctx, knots)
    H, W = ctx.fresh("H", "int"), ctx.fresh("W", "int")
    images = image_stubs(ctx, N, H, W)
    deg = ctx.fresh_arr("scan_direction_degrees", (N,), "real")
    o = Obj(DC, dict(_images=images, _scan_direction_degrees=deg))
    kind = pad_kinds[-1]
    for kd in pad_kinds[:-1]:
        if ctx.branch(ctx.fresh(f"pad_value_is_a_{kd}", "bool").t):
            kind = kd
            break
    if kind == "list":
        pad_value = [ctx.fresh(f"pad_value{a}", "real") for a in range(N)]
    elif kind == "quantile":
        pad_value = ctx.fresh("quantile_level", "real")
    else:
        pad_value = kind
    return NS(self=o, pad_fraction=ctx.fresh("pad_fraction", "real"), pad_value=pad_value, kde_sigma=ctx.fresh("kde_sigma", "real"),
              number_knots=K, show_merged=False, show_images=False, show_knots=True, N=N, K=K, H=H, W=W, case=f"N={N},K={K}")


def pp_requires(s):
    out = [("H>=2", lift(s.H) >= 2), ("W>=2", lift(s.W) >= 2), ("pad_fraction>=0", lift(s.pad_fraction) >= 0), ("kde_sigma>=0", lift(s.kde_sigma) >= 0)]
    if pad_kind(s.pad_value) == "quantile":
        out.append(("quantile-level-in-[0,1]", AND(rterm(s.pad_value) >= 0, rterm(s.pad_value) <= 1)))
    return out


def rotation(theta_deg):
    """(fast, slow) unit vectors of a scan direction given in degrees: the rotation by -theta of (0,1) and (1,0)."""
    from pyvc import reals

    th = -(rterm(theta_deg) * V.PI / 180)
    sn, cs = reals.F["sin"](th), reals.F["cos"](th)
    return (sn, cs), (cs, -sn)


def prop_position(centre, fast, slow, H, W, r, c, d):
    """THE PROPERTY: pixel (r, c) sits at the canvas centre plus the scan-direction rotation of its offset from the image centre."""
    return centre[d] + (rterm(c) - (R_(lift(W)) - 1) / 2) * fast[d] + (rterm(r) - (R_(lift(H)) - 1) / 2) * slow[d]


def knot_column(K, W, k):
    """image column at which knot k of a scan line sits: equally spaced from column 0 to W-1 (column 0 for a single knot)"""
    if K == 1:
        return z3.RealVal(0)
    return z3.RealVal(k) / z3.RealVal(K - 1) * (R_(lift(W)) - 1)


def pp_ensures(s):
    o = s.self
    F = o.fields
    N, K, H, W = s.N, s.K, s.H, s.W
    out = [("returns-self", s.result is o)]
    shp = F.get("shape")
    ok = isinstance(shp, tuple) and len(shp) == 3
    out.append(("canvas-shape-is-(N,S1,S2)", ok and not V.contains_sym(shp[0]) and shp[0] == N))
    if not ok:
        return out
    S1, S2 = lift(shp[1]), lift(shp[2])
    p = rterm(s.pad_fraction)
    half = z3.RealVal("1/2")
    for nm, Sx, L in (("rows", S1, H), ("cols", S2, W)):
        x = R_(lift(L)) * (1 + p) / 2
        out.append((f"canvas-{nm}=2*round(size*(1+pad)/2)", AND(z3.is_int(Sx), Sx % 2 == 0, R_(Sx) / 2 - x <= half, x - R_(Sx) / 2 <= half, Sx >= 2)))
    centre = ((R_(S1) - 1) / 2, (R_(S2) - 1) / 2)
    fastA, slowA = F.get("scan_fast"), F.get("scan_slow")
    knots, interps = F.get("knots"), F.get("interpolator")
    okv = all(isinstance(a, SymArr) and a.ndim == 2 for a in (fastA, slowA)) and isinstance(knots, list) and len(knots) == N and isinstance(interps, list) and len(interps) == N
    out.append(("scan-vectors-knots-interpolators-present", okv))
    if not okv:
        return out
    r = I("r")
    deg = F["_scan_direction_degrees"]
    for a in range(N):
        fast, slow = rotation(deg.fn(z3.IntVal(a)))
        ai = z3.IntVal(a)
        out.append((f"image{a}:scan-vectors-are-the-rotation-by-the-scan-direction",
                    AND(*[rterm(fastA.fn(ai, z3.IntVal(d))) == fast[d] for d in (0, 1)], *[rterm(slowA.fn(ai, z3.IntVal(d))) == slow[d] for d in (0, 1)])))
        out.append((f"image{a}:scan-vectors-orthonormal", AND(fast[0] * fast[0] + fast[1] * fast[1] == 1, slow[0] * slow[0] + slow[1] * slow[1] == 1,
                                                                   fast[0] * slow[0] + fast[1] * slow[1] == 0)))
        kn = knots[a]
        oks = isinstance(kn, SymArr) and kn.ndim == 3 and V._dim_lit(kn.shape[2]) == K and V._dim_lit(kn.shape[0]) == 2
        out.append((f"image{a}:knots-shape-(2,H,K)", AND(oks, lift(kn.shape[1]) == lift(H)) if oks else False))
        if oks:
            cl = [rterm(kn.fn(z3.IntVal(d), r, z3.IntVal(k))) == prop_position(centre, fast, slow, H, W, r, knot_column(K, W, k), d) for d in (0, 1) for k in range(K)]
            out.append((f"image{a}:knots-on-the-property's-scan-lines-at-equally-spaced-columns", forall(r, implies(AND(r >= 0, r < lift(H)), AND(*cl)))))
        it = interps[a]
        oki = isinstance(it, Obj) and it.cls is DI
        out.append((f"image{a}:interpolator-built", oki))
        if oki:
            IF = it.fields
            ih, iw = IF["input_shape"]
            o1, o2 = IF["output_shape"]
            out.append((f"image{a}:interpolator-shapes", AND(lift(ih) == lift(H), lift(iw) == lift(W), lift(o1) == S1, lift(o2) == S2)))
            out.append((f"image{a}:interpolator-scan-vectors", AND(*[rterm(IF["scan_fast"].fn(z3.IntVal(d))) == fast[d] for d in (0, 1)],
                                                                      *[rterm(IF["scan_slow"].fn(z3.IntVal(d))) == slow[d] for d in (0, 1)])))
            # the pad value the canvas of image a is filled with is entry a of the validated pad value = the requested statistic OF
            # IMAGE a with the caller's parameter (validate_pad_value's contract carried to the interpolator)
            want = pad_statistic(pad_kind(s.pad_value), s.pad_value, image_cid(s.ctx, F["_images"][a]), a)
            ipv, spv = IF.get("pad_value"), F.get("_pad_value")
            okp = isinstance(ipv, (Sym, int, float)) and isinstance(spv, list) and len(spv) == N and want is not None
            out.append((f"image{a}:canvas-pad-value-is-the-requested-statistic-of-image-{a}-with-the-caller's-parameter",
                        AND(rterm(ipv) == want, rterm(spv[a]) == want) if okp else False))
            out.append((f"image{a}:interpolator-kde-width-is-the-given-one", rterm(IF.get("kde_sigma")) == rterm(s.kde_sigma) if isinstance(IF.get("kde_sigma"), (Sym, int, float)) else False))
        ww = F.get("weights_warped")
        tot = slab_total(ww.array, a) if isinstance(ww, StackStub) else None
        out.append((f"image{a}:initial-weight-map-sums-to-the-number-of-image-pixels", False if tot is None else tot == R_(lift(H) * lift(W))))
    # relational clause (rests on warp_image's ASSUMED functionality; everything else -- same knots, same scan vectors, same canvas,
    # same pad value [validate_pad_value's contract], the image handed over is image a -- is proved from the source)
    iw = F.get("images_warped")
    for a in range(N):
        out.append((f"image{a}:initial-canvas-{a}-is-warp_image(image-{a},knots-{a})-by-interpolator-{a}", canvas_from_image_clause(s.ctx, a, F["_images"][a], knots[a], interps[a], iw)))
    for a in range(1, N):
        c0, ca = image_cid(s.ctx, F["_images"][0]), image_cid(s.ctx, F["_images"][a])
        same = [ca == c0, rterm(deg.fn(z3.IntVal(a))) == rterm(deg.fn(z3.IntVal(0)))]
        if pad_kind(s.pad_value) == "list":
            same.append(rterm(s.pad_value[a]) == rterm(s.pad_value[0]))
        w0, wa = (cm.slab_content(iw.array, 0), cm.slab_content(iw.array, a)) if isinstance(iw, StackStub) else (None, None)
        out.append((f"image{a}:identical-to-image0-with-the-same-scan-direction=>identical-initial-canvas", False if w0 is None or wa is None else implies(AND(*same), wa == w0)))
    return out


PP_INLINE = [f"{DR}:DriftCorrection.images", f"{DR}:DriftCorrection.pad_value", f"{DR}:DriftCorrection.scan_direction_degrees",
             f"{DR}:DriftCorrection.pad_fraction", f"{DR}:DriftCorrection.kde_sigma", f"{DR}:DriftCorrection.number_knots"]  # validate_pad_value: by contract
# one contract object per stack size (2..4 = the property's range) so that they are verified in parallel; the knot count only
# enters per image, so all of 1..4 are run for stacks of 2 and the extremes 1 and 4 for stacks of 3 and 4
C_PP = Contract(f"{DR}:DriftCorrection.preprocess", setup=pp_setup, requires=pp_requires, ensures=pp_ensures, inline=PP_INLINE)
C_PP3 = Contract(f"{DR}:DriftCorrection.preprocess", setup=lambda ctx: pp_setup(ctx, 3, ("list",), (1, 4)), requires=pp_requires, ensures=pp_ensures, inline=PP_INLINE)
C_PP4 = Contract(f"{DR}:DriftCorrection.preprocess", setup=lambda ctx: pp_setup(ctx, 4, ("list",), (1, 4)), requires=pp_requires, ensures=pp_ensures, inline=PP_INLINE)

# ------------------------------------------------------------------------------------------------
# scan directions as stored: the setter and the constructor keep the GIVEN angles (every real, in particular [180, 360))
# ------------------------------------------------------------------------------------------------
VAL = "quantem.core.utils.validators"


def sd_value(ctx):
    """the angles as the caller passes them: an ndarray of symbolic length or a Python list (here of 3 numbers, one an int)"""
    if ctx.branch(ctx.fresh("angles_given_as_ndarray", "bool").t):
        n = ctx.fresh("n_angles", "int")
        ctx.assume(n.t >= 0)
        return ctx.fresh_arr("angles", (n,), "real"), "ndarray"
    return [ctx.fresh("angle0", "real"), ctx.fresh("angle1", "int"), ctx.fresh("angle2", "real")], "list"


def sd_setup(ctx):
    value, kind = sd_value(ctx)
    old = ctx.fresh_arr("angles_stored_before", (2,), "real")  # the attribute already holds OTHER angles from an earlier assignment
    return NS(self=Obj(DC, dict(_scan_direction_degrees=old)), value=value, case=kind)


def given_angles(value):
    if isinstance(value, SymArr):
        return value.shape[0], (lambda a: rterm(value.fn(a)))
    vals = list(value)
    return len(vals), (lambda a: rterm(V.from_list(vals, kind="real").fn(a)))


def stored_angles_clauses(o, value):
    st = o.fields.get("_scan_direction_degrees")
    n, g = given_angles(value)
    ok = isinstance(st, SymArr) and st.ndim == 1
    a = I("a")
    return [("stored-angles-are-a-1d-array-of-the-given-length", AND(ok, lift(st.shape[0]) == lift(n)) if ok else False),
            # no folding, wrapping or re-ordering: the resampling geometry is 2pi-periodic, not pi-periodic
            ("stored-angle[a]==given-angle[a]-for-every-real-angle(in-particular-[180,360))",
             False if not ok else forall(a, implies(AND(a >= 0, a < lift(n)), rterm(st.fn(a)) == g(a))))]


def sd_modifies(ctx, s):
    n, _ = given_angles(s.value)
    s.self.fields["_scan_direction_degrees"] = ctx.fresh_arr("angles_stored", (n,), "real")


C_SDSET = Contract(f"{DR}:DriftCorrection.scan_direction_degrees.fset", setup=sd_setup, ensures=lambda s: stored_angles_clauses(s.self, s.value),
                   modifies=sd_modifies, inline=[f"{VAL}:ensure_valid_array"])


def dcinit_setup(ctx):
    value, kind = sd_value(ctx)
    good = ctx.branch(ctx.fresh("token_is_the_class_token", "bool").t)
    H, W = ctx.fresh("H", "int"), ctx.fresh("W", "int")
    images = [ImageStub((H, W), ctx.fresh_arr(f"image{a}", (H, W), "real")) for a in range(2)]
    return NS(self=Obj(DC, {}), images=images, scan_direction_degrees=value, _token=DC._token if good else None, good=good, case=kind)


def dcinit_modifies(ctx, s):
    n, _ = given_angles(s.scan_direction_degrees)
    s.self.fields["_images"] = s.images
    s.self.fields["_scan_direction_degrees"] = ctx.fresh_arr("angles_stored", (n,), "real")


def fd_setup(ctx):
    """from_data with a list of Dataset2d images (the form validate_list_of_dataset2d hands back unchanged; interpreted in place)"""
    value, kind = sd_value(ctx)
    H, W = ctx.fresh("H", "int"), ctx.fresh("W", "int")
    return NS(cls=DC, images=image_stubs(ctx, 3, H, W), scan_direction_degrees=value, case=kind)


def fd_ensures(s):
    o = s.result
    ok = isinstance(o, Obj) and o.cls is DC
    out = [("returns-a-DriftCorrection", ok)]
    if not ok:
        return out
    ims = o.fields.get("_images")
    out.append(("keeps-the-caller's-images-in-order", isinstance(ims, list) and len(ims) == len(s.images) and all(a is b for a, b in zip(ims, s.images))))
    # the property's scan direction of image k is the CALLER's angle k: nothing between from_data and the stored attribute may fold,
    # wrap, sort or otherwise change it (the geometry is 2pi-periodic; preprocess reads exactly this attribute)
    return out + stored_angles_clauses(o, s.scan_direction_degrees) + (frame_clauses(s, s.old.frame) if s.mode == "verify" else [])


def fd_result(ctx, s):
    o = Obj(DC, {})
    dcinit_modifies(ctx, NS(self=o, images=s.images, scan_direction_degrees=s.scan_direction_degrees))
    return o


C_FROMDATA = Contract(f"{DR}:DriftCorrection.from_data", setup=fd_setup, ensures=fd_ensures, result=fd_result,
                      snapshot=lambda s: NS(frame=frame_snapshot(s, ["images", "scan_direction_degrees"])), inline=[f"{CV}:validate_list_of_dataset2d"])
C_FROMDATA.rt, C_FROMDATA.rt_family = _rt_later("rt_angles"), _rt_later("fam_angles")
C_DCINIT = Contract(f"{DR}:DriftCorrection.__init__", setup=dcinit_setup, modifies=dcinit_modifies,
                    ensures=lambda s: [("keeps-the-images", s.self.fields.get("_images") is s.images)] + stored_angles_clauses(s.self, s.scan_direction_degrees),
                    raises={RuntimeError: lambda s: s._token is not DC._token})


def pvset_setup(ctx):
    H, W = ctx.fresh("H", "int"), ctx.fresh("W", "int")
    images = image_stubs(ctx, 3, H, W)
    form = "median"
    for f in ("list", "quantile"):
        if ctx.branch(ctx.fresh(f"pad_value_is_a_{f}", "bool").t):
            form = f
            break
    value = [ctx.fresh(f"pad_value{a}", "real") for a in range(3)] if form == "list" else ctx.fresh("quantile_level", "real") if form == "quantile" else form
    old = [ctx.fresh(f"pad_value_stored_before{a}", "real") for a in range(3)]  # the attribute already holds OTHER values from an earlier assignment
    return NS(self=Obj(DC, dict(_images=images, _pad_value=old)), value=value, case=form)


def pvset_ensures(s):
    o = s.self
    st, ims = o.fields.get("_pad_value"), o.fields.get("_images")
    kind = pad_kind(s.value)
    ok = isinstance(st, list) and isinstance(ims, list) and len(st) == len(ims)
    out = [("stores-one-pad-value-per-image", ok)]
    if ok:
        out += [(f"stored-entry{k}-is-the-requested-statistic-of-image-{k}-with-the-caller's-parameter",
                 rterm(st[k]) == pad_statistic(kind, s.value, image_cid(s.ctx, ims[k]), k)) for k in range(len(ims))]
    return out


C_PVSET = Contract(f"{DR}:DriftCorrection.pad_value.fset", setup=pvset_setup, ensures=pvset_ensures,
                   requires=lambda s: [("quantile-level-in-[0,1]", AND(rterm(s.value) >= 0, rterm(s.value) <= 1))] if pad_kind(s.value) == "quantile" else [],
                   inline=[f"{DR}:DriftCorrection.images"])
C_PVSET.rt, C_PVSET.rt_family = _rt_later("rt_pad_value"), _rt_later("fam_pad_value")


# opaque collaborator (NOT verified): error bookkeeping; assumed frame = writes only self.error_track
C_CALCERR = Contract(f"{DR}:DriftCorrection.calculate_error", setup=lambda ctx: NS(self=Obj(DC, {}), mode=0),
                     note="assumed frame: writes only self.error_track (not verified)")


# ------------------------------------------------------------------------------------------------
# align_translation: bookkeeping around the (opaque) cross-correlation -- knots move by the measured shift minus the mean
# ------------------------------------------------------------------------------------------------


def at_setup(ctx):
    N = STACK[-1]
    for n in STACK[:-1]:
        if ctx.branch(ctx.fresh(f"stack_of_{n}", "bool").t):
            N = n
            break
    K = fork_knots(ctx, (1, 4))  # the bookkeeping does not look at the knot axis: smallest and largest count
    H, W = ctx.fresh("H", "int"), ctx.fresh("W", "int")
    S1, S2 = ctx.fresh("S1", "int"), ctx.fresh("S2", "int")
    images = image_stubs(ctx, N, H, W)
    interps = []
    for a in range(N):
        f = dict(input_shape=(H, W), output_shape=(S1, S2), scan_fast=ctx.fresh_arr(f"scan_fast{a}", (2,), "real"), scan_slow=ctx.fresh_arr(f"scan_slow{a}", (2,), "real"),
                 pad_value=ctx.fresh(f"pad_value{a}", "real"), kde_sigma=ctx.fresh("kde_sigma", "real"))
        f.update(derived_fields(H, W))
        interps.append(Obj(DI, f))
    o = Obj(DC, dict(_images=images, shape=(N, S1, S2), knots=[ctx.fresh_arr(f"knots{a}", (2, H, K), "real") for a in range(N)], interpolator=interps,
                     images_warped=StackStub(cm.set_slab_contents(ctx.fresh_arr("images_warped", (N, S1, S2), "real"), {a: ctx.fresh(f"canvas{a}_content", "int").t for a in range(N)})),
                     weights_warped=StackStub(ctx.fresh_arr("weights_warped", (N, S1, S2), "real"))))
    return NS(self=o, canvas_cids=[cm.slab_content(o.fields["images_warped"].array, a) for a in range(N)], upsample_factor=ctx.fresh("upsample_factor", "int"), min_image_shift=None, max_image_shift=ctx.fresh("max_image_shift", "real"),
              show_merged=False, show_images=False, show_knots=True, N=N, K=K, H=H, W=W, case=f"N={N},K={K}")


def at_requires(s):
    out = [("upsample_factor>=1", lift(s.upsample_factor) >= 1)]
    for j, it in enumerate(s.self.fields["interpolator"]):
        out += [(f"Inv(interpolator{j}):" + a, b) for a, b in interp_inv(it)]
    return out


def at_snapshot(s):
    return NS(knots=[k.copy() for k in s.self.fields["knots"]])


def at_ensures(s):
    o = s.self
    N, K, H, W = s.N, s.K, s.H, s.W
    shifts = s.ctx.ghost.get("measured_shifts", [])
    out = [("returns-self", s.result is o), ("one-cross-correlation-per-image-after-the-first", len(shifts) == N - 1)]
    if len(shifts) != N - 1:
        return out
    sh = [(z3.RealVal(0), z3.RealVal(0))] + [(rterm(a.fn(z3.IntVal(0))), rterm(a.fn(z3.IntVal(1)))) for a in shifts]  # image 0 is the reference
    r, k = I("r"), I("k")
    inr = AND(r >= 0, r < lift(H), k >= 0, k < K)
    allzero = AND(*[c == 0 for p in sh for c in p])
    knots = o.fields["knots"]
    # THE FIXED-POINT CLAUSE: identical canvases (equal content identifiers) => every measured shift is zero and no knot moves.
    # Rests on the ASSUMED clause of cross_correlation_shift (zero shift for identical inputs, C13); proved from the source: each
    # call receives the FFT of canvas `ind` and the running mean reference, which stays the FFT of the common canvas.
    identical = AND(*[cid == s.canvas_cids[0] for cid in s.canvas_cids[1:]])
    out.append(("identical-canvases=>every-measured-relative-shift-is-zero", implies(identical, allzero)))
    for a in range(N):
        kn, old = knots[a], s.old.knots[a]
        ok = isinstance(kn, SymArr) and kn.ndim == 3
        out.append((f"image{a}:knots-keep-their-shape", ok and all(V.dims_equal(p, q) for p, q in zip(kn.shape, old.shape))))
        if not ok:
            continue
        for d in (0, 1):
            mean = sum([p[d] for p in sh[1:]], sh[0][d]) / N
            out.append((f"image{a}:knots[{d}]-move-by-the-measured-shift-minus-the-mean-shift",
                        forall([r, k], implies(inr, rterm(kn.fn(z3.IntVal(d), r, k)) == rterm(old.fn(z3.IntVal(d), r, k)) + sh[a][d] - mean))))
            out.append((f"image{a}:zero-measured-shifts=>knots[{d}]-do-not-move",
                        implies(allzero, forall([r, k], implies(inr, rterm(kn.fn(z3.IntVal(d), r, k)) == rterm(old.fn(z3.IntVal(d), r, k)))))))
            out.append((f"image{a}:identical-canvases=>knots[{d}]-do-not-move",
                        implies(identical, forall([r, k], implies(inr, rterm(kn.fn(z3.IntVal(d), r, k)) == rterm(old.fn(z3.IntVal(d), r, k)))))))
        out.append((f"image{a}:re-warped-canvas-{a}-is-warp_image(image-{a},moved-knots-{a})-by-interpolator-{a}",
                    canvas_from_image_clause(s.ctx, a, o.fields["_images"][a], kn, o.fields["interpolator"][a], o.fields.get("images_warped"))))
        ww = o.fields.get("weights_warped")
        tot = slab_total(ww.array, a) if isinstance(ww, StackStub) else None
        out.append((f"image{a}:re-warped-weight-map-sums-to-the-number-of-image-pixels", False if tot is None else tot == R_(lift(H) * lift(W))))
    return out


C_AT = Contract(f"{DR}:DriftCorrection.align_translation", setup=at_setup, requires=at_requires, ensures=at_ensures, snapshot=at_snapshot,
                inline=[f"{DR}:DriftCorrection.images"])


def _same_opaque(a, b):
    OA = _REG["reg"].OpaqueArray
    if not (isinstance(a, OA) and isinstance(b, OA)) or a.tok is None or b.tok is None:
        return None
    return AND(a.tok == b.tok, a.scale == b.scale)


def ccs_result(ctx, s):
    sh = ctx.fresh_arr("measured_shift", (2,), "real")
    ctx.ghost.setdefault("measured_shifts", []).append(sh)
    if s.get("return_shifted_image", False):
        OA = _REG["reg"].OpaqueArray
        out = OA(ctx, None, s.im.scale if isinstance(s.im, OA) else None)
        return (sh, out)
    return sh


def ccs_ensures(s):
    """ASSUMED (C13's contract `returns the translation mapping the second image onto the first` + the lemma
    `fixed-point-through-the-cross-correlation-contract`): for two inputs with IDENTICAL contents the measured shift is (0, 0)
    and the second image shifted by it is the second image itself."""
    same = _same_opaque(s.im_ref, s.im)
    if same is None:
        return []
    res = s.result
    sh, shifted = res if isinstance(res, tuple) else (res, None)
    cl = [rterm(sh.fn(z3.IntVal(0))) == 0, rterm(sh.fn(z3.IntVal(1))) == 0]
    if shifted is not None and shifted.tok is not None:
        cl.append(shifted.tok == s.im.tok)
    return [("ASSUMED:identical-inputs=>zero-shift-and-the-shifted-image-is-the-image", implies(same, AND(*cl)))]


# opaque collaborator (NOT verified here, outside deductive reach): FFT cross-correlation; used: "returns a pair of reals (and an array)"
# and the ASSUMED clause above
C_CCS = Contract(f"{IU}:cross_correlation_shift", setup=lambda ctx: NS(im_ref=None, im=None), result=ccs_result, ensures=ccs_ensures,
                 note="opaque: returns some (row, col) shift [and the shifted image]; ASSUMED: identical inputs => zero shift, shifted image = image "
                      "(C13's contract + trusted autocorrelation mathematics, see the lemma fixed-point-through-the-cross-correlation-contract)")
_REG = {}



def _foreign(con, mod):
    """A contract object of another property module, re-verified in this check with THAT module's registry (its library
    models differ from C15's: C13 models FFT data symbolically, C15 treats it as opaque)."""
    import copy

    c = copy.copy(con)
    c.verify = lambda reg, *a, _c=con, _m=mod, **kw: _c.verify(_m.make_registry(), *a, **kw)
    return c


# the fixed-point clause rests on cross_correlation_shift / dft_upsample: C13's contracts (window centred on the coarse peak,
# sample a of the window at centre + (a - centre_index)/up, returned shift = position of the local peak) are part of this check
C13_CONTRACTS = [_foreign(C13.C_CCS, C13), _foreign(C13.C_CCS2, C13), _foreign(C13.C_DFTN, C13)]

CONTRACTS = [C_PP4, C_PP3, C_PP, C_AT] + C13_CONTRACTS + [C_KDE, C_TC, C_WI, C_TR, C_DI_INIT, C_SDSET, C_DCINIT, C_FROMDATA, C_VPV, C_PVSET, C09.C_SUBDIVIDE, C09.C_GENERATE]
CALLSITE_ONLY = [C_CALCERR, C_CCS]

# ------------------------------------------------------------------------------------------------
# property-level lemmas (from the contract statements alone)
# ------------------------------------------------------------------------------------------------


def lemma_geometry(ctx):
    """preprocess.post (knots on the property's lines at equally spaced columns, interpolator carries the same scan vectors)
    + transform_coordinates.post (pixels on the straight line through the knots of their row)
    ==> pixel (r, c) sits at  centre + R(theta).(r-(H-1)/2, c-(W-1)/2)  -- for 1, 2, 3 and 4 knots alike."""
    out = []
    H, W, r, c = I("H"), I("W"), I("r"), I("c")
    cx, cy, theta = Rl("centre_x"), Rl("centre_y"), Rl("theta_deg")
    centre = (cx, cy)
    fast, slow = rotation(theta)
    fastarr = SymArr((2,), lambda d: Sym(z3.If(d == 0, fast[0], fast[1])), "real")
    rng = [H >= 1, W >= 1, r >= 0, r < H, c >= 0, c < W]
    for K in KNOTS:
        kn = z3.Function(f"knots{K}", z3.IntSort(), z3.IntSort(), z3.IntSort(), z3.RealSort())
        knarr = SymArr((2, H, K), lambda d, rr, k, _f=kn: Sym(_f(d, rr, k)), "real")
        pre = [kn(z3.IntVal(d), r, z3.IntVal(k)) == prop_position(centre, fast, slow, H, W, r, knot_column(K, W, k), d) for d in (0, 1) for k in range(K)]
        for d, name in ((0, "x"), (1, "y")):
            st, px = tc_row_formula(knarr, K, fastarr, W, r, c, d)
            xa = Rl(f"{name}a_rc")
            out.append((f"{K}-knots:initial-scan-lines-are-straight", rng + pre, st))
            out.append((f"{K}-knots:{name}a[r,c]=centre+rotated-offset", rng + pre + [z3.Implies(st, xa == px)], xa == prop_position(centre, fast, slow, H, W, r, c, d)))
    return out


def lemma_knot_counts_agree(ctx):
    """straight scan lines described by 1, 2, 3 or 4 knots give identical coordinates (consequence of the geometry lemma,
    stated directly: the per-row formulas of transform_coordinates agree when the knots come from preprocess)."""
    out = []
    H, W, r, c = I("H"), I("W"), I("r"), I("c")
    cx, cy, theta = Rl("centre_x"), Rl("centre_y"), Rl("theta_deg")
    centre = (cx, cy)
    fast, slow = rotation(theta)
    fastarr = SymArr((2,), lambda d: Sym(z3.If(d == 0, fast[0], fast[1])), "real")
    rng = [H >= 1, W >= 1, r >= 0, r < H, c >= 0, c < W]

    def px_for(K, d):
        kfn = lambda dd, k: Sym(prop_position(centre, fast, slow, H, W, r, knot_column(K, W, k), dd))
        return pixel_on_line(kfn, K, fastarr, W, c, d)

    for K in KNOTS[1:]:
        for d, name in ((0, "x"), (1, "y")):
            out.append((f"{name}:1-knot=={K}-knots", rng, px_for(1, d) == px_for(K, d)))
    return out


def lemma_rotation(ctx):
    """the scan vectors are an orthonormal pair: |fast| = |slow| = 1, fast.slow = 0 (cos^2 + sin^2 = 1),
    so the map offset -> fast*dc + slow*dr is an isometry (distances between pixels are preserved on the canvas)."""
    theta, dr, dc = Rl("theta_deg"), Rl("dr"), Rl("dc")
    fast, slow = rotation(theta)
    px = dc * fast[0] + dr * slow[0]
    py = dc * fast[1] + dr * slow[1]
    return [("orthonormal", [], AND(fast[0] * fast[0] + fast[1] * fast[1] == 1, slow[0] * slow[0] + slow[1] * slow[1] == 1, fast[0] * slow[0] + fast[1] * slow[1] == 0)),
            ("isometry", [], px * px + py * py == dr * dr + dc * dc)]


def lemma_bilinear(ctx):
    """the four bilinear corner weights of a point are non-negative and sum to 1 (pointwise), for 0 <= dx, dy < 1"""
    dx, dy = Rl("dx"), Rl("dy")
    w = [(1 - dx) * (1 - dy), dx * (1 - dy), (1 - dx) * dy, dx * dy]
    x = Rl("x")
    fl = R_(z3.ToInt(x))
    return [("weights-sum-to-1", [], w[0] + w[1] + w[2] + w[3] == 1),
            ("weights-non-negative", [dx >= 0, dx < 1, dy >= 0, dy < 1], AND(*[t >= 0 for t in w])),
            ("fractional-part-in-[0,1)", [], AND(x - fl >= 0, x - fl < 1))]


def lemma_weight_total(ctx):
    """unit weight per pixel, batches partition the points, bincount / gaussian_filter conserve totals ==> SUM weights = H*W:
    the per-batch step and the final count, from generate_batches' contract (prefix sums P) alone."""
    n, mb, k = I("n"), I("max_batch"), I("k")
    s = NS(num_items=Sym(n), num_batches=None, max_batch=Sym(mb))
    P = C09.sb_psum(s)
    nb = C09.nb_eff(s)
    T = Rl("total_before")
    hyp = [n >= 1, mb >= 1]
    return [("batches-are-slices-of-the-points", hyp + [k >= 0, k < nb], AND(P(k) >= 0, P(k + 1) > P(k), P(k + 1) <= n)),
            ("one-batch-adds-its-number-of-points", hyp + [k >= 0, k < nb, T == R_(P(k))], T + R_(P(k + 1) - P(k)) * 1 == R_(P(k + 1))),
            ("all-batches-give-n", hyp, AND(P(0) == 0, P(nb) == n))]


def lemma_fixed_point(ctx):
    """The fixed-point clause stated through the contracts: C13's postcondition of cross_correlation_shift (per axis: the
    upsampling window is centred on coarse peak + parabolic vertex (mod n); sample a of the window sits at
    centre + (a - centre_index)/up [dft_upsample]; the returned shift is the position of the local peak + local vertex/up (mod n)
    and lies in the centred cell [-n/2, n/2)) applied to two IDENTICAL canvases, whose correlation is an autocorrelation
    (TRUSTED mathematics, hypotheses below: maximal at zero lag and at the window centre, symmetric neighbours), gives a zero
    measured shift; align_translation's proved clause `zero-measured-shifts => knots do not move` then gives the fixed point."""
    n, up, m1, m2, lp, ci, x0 = I("n"), I("up"), I("m1"), I("m2"), I("local_peak"), I("centre_index"), I("coarse_peak")
    v0, v1, v2, l0, l1, l2 = Rl("v_m1"), Rl("v_0"), Rl("v_p1"), Rl("l_m1"), Rl("l_0"), Rl("l_p1")
    centre, r, r1 = Rl("window_centre"), Rl("shift"), Rl("shift_no_upsampling")
    post_window = centre == R_(x0) + C13.vertex(v0, v1, v2) - R_(m1) * R_(n)              # C13: upsampling-window-centred-on-coarse-peak+vertex(mod-n)
    post_shift = r == centre + (R_(lp) - R_(ci)) / R_(up) + C13.vertex(l0, l1, l2) / R_(up) - R_(m2) * R_(n)  # C13: congruent-to-position-of-local-peak+vertex/up(mod-n)
    post_plain = r1 == R_(x0) + C13.vertex(v0, v1, v2) - R_(m1) * R_(n)                   # C13: congruent-to-coarse-peak+parabolic-vertex (upsample <= 1)
    auto = [x0 == 0, v0 == v2, C13.curvature(v0, v1, v2) != 0]                            # autocorrelation: peak at zero lag, symmetric, not flat
    auto_local = [lp == ci, l0 == l2, C13.curvature(l0, l1, l2) != 0]                     # its upsampled window: peak at the window centre, symmetric
    size = [n >= 1, up >= 2]
    M, x = I("M"), Rl("x")
    Mn = R_(M) * R_(n)
    # the proof is cut into small steps (each step's conclusion is a hypothesis of the next), so that no query mixes the
    # algebra of the quotients with the integer argument "a multiple of n inside [-n/2, n/2) is 0"
    mult = [("a-multiple-of-n:M>=1=>M*n>=n", [n >= 1, M >= 1], Mn >= R_(n)),
            ("a-multiple-of-n:M<=-1=>M*n<=-n", [n >= 1, M <= -1], Mn <= -R_(n)),
            ("a-multiple-of-n-in-the-centred-cell-is-0", [n >= 1, x == -Mn, C13.in_cell(x, n), z3.Implies(M >= 1, Mn >= R_(n)), z3.Implies(M <= -1, Mn <= -R_(n))], x == 0)]
    return mult + [
        ("upsampled:shift-is-a-multiple-of-n", size + auto + auto_local + [post_window, post_shift], r == -(R_(m1) + R_(m2)) * R_(n)),
        ("upsampled:identical-images-give-zero-shift", [n >= 1, M == m1 + m2, r == -Mn, C13.in_cell(r, n), z3.Implies(z3.And(n >= 1, r == -Mn, C13.in_cell(r, n)), r == 0)], r == 0),
        ("not-upsampled:shift-is-a-multiple-of-n", [n >= 1] + auto + [post_plain], r1 == -R_(m1) * R_(n)),
        # what a caller-side centre index that differs from the callee's does (seeded change D): a bias of (ci' - ci)/up
        ("centre-index-must-be-the-window's", size + auto + auto_local + [post_window, r == centre + (R_(lp) - R_(ci) - 1) / R_(up) - R_(m2) * R_(n)],
         r == -1 / R_(up) - (R_(m1) + R_(m2)) * R_(n))]


def lemma_identical_stack(ctx):
    """The fixed-point clause composed from the contract statements: validate_pad_value.post (identical images get identical pad
    values) + preprocess.post (identical images, equal scan directions => identical initial canvases) + align_translation.post
    (identical canvases => every measured shift zero, no knot moves) ==> a stack of identical images acquired with the same scan
    direction is a fixed point of translation alignment.  (What is ASSUMED underneath: warp_image is a function of its inputs;
    cross_correlation_shift returns zero for identical inputs.)"""
    B = z3.Bool
    same_images, same_angles, same_pad, same_canvases, zero_shifts, knots_fixed = (B(n) for n in ("identical_images", "equal_scan_directions", "identical_pad_values", "identical_canvases", "zero_shifts", "knots_do_not_move"))
    c0, c1, q = I("content_image0"), I("content_image1"), Rl("q")
    vpv = z3.Implies(same_images, same_pad)
    pp = z3.Implies(z3.And(same_images, same_angles, same_pad), same_canvases)
    at = z3.And(z3.Implies(same_canvases, zero_shifts), z3.Implies(same_canvases, knots_fixed))
    return [("identical-images-get-identical-pad-values(congruence-of-the-statistic)", [c0 == c1], AND(cm.QUANTILE(c0, q) == cm.QUANTILE(c1, q), *[f(c0) == f(c1) for f in cm.STAT.values()])),
            ("identical-stack-with-one-scan-direction-is-a-fixed-point-of-align_translation", [vpv, pp, at, same_images, same_angles], AND(zero_shifts, knots_fixed))]


def lemma_given_angle(ctx):
    """constructor / setter post (stored angle == given angle, no range restriction) + preprocess post (scan vectors = rotation by
    the STORED angle, knots on the property's lines for it) ==> the geometry is the property's for the GIVEN scan direction over
    the whole range [0, 360), in particular for frames scanned at 180..360 degrees; folding such an angle by 180 degrees would
    reflect every pixel through the canvas centre (second obligation; sin/cos(x - pi) = -sin/cos(x) as hypothesis: textbook)."""
    from pyvc import reals

    given, stored, dr, dc = Rl("given_deg"), Rl("stored_deg"), Rl("dr"), Rl("dc")
    fg, sg = rotation(given)
    fs, ss = rotation(stored)
    folded = given - 180
    ff, sf = rotation(folded)
    xg, xf = -(given * V.PI / 180), -(folded * V.PI / 180)
    half_turn = [reals.F["sin"](xf) == -reals.F["sin"](xg), reals.F["cos"](xf) == -reals.F["cos"](xg)]
    return [("stored=given=>scan-vectors-are-the-rotation-by-the-given-angle", [given >= 180, given < 360, stored == given],
             AND(fs[0] == fg[0], fs[1] == fg[1], ss[0] == sg[0], ss[1] == sg[1])),
            ("an-angle-folded-by-180-degrees-reflects-every-pixel-through-the-centre", half_turn,
             AND(dc * ff[0] + dr * sf[0] == -(dc * fg[0] + dr * sg[0]), dc * ff[1] + dr * sf[1] == -(dc * fg[1] + dr * sg[1])))]


LEMMAS = [Lemma("identical-stack-is-a-fixed-point(composition-of-the-contracts)", lemma_identical_stack,
                uses=["validate_pad_value", "DriftCorrection.preprocess", "DriftInterpolator.warp_image", "DriftCorrection.align_translation", "cross_correlation_shift (C13)"]),
          Lemma("geometry-for-the-given-scan-direction", lemma_given_angle, uses=["DriftCorrection.from_data", "DriftCorrection.__init__", "DriftCorrection.scan_direction_degrees.fset", "DriftCorrection.preprocess"]),
          Lemma("fixed-point-through-the-cross-correlation-contract", lemma_fixed_point, uses=["cross_correlation_shift (C13)", "dft_upsample (C13)", "DriftCorrection.align_translation"]),
          Lemma("geometry", lemma_geometry, uses=["DriftCorrection.preprocess", "DriftInterpolator.transform_coordinates"]),
          Lemma("knot-counts-agree", lemma_knot_counts_agree, uses=["DriftInterpolator.transform_coordinates"]),
          Lemma("rotation", lemma_rotation), Lemma("bilinear-weights", lemma_bilinear),
          Lemma("weight-total", lemma_weight_total, uses=["generate_batches", "bilinear_kde"])]

# ------------------------------------------------------------------------------------------------
# run-time oracles: the same statements evaluated on the REAL functions (replay of counter-models, bounded stand-ins)
# ------------------------------------------------------------------------------------------------


def _np_rotation(theta_deg):
    import numpy as np

    th = np.deg2rad(theta_deg)
    return np.array([np.sin(-th), np.cos(-th)]), np.array([np.cos(-th), -np.sin(-th)])


def _np_position(centre, fast, slow, H, W, d):
    import numpy as np

    r = np.arange(H)[:, None] - (H - 1) / 2
    c = np.arange(W)[None, :] - (W - 1) / 2
    return centre[d] + c * fast[d] + r * slow[d]


def _test_image(H, W, seed):
    import numpy as np

    rng = np.random.default_rng(seed)
    y, x = np.mgrid[:H, :W]
    return np.exp(-((y - H / 2.3) ** 2 + (x - W / 1.9) ** 2) / (2.0 + 0.08 * H * W)) + 0.05 * rng.random((H, W))


def _close(a, b, tol=1e-9):
    import numpy as np

    a, b = np.asarray(a, float), np.asarray(b, float)
    return a.shape == b.shape and bool(np.all(np.abs(a - b) <= tol * (1.0 + np.abs(b))))


def rt_geometry(inp):
    """THE PROPERTY on the real DriftCorrection.preprocess + DriftInterpolator: canvas, scan vectors, knots, per-pixel
    coordinates = centre + rotated offset, weight map sums to H*W."""
    import warnings

    import numpy as np
    from quantem.imaging.drift import DriftCorrection

    H, W, N, K = inp["H"], inp["W"], inp.get("N", 2), inp["K"]
    p, sig = inp.get("pad_fraction", 0.25), inp.get("kde_sigma", 0.5)
    th = inp.get("theta", 0.0)
    angles = list(th) if isinstance(th, (list, tuple)) else [th + 7.0 * a * inp.get("spread", 0) for a in range(N)]
    imgs = [_test_image(H, W, inp.get("seed", 0) + a) for a in range(N)]
    kinds, notes = set(), []
    with warnings.catch_warnings():
        warnings.simplefilter("ignore")
        d = DriftCorrection.from_data(imgs, angles).preprocess(pad_fraction=p, pad_value=inp.get("pad_value", "median"), kde_sigma=sig, number_knots=K)
    S = d.shape
    exp_S = (N, int(np.round(H * (1 + p) / 2) * 2), int(np.round(W * (1 + p) / 2) * 2))
    if tuple(S) != exp_S:
        kinds.add("canvas")
        notes.append(f"canvas {tuple(S)} != {exp_S}")
    centre = ((S[1] - 1) / 2, (S[2] - 1) / 2)
    for a in range(N):
        fast, slow = _np_rotation(angles[a])
        if not (_close(d.scan_fast[a], fast) and _close(d.scan_slow[a], slow)):
            kinds.add("scan-vectors")
            notes.append(f"image {a}: scan vectors {d.scan_fast[a]}, {d.scan_slow[a]} != rotation {fast}, {slow}")
        kn = d.knots[a]
        cols = np.array([0.0]) if K == 1 else np.arange(K) / (K - 1) * (W - 1)
        r = np.arange(H)[:, None] - (H - 1) / 2
        for dd in (0, 1):
            want = centre[dd] + (cols[None, :] - (W - 1) / 2) * fast[dd] + r * slow[dd]
            if kn.shape != (2, H, K) or not _close(kn[dd], want):
                kinds.add("knots")
                notes.append(f"image {a}: knots[{dd}] off the property's scan lines")
        xa, ya = d.interpolator[a].transform_coordinates(kn)
        for dd, arr, nm in ((0, xa, "x"), (1, ya, "y")):
            want = _np_position(centre, fast, slow, H, W, dd)
            if np.shape(arr) != (H, W) or not _close(arr, want):
                kinds.add(f"coords-{nm}")
                err = float(np.abs(np.asarray(arr) - want).max()) if np.shape(arr) == (H, W) else float("nan")
                notes.append(f"image {a}: {nm}a deviates from centre+rotated offset by up to {err:.4g} px")
        # placement: a single bright pixel lands (weighted centroid, sigma=0) at the property's position
        r0, c0 = H // 2, max(W // 2 - 1, 0)
        delta = np.zeros((H, W))
        delta[r0, c0] = 1.0
        dimg, dw = d.interpolator[a].warp_image(delta, kn, kde_sigma=0.0, pad_value=0.0)
        m = np.asarray(dimg, float) * np.minimum(np.asarray(dw, float), 1e3)
        tgt = (_np_position(centre, fast, slow, H, W, 0)[r0, c0], _np_position(centre, fast, slow, H, W, 1)[r0, c0])
        if m.sum() > 0 and 0 <= tgt[0] <= S[1] - 2 and 0 <= tgt[1] <= S[2] - 2:
            got = (float((m.sum(axis=1) * np.arange(S[1])).sum() / m.sum()), float((m.sum(axis=0) * np.arange(S[2])).sum() / m.sum()))
            if abs(got[0] - tgt[0]) > 0.02 or abs(got[1] - tgt[1]) > 0.02:
                kinds.add("placement")
                notes.append(f"image {a}: pixel ({r0},{c0}) lands at ({got[0]:.3f},{got[1]:.3f}), property says ({tgt[0]:.3f},{tgt[1]:.3f})")
        wsum = float(np.asarray(d.weights_warped.array[a], float).sum())
        if abs(wsum - H * W) > 2e-4 * H * W + 1e-3:
            kinds.add("weights")
            notes.append(f"image {a}: weight map sums to {wsum:.6g}, not H*W={H * W}")
    return dict(violated=bool(kinds), kinds=sorted(kinds), observed="; ".join(notes[:4]) or "ok",
                expected="canvas=2*round(size*(1+pad)/2); knots and pixel coordinates = centre + R(theta).(offset from image centre); sum(weights)=H*W")


def klass_geometry(inp, res):
    kinds = res.get("kinds", [])
    if kinds in (["coords-x"], ["coords-x", "placement"]) and inp["K"] == 1 and inp["H"] != inp["W"]:
        return "coords-x/1-knot/non-square-image"
    return "+".join(kinds) + f"/K={inp['K']}"


def fam_geometry(tier="quick", seed=0):
    shapes = [(2, 2), (3, 5), (8, 8), (10, 16), (7, 4), (5, 9)] + ([(16, 10), (13, 13), (21, 6), (2, 11)] if tier == "thorough" else [])
    angles = [0.0, 90.0, 37.0, 180.0, 213.5, 270.0] + ([12.25, 45.0, 135.0, 300.0, 359.0] if tier == "thorough" else [])
    pads = [0.0, 0.25, 0.6] + ([0.1, 1.0] if tier == "thorough" else [])
    i = 0
    for (H, W) in shapes:
        for th in angles:
            for p in pads:
                for K in KNOTS:
                    i += 1
                    yield dict(H=H, W=W, N=2 + i % 3, K=K, theta=th, spread=i % 2, pad_fraction=p, kde_sigma=(0.5, 1.3, 0.0)[i % 3],
                               pad_value=("median", 0.5, "mean")[i % 3], seed=seed + i)


def rt_rows(inp):
    """transform_rows / transform_coordinates contracts on the real DriftInterpolator with arbitrary straight knot lines
    (arbitrary, not necessarily unit, scan vectors)."""
    import numpy as np
    from quantem.imaging.drift import DriftInterpolator

    H, W, K = inp["H"], inp["W"], inp["K"]
    rng = np.random.default_rng(inp.get("seed", 0))
    fast = np.asarray(inp.get("fast") or rng.uniform(-1.5, 1.5, size=2))
    it = DriftInterpolator(input_shape=(H, W), output_shape=(H + 4, W + 6), scan_fast=fast, scan_slow=rng.uniform(-1, 1, size=2), pad_value=0.0, kde_sigma=0.5)
    A = rng.uniform(-5, 30, size=(2, H))
    B = rng.uniform(-5, 30, size=(2, H))
    if K == 1:
        knots = A[:, :, None]
        step = np.broadcast_to(fast[:, None], (2, H))
    else:
        t = np.arange(K) / (K - 1)
        knots = A[:, :, None] + t[None, None, :] * (B - A)[:, :, None]
        step = (B - A) / (W - 1) if W > 1 else np.zeros((2, H))
    want = A[:, :, None] + np.arange(W)[None, None, :] * step[:, :, None]
    kinds, notes = set(), []
    xa, ya = it.transform_coordinates(knots)
    for dd, arr, nm in ((0, xa, "x"), (1, ya, "y")):
        if np.shape(arr) != (H, W) or not _close(arr, want[dd], 1e-8):
            kinds.add(f"coords-{nm}")
            notes.append(f"transform_coordinates: {nm}a off the straight line through the knots by up to {float(np.abs(np.asarray(arr) - want[dd]).max()):.4g}")
    if K > 1:
        i = H // 2
        xr, yr = it.transform_rows(knots[:, i])
        for dd, arr, nm in ((0, xr, "x"), (1, yr, "y")):
            if np.shape(arr) != (W,) or not _close(arr, want[dd][i], 1e-8):
                kinds.add(f"coords-{nm}")
                notes.append(f"transform_rows(row {i}): {nm}a off the line")
    return dict(violated=bool(kinds), kinds=sorted(kinds), observed="; ".join(notes[:3]) or "ok",
                expected="pixel c of a row at knot0 + c*scan_fast (1 knot) / equally spaced between first and last knot (straight line, 2..4 knots)")


def klass_rows(inp, res):
    kinds = res.get("kinds", [])
    if kinds == ["coords-x"] and inp["K"] == 1 and inp["H"] != inp["W"]:
        return "coords-x/1-knot/non-square-image"
    return "+".join(kinds) + f"/K={inp['K']}"


def fam_rows(tier="quick", seed=0):
    i = 0
    for (H, W) in [(1, 1), (1, 4), (4, 1), (2, 2), (3, 7), (6, 6), (9, 4), (10, 16)]:
        for K in KNOTS:
            for rep in range(2 if tier == "quick" else 6):
                i += 1
                yield dict(H=H, W=W, K=K, seed=seed + i)


def rt_weights(inp):
    """every point contributes unit total weight: sum(weights) = number of points, for arbitrary coordinates (far outside the
    canvas too: indices wrap), any batch size, any sigma >= 0 -- on the real bilinear_kde / warp_image."""
    import numpy as np
    from quantem.core.utils.imaging_utils import bilinear_kde
    from quantem.imaging.drift import DriftInterpolator

    H, W, rows, cols = inp["H"], inp["W"], inp["rows"], inp["cols"]
    rng = np.random.default_rng(inp.get("seed", 0))
    span = inp.get("span", 1.0)
    xa = rng.uniform(-span * rows, (1 + span) * rows, size=(H, W))
    ya = rng.uniform(-span * cols, (1 + span) * cols, size=(H, W))
    if inp.get("integer_coords"):
        xa, ya = np.round(xa), np.round(ya)
    vals = rng.random((H, W))
    notes = []
    img, wts = bilinear_kde(xa, ya, vals, (rows, cols), inp.get("kde_sigma", 0.5), pad_value=0.3, max_batch_size=inp.get("max_batch_size"), return_pix_count=True)
    ws = float(np.asarray(wts, float).sum())
    if np.shape(wts) != (rows, cols) or abs(ws - H * W) > 2e-4 * H * W + 1e-3:
        notes.append(f"bilinear_kde: weights sum to {ws:.6g}, not the number of points {H * W}")
    K = inp.get("K", 2)
    it = DriftInterpolator(input_shape=(H, W), output_shape=(rows, cols), scan_fast=np.array([0.0, 1.0]), scan_slow=np.array([1.0, 0.0]), pad_value=0.1, kde_sigma=inp.get("kde_sigma", 0.5))
    knots = rng.uniform(-span * rows, (1 + span) * rows, size=(2, H, K))
    im2, w2 = it.warp_image(vals, knots)
    ws2 = float(np.asarray(w2, float).sum())
    if np.shape(w2) != (rows, cols) or abs(ws2 - H * W) > 2e-4 * H * W + 1e-3:
        notes.append(f"warp_image: weights sum to {ws2:.6g}, not the number of image pixels {H * W}")
    return dict(violated=bool(notes), observed="; ".join(notes) or "ok", expected="sum(weights) = number of image pixels")


def fam_weights(tier="quick", seed=0):
    i = 0
    for (H, W) in [(1, 1), (2, 3), (5, 5), (8, 13)] + ([(16, 16), (3, 40)] if tier == "thorough" else []):
        for (rows, cols) in [(1, 1), (2, 5), (6, 6), (12, 9)]:
            for sig in (0.0, 0.5, 2.5):
                for mb in (None, 1, 7):
                    i += 1
                    yield dict(H=H, W=W, rows=rows, cols=cols, kde_sigma=sig, max_batch_size=mb, span=(0.0, 1.0, 6.0)[i % 3], integer_coords=bool(i % 4 == 0),
                               K=1 + i % 4, seed=seed + i)


def rt_warp(inp):
    """warp_image on the real DriftInterpolator: pixel (r,c) of the image is deposited at (xa[r,c], ya[r,c]) of
    transform_coordinates(knots) (weighted centroid of a single bright pixel, sigma = 0) and the weights sum to H*W."""
    import numpy as np
    from quantem.imaging.drift import DriftInterpolator

    H, W, K = inp["H"], inp["W"], inp.get("K", 2)
    rows, cols = inp.get("rows", H + 5), inp.get("cols", W + 8)
    rng = np.random.default_rng(inp.get("seed", 0))
    th = np.deg2rad(inp["theta"]) if inp.get("theta") is not None else rng.uniform(0, 2 * np.pi)
    fast, slow = np.array([np.sin(-th), np.cos(-th)]), np.array([np.cos(-th), -np.sin(-th)])
    it = DriftInterpolator(input_shape=(H, W), output_shape=(rows, cols), scan_fast=fast, scan_slow=slow, pad_value=0.0, kde_sigma=0.0)
    r = np.arange(H)[:, None] - (H - 1) / 2
    cc = (np.array([0.0]) if K == 1 else np.arange(K) / (K - 1) * (W - 1)) - (W - 1) / 2
    knots = np.stack([(rows - 1) / 2 + cc[None, :] * fast[0] + r * slow[0], (cols - 1) / 2 + cc[None, :] * fast[1] + r * slow[1]], axis=0)
    xa, ya = it.transform_coordinates(knots)
    notes = []
    for (r0, c0) in {(H // 2, max(W // 2 - 1, 0)), (min(H - 1, H // 2 + 1), W // 2)}:
        delta = np.zeros((H, W))
        delta[r0, c0] = 1.0
        img, wts = it.warp_image(delta, knots)
        ws = float(np.asarray(wts, float).sum())
        if abs(ws - H * W) > 2e-4 * H * W + 1e-3:
            notes.append(f"weights sum to {ws:.6g}, not {H * W}")
        m = np.asarray(img, float) * np.minimum(np.asarray(wts, float), 1e3)
        tx, ty = float(xa[r0, c0]), float(ya[r0, c0])
        if m.sum() > 0 and 0 <= tx <= rows - 2 and 0 <= ty <= cols - 2:
            gx = float((m.sum(axis=1) * np.arange(rows)).sum() / m.sum())
            gy = float((m.sum(axis=0) * np.arange(cols)).sum() / m.sum())
            if abs(gx - tx) > 0.02 or abs(gy - ty) > 0.02:
                notes.append(f"pixel ({r0},{c0}) deposited at ({gx:.3f},{gy:.3f}) but transform_coordinates says ({tx:.3f},{ty:.3f})")
    return dict(violated=bool(notes), observed="; ".join(notes[:3]) or "ok", expected="pixel (r,c) deposited at (xa[r,c], ya[r,c]); sum(weights)=H*W")


def fam_warp(tier="quick", seed=0):
    i = 0
    for (H, W) in [(2, 2), (3, 6), (7, 4), (8, 8)]:
        for K in KNOTS:
            i += 1
            yield dict(H=H, W=W, K=K, seed=seed + i)
            # a canvas no larger than the image at an oblique angle: part of the rotated image lies off the canvas (those
            # pixels wrap around in bilinear_kde and still carry unit weight)
            yield dict(H=H, W=W, K=K, rows=H, cols=W, theta=(45.0, 90.0, 120.0)[i % 3], seed=seed + i)


def rt_align(inp):
    """a stack of identical images acquired with the same scan direction is a fixed point of translation alignment:
    relative shifts zero, knots unchanged (numerical; cross-correlation is outside deductive reach)."""
    import warnings

    import numpy as np
    from quantem.imaging.drift import DriftCorrection

    H, W, N, K, up = inp["H"], inp["W"], inp["N"], inp["K"], inp["upsample_factor"]
    img = _test_image(H, W, inp.get("seed", 0))
    with warnings.catch_warnings():
        warnings.simplefilter("ignore")
        d = DriftCorrection.from_data([img.copy() for _ in range(N)], [inp.get("theta", 0.0)] * N).preprocess(
            pad_fraction=inp.get("pad_fraction", 0.25), kde_sigma=inp.get("kde_sigma", 0.5), number_knots=K)
        k0 = [k.copy() for k in d.knots]
        w0 = np.array(d.images_warped.array, float).copy()
        d.align_translation(upsample_factor=up, show_merged=False)
    move = max(float(np.abs(a - b).max()) for a, b in zip(k0, d.knots))
    dimg = float(np.abs(np.array(d.images_warped.array, float) - w0).max())
    bad = move > 1e-4  # float32 canvases: the parabolic peak of identical images is zero up to ~1e-6 px
    return dict(violated=bad, observed=f"knots moved by up to {move:.4g} px (warped images changed by {dimg:.3g})" if bad else "ok",
                expected="measured relative shifts are zero and the knots do not move")


def rt_align_bookkeeping(inp):
    """align_translation's bookkeeping on the real code with the cross-correlation replaced (inside the checker process only)
    by prescribed shifts: every knot of image a moves by shift_a - mean(shift), shift_0 = 0; zero shifts => nothing moves."""
    import warnings

    import numpy as np
    import quantem.imaging.drift as drift

    H, W, N, K = inp["H"], inp["W"], inp["N"], inp["K"]
    rng = np.random.default_rng(inp.get("seed", 0))
    shifts = [np.zeros(2)] + [np.zeros(2) if inp.get("zero") else rng.uniform(-2, 2, size=2) for _ in range(N - 1)]
    calls = []

    def fake_ccs(F_ref, F_im, **kw):
        calls.append(1)
        return shifts[len(calls)].copy(), F_im

    with warnings.catch_warnings():
        warnings.simplefilter("ignore")
        d = drift.DriftCorrection.from_data([_test_image(H, W, inp.get("seed", 0) + a) for a in range(N)], [10.0 * a for a in range(N)]).preprocess(number_knots=K)
        k0 = [k.copy() for k in d.knots]
        real = drift.cross_correlation_shift
        drift.cross_correlation_shift = fake_ccs
        try:
            d.align_translation(upsample_factor=inp.get("upsample_factor", 1), show_merged=False)
        finally:
            drift.cross_correlation_shift = real
    notes = []
    if len(calls) != N - 1:
        notes.append(f"{len(calls)} cross-correlations for {N} images")
    mean = np.mean(shifts, axis=0)
    for a in range(N):
        want = k0[a] + (shifts[a] - mean)[:, None, None]
        if d.knots[a].shape != k0[a].shape or not _close(d.knots[a], want, 1e-9):
            notes.append(f"image {a}: knots moved by {np.round((d.knots[a] - k0[a]).reshape(2, -1)[:, 0], 4).tolist()}, expected shift-mean = {np.round(shifts[a] - mean, 4).tolist()}")
        ws = float(np.asarray(d.weights_warped.array[a], float).sum())
        if abs(ws - H * W) > 2e-4 * H * W + 1e-3:
            notes.append(f"image {a}: re-warped weights sum to {ws:.6g}, not {H * W}")
    return dict(violated=bool(notes), observed="; ".join(notes[:3]) or "ok", expected="knots[a] += shift_a - mean(shift) (shift_0 = 0); zero shifts: knots unchanged")


def fam_align_bookkeeping(tier="quick", seed=0):
    i = 0
    for (H, W) in [(4, 6), (7, 5)]:
        for N in STACK:
            for K in KNOTS:
                for zero in (False, True):
                    i += 1
                    yield dict(H=H, W=W, N=N, K=K, zero=zero, seed=seed + i)


def rt_angles(inp):
    """the scan directions a DriftCorrection stores (constructor via from_data, and re-assignment through the setter) are the
    given ones, for angles anywhere in [0, 360) and given as list / ndarray / ints."""
    import numpy as np
    from quantem.imaging.drift import DriftCorrection

    ang = inp["angles"]
    given = np.array(ang, float) if inp.get("as_array") else list(ang)
    imgs = [_test_image(4, 5, a) for a in range(len(ang))]
    d = DriftCorrection.from_data(imgs, given)
    notes = []
    got = np.asarray(d.scan_direction_degrees, float)
    if got.shape != (len(ang),) or not _close(got, np.array(ang, float), 1e-12):
        notes.append(f"constructor stored {got.tolist()} for given {list(ang)}")
    d.scan_direction_degrees = given[::-1]
    got = np.asarray(d.scan_direction_degrees, float)
    if got.shape != (len(ang),) or not _close(got, np.array(ang, float)[::-1], 1e-12):
        notes.append(f"setter stored {got.tolist()} for given {list(ang)[::-1]}")
    return dict(violated=bool(notes), observed="; ".join(notes) or "ok", expected="stored scan directions == given scan directions")


def fam_angles(tier="quick", seed=0):
    for ang in ([0, 90], [0.0, 90.0, 180.0, 270.0], [179.999, 180.0, 180.001], [359.5, 200.25], [45, 225, 315], [12.5, 12.5]):
        for as_array in (False, True):
            yield dict(angles=ang, as_array=as_array)


def klass_align(inp, res):
    up = inp["upsample_factor"]
    return "upsample_factor=1" if up <= 1 else f"upsample_factor {'odd' if up % 2 else 'even'} >= 2"


def fam_align(tier="quick", seed=0):
    i = 0
    # odd AND even upsampling factors: the centre of the upsampled window is ceil(1.5*up), which differs from int(1.5*up) for odd up
    for (H, W) in [(8, 8), (10, 16), (9, 7)] + ([(12, 5), (16, 16), (15, 22)] if tier == "thorough" else []):
        for N in STACK:
            for up in (1, 2, 3, 4, 5, 6, 7, 8, 16) + ((9, 11, 12, 32) if tier == "thorough" else ()):
                for th in (0.0, 30.0) + ((90.0,) if tier == "thorough" else ()):
                    i += 1
                    yield dict(H=H, W=W, N=N, K=1 + (i // 2) % 4, upsample_factor=up, theta=th, pad_fraction=(0.25, 0.0, 0.5)[i % 3], kde_sigma=(0.5, 1.0)[i % 2], seed=seed + i)


def rt_models(inp):
    """conformance of the TRUSTED library contracts (pyvc/lib/c15_models.py) against the real libraries."""
    import numpy as np
    from scipy.interpolate import interp1d
    from scipy.ndimage import gaussian_filter

    rng = np.random.default_rng(inp["seed"])
    what = inp["what"]
    notes = []
    if what == "gaussian_filter":
        a = rng.random(tuple(inp["shape"]))
        for mode, conserve in (("reflect", True), ("grid-mirror", True), ("wrap", True), ("grid-wrap", True), ("constant", False), ("nearest", False), ("mirror", False)):
            out = gaussian_filter(a, inp["sigma"], mode=mode)
            same = abs(out.sum() - a.sum()) <= 1e-9 * a.size
            if conserve and not same:
                notes.append(f"mode={mode} changed the total by {out.sum() - a.sum():.3g}")
        if abs(gaussian_filter(a, inp["sigma"]).sum() - a.sum()) > 1e-9 * a.size:
            notes.append("default mode does not conserve the total")
    elif what == "interp1d":
        for K, kind, kw in ((2, "linear", {}), (3, "quadratic", dict(fill_value="extrapolate")), (4, "cubic", dict(fill_value="extrapolate")), (5, "cubic", dict(fill_value="extrapolate"))):
            x = np.linspace(0, 1, K)
            deg = {"linear": 1, "quadratic": 2, "cubic": 3}[kind]
            for dpoly in range(deg + 1):
                co = rng.normal(size=dpoly + 1)
                f = interp1d(x, np.polyval(co, x), kind=kind, assume_sorted=True, **kw)
                t = np.linspace(0, 1, 9) if not kw else np.linspace(-0.5, 1.7, 12)
                if not _close(f(t), np.polyval(co, t), 1e-8):
                    notes.append(f"{kind} on {K} nodes does not reproduce a degree-{dpoly} polynomial")
            if K == deg + 1:  # on exactly deg+1 nodes: THE interpolating polynomial
                y = rng.normal(size=K)
                f = interp1d(x, y, kind=kind, assume_sorted=True, **kw)
                t = np.linspace(0, 1, 9)
                if not _close(f(t), np.polyval(np.polyfit(x, y, deg), t), 1e-7):
                    notes.append(f"{kind} on {K} nodes is not the interpolating polynomial")
        try:
            interp1d(np.linspace(0, 1, 2), [0.0, 1.0], kind="linear", assume_sorted=True)(np.array([1.5]))
            notes.append("linear interp1d without extrapolate did not raise outside the range")
        except ValueError:
            pass
    elif what == "bincount":
        n, L = inp["n"], inp["L"]
        idx = rng.integers(-3 * L, 3 * L, size=(2, n))
        dims = tuple(inp["dims"])
        flat = np.ravel_multi_index(list(idx), dims=dims, mode="wrap")
        if flat.min(initial=0) < 0 or flat.max(initial=0) >= dims[0] * dims[1] or not np.array_equal(flat, (idx[0] % dims[0]) * dims[1] + idx[1] % dims[1]):
            notes.append("ravel_multi_index(mode='wrap') is not ((i0 mod d0)*d1 + i1 mod d1)")
        w = rng.random(n)
        b = np.bincount(flat, weights=w, minlength=dims[0] * dims[1])
        if b.shape != (dims[0] * dims[1],) or abs(b.sum() - w.sum()) > 1e-9 * max(1, n):
            notes.append("bincount does not conserve the total of the weights / length != minlength")
        try:
            np.ravel_multi_index([np.array([dims[0]]), np.array([0])], dims=dims)
            notes.append("ravel_multi_index default mode did not raise for an out-of-range index")
        except ValueError:
            pass
    elif what == "linspace":
        a, b, n = inp["a"], inp["b"], inp["n"]
        got = np.linspace(a, b, n)
        want = np.array([a]) if n == 1 else a + np.arange(n) * (b - a) / (n - 1)
        if got.shape != (n,) or not _close(got, want, 1e-12):
            notes.append("linspace formula")
        if not _close(np.round(np.array([0.5, 1.5, 2.5, -0.5, 3.2])), [0, 2, 2, 0, 3]):
            notes.append("np.round is not round-half-even")
    return dict(violated=bool(notes), observed="; ".join(notes) or "ok", expected="library behaves as the trusted contract says")


def fam_models(tier="quick", seed=0):
    for i, shape in enumerate([(1, 1), (3, 4), (2, 9), (7, 7), (12, 5)]):
        for sig in (0.0, 0.4, 1.0, 3.7):
            yield dict(what="gaussian_filter", shape=list(shape), sigma=sig, seed=seed + i)
    for i in range(4):
        yield dict(what="interp1d", seed=seed + i)
    for i, (n, dims) in enumerate([(0, (2, 3)), (1, (1, 1)), (17, (4, 5)), (40, (3, 7))]):
        yield dict(what="bincount", n=n, L=max(dims), dims=list(dims), seed=seed + i)
    for i, (a, b, n) in enumerate([(0.0, 1.0, 1), (0.0, 1.0, 2), (0.0, 1.0, 4), (-7.5, 7.5, 16), (-1.5, 1.5, 3), (0.0, 0.0, 5)]):
        yield dict(what="linspace", a=a, b=b, n=n, seed=seed + i)


def _guard(rt):
    def wrapped(inp):
        try:
            return rt(inp)
        except Exception as e:  # noqa: BLE001 - the real function raised on an input inside the contract's precondition
            return dict(violated=True, kinds=["raises"], observed=f"raised {type(e).__name__}: {str(e)[:200]}", expected="no exception")

    wrapped.__name__ = rt.__name__
    wrapped.__doc__ = rt.__doc__
    return wrapped


rt_geometry, rt_rows, rt_weights, rt_align, rt_warp = _guard(rt_geometry), _guard(rt_rows), _guard(rt_weights), _guard(rt_align), _guard(rt_warp)
rt_align_bookkeeping = _guard(rt_align_bookkeeping)
rt_angles = _guard(rt_angles)


def _knots_from_model(ev):
    for K in KNOTS[:-1]:
        if ev(f"knots_is_{K}", False):
            return K
    return KNOTS[-1]


def conc_rows(ev):
    H, W = ev("H"), ev("W")
    if H is None or W is None or not (1 <= H <= 400 and 1 <= W <= 400):
        return None
    return dict(H=H, W=W, K=_knots_from_model(ev), seed=1)


def conc_geometry(ev):
    H, W = ev("H"), ev("W")
    if H is None or W is None or not (2 <= H <= 200 and 2 <= W <= 200):
        return None
    p = ev("pad_fraction", 0.25)
    return dict(H=H, W=W, N=2, K=_knots_from_model(ev), theta=37.0, pad_fraction=float(p) if isinstance(p, (int, float)) and 0 <= p <= 3 else 0.25, seed=1)


def conc_weights(ev):
    H, W = ev("H"), ev("W")
    rows, cols = ev("rows", None) or ev("S1", 6), ev("cols", None) or ev("S2", 7)
    if H is None or W is None or not (1 <= H <= 60 and 1 <= W <= 60 and 1 <= rows <= 200 and 1 <= cols <= 200):
        return None
    mb = None if ev("max_batch_size_is_none", True) else ev("max_batch_size", 1)
    return dict(H=H, W=W, rows=rows, cols=cols, kde_sigma=0.5, max_batch_size=mb, span=2.0, K=_knots_from_model(ev), seed=1)


for _c in (C_TR, C_TC, C_DI_INIT):
    _c.concretize, _c.rt, _c.rt_family = conc_rows, rt_rows, fam_rows
def conc_align(ev):
    H, W = ev("H"), ev("W")
    if H is None or W is None or not (2 <= H <= 40 and 2 <= W <= 40):
        return None
    N = 2 if ev("stack_of_2", False) else 3 if ev("stack_of_3", False) else 4
    return dict(H=H, W=W, N=N, K=1 if ev("knots_is_1", False) else 4, seed=1)


C_AT.concretize, C_AT.rt, C_AT.rt_family = conc_align, rt_align_bookkeeping, fam_align_bookkeeping
for _c in (C_SDSET, C_DCINIT):
    _c.rt, _c.rt_family = rt_angles, fam_angles
C_KDE.concretize, C_KDE.rt, C_KDE.rt_family = conc_weights, rt_weights, fam_weights
rt_pad_value = _guard(rt_pad_value)
C_VPV.concretize, C_VPV.rt, C_VPV.rt_family = conc_pad_value, rt_pad_value, fam_pad_value
C_WI.concretize, C_WI.rt, C_WI.rt_family = conc_rows, rt_warp, fam_warp
for _c in (C_PP, C_PP3, C_PP4):
    _c.concretize, _c.rt, _c.rt_family = conc_geometry, rt_geometry, fam_geometry

BOUNDED = [
    Bounded.from_rt("validate_pad_value: entry k is the requested statistic of image k (all forms, identical and different images)", rt_pad_value, fam_pad_value,
                    "stacks of 2..4 x identical / different images x 4 modes, list, wrong-length list, None, 8 quantile levels incl. rejected ones"),
    Bounded.from_rt("library contracts conform to numpy/scipy (gaussian_filter modes, interp1d, bincount/ravel_multi_index, linspace, round)", rt_models, fam_models,
                    "34 small cases", klass=lambda inp, res: inp["what"]),
    Bounded.from_rt("transform_rows/transform_coordinates on arbitrary straight knot lines", rt_rows, fam_rows, "8 shapes incl. 1xW / Hx1, 1..4 knots, random lines", klass=klass_rows),
    Bounded.from_rt("preprocess geometry and weight totals end to end", rt_geometry, fam_geometry,
                    "6 shapes (10 thorough) x 6 angles (11) x 3 pad fractions (5) x 1..4 knots, stacks of 2..4", klass=klass_geometry),
    Bounded.from_rt("warp_image deposits pixel (r,c) at the coordinates of transform_coordinates", rt_warp, fam_warp, "4 shapes x 1..4 knots, random angle on a padded canvas and oblique angle on a canvas of the image size, 2 pixels each"),
    Bounded.from_rt("bilinear_kde / warp_image weight totals for arbitrary coordinates", rt_weights, fam_weights,
                    "4 point grids x 4 canvases x 3 sigmas x 3 batch sizes, coordinates up to 6 canvas sizes outside"),
    Bounded.from_rt("stored scan directions are the given ones over [0, 360)", rt_angles, fam_angles, "6 angle lists incl. 180, 270, 359.5 x list / ndarray"),
    Bounded.from_rt("align_translation bookkeeping with prescribed shifts (cross-correlation replaced inside the checker process)", rt_align_bookkeeping, fam_align_bookkeeping,
                    "2 shapes x stacks 2..4 x 1..4 knots x random / zero shifts"),
    Bounded.from_rt("identical stack is a fixed point of align_translation", rt_align, fam_align,
                    "3 shapes (6 thorough), stacks of 2..4, upsample 1..8,16 odd and even (+9,11,12,32), 2 angles (3), 1..4 knots", klass=klass_align),
]

TRUSTED = [
    "numpy: linspace(a,b,n)[i] = a + i(b-a)/(n-1) ([a] for n=1); arange; deg2rad; elementwise sin/cos/floor/minimum/maximum; stack; zeros; broadcasting; a[i] = row",
    "numpy: round(x) is an integer within 1/2 of x (A3: only this bound is used); astype(int) of an integer-valued float is that integer",
    "numpy: ravel_multi_index(mode='wrap') = (i0 mod d0)*d1 + (i1 mod d1) in [0,d0*d1) (default mode raises ValueError outside); bincount(x, w, minlength=L) with x in [0,L) has length L and conserves SUM w",
    "scipy.ndimage.gaussian_filter(order=0) conserves the array total for mode in {reflect (default), grid-mirror, wrap, grid-wrap}; nothing is promised for constant/nearest/mirror (contract keyed on the mode passed)",
    "scipy.interpolate.interp1d of degree d reproduces polynomials of degree <= d; on exactly d+1 nodes it is the interpolating polynomial; raises ValueError outside the node range unless fill_value='extrapolate'",
    "Sigma-algebra on ghost totals: SUM f + SUM g = SUM (f+g) over equal ranges; SUM_{j<n} c = n*c; reshape keeps the total",
    "A4: cos^2 + sin^2 = 1 at the occurring angles (ground instances)",
    "Dataset2d seen as (.shape, .array); Dataset3d.from_shape(shape) seen as an object with a zero .array of that shape",
    "ASSUMED FRAME (not verified): DriftCorrection.calculate_error writes only self.error_track",
    "numpy: median / mean / min / max (of a whole array) and quantile(a, q) are FUNCTIONS of the contents of a (and q); fft2(a) is a function of the contents of a; "
    "a*X + b*X = (a+b)*X for scalar multiples of one array (ghost content identifiers: equal identifiers = equal contents); isfinite(a): some boolean array of a's shape",
    "ASSUMED RELATIONAL CLAUSE (a statement about two executions, not verified): DriftInterpolator.warp_image is a function of (image contents, knots, interpolator's "
    "input/output shape, scan vectors, pad value, KDE width) -- two calls with equal inputs return canvases with equal contents",
    "ASSUMED CLAUSE on cross_correlation_shift at its call site in align_translation: identical inputs => measured shift (0, 0) and the returned shifted image is the "
    "second input (C13's contract `returns the translation mapping the second image onto the first` + the lemma below; C13 does not export this clause itself)",
    "at the call site in align_translation cross_correlation_shift is otherwise OPAQUE (some pair of reals and an array; np.fft.fft2 results are opaque values); its own "
    "contract (C13's objects C_CCS/C_CCS2/C_DFTN, re-verified in this check with C13's registry) is connected to the fixed-point clause by the lemma "
    "`fixed-point-through-the-cross-correlation-contract`, whose hypotheses about the AUTOCORRELATION of a real image (maximal at zero lag and at the centre of its "
    "upsampled window, symmetric neighbours, non-flat) are trusted mathematics (Cauchy-Schwarz; ties excluded), not proved",
    "generate_batches / subdivide_batches contracts of C09 (re-verified here from the real source)",
    "pyvc engine (AST interpreter, index-function arrays, loop rule with havoc of loop-carried names and of arrays written in place), z3, cvc5",
]
ASSUMPTIONS = [
    "A1 floats are reals: coordinates, weights (float32 accumulators pix_count/pix_output) and linspace nodes are exact reals",
    "A2 fixed-width ints are mathematical",
    "A3 np.round is havocked to an integer within 1/2 (canvas size)",
    "preprocess is verified for stacks of 2, 3, 4 images of one common shape (H, W >= 2), pad_fraction >= 0, kde_sigma >= 0, pad_value a list, a quantile level in [0, 1] or 'median' "
    "(stacks of 3, 4: a list); knot counts 1..4 (the property's range); validate_pad_value itself is verified for every form it distinguishes (4 mode strings, float / int quantile "
    "level incl. the rejected levels, lists incl. wrong length, None); an UNKNOWN mode string is passed through unvalidated by the real function (outside the accepted forms: precondition)",
    "bilinear_kde is verified with lowpass_filter=False (what warp_image passes); the lowpass branch (FFT) is outside reach",
    "identical-stack fixed point of align_translation: PROVED from the source modulo two assumed clauses (TRUSTED: warp_image is a function of its inputs; "
    "cross_correlation_shift measures (0, 0) for identical inputs): identical images + equal scan directions => identical pad values, knots, interpolators => identical "
    "canvases (preprocess); identical canvases => every cross-correlation call compares the FFT of the common canvas with itself (the running-mean reference keeps "
    "weights ind/(ind+1) + 1/(ind+1) = 1) => zero shifts => no knot moves (align_translation, min_image_shift=None, stacks of 2..4 unrolled). The numerical behaviour of "
    "the cross-correlation itself (FFT, argmax, DFT upsampling in floating point) stays BOUNDED (the identical-stack family) + C13's contracts",
    "where the splatted weight lands (first moment of the bilinear deposit) is not proved: warp_image is proved to hand the coordinates of transform_coordinates to "
    "bilinear_kde (rows <- xa, cols <- ya); the deposit position itself is a bounded check (single bright pixel, sigma = 0)",
    "a 1-row or 1-column image with pad_fraction=0 gives a canvas of size 0 or 2 (round-half-even of 0.5): outside the verified precondition H, W >= 2",
]
EXPLANATION = ("VCs generated from the real source of DriftCorrection.preprocess, DriftInterpolator.__init__/transform_rows/transform_coordinates/warp_image and "
               "imaging_utils.bilinear_kde (plus generate_batches/subdivide_batches) by symbolic execution over index-function arrays; all shapes, angles, pad "
               "fractions symbolic, knot counts 1..4 and stack sizes 2..4 enumerated; discharged by z3/cvc5; property-level lemmas compose the contracts into the "
               "property's formula; validate_pad_value / the pad_value setter under contract (entry k = requested statistic of image k, library statistics as functions "
               "of the array contents) and carried to the interpolators; translation-alignment fixed point proved through relational clauses on content identifiers "
               "modulo two assumed clauses (warp_image functional, cross_correlation_shift zero for identical inputs), its numerics bounded")
